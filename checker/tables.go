package main

import (
	"golang.org/x/tools/go/ssa"
)

// constKeyTable reads a locally built map (url.Values, http.Header, map[string]string literals):
// constant string key → value (for []string{x} values: x). Entries with non-constant keys are
// returned separately. ok=false when m is not a map made in this function.
func constKeyTable(m ssa.Value) (tab map[string]ssa.Value, dynamic []mapEntry, ok bool) {
	entries, isLocal := mapLitEntries(resolveCell(stripConv(m)))
	if !isLocal {
		return nil, nil, false
	}
	tab = map[string]ssa.Value{}
	for _, e := range entries {
		k, isC := constString(e.Key)
		if !isC {
			dynamic = append(dynamic, e)
			continue
		}
		v := e.Val
		if elems, isLit := sliceLitElems(v); isLit && len(elems) == 1 {
			v = elems[0]
		}
		tab[k] = v
	}
	return tab, dynamic, true
}

// isFieldOf: v is a load of field `name` whose base satisfies basePred.
func isFieldOf(v ssa.Value, name string, basePred func(ssa.Value) bool) bool {
	base, f, ok := fieldLoad(resolveCell(stripConv(v)))
	return ok && f != nil && f.Name() == name && basePred(resolveCell(stripConv(base)))
}

// isGetterOn: v is the result of calling method id on a receiver satisfying recvPred.
func isGetterOn(v ssa.Value, id string, recvPred func(ssa.Value) bool) bool {
	call, _, ok := asCall(resolveCell(stripConv(v)))
	if !ok || !isCallTo(call, id) || len(call.Common().Args) < 1 {
		return false
	}
	return recvPred(resolveCell(stripConv(call.Common().Args[0])))
}

// isHandlerConfig: v is o.config for the handler receiver o (or a parameter of type *OIDCConfig in
// helper functions that receive the handler's configuration).
func isHandlerConfig(v ssa.Value) bool {
	v = resolveCell(stripConv(v))
	if base, f, ok := fieldLoad(v); ok && f != nil && f.Name() == "config" && typeID(base.Type()) == pkgAuthz+".oidcHandler" {
		_, isParam := resolveCell(stripConv(base)).(*ssa.Parameter)
		return isParam
	}
	return false
}

func anyVal(ssa.Value) bool { return true }
