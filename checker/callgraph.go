package main

import (
	"go/types"
	"sort"

	"golang.org/x/tools/go/ssa"
)

// P-cg (own code): static call edges, closures, go/defer targets, and interface invokes resolved by
// class-hierarchy analysis over the own packages' named types (every own type whose method set
// implements the interface). Dependency code is a boundary: calls into it are leaves.

type ownTypes struct {
	named []*types.Named
}

var ownTypesCache = map[*Program]*ownTypes{}

func (P *Program) ownNamedTypes() []*types.Named {
	if ot, ok := ownTypesCache[P]; ok {
		return ot.named
	}
	ot := &ownTypes{}
	for _, p := range P.Pkgs {
		scope := p.Types.Scope()
		for _, n := range scope.Names() {
			if tn, ok := scope.Lookup(n).(*types.TypeName); ok {
				if named, ok := tn.Type().(*types.Named); ok {
					if _, isIface := named.Underlying().(*types.Interface); !isIface {
						ot.named = append(ot.named, named)
					}
				}
			}
		}
	}
	ownTypesCache[P] = ot
	return ot.named
}

// implementersOf returns the own concrete methods that an invoke of iface.method can dispatch to.
func (P *Program) implementersOf(recv types.Type, m *types.Func) []*ssa.Function {
	iface, ok := recv.Underlying().(*types.Interface)
	if !ok {
		return nil
	}
	var out []*ssa.Function
	for _, named := range P.ownNamedTypes() {
		for _, T := range []types.Type{named, types.NewPointer(named)} {
			if !types.Implements(T, iface) {
				continue
			}
			sel := P.Prog.MethodSets.MethodSet(T).Lookup(m.Pkg(), m.Name())
			if sel == nil {
				continue
			}
			if fn := unwrapSynthetic(P.Prog.MethodValue(sel)); fn != nil {
				out = append(out, fn)
			}
			break
		}
	}
	return out
}

// calleesOf returns the own functions a call instruction may invoke.
func (P *Program) calleesOf(c ssa.CallInstruction) []*ssa.Function {
	cc := c.Common()
	if cc.IsInvoke() {
		return P.implementersOf(cc.Value.Type(), cc.Method)
	}
	if fn := cc.StaticCallee(); fn != nil {
		return []*ssa.Function{unwrapSynthetic(fn)}
	}
	// dynamic call of a func value: closures created in own code flowing here are followed when the
	// value is a MakeClosure or a function constant; otherwise unknown (boundary).
	switch v := cc.Value.(type) {
	case *ssa.MakeClosure:
		return []*ssa.Function{v.Fn.(*ssa.Function)}
	}
	return nil
}

// reachableOwn: own functions with bodies reachable from the roots (closures included).
func (P *Program) reachableOwn(roots ...*ssa.Function) []*ssa.Function {
	return P.reachableOwnOpt(false, roots...)
}

// reachableOwnThread: like reachableOwn but within one thread of control: the bodies of goroutines
// started on the way (go f(), go func(){…}()) are not entered — they are concurrency roots of their own.
func (P *Program) reachableOwnThread(roots ...*ssa.Function) []*ssa.Function {
	return P.reachableOwnOpt(true, roots...)
}

func (P *Program) reachableOwnOpt(sameThread bool, roots ...*ssa.Function) []*ssa.Function {
	seen := map[*ssa.Function]bool{}
	var out []*ssa.Function
	var walk func(fn *ssa.Function)
	walk = func(fn *ssa.Function) {
		if fn == nil || seen[fn] {
			return
		}
		seen[fn] = true
		if fn.Blocks == nil || !isOwnPath(pkgPathOf(fn)) {
			return
		}
		out = append(out, fn)
		for _, b := range fn.Blocks {
			for _, ins := range b.Instrs {
				switch x := ins.(type) {
				case ssa.CallInstruction:
					if _, isGo := x.(*ssa.Go); isGo && sameThread {
						continue
					}
					for _, callee := range P.calleesOf(x) {
						walk(callee)
					}
					// function values passed as arguments (callbacks) are considered reachable
					for _, a := range x.Common().Args {
						switch f := a.(type) {
						case *ssa.MakeClosure:
							walk(f.Fn.(*ssa.Function))
						case *ssa.Function:
							walk(f)
						}
					}
				case *ssa.MakeClosure:
					if sameThread && onlyStartedAsGoroutine(x) {
						continue
					}
					walk(x.Fn.(*ssa.Function))
				}
			}
		}
	}
	for _, r := range roots {
		walk(r)
	}
	sort.Slice(out, func(i, j int) bool {
		if out[i].Pos() != out[j].Pos() {
			return out[i].Pos() < out[j].Pos()
		}
		return out[i].String() < out[j].String()
	})
	return out
}

// onlyStartedAsGoroutine: every use of the closure value is as the callee of a go statement.
func onlyStartedAsGoroutine(mc *ssa.MakeClosure) bool {
	refs := mc.Referrers()
	if refs == nil || len(*refs) == 0 {
		return false
	}
	for _, r := range *refs {
		g, ok := r.(*ssa.Go)
		if !ok || g.Common().Value != ssa.Value(mc) {
			return false
		}
	}
	return true
}
