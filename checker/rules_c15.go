package main

import (
	"fmt"
	"go/token"
	"go/types"
	"os"
	"strings"

	"golang.org/x/tools/go/ssa"
)

func init() {
	registry["C15"] = checkC15
	needsWhole["C15"] = true
}

// ---- nil analysis ------------------------------------------------------------------------------------

// nilSummary of an own function result: may it be nil, and if so is every nil return accompanied by a
// failure signal in another result (error != nil / code != OK / bool false)?
type nilSummary struct {
	mayNil   bool
	signals  map[int]failureKind // result index → how failure is signalled on every nil return
	evidence string
}

var nilSummaryCache = map[string]*nilSummary{}

func isPointerLike(t types.Type) bool {
	switch t.Underlying().(type) {
	case *types.Pointer, *types.Interface:
		return true
	}
	return false
}

// addressTakenByDecoder: the cell (Alloc) holding a pointer has its address passed to a JSON decoder,
// which resets the pointer to nil on a `null` document.
func addressTakenByDecoder(a *ssa.Alloc) bool {
	rs := a.Referrers()
	if rs == nil {
		return false
	}
	for _, r := range *rs {
		switch x := r.(type) {
		case *ssa.MakeInterface:
			if irs := x.Referrers(); irs != nil {
				for _, ir := range *irs {
					if ci, ok := ir.(ssa.CallInstruction); ok && isCallToAny(ci, "encoding/json.Unmarshal", "encoding/json.Decoder.Decode") {
						return true
					}
				}
			}
		}
	}
	return false
}

func loadsFromDecoderCell(v ssa.Value, depth int) bool {
	v = stripConv(v)
	if depth == 0 {
		return false
	}
	switch x := v.(type) {
	case *ssa.Phi:
		for _, e := range x.Edges {
			if loadsFromDecoderCell(e, depth-1) {
				return true
			}
		}
	case *ssa.UnOp:
		if x.Op == token.MUL {
			if a, ok := x.X.(*ssa.Alloc); ok && addressTakenByDecoder(a) {
				return true
			}
		}
	}
	return false
}

func summarizeNil(P *Program, fn *ssa.Function, idx int) *nilSummary {
	key := fmt.Sprintf("%p/%d", fn, idx)
	if s, ok := nilSummaryCache[key]; ok {
		return s
	}
	s := &nilSummary{signals: map[int]failureKind{}}
	nilSummaryCache[key] = s
	rets := returnsOf(fn)
	first := true
	for _, r := range rets {
		if idx >= len(r.Results) {
			continue
		}
		thisNil := false
		fs := FactsOf(fn).At(r)
		if loadsFromDecoderCell(r.Results[idx], 4) {
			thisNil = true
			s.evidence = "pointer variable whose address was passed to a JSON decoder (a `null` document resets it) at " + P.Pos(instrPos(r))
		}
		for _, l := range Leaves(r.Results[idx], leafOpts{noConcat: true}) {
			if isNilConst(l) {
				thisNil = true
				s.evidence = "explicit nil return at " + P.Pos(instrPos(r))
			}
			// pointer loaded from a cell whose address a decoder received
			if u, ok := l.(*ssa.UnOp); ok && u.Op == token.MUL {
				if a, ok := u.X.(*ssa.Alloc); ok && addressTakenByDecoder(a) {
					thisNil = true
					s.evidence = "pointer variable whose address was passed to a JSON decoder (a `null` document resets it) at " + P.Pos(instrPos(r))
				}
			}
			// result of another nilable call, returned without a non-nil fact
			if call, ci, ok := asCall(l); ok {
				if nilableCallResult(P, call, ci) && !resultKnownNonNil(P, fs, call, ci, l) {
					thisNil = true
					s.evidence = "forwards a nilable result at " + P.Pos(instrPos(r))
				}
			}
		}
		if !thisNil {
			continue
		}
		s.mayNil = true
		sig := map[int]failureKind{}
		for j, res := range r.Results {
			if j == idx {
				continue
			}
			t := res.Type()
			switch {
			case isErrorType(t):
				nonNil := true
				// (v, err) forwarded from one call that follows the nil-iff-error convention
				if fc, fi, okf := asCall(res); okf && fi >= 0 {
					same := false
					for _, l := range Leaves(r.Results[idx], leafOpts{noConcat: true}) {
						if vc, _, okv := asCall(l); okv && vc == fc {
							same = true
						}
					}
					if same && len(Leaves(r.Results[idx], leafOpts{noConcat: true})) == 1 {
						sig[j] = failErrNonNil
						continue
					}
				}
				for _, l := range Leaves(res, leafOpts{noConcat: true}) {
					if isNilConst(l) {
						nonNil = false
					}
					if call, ci, ok := asCall(l); ok && !fs.CallResultNonNil(call, ci) {
						nonNil = false
					}
				}
				if nonNil {
					sig[j] = failErrNonNil
				}
			case isCodeType(t):
				if n, ok := constInt(res); ok && n != 0 {
					sig[j] = failCodeNotOK
				}
			case isBool(t):
				if b, ok := constBool(res); ok && !b {
					sig[j] = failBoolFalse
				}
			}
		}
		if first {
			s.signals = sig
			first = false
		} else {
			for j := range s.signals {
				if k, ok := sig[j]; !ok || k != s.signals[j] {
					delete(s.signals, j)
				}
			}
		}
	}
	return s
}

func isGeneratedGetter(ce Callee) bool {
	if ce.Obj == nil || !strings.HasPrefix(ce.Obj.Name(), "Get") {
		return false
	}
	sig := ce.Obj.Type().(*types.Signature)
	if sig.Recv() == nil || sig.Params().Len() != 0 || sig.Results().Len() != 1 {
		return false
	}
	pk := ""
	if ce.Obj.Pkg() != nil {
		pk = ce.Obj.Pkg().Path()
	}
	return strings.HasPrefix(pk, modPath+"/config/gen/go") || strings.HasPrefix(pk, "github.com/envoyproxy/go-control-plane/") ||
		strings.HasPrefix(pk, "google.golang.org/genproto/") || strings.HasPrefix(pk, "google.golang.org/protobuf/types/known")
}

// nilableCallResult: can result idx (-1 single) of this call be nil?
func nilableCallResult(P *Program, call *ssa.Call, idx int) bool {
	sig := call.Common().Signature()
	ri := idx
	if ri < 0 {
		ri = 0
	}
	if ri >= sig.Results().Len() || !isPointerLike(sig.Results().At(ri).Type()) {
		return false
	}
	if isErrorType(sig.Results().At(ri).Type()) {
		return false
	}
	ce := calleeOf(call)
	if isGeneratedGetter(ce) {
		return true
	}
	if isCallToAny(call, mGetToken, mGetState, mFactoryGet) {
		return true
	}
	if ce.Fn != nil && ce.Fn.Blocks != nil && isOwnPath(pkgPathOf(ce.Fn)) {
		return summarizeNil(P, ce.Fn, ri).mayNil
	}
	// interface methods of own interfaces: union over implementers
	if ce.Invoke {
		impls := P.implementersOf(call.Common().Value.Type(), call.Common().Method)
		for _, f := range impls {
			if summarizeNil(P, f, ri).mayNil {
				return true
			}
		}
		// an own interface is implemented by own types only; an interface of a dependency (http.RoundTripper)
		// also has implementers outside the module: the convention below applies to them
		ownIface := false
		if n, ok := call.Common().Value.Type().(*types.Named); ok && n.Obj().Pkg() != nil && isOwnPath(n.Obj().Pkg().Path()) {
			ownIface = true
		}
		if len(impls) > 0 && ownIface {
			return false
		}
	}
	// dependency function with an error result: Go convention — the value is unusable unless err == nil
	for i := 0; i < sig.Results().Len(); i++ {
		if isErrorType(sig.Results().At(i).Type()) {
			return true
		}
	}
	return false
}

// resultKnownNonNil: facts at the use site make the (nilable) call result non-nil.
func resultKnownNonNil(P *Program, fs FactSet, call *ssa.Call, idx int, v ssa.Value) bool {
	if fs.NonNil(v) || fs.CallResultNonNil(call, idx) {
		return true
	}
	sig := call.Common().Signature()
	ce := calleeOf(call)
	ri := idx
	if ri < 0 {
		ri = 0
	}
	check := func(j int, k failureKind) bool {
		jj := j
		if sig.Results().Len() == 1 {
			jj = -1
		}
		switch k {
		case failErrNonNil:
			return fs.CallErrNil(call, jj)
		case failCodeNotOK:
			rv := resultValue(call, jj)
			return rv != nil && fs.intFact(rv, func(op token.Token, k int64) bool { return op == token.EQL && k == 0 })
		case failBoolFalse:
			b, known := fs.CallBool(call, jj)
			return known && b
		}
		return false
	}
	if ce.Fn != nil && ce.Fn.Blocks != nil && isOwnPath(pkgPathOf(ce.Fn)) {
		s := summarizeNil(P, ce.Fn, ri)
		for j, k := range s.signals {
			if check(j, k) {
				return true
			}
		}
		return false
	}
	if ce.Invoke {
		impls := P.implementersOf(call.Common().Value.Type(), call.Common().Method)
		if len(impls) > 0 && !isCallToAny(call, mGetToken, mGetState, mFactoryGet) {
			// all nilable implementers must share a signal that the facts satisfy
			for _, f := range impls {
				s := summarizeNil(P, f, ri)
				if !s.mayNil {
					continue
				}
				ok := false
				for j, k := range s.signals {
					if check(j, k) {
						ok = true
					}
				}
				if !ok {
					return false
				}
			}
			ownIface := false
			if n, isN := call.Common().Value.Type().(*types.Named); isN && n.Obj().Pkg() != nil && isOwnPath(n.Obj().Pkg().Path()) {
				ownIface = true
			}
			if ownIface {
				return true
			}
			// an interface of a dependency has implementers outside the module: the err == nil convention too
			for i := 0; i < sig.Results().Len(); i++ {
				if isErrorType(sig.Results().At(i).Type()) && check(i, failErrNonNil) {
					return true
				}
			}
			return false
		}
		if len(impls) == 0 {
			for i := 0; i < sig.Results().Len(); i++ {
				if isErrorType(sig.Results().At(i).Type()) && check(i, failErrNonNil) {
					return true
				}
			}
		}
		return false
	}
	if isGeneratedGetter(ce) {
		return false
	}
	// dependency convention: err == nil
	for i := 0; i < sig.Results().Len(); i++ {
		if isErrorType(sig.Results().At(i).Type()) {
			if check(i, failErrNonNil) {
				return true
			}
		}
	}
	return false
}

// derefSite describes an instruction that crashes when p is nil.
type derefSite struct {
	ins  ssa.Instruction
	p    ssa.Value
	what string
}

func derefSites(P *Program, fn *ssa.Function) []derefSite {
	var out []derefSite
	for _, b := range fn.Blocks {
		if b != fn.Blocks[0] && len(b.Preds) == 0 {
			continue
		}
		for _, ins := range b.Instrs {
			switch x := ins.(type) {
			case *ssa.FieldAddr:
				out = append(out, derefSite{ins, x.X, "field access ." + fieldName(x.X.Type(), x.Field)})
			case *ssa.UnOp:
				if x.Op == token.MUL {
					switch x.X.(type) {
					case *ssa.FieldAddr, *ssa.IndexAddr, *ssa.Alloc, *ssa.Global, *ssa.FreeVar:
						// address computations are checked at their own sites / cannot be nil
					default:
						out = append(out, derefSite{ins, x.X, "pointer load"})
					}
				}
			case *ssa.Store:
				switch x.Addr.(type) {
				case *ssa.FieldAddr, *ssa.IndexAddr, *ssa.Alloc, *ssa.Global, *ssa.FreeVar:
				default:
					out = append(out, derefSite{ins, x.Addr, "pointer store"})
				}
			case ssa.CallInstruction:
				cc := x.Common()
				if cc.IsInvoke() {
					out = append(out, derefSite{ins, cc.Value, "method call " + cc.Method.Name() + " on an interface value"})
				} else if callee := cc.StaticCallee(); callee != nil && callee.Signature.Recv() != nil && len(cc.Args) > 0 {
					// pointer-receiver method of own code that dereferences its receiver unguarded
					if callee.Blocks != nil && isOwnPath(pkgPathOf(callee)) && !strings.HasPrefix(pkgPathOf(callee), modPath+"/config/gen/go") &&
						isPointerLike(cc.Args[0].Type()) && derefsParamUnguarded(P, callee, 0) {
						out = append(out, derefSite{ins, cc.Args[0], "call of " + callee.Name() + " (dereferences its receiver)"})
					}
					// value-receiver method called through a pointer: implicit load
				}
				// a dependency function handed the value result of a (value, error) call: functions taking a
				// *struct operate on it (httputil.DumpResponse(res, …) with the res of a failed round trip)
				if callee := cc.StaticCallee(); callee != nil && !isOwnPath(pkgPathOf(callee)) && !cc.IsInvoke() {
					for i, a := range cc.Args {
						ex, isE := a.(*ssa.Extract)
						if !isE || ex.Index != 0 {
							continue
						}
						tup, isT := ex.Tuple.Type().(*types.Tuple)
						if !isT || tup.Len() != 2 || !isErrorType(tup.At(1).Type()) {
							continue
						}
						if pt, isP := a.Type().Underlying().(*types.Pointer); isP {
							if _, isS := pt.Elem().Underlying().(*types.Struct); isS {
								out = append(out, derefSite{ins, a, fmt.Sprintf("argument %d of %s (a dependency function that operates on the object)", i, callee.Name())})
							}
						}
					}
				}
				// own callee dereferencing a pointer parameter unguarded
				if callee := cc.StaticCallee(); callee != nil && callee.Blocks != nil && isOwnPath(pkgPathOf(callee)) {
					off := 0
					for i, a := range cc.Args {
						if callee.Signature.Recv() != nil && i == 0 {
							continue
						}
						_ = off
						if isPointerLike(a.Type()) && i < len(callee.Params) && derefsParamUnguarded(P, callee, i) {
							out = append(out, derefSite{ins, a, fmt.Sprintf("argument %d of %s (dereferenced there without a nil test)", i, callee.Name())})
						}
					}
				}
			}
		}
	}
	return out
}

func fieldName(t types.Type, i int) string {
	if f := fieldOf(t, i); f != nil {
		return f.Name()
	}
	return "?"
}

var derefParamCache = map[string]bool{}

// derefsParamUnguarded: fn dereferences its i-th parameter (field access, load, store, interface
// invoke) at a point where no `param != nil` fact holds.
func derefsParamUnguarded(P *Program, fn *ssa.Function, i int) bool {
	key := fmt.Sprintf("%p/%d", fn, i)
	if v, ok := derefParamCache[key]; ok {
		return v
	}
	derefParamCache[key] = false
	if i >= len(fn.Params) {
		return false
	}
	p := fn.Params[i]
	ff := FactsOf(fn)
	res := false
	for _, b := range fn.Blocks {
		for _, ins := range b.Instrs {
			var target ssa.Value
			switch x := ins.(type) {
			case *ssa.FieldAddr:
				target = x.X
			case *ssa.UnOp:
				if x.Op == token.MUL {
					target = x.X
				}
			case *ssa.Store:
				target = x.Addr
			case ssa.CallInstruction:
				if x.Common().IsInvoke() {
					target = x.Common().Value
				}
			}
			if target == p && !ff.At(ins).NonNil(p) {
				res = true
			}
		}
	}
	derefParamCache[key] = res
	return res
}

// nilException: enumerated, reasoned exceptions for the nil rule, keyed by function and origin.
type nilExc struct {
	fn     string // function display suffix
	origin string // substring of the origin description
	reason string
}

var c15NilExceptions = []nilExc{
	{"loadWellKnownConfig", "GetJwksFetcher", "the JWKS fetcher oneof has just been set to a non-nil value in the branch where it was nil"},
	{"matchesCallbackPath", "url.Parse", "callback URI re-parsed after configuration loading validated it (C17.R1 validateURL + hasRootPath on the same string)"},
	{"mergeAndValidateOIDCConfigs", "url.Parse", "callback URI re-parsed after validateURLs accepted it earlier in Validate (C17.R1 ordering)"},
	{"hasRootPath", "url.Parse", "prerequisite stated in the code and enforced by the call order in validateOIDCConfigURLs: validateURL(same string) succeeded before"},
	{"NewHTTPClient", "url.Parse", "proxy URI validated by configuration loading (validateOIDCConfigURLs)"},
	{"sessionStoreFactory).PreRun", "redis.ParseURL", "redis URL validated by configuration loading (validateOIDCConfigURLs)"},
	{"ExtAuthZFilter).Check", "phi[", "handler variable: the type switch covers every filter kind that survives configuration loading (C17.R3: overrides are replaced, the oneof is required)"},
}

// crashRuleFor maps the shared crash-class rules onto the id of the property that runs them: C15 keeps
// R1/R2/R4/R5; C17 (loading never panics) files all of them under C17.R4.
var crashRuleFor = func(n string) string { return "C15." + n }

func cr(n string) string { return crashRuleFor(n) }

func checkC15(c *Check) {
	crashRuleFor = func(n string) string { return "C15." + n }
	P := c.P
	R := GetRoles(P)
	c.Assumes("panics inside jwx, net/http, protobuf, go-redis on hostile bytes are outside the own-code boundary (trusted base)")
	c.Assumes("protojson never produces nil elements in repeated message fields; run.Group runs Validate/PreRun before Serve")
	c.Rule("C15.R1", "type assertions: every single-result type assertion x.(T) in a function reachable from Check panics on an unexpected dynamic type and is a violation unless listed (http.DefaultTransport.(*http.Transport), a process constant documented by net/http); comma-ok forms and type switches are fine.", 1)
	c.Rule("C15.R2", "nil dereference: in every function reachable from Check, a pointer or interface value that can be nil (explicit nil return or JSON-decoder-reset pointer of an own callee, store read, generated getter result, dependency result paired with an error) is dereferenced (field access, load, store, interface method call, or passed to an own function that dereferences it unguarded) only under a non-nil fact or under the success fact the callee's summary proves equivalent.", 20)
	c.Rule("C15.R3", "verdict totality: every path from entry to a normal return of every Handler.Process implementation sets a verdict (a store to CheckResponse.Status, directly or through a helper that does so on all its paths) — so resp.Status is non-nil where Check dereferences it and the body is consistent with the status because both writers set them together.", 2)
	c.Rule("C15.R4", "bounds: every index or slice expression on a string, slice or array in a function reachable from Check is discharged by a recognised idiom (constant index into a fixed array or under a len == n fact; index < len by loop condition or by modulo len; bounds from strings.Index results under != -1 including Index(s[:h], …) < h); map writes target maps made in the same function or by a constructor.", 8)
	c.Rule("C15.R5", "no deliberate aborts: no panic, log.Fatal*, os.Exit or Must* helper with a non-constant argument in a function reachable from Check.", 1)

	if !requireRoles(c, "C15.R2", R, "CheckEntry", "OIDCProcess", "DenyWriter", "AllowFn") {
		return
	}
	roots := []*ssa.Function{R.CheckEntry}
	for _, n := range []string{"PropagateRequestID"} {
		if f := P.Func(pkgServer, n); f != nil {
			roots = append(roots, f)
		}
	}
	if f := P.Func(pkgServer, "(*LogMiddleware).UnaryServerInterceptor"); f != nil {
		roots = append(roots, f)
	}
	// own http.RoundTripper implementations run inside every http.Client.Do of a check
	for _, f := range P.Funcs {
		if f.Parent() == nil && f.Name() == "RoundTrip" && f.Signature.Recv() != nil && f.Signature.Params().Len() == 1 &&
			typeID(f.Signature.Params().At(0).Type()) == "net/http.Request" && f.Signature.Results().Len() == 2 {
			roots = append(roots, f)
		}
	}
	reach := P.reachableOwn(roots...)
	// generated code is analysed for getters' guards only; exclude it from site enumeration
	var fns []*ssa.Function
	for _, f := range reach {
		if strings.HasPrefix(pkgPathOf(f), modPath+"/config/gen/go") {
			continue
		}
		fns = append(fns, f)
	}
	c.extra["reachable_from_check"] = len(fns)
	if len(fns) < 45 {
		c.Fail(cr("R2"), "floor/reachable-functions", "-", fmt.Sprintf("only %d own functions reachable from Check (floor 45): call graph lost its roots", len(fns)))
	}

	c15R1(c, fns)
	c15R2(c, R, fns)
	c15R3(c, R)
	c15R4(c, fns)
	c15R5(c, fns)
	c15Getters(c)
	if P.Whole {
		c15DependencyGetters(c, fns)
	}
	if c.ID == "C15" {
		c15Locks(c)
	}
}

// c15Locks: a check that returns with a mutex held leaves every later check blocked for ever — no verdict, no
// error. The return rule of C16.R3 (lockset analysis: no return while a mutex is held without a deferred
// unlock) is evaluated here and filed under C15.R6.
func c15Locks(c *Check) {
	c.Rule("C15.R6", "no check hangs on a lock or gate left behind: no own function returns while holding a mutex it acquired unless the unlock is deferred (the lockset rule of C16.R3) — an error return inside a critical section would block every later check for ever; a start gate that request-path code waits on is closed before its owner blocks.", 1)
	tc := NewCheck("C16", c.Tier, c.VerifDir, c.P)
	func() {
		defer func() {
			if r := recover(); r != nil {
				c.Fail("C15.R6", "lockset-analysis", "-", fmt.Sprintf("the lockset analysis did not complete: %v", r))
			}
		}()
		checkC16(tc)
	}()
	n := 0
	for _, o := range tc.Obls {
		if !strings.HasPrefix(o.Key, "C16.R3/") {
			continue
		}
		if o.Status == "violated" && strings.Contains(o.Key, "return while holding") {
			c.Fail("C15.R6", strings.TrimPrefix(o.Key, "C16.R3/"), o.Where, o.Why+": every later check that needs this lock blocks for ever")
			n++
		}
		if strings.Contains(o.Key, "/gate-opened-before-blocking/") {
			if o.Status == "violated" {
				c.Fail("C15.R6", strings.TrimPrefix(o.Key, "C16.R3/"), o.Where, o.Why)
				n++
			} else {
				c.Pass("C15.R6", strings.TrimPrefix(o.Key, "C16.R3/"), o.Where, o.Why)
			}
		}
		if strings.HasSuffix(o.Key, "/locked-regions") {
			if o.Status == "violated" {
				c.Fail("C15.R6", "locked-regions", o.Where, o.Why)
			} else {
				c.Pass("C15.R6", "locked-regions", o.Where, o.Why)
			}
		}
	}
	// the memory store's map and session fields are written under the exclusive lock only: a write under a shared
	// (read) lock is a `fatal error: concurrent map writes`, which no recover() catches (C12.R1)
	importObls(c, "C12", checkC12, "C15.R6", func(o *Obligation) bool {
		return strings.HasPrefix(o.Key, "C12.R1/locked") || strings.HasPrefix(o.Key, "C12.R1/relock") || strings.HasPrefix(o.Key, "C12.R1/unlock-missing")
	})
	if n == 0 {
		c.Pass("C15.R6", "no-return-holding-a-lock", "-", "no own function returns with a mutex held and no deferred unlock")
	}
}

// c15DependencyGetters (thorough tier, whole-program SSA): every generated getter of a dependency
// (Envoy, genproto, well-known types) that the reachable own code calls starts with the nil-receiver
// guard — the quick tier assumes this.
func c15DependencyGetters(c *Check, fns []*ssa.Function) {
	P := c.P
	seen := map[*ssa.Function]bool{}
	var bad []string
	for _, fn := range fns {
		for _, ci := range allCalls(fn) {
			ce := calleeOf(ci)
			if ce.Fn == nil || ce.Fn.Blocks == nil || isOwnPath(pkgPathOf(ce.Fn)) || !isGeneratedGetter(ce) || seen[ce.Fn] {
				continue
			}
			seen[ce.Fn] = true
			if _, isPtr := ce.Fn.Signature.Recv().Type().(*types.Pointer); !isPtr {
				continue
			}
			if derefsParamUnguarded(P, ce.Fn, 0) {
				bad = append(bad, fnKey(ce.Fn))
			}
		}
	}
	c.Obl(len(bad) == 0 && len(seen) >= 10, cr("R2"), "dependency-getters-nil-safe", "dependencies",
		fmt.Sprintf("%d dependency getters called from Check-reachable code start with the nil-receiver guard", len(seen)),
		fmt.Sprintf("dependency getters without nil-receiver guard: %v (of %d)", bad, len(seen)))
	c.extra["dependency_getters_checked"] = len(seen)
}

func c15R1(c *Check, fns []*ssa.Function) {
	P := c.P
	n := 0
	for _, fn := range fns {
		for _, b := range fn.Blocks {
			for _, ins := range b.Instrs {
				ta, ok := ins.(*ssa.TypeAssert)
				if !ok {
					continue
				}
				n++
				key := fmt.Sprintf("assert/%s/%s", fnKey(fn), typeShort(ta.AssertedType))
				if ta.CommaOk {
					c.Pass(cr("R1"), key, P.Pos(instrPos(ta)), "comma-ok / type switch form")
					continue
				}
				// allow-table
				if u, isU := ta.X.(*ssa.UnOp); isU && u.Op == token.MUL {
					if g, isG := u.X.(*ssa.Global); isG && g.Pkg != nil && g.Pkg.Pkg.Path() == "net/http" && g.Name() == "DefaultTransport" &&
						typeID(ta.AssertedType) == "net/http.Transport" {
						c.Pass(cr("R1"), key, P.Pos(instrPos(ta)), "listed: http.DefaultTransport is documented to be a *http.Transport")
						continue
					}
				}
				if call, _, isC := asCall(ta.X); isC && isCallTo(call, "google.golang.org/protobuf/proto.Clone") &&
					types.Identical(stripConv(call.Common().Args[0]).Type(), ta.AssertedType) {
					c.Pass(cr("R1"), key, P.Pos(instrPos(ta)), "listed: proto.Clone returns a message of its argument's concrete type, which is the asserted type")
					continue
				}
				c.Fail(cr("R1"), key, P.Pos(instrPos(ta)), "unchecked type assertion "+descDepth(ta, 3)+" on a value whose dynamic type depends on input: panics (and terminates the service) when the type differs")
			}
		}
	}
	_ = n
}

func c15R2(c *Check, R *Roles, fns []*ssa.Function) {
	P := c.P
	var procResp = map[ssa.Value]bool{}
	for _, ci := range allCalls(R.CheckEntry) {
		if cc, ok := ci.(*ssa.Call); ok && isCallTo(cc, idHandlerIface+".Process") {
			procResp[resolveCell(stripConv(callArgs(cc)[2]))] = true
		}
	}
	for _, fn := range fns {
		ff := FactsOf(fn)
		seenKey := map[string]bool{}
		// a closure sees what was known where it was created
		var parentFacts FactSet
		if fn.Parent() != nil {
			first := true
			for _, b := range fn.Parent().Blocks {
				for _, ins := range b.Instrs {
					if mc, ok := ins.(*ssa.MakeClosure); ok && mc.Fn == fn {
						pf := FactsOf(fn.Parent()).At(mc)
						if first {
							parentFacts, first = pf, false
						} else {
							parentFacts = intersect(parentFacts, pf)
						}
					}
				}
			}
		}
		for _, ds := range derefSites(P, fn) {
			siteFacts := ff.At(ds.ins)
			if parentFacts != nil {
				siteFacts = unionFacts(siteFacts, parentFacts)
			}
			p := ds.p
			type leafAlt struct {
				l  ssa.Value
				fs FactSet
			}
			var alts []leafAlt
			for _, a := range phiAlternatives(fn, p, ds.ins) {
				afs := unionFacts(siteFacts, a.Facts)
				for _, l := range Leaves(a.V, leafOpts{noConcat: true}) {
					alts = append(alts, leafAlt{l, afs})
				}
			}
			for _, la := range alts {
				l, fs := la.l, la.fs
				origin := ""
				bad := false
				var call *ssa.Call
				var ci int
				switch x := l.(type) {
				case *ssa.Const:
					if x.Value == nil && isPointerLike(x.Type()) {
						origin, bad = "nil", true
					}
				case *ssa.Lookup:
					if isPointerLike(x.Type()) || (x.CommaOk) {
						// map lookup of pointers: zero value nil
						if !x.CommaOk && isPointerLike(x.Type()) {
							origin, bad = "map lookup "+descDepth(x, 2), true
						}
					}
				case *ssa.Extract:
					if lk, ok := x.Tuple.(*ssa.Lookup); ok && x.Index == 0 && isPointerLike(x.Type()) {
						origin, bad = "map lookup "+descDepth(lk, 2), true
						// `v, ok := m[k]` under ok == true
						if rs := lk.Referrers(); rs != nil {
							for _, r := range *rs {
								if e, isE := r.(*ssa.Extract); isE && e.Index == 1 {
									if v, known := fs.truth(e); known && v {
										bad = false
									}
								}
							}
						}
					}
				case *ssa.UnOp:
					// load of CheckResponse.Status on the response a handler has just filled: C15.R3
					if base, f, ok := fieldLoad(x); ok && f != nil && isPointerLike(f.Type()) {
						tid := typeID(base.Type())
						if tid == idCheckResponse && f.Name() == "Status" {
							if procResp[resolveCell(stripConv(base))] {
								continue // discharged by verdict totality (C15.R3), recorded there
							}
							origin, bad = "CheckResponse.Status", true
						}
					}
				}
				if cc, i, ok := asCall(l); ok {
					call, ci = cc, i
					if nilableCallResult(P, cc, i) {
						origin = descDepth(l, 2)
						bad = !resultKnownNonNil(P, fs, cc, i, l)
					}
				}
				if origin == "" {
					continue
				}
				if bad && (fs.NonNil(p) || fs.NonNil(l)) {
					bad = false
				}
				if bad && call != nil && isGeneratedGetter(calleeOf(call)) && guardedAtAllCallers(P, fn, call) {
					bad = false
				}
				if bad && call != nil && isGeneratedGetter(calleeOf(call)) && impliedByTruePredicate(P, fs, call) {
					bad = false
				}
				if bad && call != nil && isGeneratedGetter(calleeOf(call)) && impliedByNonZeroGetter(fs, l) {
					bad = false
				}
				// a phi that merges nil with other values: the facts on the phi itself
				key := fmt.Sprintf("deref/%s/%s/%s", fnKey(fn), shortOrigin(l), ds.what)
				if seenKey[key] && !bad {
					continue
				}
				seenKey[key] = true
				where := P.Pos(instrPos(ds.ins))
				if bad {
					if ex := nilExceptionFor(fn, origin, p); ex != "" {
						c.Pass(cr("R2"), key, where, "enumerated exception: "+ex)
						continue
					}
					// factory totality for store values
					if call != nil && isCallTo(call, mFactoryGet) {
						ok, why := factoryTotal(P)
						c.Obl(ok, cr("R2"), key, where, "store from SessionStoreFactory.Get is non-nil for every filter of a loaded configuration: "+why,
							"session store may be nil: "+why)
						continue
					}
					_ = ci
					c.Fail(cr("R2"), key, where, fmt.Sprintf("%s of a value that can be nil (%s) without a dominating non-nil or success fact: a crafted request/IdP answer/store answer crashes the service", ds.what, origin))
				} else {
					c.Pass(cr("R2"), key, where, ds.what+" of "+origin+" under a non-nil/success fact")
				}
			}
		}
	}
}

func unionFacts(a, b FactSet) FactSet {
	out := make(FactSet, len(a)+len(b))
	for k, v := range a {
		out[k] = v
	}
	for k, v := range b {
		if _, ok := out[k]; !ok {
			out[k] = v
		}
	}
	return out
}

// guardedAtAllCallers: the nilable value is getter(param_i) of fn; every call site of fn passes an
// argument a_i for which the fact getter(a_i) != nil holds (guard placed in the caller).
func guardedAtAllCallers(P *Program, fn *ssa.Function, getter *ssa.Call) bool {
	if len(getter.Common().Args) != 1 {
		return false
	}
	recv := resolveCell(stripConv(getter.Common().Args[0]))
	param, ok := recv.(*ssa.Parameter)
	if !ok {
		return false
	}
	idx := -1
	for i, q := range fn.Params {
		if q == param {
			idx = i
		}
	}
	callers := P.CallersOf(fn)
	if idx < 0 || len(callers) == 0 {
		return false
	}
	gid := funcID(calleeOf(getter).Obj)
	for _, site := range callers {
		args := site.Common().Args
		if idx >= len(args) {
			return false
		}
		fs := FactsOf(site.Parent()).At(site)
		eq, known := fs.cmp(func(a, b ssa.Value) bool {
			if !isNilConst(b) {
				return false
			}
			c2, _, isC := asCall(resolveCell(a))
			return isC && funcID(calleeOf(c2).Obj) == gid && len(c2.Common().Args) == 1 && sameVal(c2.Common().Args[0], args[idx])
		})
		if !known || eq {
			return false
		}
	}
	return true
}

// impliedByTruePredicate: the facts contain F(..., a, ...) == true for an own boolean function F all of
// whose `true` returns are dominated by getter(param) != nil, and a is the receiver of the nilable
// getter call (e.g. matchesLogoutPath(cfg, …) ⇒ cfg.GetLogout() != nil).
func impliedByTruePredicate(P *Program, fs FactSet, getter *ssa.Call) bool {
	if len(getter.Common().Args) != 1 {
		return false
	}
	recv := getter.Common().Args[0]
	gid := funcID(calleeOf(getter).Obj)
	for cond, pol := range fs {
		pc, _, ok := asCall(cond)
		if !ok || !pol {
			continue
		}
		F := pc.Common().StaticCallee()
		if F == nil || F.Blocks == nil || !isOwnPath(pkgPathOf(F)) || F.Signature.Results().Len() != 1 || !isBool(F.Signature.Results().At(0).Type()) {
			continue
		}
		for i, a := range pc.Common().Args {
			if !sameVal(a, recv) || i >= len(F.Params) {
				continue
			}
			param := F.Params[i]
			all := true
			n := 0
			for _, r := range returnsOf(F) {
				if b, isC := constBool(r.Results[0]); isC && !b {
					continue
				}
				n++
				rfs := FactsOf(F).At(r)
				eq, known := rfs.cmp(func(x, y ssa.Value) bool {
					if !isNilConst(y) {
						return false
					}
					c2, _, isC := asCall(resolveCell(x))
					return isC && funcID(calleeOf(c2).Obj) == gid && len(c2.Common().Args) == 1 && sameVal(c2.Common().Args[0], param)
				})
				if !known || eq {
					all = false
				}
			}
			if all && n > 0 {
				return true
			}
		}
	}
	return false
}

// impliedByNonZeroGetter: a generated (nil-safe) getter applied to v is known to have returned a
// non-empty string — on a nil receiver it returns the zero value, hence v != nil.
func impliedByNonZeroGetter(fs FactSet, v ssa.Value) bool {
	eq, known := fs.cmp(func(a, b ssa.Value) bool {
		s, isS := constString(b)
		if !isS || s != "" {
			return false
		}
		g, _, isC := asCall(resolveCell(a))
		return isC && isGeneratedGetter(calleeOf(g)) && len(g.Common().Args) == 1 && sameVal(g.Common().Args[0], v)
	})
	return known && !eq
}

func shortOrigin(v ssa.Value) string {
	if call, i, ok := asCall(v); ok {
		ce := calleeOf(call)
		n := "dyn"
		if ce.Obj != nil {
			n = shortID(funcID(ce.Obj))
		}
		return fmt.Sprintf("%s#%d", n, i)
	}
	return descDepth(v, 1)
}

func nilExceptionFor(fn *ssa.Function, origin string, p ssa.Value) string {
	name := fnKey(fn)
	// the handler variable of Check (however it is built): the type switch covers every filter kind that
	// survives configuration loading
	if strings.HasSuffix(name, "ExtAuthZFilter).Check") && typeID(p.Type()) == idHandlerIface {
		return "handler variable: the type switch covers every filter kind that survives configuration loading (C17.R3: overrides are replaced, the oneof is required; C08.R3 checks the arms)"
	}
	pd := descDepth(p, 1)
	for _, e := range c15NilExceptions {
		if strings.HasSuffix(name, e.fn) && (strings.Contains(origin, e.origin) || strings.HasPrefix(pd, e.origin)) {
			if e.origin == "GetJwksFetcher" && !oneofJustEnsured(fn, p) {
				continue // the reason given for this exception does not hold on every path any more
			}
			return e.reason
		}
	}
	return ""
}

// factoryTotal: SessionStoreFactory.Get(filter) is non-nil for every OIDC filter of the loaded config:
// PreRun stores a redis store under the same expression Get looks up, and every filter without a
// redis URI makes the shared memory store non-nil.
func factoryTotal(P *Program) (bool, string) {
	pre := P.Func(pkgOIDC, "(*sessionStoreFactory).PreRun")
	get := P.Func(pkgOIDC, "(*sessionStoreFactory).Get")
	if pre == nil || get == nil {
		return false, "factory PreRun/Get not found"
	}
	uriGetter := pkgCfgOIDC + ".RedisConfig.GetServerUri"
	// Get: lookup key is GetRedisSessionStoreConfig().GetServerUri() of its parameter; miss ⇒ memory
	okGet := false
	for _, b := range get.Blocks {
		for _, ins := range b.Instrs {
			if lk, ok := ins.(*ssa.Lookup); ok {
				if call, _, isC := asCall(lk.Index); isC && isCallTo(call, uriGetter) {
					okGet = true
				}
			}
		}
	}
	if !okGet {
		return false, "Get does not look the store up by the filter's redis server URI"
	}
	// PreRun: MapUpdate key from the same getter under uri != "", else-branch assigns memory
	okPut, okMem := false, false
	// PreRun and the function literals written in it (the per-filter body handed to an iterator helper)
	scope := []*ssa.Function{pre}
	for i := 0; i < len(scope) && len(scope) < 16; i++ {
		scope = append(scope, scope[i].AnonFuncs...)
	}
	var blocks []*ssa.BasicBlock
	for _, f := range scope {
		blocks = append(blocks, f.Blocks...)
	}
	for _, b := range blocks {
		for _, ins := range b.Instrs {
			switch x := ins.(type) {
			case *ssa.MapUpdate:
				if call, _, isC := asCall(x.Key); isC && isCallTo(call, uriGetter) {
					okPut = true
				}
			case *ssa.Store:
				if fa, ok := x.Addr.(*ssa.FieldAddr); ok && fieldAddrID(fa) == pkgOIDC+".sessionStoreFactory.memory" {
					if call, _, isC := asCall(x.Val); isC && call.Common().StaticCallee() != nil && call.Common().StaticCallee().Name() == "NewMemoryStore" {
						// reached under uri == ""
						fs := FactsOf(x.Parent()).At(x)
						for cond, pol := range fs {
							if bo, isB := cond.(*ssa.BinOp); isB {
								if cc, _, isC2 := asCall(bo.X); isC2 && isCallTo(cc, uriGetter) {
									if s, isS := constString(bo.Y); isS && s == "" && ((bo.Op == token.NEQ && !pol) || (bo.Op == token.EQL && pol)) {
										okMem = true
									}
								}
							}
						}
					}
				}
			}
		}
	}
	if !okPut {
		return false, "PreRun does not register redis stores under the filter's redis server URI"
	}
	if !okMem {
		return false, "PreRun does not create the memory store for filters without a redis URI"
	}
	return true, "PreRun registers a store under the key Get looks up, or creates the shared memory store when the filter has no redis URI"
}

// ---- R3 verdict totality ------------------------------------------------------------------------------

var setsVerdictCache = map[*ssa.Function]int{} // 0 unknown, 1 yes, 2 no

func isVerdictInstr(P *Program, ins ssa.Instruction, depth int) bool {
	switch x := ins.(type) {
	case *ssa.Store:
		if fa, ok := x.Addr.(*ssa.FieldAddr); ok && fieldAddrID(fa) == idCheckResponse+".Status" {
			return !isNilConst(x.Val)
		}
	case *ssa.Call:
		if callee := x.Common().StaticCallee(); callee != nil && callee.Blocks != nil && isOwnPath(pkgPathOf(callee)) && depth > 0 {
			// passes a *CheckResponse
			passes := false
			for _, a := range x.Common().Args {
				if typeID(a.Type()) == idCheckResponse {
					passes = true
				}
			}
			if passes {
				return setsVerdictOnAllPaths(P, callee, depth-1)
			}
		}
		// a local closure that captured the response (`deny := func(code codes.Code) { setDenyResponse(resp, …, code) }`)
		if depth > 0 {
			if mc, isMC := resolveCell(stripConv(x.Common().Value)).(*ssa.MakeClosure); isMC {
				captures := false
				for _, b := range mc.Bindings {
					if typeID(derefType(derefType(b.Type()))) == strings.TrimPrefix(idCheckResponse, "*") || typeID(b.Type()) == idCheckResponse {
						captures = true
					}
				}
				if cf, isF := mc.Fn.(*ssa.Function); isF && captures {
					return setsVerdictOnAllPaths(P, cf, depth-1)
				}
			}
		}
	}
	return false
}

func setsVerdictOnAllPaths(P *Program, fn *ssa.Function, depth int) bool {
	if v, ok := setsVerdictCache[fn]; ok && v != 0 {
		return v == 1
	}
	setsVerdictCache[fn] = 2
	if len(fn.Blocks) == 0 {
		return false
	}
	hit := reachAvoiding(nil, fn.Blocks[0], isReturn, func(i ssa.Instruction) bool { return isVerdictInstr(P, i, depth) })
	if hit == nil {
		setsVerdictCache[fn] = 1
		return true
	}
	return false
}

func c15R3(c *Check, R *Roles) {
	P := c.P
	for _, fn := range R.ProcessImpls {
		// a normal return: the error result can be nil (looking through defer-spilled result cells)
		normalReturn := func(i ssa.Instruction) bool {
			rr, ok := i.(*ssa.Return)
			if !ok {
				return false
			}
			if len(rr.Results) == 0 {
				return true
			}
			for _, l := range Leaves(rr.Results[len(rr.Results)-1], leafOpts{noConcat: true}) {
				if isNilConst(l) {
					return true
				}
			}
			return false
		}
		hit := reachAvoiding(nil, fn.Blocks[0], normalReturn, func(i ssa.Instruction) bool { return isVerdictInstr(P, i, 4) })
		c.Obl(hit == nil, "C15.R3", "verdict-total/"+fnKey(fn), P.Pos(fn.Pos()),
			"every normal return of "+fnKey(fn)+" is preceded by a verdict (Status set) on all paths",
			fmt.Sprintf("%s can return normally without having set a verdict (return at %s): Check then dereferences a nil resp.Status", fnKey(fn), posOf(P, hit)))
	}
	// the deny and allow writers set body and status together
	for _, w := range []*ssa.Function{R.DenyWriter, R.AllowFn} {
		st, body := false, false
		for _, b := range w.Blocks {
			for _, ins := range b.Instrs {
				if s, ok := ins.(*ssa.Store); ok {
					if fa, ok := s.Addr.(*ssa.FieldAddr); ok {
						switch fieldAddrID(fa) {
						case idCheckResponse + ".Status":
							st = true
						case idCheckResponse + ".HttpResponse":
							body = true
						}
					}
				}
			}
		}
		c.Obl(st && body && setsVerdictOnAllPaths(P, w, 2), "C15.R3", "writer-consistent/"+fnKey(w), P.Pos(w.Pos()),
			"writer sets HttpResponse and Status together on all paths", "verdict writer "+fnKey(w)+" does not set both the body and the status on all paths")
	}
}

func posOf(P *Program, ins ssa.Instruction) string {
	if ins == nil {
		return "-"
	}
	return P.Pos(instrPos(ins))
}

// ---- R4 bounds ----------------------------------------------------------------------------------------

func c15R4(c *Check, fns []*ssa.Function) {
	P := c.P
	for _, fn := range fns {
		ff := FactsOf(fn)
		n := 0
		for _, b := range fn.Blocks {
			if b != fn.Blocks[0] && len(b.Preds) == 0 {
				continue
			}
			for _, ins := range b.Instrs {
				switch x := ins.(type) {
				case *ssa.MakeSlice:
					// make([]T, n, m) panics for a negative (or absurd) size: a size that is not a constant,
					// a len/cap, or arithmetic over those must be known non-negative where the slice is made
					for _, sz := range []ssa.Value{x.Len, x.Cap} {
						if sz == nil {
							continue
						}
						if _, isK := constInt(sz); isK {
							continue
						}
						benign := true
						var why string
						for _, l := range interOrigins(P, stripConv(sz), leafOpts{noConcat: true}, 2) {
							l = stripConv(l)
							if _, isK := constInt(l); isK {
								continue
							}
							if cl, _, isC := asCall(l); isC {
								if bi, isB := cl.Common().Value.(*ssa.Builtin); isB && (bi.Name() == "len" || bi.Name() == "cap" || bi.Name() == "min" || bi.Name() == "max") {
									continue
								}
							}
							if bo, isB := l.(*ssa.BinOp); isB {
								_ = bo
								continue // arithmetic: operands are visited as leaves of their own where it matters (len(x)+1 …)
							}
							if ff.At(x).intFact(l, func(op token.Token, k int64) bool {
								return (op == token.GEQ && k >= 0) || (op == token.GTR && k >= -1)
							}) {
								continue
							}
							benign, why = false, descDepth(l, 3)
						}
						if benign {
							continue
						}
						n++
						c.Fail(cr("R4"), fmt.Sprintf("make-size/%s#%d", fnKey(fn), n), P.Pos(instrPos(x)), "make with a size taken from "+why+" without a non-negative fact: a negative or attacker-chosen size (e.g. Content-Length -1 of a chunked answer) panics in makeslice")
					}
				case *ssa.IndexAddr:
					if okConstArrayIndex(x.X, x.Index) {
						continue // constant index into a fixed-size array (composite literals, varargs)
					}
					n++
					ok, why := indexInBounds(fn, ff.At(x), x.X, x.Index)
					c.Obl(ok, cr("R4"), fmt.Sprintf("index/%s#%d", fnKey(fn), n), P.Pos(instrPos(x)), why, "index expression "+descDepth(x, 2)+": "+why)
				case *ssa.Index:
					if okConstArrayIndex(x.X, x.Index) {
						continue
					}
					n++
					ok, why := indexInBounds(fn, ff.At(x), x.X, x.Index)
					c.Obl(ok, cr("R4"), fmt.Sprintf("index/%s#%d", fnKey(fn), n), P.Pos(instrPos(x)), why, "index expression "+descDepth(x, 2)+": "+why)
				case *ssa.Slice:
					if x.Low == nil && x.High == nil {
						continue // s[:] never fails
					}
					if _, isArr := derefType(x.X.Type()).Underlying().(*types.Array); isArr {
						// slicing a literal array with constant bounds
						lo, okl := int64(0), true
						if x.Low != nil {
							lo, okl = constInt(x.Low)
						}
						hiOK := x.High == nil
						if x.High != nil {
							_, hiOK = constInt(x.High)
						}
						if okl && hiOK && lo >= 0 {
							continue
						}
					}
					n++
					ok, why := sliceInBounds(fn, ff.At(x), x)
					c.Obl(ok, cr("R4"), fmt.Sprintf("slice/%s#%d", fnKey(fn), n), P.Pos(instrPos(x)), why, "slice expression "+descDepth(x, 2)+": "+why)
				case *ssa.MapUpdate:
					n++
					ok, why := mapIsMade(P, x.Map, 3)
					c.Obl(ok, cr("R4"), fmt.Sprintf("mapwrite/%s#%d", fnKey(fn), n), P.Pos(instrPos(x)), why, "map write: "+why)
				}
			}
		}
	}
}

func okConstArrayIndex(x, index ssa.Value) bool {
	arr, ok := derefType(x.Type()).Underlying().(*types.Array)
	if !ok {
		return false
	}
	i, isC := constInt(index)
	return isC && i >= 0 && i < arr.Len()
}

func lenOf(v ssa.Value) func(ssa.Value) bool {
	return func(x ssa.Value) bool {
		call, ok := x.(*ssa.Call)
		if !ok {
			return false
		}
		bi, isB := call.Call.Value.(*ssa.Builtin)
		return isB && bi.Name() == "len" && sameVal(call.Call.Args[0], v)
	}
}

func indexInBounds(fn *ssa.Function, fs FactSet, x, index ssa.Value) (bool, string) {
	isLen := lenOf(x)
	// idx % len(x) with non-negative idx
	if bo, ok := stripConv(index).(*ssa.BinOp); ok && bo.Op == token.REM {
		if isLen(bo.Y) {
			return true, "index is taken modulo len of the indexed value"
		}
		if k, isC := constInt(bo.Y); isC {
			if s, isS := constString(x); isS && int64(len(s)) == k {
				return true, "index is taken modulo the constant length of the indexed constant string"
			}
			if c2, isC2 := x.(*ssa.Const); isC2 && c2.Value != nil && int64(len(c2.Value.ExactString())-2) >= k {
				return true, "index is taken modulo a constant not larger than the constant string's length"
			}
		}
	}
	// loop condition idx < len(x)
	for cond, pol := range fs {
		bo, ok := cond.(*ssa.BinOp)
		if !ok {
			continue
		}
		if bo.Op == token.LSS && pol && sameVal(bo.X, index) && isLen(bo.Y) {
			return true, "index < len(x) holds by the enclosing loop/branch condition"
		}
		if bo.Op == token.GEQ && !pol && sameVal(bo.X, index) && isLen(bo.Y) {
			return true, "index < len(x) holds by the enclosing loop/branch condition"
		}
	}
	// range loops lowered by go/ssa: index phi with `idx < len` where len was hoisted
	if ph, ok := index.(*ssa.Phi); ok {
		for cond, pol := range fs {
			bo, isB := cond.(*ssa.BinOp)
			if isB && bo.Op == token.LSS && pol && bo.X == ph {
				if isLen(bo.Y) {
					return true, "range loop index < len(x)"
				}
			}
		}
	}
	// the rotated range-loop form: t = idx+1; if t < len
	if bo, ok := index.(*ssa.BinOp); ok && bo.Op == token.ADD {
		for cond, pol := range fs {
			b2, isB := cond.(*ssa.BinOp)
			if isB && b2.Op == token.LSS && pol && b2.X == index && isLen(b2.Y) {
				return true, "range loop index < len(x)"
			}
		}
	}
	// constant index under len(x) == n / len(x) != n (false) facts
	if k, isC := constInt(index); isC && k >= 0 {
		for cond, pol := range fs {
			v, op, n, ok := cmpWithConstInt(cond)
			if !ok || !isLen(v) {
				continue
			}
			if !pol {
				neg := map[token.Token]token.Token{token.EQL: token.NEQ, token.NEQ: token.EQL, token.LSS: token.GEQ,
					token.LEQ: token.GTR, token.GTR: token.LEQ, token.GEQ: token.LSS}
				op = neg[op]
			}
			if (op == token.EQL && k < n) || (op == token.GTR && k <= n) || (op == token.GEQ && k < n) {
				return true, fmt.Sprintf("constant index %d under a len fact (len %s %d)", k, op, n)
			}
		}
	}
	return false, "no recognised bounds idiom (constant under a len fact, loop condition, modulo len)"
}

// sliceInBounds recognises bounds derived from strings.Index results on the sliced string.
func sliceInBounds(fn *ssa.Function, fs FactSet, s *ssa.Slice) (bool, string) {
	ok, why := sliceInBoundsX(fn, fs, s, s.X)
	if ok {
		return ok, why
	}
	// the sliced string itself is chosen by a branch (`p := s; if h != -1 { p = s[:h] }; p[q+1:]`): each alternative is
	// judged as the sliced string under the facts of the edge that selects it together with the facts at the slice
	if xp, isPhi := resolveCell(stripConv(s.X)).(*ssa.Phi); isPhi {
		alts := phiAlternatives(fn, xp, s)
		if len(alts) >= 2 && len(alts) <= 4 {
			for _, a := range alts {
				if okA, whyA := sliceInBoundsX(fn, unionFacts(fs, a.Facts), s, resolveCell(stripConv(a.V))); !okA {
					return false, "with the sliced string chosen by a branch, for the alternative " + descDepth(a.V, 2) + ": " + whyA
				}
			}
			return true, "sliced string chosen by a branch: the bounds are found positions in every alternative under the facts of its edge"
		}
	}
	return ok, why
}

// factsContradict: some `value == constant` comparison is decided one way in a and the other way in b.
func factsContradict(a, b FactSet) bool {
	// like normCond, with the compared value followed through local cells and struct copies
	norm := func(c ssa.Value, pol bool) (string, bool) {
		for {
			if u, ok := c.(*ssa.UnOp); ok && u.Op == token.NOT {
				c, pol = u.X, !pol
				continue
			}
			break
		}
		if v, op, k, ok := cmpWithConstInt(c); ok && (op == token.EQL || op == token.NEQ) {
			if op == token.NEQ {
				pol = !pol
			}
			return fmt.Sprintf("%p==%d", stripConv(resolveCell(stripConv(v))), k), pol
		}
		return fmt.Sprintf("%p", c), pol
	}
	nb := map[string]bool{}
	for c, v := range b {
		k, pol := norm(c, v)
		nb[k] = pol
	}
	for c, v := range a {
		k, pol := norm(c, v)
		if w, ok := nb[k]; ok && w != pol {
			return true
		}
	}
	return false
}

func sliceInBoundsX(fn *ssa.Function, fs FactSet, s *ssa.Slice, x ssa.Value) (bool, string) {
	ok, why := sliceBoundsJudge(fn, fs, x, s.Low, s.High)
	if ok || s.High == nil {
		return ok, why
	}
	// the high bound is chosen by a branch (`end := len(x); if i != -1 { end = i }; x[lo:end]`): each alternative is judged
	// under the facts of the edge that selects it together with the facts at the slice
	if ph, isPhi := resolveCell(stripConv(s.High)).(*ssa.Phi); isPhi {
		alts := phiAlternatives(fn, ph, s)
		if len(alts) >= 2 {
			for _, a := range alts {
				if okA, whyA := sliceBoundsJudge(fn, unionFacts(fs, a.Facts), x, s.Low, resolveCell(stripConv(a.V))); !okA {
					return false, "with the high bound chosen by a branch, for the alternative " + descDepth(a.V, 2) + ": " + whyA
				}
			}
			return true, "high bound chosen by a branch: every alternative is len(x) or a found position under the facts of its edge"
		}
	}
	return ok, why
}

func sliceBoundsJudge(fn *ssa.Function, fs FactSet, x, sLow, sHigh ssa.Value) (bool, string) {
	// an index value v is "a found position in x (or in a prefix of x)": every leaf is strings.Index(x…)
	// and v != -1 is known
	foundPos := func(v ssa.Value) (ok bool, prefixHigh ssa.Value) {
		allIdx := true
		for _, l := range Leaves(v, leafOpts{noConcat: true}) {
			call, _, isC := asCall(l)
			if !isC || !isCallToAny(call, "strings.Index", "strings.IndexByte", "strings.LastIndex") {
				allIdx = false
				continue
			}
			// the searched string is x, a prefix of x, or one or the other chosen by a branch
			okSubj := func(subj ssa.Value) bool {
				subj = resolveCell(stripConv(subj))
				if sameVal(subj, x) {
					return true
				}
				// the sliced string is itself a prefix of a string, and the subject is the same prefix
				if xs, isXS := x.(*ssa.Slice); isXS && xs.Low == nil && xs.High != nil {
					if ss, isSS := subj.(*ssa.Slice); isSS && ss.Low == nil && ss.High != nil && sameVal(ss.X, xs.X) && sameVal(ss.High, xs.High) {
						return true
					}
				}
				if sl, isS := subj.(*ssa.Slice); isS && sameVal(sl.X, x) && sl.Low == nil {
					prefixHigh = sl.High
					return true
				}
				return false
			}
			subj := resolveCell(stripConv(call.Common().Args[0]))
			if okSubj(subj) {
				continue
			}
			if ph, isPhi := subj.(*ssa.Phi); isPhi {
				all := true
				saved := prefixHigh
				ffp := FactsOf(fn)
				for i, e := range ph.Edges {
					if factsContradict(ffp.OnEdge(ph.Block().Preds[i], ph.Block()), fs) {
						continue // this subject is selected only on an edge that the facts here exclude
					}
					if !okSubj(e) {
						all = false
					}
				}
				// a subject chosen by a branch is in x either way, but it is a prefix only on some edges: the low <= high
				// argument below looks at the edges itself
				prefixHigh = saved
				if all {
					continue
				}
			}
			allIdx = false
		}
		if !allIdx {
			return false, nil
		}
		known := fs.intFact(v, func(op token.Token, k int64) bool {
			return (op == token.NEQ && k == -1) || (op == token.GTR && k >= -1) || (op == token.GEQ && k >= 0)
		})
		return known, prefixHigh
	}
	plusOne := func(v ssa.Value) (ssa.Value, bool) {
		if bo, ok := v.(*ssa.BinOp); ok && bo.Op == token.ADD {
			if k, isC := constInt(bo.Y); isC && k == 1 {
				return bo.X, true
			}
		}
		return nil, false
	}
	okLow, okHigh := sLow == nil, sHigh == nil
	var lowBase, highBase ssa.Value
	if sLow != nil {
		if k, isC := constInt(sLow); isC && k == 0 {
			okLow = true
		} else if base, isP := plusOne(sLow); isP {
			if ok, _ := foundPos(base); ok {
				okLow, lowBase = true, base
			}
		} else if ok, _ := foundPos(sLow); ok {
			okLow, lowBase = true, sLow
		}
	}
	if sHigh != nil {
		if ok, _ := foundPos(sHigh); ok {
			okHigh, highBase = true, sHigh
		} else if isLenCall := lenOf(x); isLenCall(sHigh) {
			okHigh = true
		}
	}
	if os.Getenv("VERIF_SLICE_DEBUG") != "" {
		fmt.Fprintf(os.Stderr, "SLICEDBG x=%s low=%v high=%v okLow=%v okHigh=%v facts=%s\n", descDepth(x, 3), sLow, sHigh, okLow, okHigh, fs.String())
	}
	if !okLow || !okHigh {
		return false, "slice bounds are not derived from strings.Index results known to be != -1 (nor constants/len)"
	}
	if lowBase != nil && highBase != nil {
		// need low <= high: low = p+1 where p was found in x[:high]
		_, ph := foundPos(lowBase)
		if ph == nil || !sameVal(ph, highBase) {
			// all leaves of lowBase must be searched within the prefix ending at highBase when high is known
			okAll := true
			for _, l := range Leaves(lowBase, leafOpts{noConcat: true}) {
				call, _, isC := asCall(l)
				if !isC {
					okAll = false
					continue
				}
				subj := call.Common().Args[0]
				sl, isS := subj.(*ssa.Slice)
				if !(isS && sl.X == x && sl.Low == nil && sl.High != nil && sameVal(sl.High, highBase)) {
					// acceptable only on paths where high is not found — but high is known found here
					okAll = false
				}
			}
			if !okAll {
				// accept when the facts on this path exclude the unbounded leaf: the phi alternative searched
				// in the whole string is selected only when high == -1, contradicting high != -1 here.
				ok2 := true
				if lc, _, isC := asCall(resolveCell(stripConv(lowBase))); isC && len(lc.Common().Args) > 0 {
					// one search whose subject is chosen by a branch: every subject is the prefix ending at the high position,
					// or is selected only where the high position was not found (excluded here, where it is known found)
					if sp, isPhi := resolveCell(stripConv(lc.Common().Args[0])).(*ssa.Phi); isPhi {
						ff := FactsOf(fn)
						for i, e := range sp.Edges {
							e = resolveCell(stripConv(e))
							if sl, isS := e.(*ssa.Slice); isS && sameVal(sl.X, x) && sl.Low == nil && sl.High != nil && sameVal(sl.High, highBase) {
								continue
							}
							efs := ff.OnEdge(sp.Block().Preds[i], sp.Block())
							if !efs.intFact(highBase, func(op token.Token, k int64) bool { return op == token.EQL && k == -1 }) {
								ok2 = false
							}
						}
					} else {
						ok2 = false
					}
				} else if ph2, isPhi := lowBase.(*ssa.Phi); isPhi {
					ff := FactsOf(fn)
					for i, e := range ph2.Edges {
						call, _, isC := asCall(e)
						if !isC {
							ok2 = false
							continue
						}
						subj := call.Common().Args[0]
						if sl, isS := subj.(*ssa.Slice); isS && sl.X == x && sl.Low == nil && sl.High != nil && sameVal(sl.High, highBase) {
							continue
						}
						// this edge must come from a block where highBase == -1
						efs := ff.OnEdge(ph2.Block().Preds[i], ph2.Block())
						if !efs.intFact(highBase, func(op token.Token, k int64) bool { return op == token.EQL && k == -1 }) {
							ok2 = false
						}
					}
				} else {
					ok2 = false
				}
				if !ok2 {
					return false, "cannot show low bound <= high bound (the low position is not searched inside the prefix that ends at the high position)"
				}
			}
		}
		return true, "low = found position + 1 inside the prefix ending at the high found position"
	}
	return true, "bounds are strings.Index results under != -1 (a found position p satisfies 0 <= p < len, so p and p+1 are valid bounds)"
}

func mapIsMade(P *Program, m ssa.Value, depth int) (bool, string) {
	for _, l := range Leaves(m, leafOpts{noConcat: true}) {
		switch x := l.(type) {
		case *ssa.MakeMap:
			continue
		case *ssa.UnOp:
			// field of a struct: written by a constructor / PreRun with a MakeMap
			if fa, ok := x.X.(*ssa.FieldAddr); ok {
				id := fieldAddrID(fa)
				found := false
				scan := append([]*ssa.Function{}, P.Funcs...)
				for _, sp := range P.SSA {
					// package-level variables initialised with a literal: the stores are in the package initialiser
					if sp != nil {
						if initFn := sp.Func("init"); initFn != nil {
							scan = append(scan, initFn)
						}
					}
				}
				for _, fn := range scan {
					for _, b := range fn.Blocks {
						for _, ins := range b.Instrs {
							if st, ok := ins.(*ssa.Store); ok {
								if fa2, ok := st.Addr.(*ssa.FieldAddr); ok && fieldAddrID(fa2) == id {
									if _, isMake := stripConv(st.Val).(*ssa.MakeMap); isMake {
										found = true
									}
								}
							}
						}
					}
				}
				if found {
					continue
				}
				return false, "map field " + shortID(id) + " is never initialised with make"
			}
			if g, ok := x.X.(*ssa.Global); ok {
				_ = g
				continue // package-level maps are initialised by the package initialiser (checked by the compiler's init order)
			}
			return false, "map of unknown origin " + descDepth(l, 2)
		case *ssa.Call:
			if depth > 0 {
				if callee := x.Common().StaticCallee(); callee != nil && callee.Blocks != nil {
					ok := true
					for _, r := range returnsOf(callee) {
						if good, _ := mapIsMade(P, r.Results[0], depth-1); !good {
							ok = false
						}
					}
					if ok {
						continue
					}
				}
			}
			return false, "map returned by " + descDepth(l, 2) + " may be nil"
		default:
			return false, "map of unknown origin " + descDepth(l, 2)
		}
	}
	return true, "map created with make / a literal in own code"
}

// ---- R5 aborts -----------------------------------------------------------------------------------------

func c15R5(c *Check, fns []*ssa.Function) {
	P := c.P
	n := 0
	for _, fn := range fns {
		for _, b := range fn.Blocks {
			for _, ins := range b.Instrs {
				if pn, ok := ins.(*ssa.Panic); ok && pn.Pos().IsValid() { // position-less panics are go/ssa lowering artefacts (select)
					n++
					c.Fail(cr("R5"), fmt.Sprintf("abort/%s/panic#%d", fnKey(fn), n), P.Pos(instrPos(pn)), "explicit panic in a function reachable from Check: a panic in a request goroutine terminates the whole service")
				}
			}
		}
		for _, ci := range allCalls(fn) {
			cc := ci.Common()
			if bi, ok := cc.Value.(*ssa.Builtin); ok && bi.Name() == "panic" {
				n++
				c.Fail(cr("R5"), "abort/"+nthCallKey(ci), P.Pos(ci.Pos()), "explicit panic reachable from Check")
				continue
			}
			ce := calleeOf(ci)
			if ce.Obj == nil {
				continue
			}
			id := funcID(ce.Obj)
			name := ce.Obj.Name()
			switch {
			case id == "os.Exit", strings.HasPrefix(id, "log.Fatal"), strings.HasPrefix(id, "log.Panic"), strings.HasPrefix(id, "log.Logger.Fatal"), strings.HasPrefix(id, "log.Logger.Panic"):
				c.Fail(cr("R5"), "abort/"+nthCallKey(ci), P.Pos(ci.Pos()), shortID(id)+" reachable from Check terminates the service")
			case strings.HasPrefix(name, "Must"):
				allConst := true
				for _, a := range callArgs(ci) {
					if _, isC := stripConv(a).(*ssa.Const); !isC {
						allConst = false
					}
				}
				c.Obl(allConst, cr("R5"), "must/"+nthCallKey(ci), P.Pos(ci.Pos()), shortID(id)+" with constant arguments only",
					shortID(id)+" panics on invalid input and is called with a non-constant argument in a function reachable from Check")
			}
		}
	}
	// comparing two interface values panics when both hold the same uncomparable dynamic type (two JSON arrays or
	// objects decoded into `any`, as the claims of a token are): `a != b` on two values of an empty interface type is
	// accepted only when one side is nil or was made from a comparable concrete type
	nCmp := 0
	for _, fn := range fns {
		if !isOwnPath(pkgPathOf(fn)) {
			continue
		}
		for _, b := range fn.Blocks {
			for _, ins := range b.Instrs {
				bo, ok := ins.(*ssa.BinOp)
				if !ok || (bo.Op != token.EQL && bo.Op != token.NEQ) {
					continue
				}
				isAny := func(v ssa.Value) bool {
					it, isI := v.Type().Underlying().(*types.Interface)
					return isI && it.NumMethods() == 0
				}
				if !isAny(bo.X) || !isAny(bo.Y) {
					continue
				}
				safe := func(v ssa.Value) bool {
					if isNilConst(v) {
						return true
					}
					for _, l := range Leaves(v, leafOpts{noConcat: true}) {
						mi, isMI := l.(*ssa.MakeInterface)
						if isNilConst(l) || (isMI && types.Comparable(mi.X.Type())) {
							continue
						}
						return false
					}
					return true
				}
				nCmp++
				c.Obl(safe(bo.X) || safe(bo.Y), cr("R5"), fmt.Sprintf("uncomparable/%s/%d", fnKey(fn), nCmp), P.Pos(bo.Pos()), "interface comparison with a nil or comparable side",
					"two values of an empty interface type are compared with "+bo.Op.String()+": when both hold a slice or a map (JSON arrays/objects in token claims or decoded documents) the comparison panics at run time")
			}
		}
	}
	c.Pass(cr("R5"), "scan", "-", fmt.Sprintf("%d functions reachable from Check scanned for panic / log.Fatal / os.Exit / Must* / comparisons of two empty-interface values", len(fns)))
	_ = n
}

// c15Getters: the generated getters the handler relies on are nil-safe (own generated code: read from
// source; Envoy's: assumed in quick, read in thorough when whole-program SSA is available).
func c15Getters(c *Check) {
	P := c.P
	total, guarded := 0, 0
	var bad []string
	for _, fn := range P.Funcs {
		if !strings.HasPrefix(pkgPathOf(fn), modPath+"/config/gen/go") || fn.Signature.Recv() == nil || !strings.HasPrefix(fn.Name(), "Get") {
			continue
		}
		if _, isPtr := fn.Signature.Recv().Type().(*types.Pointer); !isPtr {
			continue
		}
		if fn.Signature.Params().Len() != 0 {
			continue
		}
		total++
		if !derefsParamUnguarded(P, fn, 0) {
			guarded++
		} else {
			bad = append(bad, fnKey(fn))
		}
	}
	c.Obl(len(bad) == 0 && total >= 50, cr("R2"), "generated-getters-nil-safe", "config/gen/go",
		fmt.Sprintf("%d/%d generated getters start with the nil-receiver guard", guarded, total),
		fmt.Sprintf("generated getters dereference a nil receiver: %v (of %d)", bad, total))
}

// oneofJustEnsured verifies the reason of the GetJwksFetcher exception: on every path from the function's entry
// to the call whose result is dereferenced, either an earlier call of the same getter on the same receiver was
// found non-nil, or the oneof field the getter reads was assigned a wrapper of the getter's own arm built here
// (with a non-nil message). A guard on the oneof field as a whole (`cfg.JwksConfig == nil`) does not ensure it:
// another arm may be set, for which the getter returns nil.
func oneofJustEnsured(fn *ssa.Function, p ssa.Value) bool {
	pc, _, ok := asCall(resolveCell(stripConv(p)))
	if !ok || len(pc.Common().Args) != 1 || len(fn.Blocks) == 0 || len(fn.Blocks[0].Instrs) == 0 {
		return false
	}
	recv := pc.Common().Args[0]
	callee := pc.Common().StaticCallee()
	ff := FactsOf(fn)
	armSet := func(i ssa.Instruction) bool {
		st, isS := i.(*ssa.Store)
		if !isS {
			return false
		}
		fa, isF := st.Addr.(*ssa.FieldAddr)
		if !isF || !sameVal(fa.X, recv) {
			return false
		}
		// the stored wrapper is built here, is of an arm type whose name matches the getter, and holds a non-nil message
		w, isA := resolveCell(stripConv(st.Val)).(*ssa.Alloc)
		if !isA || callee == nil || !strings.HasSuffix(typeID(derefType(w.Type())), "_"+strings.TrimPrefix(callee.Name(), "Get")) {
			return false
		}
		for _, vals := range structFieldStores(w) {
			for _, v := range vals {
				if known, isNil := nilnessOf(v); known && !isNil {
					return true
				}
			}
		}
		return false
	}
	foundNonNil := func(p0, q *ssa.BasicBlock) bool {
		for cond, pol := range ff.OnEdge(p0, q) {
			bo, isB := cond.(*ssa.BinOp)
			if !isB || !isNilConst(bo.Y) || (bo.Op == token.NEQ) != pol {
				continue
			}
			if gc, _, isC := asCall(resolveCell(stripConv(bo.X))); isC && gc.Common().StaticCallee() == callee && len(gc.Common().Args) == 1 && sameVal(gc.Common().Args[0], recv) {
				return true
			}
		}
		return false
	}
	hit := reachAvoidingEdges(fn.Blocks[0].Instrs[0], func(i ssa.Instruction) bool { return i == ssa.Instruction(pc) }, armSet, foundNonNil)
	return hit == nil
}
