package main

import (
	"fmt"
	"go/token"
	"sort"
	"strings"

	"golang.org/x/tools/go/ssa"
)

func init() { registry["C13"] = checkC13 }

// requestedURLLeavesOK: the stored return URL is composed only of the current request's scheme, host,
// path and query plus the separators "://" and "?".
func requestedURLLeavesOK(m *hModel, v ssa.Value) (bool, string) {
	allowed := map[string]bool{"GetScheme": true, "GetHost": true, "GetPath": true, "GetQuery": true}
	seen := map[string]bool{}
	P := m.R.P
	for _, l := range LeavesInl(v, leafOpts{}, 2, nil) {
		if s, isC := constString(l); isC {
			if s == "://" || s == "?" {
				continue
			}
			return false, fmt.Sprintf("constant %q is mixed into the stored return URL", s)
		}
		call, _, ok := asCall(l)
		if !ok || call.Common().StaticCallee() == nil {
			return false, "return URL contains " + descDepth(l, 3)
		}
		name := call.Common().StaticCallee().Name()
		recvOK := originsAre(P, call.Common().Args[0], m.RedirHTTP, 3)
		if !allowed[name] || !strings.HasSuffix(funcID(calleeOf(call).Obj), "AttributeContext_HttpRequest."+name) || !recvOK {
			return false, "return URL contains " + descDepth(l, 3) + ", which is not scheme/host/path/query of the current request"
		}
		seen[name] = true
	}
	for n := range allowed {
		if !seen[n] {
			return false, "the stored return URL lacks the request's " + strings.TrimPrefix(n, "Get")
		}
	}
	return true, ""
}

func checkC13(c *Check) {
	P := c.P
	m := getHModel(P)
	R := m.R
	c.Assumes("percent-encoding and decoding of individual characters is delegated to net/url (url.Values.Encode, url.URL.String, url.Parse)")
	c.Rule("C13.R1", "the authorization URL is composed structurally: the Location of the login redirect is (*url.URL).String() of the URL parsed (err == nil) from the configured authorization URI, whose RawQuery is set to the url.Values encoding of the parameter table merged with the endpoint's own query; no configured URI is joined to a query string with a literal \"?\".", 4)
	c.Rule("C13.R2", "parameter table: the url.Values has exactly response_type=code, client_id, redirect_uri, scope (configured scopes joined by one space), state, nonce, code_challenge, code_challenge_method=S256 from their configured/issued sources; any further entry comes from the endpoint's own query and never overrides a table key.", 9)
	c.Rule("C13.R3", "return URL: the Location of the callback's success answer is the RequestedURL of the login state loaded for this session, and the RequestedURL stored at the redirect is scheme://host path [?query] of the request being redirected, with no re-encoding call on either side.", 2)
	c.Rule("C13.R4", "no-cache on every redirect: every denied response that receives a location header was created by the deny constructor that appends the standard headers, and those contain cache-control: no-cache and pragma: no-cache.", 4)
	// the URL that is stored for the way back is the one the client asked for: nothing on the way to the handler rewrites
	// the request (a trigger-rule evaluation that "normalises" the path in place changes where the user lands after login)
	requestIsReadOnly(c, "C13.R3")
	if !requireModel(c, "C13.R1", m, "redirect.", "hw.location", "newdeny", "cb.location", "cb.getstate") {
		return
	}
	rd := R.Redirect
	ff := FactsOf(rd)

	// ---- R1
	// with discovery the authorization endpoint is the one published by this filter's own discovery document
	discoveryCacheKeyRule(c, "C13.R1")
	discoveryWheneverConfigured(c, "C13.R1")
	discoveryFillsEndpoints(c, "C13.R1")
	// the configured client id, scopes, callback and endpoints are the strings the file contains (C17.R1)
	if c.ID == "C13" {
		importObls(c, "C17", checkC17, "C13.R2", func(o *Obligation) bool { return strings.HasPrefix(o.Key, "C17.R1/config-bytes-as-read") })
	}
	// … and the handler that builds the redirect is the matched filter's own (a handler cached under a chain name
	// would send the browser to another chain's authorization endpoint with another client id and callback)
	if pc := processInvoke(P, R); c.Anchor("C13.R1", "Handler.Process invocation in Check", pc != nil) {
		handlerBuiltPerCheck(c, "C13.R1", R.CheckEntry, pc)
	}
	loc := resolveCell(stripConv(m.RedirLocation))
	sc, _, isStr := asCall(loc)
	okStr := isStr && isCallTo(sc, "net/url.URL.String")
	var u ssa.Value
	var parse *ssa.Call
	if okStr {
		u = resolveCell(stripConv(sc.Common().Args[0]))
		if pc, pi, ok := asCall(u); ok && pi == 0 && isCallTo(pc, "net/url.Parse") {
			parse = pc
		}
	}
	c.Obl(okStr && parse != nil, "C13.R1", "location-is-url-string", P.Pos(rd.Pos()), "Location = (*url.URL).String() of a parsed URL",
		"the login redirect's Location is "+descDepth(loc, 3)+", not the rendering of a parsed URL (string-concatenated URLs break for endpoints with their own query)")
	if parse != nil {
		c.Obl(cfgGetter(parse.Common().Args[0], "GetAuthorizationUri") && ff.At(sc).CallErrNil(parse, 1), "C13.R1", "parsed-from-authorization-uri", P.Pos(parse.Pos()),
			"the URL is parsed from the configured authorization URI and used only when parsing succeeded", "the redirect URL is not parsed (err == nil) from the configured authorization URI")
		// RawQuery store
		okRQ := false
		for _, b := range rd.Blocks {
			for _, ins := range b.Instrs {
				st, ok := ins.(*ssa.Store)
				if !ok {
					continue
				}
				fa, isF := st.Addr.(*ssa.FieldAddr)
				if !isF || fieldAddrID(fa) != "net/url.URL.RawQuery" || !sameVal(fa.X, u) {
					continue
				}
				ec, _, isC := asCall(resolveCell(stripConv(st.Val)))
				if isC && isCallTo(ec, "net/url.Values.Encode") && resolveCell(stripConv(ec.Common().Args[0])) == m.RedirQueryMap {
					// the store precedes String() on all paths
					if mustPassBefore(rd, sc, func(i ssa.Instruction) bool { return i == ssa.Instruction(st) }) {
						okRQ = true
					}
				}
			}
		}
		c.Obl(okRQ, "C13.R1", "rawquery-is-encoded-table", P.Pos(parse.Pos()), "URL.RawQuery = table.Encode() before String()",
			"the URL's RawQuery is not set to the Encode() of the parameter table before rendering")
	}
	// forbid "?"-concatenation feeding any location value in the handler
	nq := 0
	for _, fn := range R.HandlerFuncs {
		for _, ci := range callsToFn(fn, m.LocationWriter.Fn) {
			v := ci.Common().Args[m.LocationWriter.ValIdx]
			for _, l := range Leaves(v, leafOpts{}) {
				if s, isC := constString(l); isC && (s == "?" || s == "&") {
					nq++
					c.Fail("C13.R1", "no-literal-question-mark/"+nthCallKey(ci), P.Pos(ci.Pos()), "a Location is assembled by joining strings with a literal "+s+" (only correct when the base URI has no query)")
				}
			}
		}
	}
	c.Obl(nq == 0, "C13.R1", "no-literal-question-mark", "-", "no Location is concatenated with a literal \"?\"", "Location values are concatenated with literal separators")

	// ---- R2
	want := map[string]func(ssa.Value) (bool, string){
		"response_type": func(v ssa.Value) (bool, string) { s, ok := constString(v); return ok && s == "code", "constant code" },
		"client_id":     func(v ssa.Value) (bool, string) { return cfgGetter(v, "GetClientId"), "configured client id" },
		"redirect_uri":  func(v ssa.Value) (bool, string) { return cfgGetter(v, "GetCallbackUri"), "configured callback URI" },
		"scope": func(v ssa.Value) (bool, string) {
			jc, _, ok := asCall(resolveCell(stripConv(v)))
			if !ok || !isCallTo(jc, "strings.Join") {
				return false, "strings.Join(configured scopes, \" \")"
			}
			sep, isC := constString(jc.Common().Args[1])
			return cfgGetter(jc.Common().Args[0], "GetScopes") && isC && sep == " ", "strings.Join(configured scopes, \" \")"
		},
		"state": func(v ssa.Value) (bool, string) {
			return resolveCell(stripConv(v)) == ssa.Value(m.GenState), "the issued state"
		},
		"nonce": func(v ssa.Value) (bool, string) {
			return resolveCell(stripConv(v)) == ssa.Value(m.GenNonce), "the issued nonce"
		},
		"code_challenge": func(v ssa.Value) (bool, string) {
			cc, _, ok := asCall(resolveCell(stripConv(v)))
			return ok && isCallTo(cc, "golang.org/x/oauth2.S256ChallengeFromVerifier") && resolveCell(stripConv(cc.Common().Args[0])) == ssa.Value(m.GenVerifier), "S256 challenge of the issued verifier"
		},
		"code_challenge_method": func(v ssa.Value) (bool, string) { s, ok := constString(v); return ok && s == "S256", "constant S256" },
	}
	var names []string
	for k := range want {
		names = append(names, k)
	}
	sort.Strings(names)
	for _, k := range names {
		v, has := m.RedirQuery[k]
		ok, what := false, ""
		if has {
			ok, what = want[k](v)
		} else {
			_, what = want[k](m.GenState)
		}
		c.Obl(has && ok, "C13.R2", "param/"+k, P.Pos(rd.Pos()), k+" ← "+what, fmt.Sprintf("authorization parameter %s is missing or is not %s (got %s)", k, what, descDepth(v, 3)))
	}
	c.Obl(len(m.RedirQuery) == len(want), "C13.R2", "param/exact", P.Pos(rd.Pos()), "exactly the eight OIDC parameters have constant keys",
		fmt.Sprintf("the parameter table has constant keys %v; expected exactly the eight OIDC parameters", tableKeys(m.RedirQuery)))
	// dynamic entries: only from the endpoint's own query, never overriding
	okDyn := true
	whyDyn := "no computed keys"
	for _, e := range m.RedirQueryDyn {
		fromEndpoint := false
		for d := range dataDeps(e.Key) {
			if qc, isC := d.(*ssa.Call); isC && isCallTo(qc, "net/url.URL.Query") {
				fromEndpoint = true
			}
		}
		// guarded by `_, ok := query[key]; !ok`
		guarded := false
		fs := ff.At(e.Instr)
		for cond, pol := range fs {
			if ex, isE := cond.(*ssa.Extract); isE && ex.Index == 1 {
				if lk, isL := ex.Tuple.(*ssa.Lookup); isL && resolveCell(stripConv(lk.X)) == m.RedirQueryMap && sameVal(lk.Index, e.Key) && !pol {
					guarded = true
				}
			}
		}
		if !fromEndpoint || !guarded {
			okDyn = false
			whyDyn = fmt.Sprintf("a computed key is written into the parameter table (from the endpoint's own query: %v, only when absent from the table: %v)", fromEndpoint, guarded)
		} else {
			whyDyn = "computed keys come from the authorization endpoint's own query and never override a table key"
		}
	}
	// the table may only be modified by indexed assignment of whole value lists (checked above); url.Values
	// methods that add or replace single values (Set keeps one value, Del drops) are not an accepted form
	for _, ci := range allCalls(rd) {
		cc, ok := ci.(*ssa.Call)
		if !ok {
			continue
		}
		id := funcID(calleeOf(cc).Obj)
		if (id == "net/url.Values.Set" || id == "net/url.Values.Add" || id == "net/url.Values.Del") && resolveCell(stripConv(cc.Common().Args[0])) == m.RedirQueryMap {
			okDyn = false
			whyDyn = "the parameter table is modified through " + shortID(id) + " (single values): a repeated parameter of the authorization endpoint's own query is not retained with all its values"
		}
	}
	// the endpoint's own query must be merged at all
	merged := len(m.RedirQueryDyn) > 0
	if !merged {
		for _, ci := range callsTo(rd, "net/url.URL.Query") {
			_ = ci
			merged = merged || false
		}
	}
	c.Obl(merged, "C13.R2", "param/endpoint-query-merged", P.Pos(rd.Pos()), "the authorization endpoint's own query is merged into the table",
		"the authorization endpoint's own query parameters are not merged into the redirect's parameters (any query of its own must be retained)")
	c.Obl(okDyn, "C13.R2", "param/endpoint-query-retained", P.Pos(rd.Pos()), whyDyn, whyDyn)

	// the scope parameter carries the exact scope "openid": the loader adds it unless the exact string is configured
	if df := P.Func(pkgInt, "applyOIDCDefaults"); c.Anchor("C13.R2", "scope-defaulting helper of the loader", df != nil) {
		openidScopeRule(c, "C13.R2", df)
	}

	// ---- R3
	stored := extractOf(m.CbGetState, 0)
	okLoc := isFieldOf(m.CbLocation, "RequestedURL", func(b ssa.Value) bool { return stored != nil && sameVal(b, stored) }) &&
		sameVal(callArgs(m.CbGetState)[1], m.CbSID)
	c.Obl(okLoc, "C13.R3", "callback-location", P.Pos(R.Callback.Pos()), "callback Location = RequestedURL of the login state loaded for this session, verbatim",
		"the callback's Location is "+descDepth(m.CbLocation, 3)+", not the verbatim RequestedURL of this session's login state")
	okReq, whyReq := false, "RequestedURL not assigned exactly once"
	if vals := m.RedirStateLit["RequestedURL"]; len(vals) == 1 && m.RedirHTTP != nil {
		okReq, whyReq = requestedURLLeavesOK(m, vals[0])
	}
	c.Obl(okReq, "C13.R3", "stored-return-url", P.Pos(rd.Pos()), "RequestedURL = scheme://host path [?query] of the current request", "stored return URL: "+whyReq)

	// ---- R4
	std := P.SSA[pkgAuthz].Var("standardResponseHeaders")
	if c.Anchor("C13.R4", "standardResponseHeaders", std != nil) {
		init := P.SSA[pkgAuthz].Func("init")
		pairs := map[string]string{}
		if init != nil {
			for _, b := range init.Blocks {
				for _, ins := range b.Instrs {
					if al, ok := ins.(*ssa.Alloc); ok && typeID(al.Type()) == pkgEnvoyCore+".HeaderValue" {
						fs := structFieldStores(al)
						if len(fs["Key"]) == 1 && len(fs["Value"]) == 1 {
							k, _ := constString(fs["Key"][0])
							v, _ := constString(fs["Value"][0])
							pairs[strings.ToLower(k)] = v
						}
					}
				}
			}
		}
		c.Obl(pairs["cache-control"] == "no-cache" && pairs["pragma"] == "no-cache", "C13.R4", "standard-headers", P.Pos(std.Pos()),
			"standard headers are cache-control: no-cache and pragma: no-cache", fmt.Sprintf("the standard response headers are %v", pairs))
		// deny constructor appends them
		appends := false
		for _, ci := range allCalls(m.NewDeny) {
			if cc, ok := ci.(*ssa.Call); ok {
				if bi, isB := cc.Call.Value.(*ssa.Builtin); isB && bi.Name() == "append" {
					for _, a := range cc.Call.Args {
						if isLoadOfGlobal(resolveCell(stripConv(a)), std) {
							appends = true
						}
					}
				}
			}
		}
		stored := false
		for _, r := range returnsOf(m.NewDeny) {
			al, isA := resolveCell(stripConv(r.Results[0])).(*ssa.Alloc)
			if isA && len(structFieldStores(al)["Headers"]) >= 1 {
				stored = true
			}
		}
		c.Obl(appends && stored, "C13.R4", "deny-constructor", P.Pos(m.NewDeny.Pos()), "the deny constructor appends the standard headers", "the deny constructor no longer appends the standard headers")
	}
	// every deny receiving a location comes from the deny constructor
	nLoc := 0
	for _, fn := range R.HandlerFuncs {
		for _, ci := range callsToFn(fn, m.LocationWriter.Fn) {
			nLoc++
			d := resolveCell(stripConv(ci.Common().Args[m.LocationWriter.DenyIdx]))
			dc, _, ok := asCall(d)
			c.Obl(ok && dc.Common().StaticCallee() == m.NewDeny, "C13.R4", "redirect-deny/"+nthCallKey(ci), P.Pos(ci.Pos()),
				"the redirect answer was created by the deny constructor (standard headers present)", "a redirect is written onto "+descDepth(d, 2)+", which does not carry the no-cache headers")
		}
	}
	// direct location appends (callback): header sites with key location resolved outside the location writer
	for _, hs := range headerSites(P, R) {
		if !strings.EqualFold(hs.KeyConst, "location") || hs.Fn == m.LocationWriter.Fn {
			continue
		}
		fn := hs.Fn
		nLoc++
		var built ssa.Value
		if v, ok := hs.At.(ssa.Value); ok {
			built = v
		}
		okDeny := false
		for _, b2 := range fn.Blocks {
			for _, i2 := range b2.Instrs {
				st, isS := i2.(*ssa.Store)
				if !isS {
					continue
				}
				fa, isF := st.Addr.(*ssa.FieldAddr)
				if !isF || fieldAddrID(fa) != idDenied+".Headers" {
					continue
				}
				if built == nil || !dataDeps(st.Val)[built] {
					continue
				}
				dc, _, isC := asCall(resolveCell(stripConv(fa.X)))
				if isC && dc.Common().StaticCallee() == m.NewDeny {
					keeps := false
					for d := range dataDeps(st.Val) {
						if base, f, okf := fieldLoad(d); okf && f != nil && f.Name() == "Headers" && sameVal(base, fa.X) {
							keeps = true
						}
					}
					okDeny = keeps
				}
			}
		}
		c.Obl(okDeny, "C13.R4", "redirect-deny/direct/"+fnKey(fn), P.Pos(instrPos(hs.At)), "location appended to the headers of a deny-constructor response (standard headers kept)",
			"a location header is added to a response that does not keep the deny constructor's no-cache headers")
	}
	c.Obl(nLoc >= 3, "C13.R4", "redirect-count", "-", fmt.Sprintf("%d redirect sites (login, logout, callback)", nLoc), fmt.Sprintf("only %d redirect sites found (floor 3)", nLoc))
	_ = token.ADD
}

// originsAre: every origin of v is the value want; parameters of own helper functions are followed to
// the arguments at all their call sites (want itself may be a parameter and is not followed further).
func originsAre(P *Program, v ssa.Value, want ssa.Value, depth int) bool {
	for _, l := range Leaves(v, leafOpts{noConcat: true}) {
		l = resolveCell(stripConv(l))
		if l == want {
			continue
		}
		p, isP := l.(*ssa.Parameter)
		if !isP || depth == 0 {
			return false
		}
		fn := p.Parent()
		idx := -1
		for i, q := range fn.Params {
			if q == p {
				idx = i
			}
		}
		callers := P.CallersOf(fn)
		if idx < 0 || len(callers) == 0 {
			return false
		}
		for _, c := range callers {
			if idx >= len(c.Common().Args) || !originsAre(P, c.Common().Args[idx], want, depth-1) {
				return false
			}
		}
	}
	return true
}
