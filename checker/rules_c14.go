package main

import (
	"fmt"
	"go/token"
	"go/types"
	"sort"
	"strings"

	"golang.org/x/tools/go/ssa"
)

func init() { registry["C14"] = checkC14 }

// secret classification of a value (a source of taint), or "".
func secretSource(v ssa.Value) string {
	// a whole secret-bearing object handed to a formatter (fmt's %v prints every field)
	if mi, ok := v.(*ssa.MakeInterface); ok {
		switch typeID(mi.X.Type()) {
		case idAuthState:
			return "login state object (contains the PKCE verifier)"
		case idTokenResponse:
			return "token object (ID, access and refresh token)"
		case pkgAuthz + ".idpTokensResponse":
			return "IdP answer object (all issued tokens)"
		case idOIDCConfig:
			return "configuration object (contains the client secret)"
		}
	}
	v = stripConv(v)
	if call, _, ok := asCall(v); ok {
		ce := calleeOf(call)
		id := funcID(ce.Obj)
		switch {
		case id == idOIDCConfig+".GetClientSecret":
			return "client secret"
		case id == idGeneratorIfc+".GenerateCodeVerifier":
			return "PKCE verifier"
		case id == "golang.org/x/oauth2.GenerateVerifier":
			return "PKCE verifier"
		case strings.HasSuffix(id, ".Error") && call.Common().IsInvoke():
			return "error text (may echo IdP/store content)"
		case id == "io.ReadAll":
			return "IdP response body"
		}
	}
	if base, f, ok := fieldLoad(v); ok && f != nil {
		switch typeID(base.Type()) {
		case idTokenResponse:
			switch f.Name() {
			case "IDToken":
				return "ID token"
			case "AccessToken":
				return "access token"
			case "RefreshToken":
				return "refresh token"
			}
		case idAuthState:
			if f.Name() == "CodeVerifier" {
				return "PKCE verifier"
			}
		case pkgAuthz + ".idpTokensResponse":
			switch f.Name() {
			case "IDToken", "AccessToken", "RefreshToken", "DeviceSecret":
				return "IdP-issued " + f.Name()
			}
		case idOIDCConfig:
			if f.Name() == "ClientSecretConfig" {
				return "client secret"
			}
		}
	}
	if isErrorType(v.Type()) {
		if _, isConst := v.(*ssa.Const); !isConst {
			return "error value (may echo IdP/store content)"
		}
	}
	return ""
}

func isSanitizer(c *ssa.Call) bool {
	return isCallTo(c, "golang.org/x/oauth2.S256ChallengeFromVerifier")
}

// taintOf: backward data dependence from v, stopping at the declared one-way sanitiser, continuing
// through parameters into every call site (bounded). Returns the secret classes that can reach v.
func taintOf(P *Program, v ssa.Value, depth int) map[string]ssa.Value {
	out := map[string]ssa.Value{}
	seen := map[ssa.Value]bool{}
	var walk func(v ssa.Value, d int)
	walk = func(v ssa.Value, d int) {
		if v == nil || seen[v] {
			return
		}
		seen[v] = true
		if s := secretSource(v); s != "" {
			out[s] = v
			// keep walking: a token field of a stored object is itself the source
		}
		// a field of a struct built in this function that is stored exactly once (before the load): the load
		// yields that value — the other fields of the object do not flow here
		if ld, isL := v.(*ssa.UnOp); isL && ld.Op == token.MUL {
			if fa, isFA := ld.X.(*ssa.FieldAddr); isFA {
				if sv := uniqueFieldStore(fa, ld); sv != nil {
					walk(sv, d)
					return
				}
			}
		}
		ins, ok := v.(ssa.Instruction)
		if !ok {
			if p, isP := v.(*ssa.Parameter); isP && d > 0 {
				fn := p.Parent()
				idx := -1
				for i, q := range fn.Params {
					if q == p {
						idx = i
					}
				}
				for _, site := range P.CallersOf(fn) {
					if idx >= 0 && idx < len(site.Common().Args) {
						walk(site.Common().Args[idx], d-1)
					}
				}
			}
			if fv, isF := v.(*ssa.FreeVar); isF {
				if b := freeVarBinding(fv); b != nil {
					walk(b, d)
				}
			}
			return
		}
		if call, isC := v.(*ssa.Call); isC {
			if isSanitizer(call) {
				return
			}
			// own callee: the result depends on what the callee returns
			if callee := call.Common().StaticCallee(); callee != nil && callee.Blocks != nil && isOwnPath(pkgPathOf(callee)) && d > 0 {
				for _, r := range returnsOf(callee) {
					for _, res := range r.Results {
						walk(res, d-1)
					}
				}
				// plus the arguments (through the callee's parameters, handled above when reached)
			}
			// generated getters on configuration: only the client secret getter is a source
			if isGeneratedGetter(calleeOf(call)) {
				return
			}
		}
		for _, op := range ins.Operands(nil) {
			if *op != nil {
				walk(*op, d)
			}
		}
		// a callee reads what its pointer arguments point to: stores made through those pointers in this
		// function are inputs of the call (u.RawQuery = …; u.String())
		if call, isC := v.(*ssa.Call); isC {
			for _, a := range call.Common().Args {
				if _, isPtr := a.Type().Underlying().(*types.Pointer); !isPtr {
					continue
				}
				if rs := a.Referrers(); rs != nil {
					for _, r := range *rs {
						if fa, isF := r.(*ssa.FieldAddr); isF {
							if frs := fa.Referrers(); frs != nil {
								for _, fr := range *frs {
									if st, isS := fr.(*ssa.Store); isS && st.Addr == ssa.Value(fa) {
										walk(st.Val, d)
									}
								}
							}
						}
					}
				}
			}
		}
		// library containers (url.Values, http.Header, *url.URL, builders) obtained from a call: whatever is
		// later passed to a call together with the container may end up inside it (q.Set(k, secret))
		if isLibraryContainer(v.Type()) {
			if rs := v.Referrers(); rs != nil {
				for _, r := range *rs {
					if ci, isC := r.(ssa.CallInstruction); isC {
						for _, arg := range ci.Common().Args {
							if arg != v {
								walk(arg, d)
							}
						}
					}
					if mu, isM := r.(*ssa.MapUpdate); isM && mu.Map == v {
						walk(mu.Key, d)
						walk(mu.Value, d)
					}
				}
			}
		}
		// memory
		var root ssa.Value
		switch x := v.(type) {
		case *ssa.UnOp:
			if x.Op.String() == "*" {
				// a field of a struct built in this function that is stored exactly once (before the load): the
				// load yields that value — the other fields of the object do not flow here
				if fa, isFA := x.X.(*ssa.FieldAddr); isFA {
					if sv := uniqueFieldStore(fa, x); sv != nil {
						walk(sv, d)
						return
					}
				}
				root = addrRoot(x.X)
			}
		case *ssa.Slice:
			root = addrRoot(x.X)
		case *ssa.Alloc, *ssa.MakeSlice, *ssa.MakeMap:
			root = v
		}
		if root != nil {
			var visitAddr func(a ssa.Value, depth int)
			visitAddr = func(a ssa.Value, depth int) {
				if depth > 4 {
					return
				}
				rs := a.Referrers()
				if rs == nil {
					return
				}
				for _, r := range *rs {
					switch x := r.(type) {
					case *ssa.Store:
						if x.Addr == a {
							walk(x.Val, d)
						}
					case *ssa.MapUpdate:
						if x.Map == a {
							walk(x.Key, d)
							walk(x.Value, d)
						}
					case *ssa.IndexAddr:
						visitAddr(x, depth+1)
					case *ssa.FieldAddr:
						visitAddr(x, depth+1)
					case *ssa.Slice:
						visitAddr(x, depth+1)
					case *ssa.ChangeType:
						visitAddr(x, depth+1)
					case ssa.CallInstruction:
						if depth == 0 && isLocalObject(root) {
							for _, arg := range x.Common().Args {
								if arg != a {
									walk(arg, d)
								}
							}
						}
					}
				}
			}
			visitAddr(root, 0)
		}
	}
	walk(v, depth)
	return out
}

// isLibraryContainer: maps, and pointers to structs of net/url, net/http, strings, bytes.
func isLibraryContainer(t types.Type) bool {
	switch x := t.Underlying().(type) {
	case *types.Map:
		return true
	case *types.Pointer:
		if n, ok := x.Elem().(*types.Named); ok && n.Obj().Pkg() != nil {
			switch n.Obj().Pkg().Path() {
			case "net/url", "net/http", "strings", "bytes":
				return true
			}
		}
	}
	return false
}

func taintNames(m map[string]ssa.Value) []string {
	var o []string
	for k := range m {
		o = append(o, k)
	}
	sort.Strings(o)
	return o
}

func checkC14(c *Check) {
	P := c.P
	m := getHModel(P)
	R := m.R
	c.Assumes("session id, state, nonce and the S256 challenge are not secrets for this property; encodings applied inside libraries and log output (not sent to the browser) are not examined")
	c.Rule("C14.R1", "deny sinks are clean: no value stored into DeniedHttpResponse.Body, into a HeaderValue that is built in the handler outside the OK writer (denials and redirects), or into status.Status.Message / the server's deny message, data-depends (interprocedurally, through parameters and own callees, stopping at the S256 challenge hash) on the client secret, a PKCE verifier, an ID/access/refresh token, an IdP response body or an error value. Every kind of browser-bound sink (body, header value) must be found at least once.", 5)
	c.Rule("C14.R2", "the OK sink is exact: the headers the OK writer adds carry no secret other than the ID token and the access token of the token object it was given (never the refresh token, client secret or verifier).", 2)
	c.Rule("C14.R3", "errors are not echoed: no error value or error text flows into any response sink.", 1)
	if !requireModel(c, "C14.R1", m, "hw.") {
		return
	}
	// what a check writes into its answer reaches only the user agent of that check
	responseFreshPerCheck(c, "C14.R2", R)
	secretDataStaysSecret(c, "C14.R1")
	if c.ID == "C14" {
		// what is forwarded is what this filter configured: an override is merged into an own copy of the defaults (C18.R3)
		importObls(c, "C18", checkC18, "C14.R2", func(o *Obligation) bool { return strings.HasPrefix(o.Key, "C18.R3/merge-into-own-copy") })
		// the values a login hands to the browser and the PKCE verifier are independent CSPRNG draws (C06.R1, C06.R3)
		importObls(c, "C06", checkC06, "C14.R1", func(o *Obligation) bool {
			return strings.HasPrefix(o.Key, "C06.R1/") || strings.HasPrefix(o.Key, "C06.R3/stateless")
		})
	}
	// the OK writer forwards what the matched filter configures: the handler is the filter's own
	if pc := processInvoke(P, R); c.Anchor("C14.R2", "Handler.Process invocation in Check", pc != nil) {
		handlerBuiltPerCheck(c, "C14.R2", R.CheckEntry, pc)
	}
	type sink struct {
		v     ssa.Value
		what  string
		where ssa.Instruction
		fn    *ssa.Function
		ok    bool // belongs to the OK writer
	}
	var sinks []sink
	fnsToScan := append([]*ssa.Function{}, R.HandlerFuncs...)
	for _, fn := range P.Funcs {
		if pkgPathOf(fn) == pkgServer {
			fnsToScan = append(fnsToScan, fn)
		}
	}
	for _, fn := range fnsToScan {
		inOK := fn == R.AllowFn || (fn.Parent() != nil && fn.Parent() == R.AllowFn)
		for _, b := range fn.Blocks {
			for _, ins := range b.Instrs {
				switch x := ins.(type) {
				case *ssa.Store:
					fa, ok := x.Addr.(*ssa.FieldAddr)
					if !ok {
						continue
					}
					switch fieldAddrID(fa) {
					case idDenied + ".Body":
						sinks = append(sinks, sink{x.Val, "DeniedHttpResponse.Body", x, fn, false})
					case pkgStatus + ".Status.Message":
						sinks = append(sinks, sink{x.Val, "Status.Message", x, fn, false})
					case pkgEnvoyCore + ".HeaderValue.RawValue":
						sinks = append(sinks, sink{x.Val, shortID(fieldAddrID(fa)), x, fn, inOK})
					}
				}
			}
		}
	}
	// header keys and values, resolved through header-building helpers to the function that decides them
	for _, hs := range headerSites(P, R) {
		inOK := hs.Fn == R.AllowFn
		if hs.KeyVal != nil {
			sinks = append(sinks, sink{hs.KeyVal, "v3.HeaderValue.Key", hs.At, hs.Fn, inOK})
		}
		if hs.Val != nil {
			sinks = append(sinks, sink{hs.Val, "v3.HeaderValue.Value", hs.At, hs.Fn, inOK})
		}
	}
	// the tokens of an OK answer go to the upstream request only: OkHttpResponse.Headers. The other lists of the OK
	// response (response_headers_to_add is sent downstream, to the user agent) never receive the Headers list, an
	// option taken from it, or a header built from a secret
	nOther := 0
	for _, fn := range P.Funcs {
		if !isOwnPath(pkgPathOf(fn)) {
			continue
		}
		for _, b := range fn.Blocks {
			for _, ins := range b.Instrs {
				st, isS := ins.(*ssa.Store)
				if !isS {
					continue
				}
				fa, isF := st.Addr.(*ssa.FieldAddr)
				if !isF || typeID(derefType(fa.X.Type())) != idOkHTTP {
					continue
				}
				f := fieldOf(fa.X.Type(), fa.Field)
				if f == nil || f.Name() == "Headers" || !f.Exported() {
					continue
				}
				nOther++
				bad := ""
				for d := range dataDeps(st.Val) {
					if base, lf, isL := fieldLoad(d); isL && lf != nil && lf.Name() == "Headers" && typeID(derefType(base.Type())) == idOkHTTP {
						bad = "the upstream header list (OkHttpResponse.Headers) flows into it"
					}
					if cl, isC := d.(*ssa.Call); isC && isCallTo(cl, idOkHTTP+".GetHeaders") {
						bad = "the upstream header list (GetHeaders()) flows into it"
					}
					if hfa, isH := d.(*ssa.FieldAddr); isH {
						id := fieldAddrID(hfa)
						if id == pkgEnvoyCore+".HeaderValue.Value" || id == pkgEnvoyCore+".HeaderValue.RawValue" {
							for _, hs := range storesTo(hfa) {
								if t := taintOf(P, hs.Val, 4); len(t) > 0 {
									bad = fmt.Sprintf("a header carrying %v flows into it", taintNames(t))
								}
							}
						}
					}
				}
				c.Obl(bad == "", "C14.R2", "ok-other-lists/"+fnKey(fn)+"/"+f.Name(), P.Pos(st.Pos()), "OkHttpResponse."+f.Name()+" receives no token-bearing header",
					"OkHttpResponse."+f.Name()+" is not the upstream header list, yet "+bad+": the tokens are returned to the user agent")
			}
		}
	}
	if nOther == 0 {
		c.Pass("C14.R2", "ok-other-lists", "-", "own code writes no list of the OK response other than Headers")
	}
	nDeny := 0
	errFlows := 0
	for i, s := range sinks {
		t := taintOf(P, s.v, 4)
		if s.ok {
			// R2
			extra := []string{}
			for k := range t {
				if k != "ID token" && k != "access token" {
					extra = append(extra, k)
				}
			}
			sort.Strings(extra)
			c.Obl(len(extra) == 0, "C14.R2", fmt.Sprintf("ok-header/%s#%d", s.what, i), P.Pos(instrPos(s.where)),
				fmt.Sprintf("OK header %s carries only %v", s.what, taintNames(t)),
				fmt.Sprintf("the OK writer's %s can carry %v: more than the ID token and the access token reaches the upstream request", s.what, extra))
			continue
		}
		nDeny++
		names := taintNames(t)
		for _, n := range names {
			if strings.HasPrefix(n, "error") {
				errFlows++
			}
		}
		c.Obl(len(t) == 0, "C14.R1", fmt.Sprintf("deny-sink/%s/%s#%d", fnKey(s.fn), s.what, i), P.Pos(instrPos(s.where)),
			s.what+" in "+fnKey(s.fn)+" is built from constants, configuration, the session id / state / nonce / challenge and request data only",
			fmt.Sprintf("%s in %s can carry %v back to the user agent (via %s)", s.what, fnKey(s.fn), names, firstDesc(t)))
	}
	kinds := map[string]int{}
	for _, s := range sinks {
		if !s.ok {
			kinds[s.what]++
		}
	}
	// the token object the OK writer forwards holds each token in its own field: in every function that builds
	// a TokenResponse (callback, refresh merge) a token field is assigned only from the same-named field of the
	// provider's answer or of the stored tokens — a refresh token filed under AccessToken would be forwarded upstream
	nTok := 0
	for _, hf := range R.HandlerFuncs {
		for _, b := range hf.Blocks {
			for _, ins := range b.Instrs {
				st, ok := ins.(*ssa.Store)
				if !ok {
					continue
				}
				fa, isF := st.Addr.(*ssa.FieldAddr)
				if !isF || typeID(fa.X.Type()) != idTokenResponse {
					continue
				}
				name := fieldName(fa.X.Type(), fa.Field)
				if name != "IDToken" && name != "AccessToken" && name != "RefreshToken" {
					continue
				}
				nTok++
				bad := ""
				src := resolveCell(stripConv(st.Val))
				for _, l := range Leaves(src, leafOpts{noConcat: true}) {
					if base, f, isL := fieldLoad(resolveCell(stripConv(l))); isL && f != nil {
						tid := typeID(base.Type())
						if (tid == idTokenResponse || tid == pkgAuthz+".idpTokensResponse") && f.Name() != name {
							bad = shortID(tid) + "." + f.Name()
						}
					}
				}
				c.Obl(bad == "", "C14.R2", fmt.Sprintf("token-field-correspondence/%s/%s#%d", fnKey(hf), name, nTok), P.Pos(st.Pos()),
					"TokenResponse."+name+" is assigned from the same-named field of the answer or of the stored tokens",
					"TokenResponse."+name+" is assigned from "+bad+" in "+fnKey(hf)+": a token is filed under another token's name and the OK writer forwards it under that name")
			}
		}
	}
	c.Obl(nTok >= 4, "C14.R2", "token-field-writes", "-", fmt.Sprintf("%d assignments of token fields analysed", nTok), fmt.Sprintf("only %d assignments of TokenResponse token fields found in the handler", nTok))
	c.Obl(nDeny >= 4 && kinds["DeniedHttpResponse.Body"] > 0 && kinds["v3.HeaderValue.Value"] >= 2, "C14.R1", "sink-count", "-",
		fmt.Sprintf("%d browser-bound sinks analysed (%v)", nDeny, kinds),
		fmt.Sprintf("only %d browser-bound sinks found (%v): a body sink and at least the Location and Set-Cookie value sinks are expected", nDeny, kinds))
	c.Obl(errFlows == 0, "C14.R3", "no-error-echo", "-", "no error value reaches a response sink", fmt.Sprintf("%d response sinks can carry error text", errFlows))
	// server deny(code, message) call sites
	for _, fn := range P.Funcs {
		if pkgPathOf(fn) != pkgServer {
			continue
		}
		for _, ci := range allCalls(fn) {
			cc, ok := ci.(*ssa.Call)
			if !ok || cc.Common().StaticCallee() != nil || cc.Common().IsInvoke() {
				continue
			}
			args := cc.Common().Args
			if len(args) == 2 && isCodeType(args[0].Type()) && isString(args[1].Type()) {
				t := taintOf(P, args[1], 3)
				c.Obl(len(t) == 0, "C14.R1", "deny-message/"+nthCallKey(cc), P.Pos(cc.Pos()), "deny message is clean", fmt.Sprintf("the deny message can carry %v", taintNames(t)))
			}
		}
	}
}

func firstDesc(t map[string]ssa.Value) string {
	for _, k := range taintNames(t) {
		return descDepth(t[k], 3)
	}
	return ""
}

// secretDataStaysSecret: what the secret controller reads from a Kubernetes Secret's data is stored only as
// the client secret of the filters that reference it. Any other field of the configuration (client id,
// URIs, scopes, cookie prefix …) ends up in redirects, cookies or logs that reach the user agent.
func secretDataStaysSecret(c *Check, rule string) {
	P := c.P
	fromSecretData := func(v ssa.Value) bool {
		for d := range dataDeps(v) {
			lk, ok := d.(*ssa.Lookup)
			if !ok {
				continue
			}
			if base, f, isL := fieldLoad(resolveCell(stripConv(lk.X))); isL && f != nil && (f.Name() == "Data" || f.Name() == "StringData") &&
				typeID(derefType(base.Type())) == "k8s.io/api/core/v1.Secret" {
				return true
			}
		}
		return false
	}
	n, nOK := 0, 0
	for _, fn := range P.Funcs {
		if !isOwnPath(pkgPathOf(fn)) {
			continue
		}
		for _, b := range fn.Blocks {
			for _, ins := range b.Instrs {
				st, isS := ins.(*ssa.Store)
				if !isS {
					continue
				}
				fa, isF := st.Addr.(*ssa.FieldAddr)
				if !isF || !fromSecretData(st.Val) {
					continue
				}
				n++
				id := fieldAddrID(fa)
				ok := strings.HasSuffix(id, ".OIDCConfig_ClientSecret.ClientSecret") || strings.HasSuffix(id, ".OIDCConfig.ClientSecretConfig")
				if ok {
					nOK++
				}
				c.Obl(ok, rule, "secret-data-sink/"+fnKey(fn)+"/"+shortID(id), P.Pos(st.Pos()), "Secret data is stored as the client secret",
					"data read from a Kubernetes Secret is stored into "+shortID(id)+": that setting is sent to the user agent (redirect parameters, cookie names) or logged")
			}
		}
	}
	c.Obl(nOK >= 1, rule, "secret-data-sinks", "-", fmt.Sprintf("%d stores of Secret data, all into the client secret", n), "no store of Secret data into the client secret found (anchor lost)")
}
