package main

// Inlining of own range-over-func iterators in the normal forms (DESIGN 3.9): a loop
//
//	for x := range helper(args) { BODY }
//
// over a freshly introduced helper whose whole body is `return func(yield func(T) bool) { LOOPS }`, with yield used
// only as `if !yield(E) { return }`, is rewritten into LOOPS with BODY substituted for the yield statement. `break` in
// BODY leaves the whole construct, `continue` in BODY ends the substituted body only, `return` in BODY stays a return
// of the enclosing function, `return` in LOOPS leaves the construct. The rewrite is refused whenever a name used in
// BODY would be captured by a name the iterator declares. The result is type-checked again like every other form.

import (
	"fmt"
	"go/ast"
	"go/token"
	"go/types"
	"os"
	"sort"
	"strconv"
	"strings"

	"golang.org/x/tools/go/types/typeutil"
)

type repl struct {
	s, e int
	text string
}

func (nz *Normalizer) spliced(file string, from, to int, rs []repl) string {
	src := nz.content(file)
	sort.Slice(rs, func(i, j int) bool { return rs[i].s < rs[j].s })
	var sb strings.Builder
	at := from
	for _, r := range rs {
		if r.s < at || r.e > to {
			continue
		}
		sb.Write(src[at:r.s])
		sb.WriteString(r.text)
		at = r.e
	}
	sb.Write(src[at:to])
	return sb.String()
}

func (nz *Normalizer) iterEdits(P *Program) (map[string][]textEdit, int) {
	fset := P.Fset
	edits := map[string][]textEdit{}
	n := 0
	for _, pkg := range P.Pkgs {
		if strings.Contains(pkg.PkgPath, "/config/gen/") {
			continue
		}
		decls := map[*types.Func]*ast.FuncDecl{}
		declFile := map[*types.Func]*ast.File{}
		for _, f := range pkg.Syntax {
			if hasDirective(f) || ast.IsGenerated(f) {
				continue
			}
			for _, d := range f.Decls {
				if fd, ok := d.(*ast.FuncDecl); ok && fd.Body != nil {
					if obj, _ := pkg.TypesInfo.Defs[fd.Name].(*types.Func); obj != nil {
						decls[obj] = fd
						declFile[obj] = f
					}
				}
			}
		}
		for _, f := range pkg.Syntax {
			if hasDirective(f) || ast.IsGenerated(f) {
				continue
			}
			file := fset.Position(f.Pos()).Filename
			var taken [][2]int
			var stack []ast.Node
			ast.Inspect(f, func(nd ast.Node) bool {
				if nd == nil {
					stack = stack[:len(stack)-1]
					return true
				}
				stack = append(stack, nd)
				rs, ok := nd.(*ast.RangeStmt)
				if !ok {
					return true
				}
				if len(stack) >= 2 {
					if _, labelled := stack[len(stack)-2].(*ast.LabeledStmt); labelled {
						return true
					}
				}
				call, ok := rs.X.(*ast.CallExpr)
				if !ok {
					return true
				}
				fn, _ := typeutil.Callee(pkg.TypesInfo, call).(*types.Func)
				fd := decls[fn]
				if fn == nil || fd == nil || nz.pinned[funcKey(fn)] {
					return true
				}
				desc := "inline iterator " + funcKey(fn) + " at " + fset.Position(rs.Pos()).String()
				if nz.dropped[desc] {
					return true
				}
				s, e := fset.Position(rs.Pos()).Offset, fset.Position(rs.End()).Offset
				for _, t := range taken {
					if s < t[1] && t[0] < e {
						return true // nested in a loop rewritten in this pass: next pass
					}
				}
				text, why := nz.iterSite(P, pkg.TypesInfo, file, fset.Position(declFile[fn].Pos()).Filename, rs, call, fn, fd)
				if why != "" {
					if debugNF() {
						fmt.Printf("  NF skip iterator %s at %s: %s\n", funcKey(fn), fset.Position(rs.Pos()), why)
					}
					return true
				}
				edits[file] = append(edits[file], textEdit{start: s, end: e, text: text, site: desc, site2: file})
				taken = append(taken, [2]int{s, e})
				n++
				return true
			})
		}
	}
	return edits, n
}

func (nz *Normalizer) iterSite(P *Program, info *types.Info, file, dfile string, rs *ast.RangeStmt, call *ast.CallExpr, fn *types.Func, fd *ast.FuncDecl) (string, string) {
	fset := P.Fset
	off := func(p token.Pos) int { return fset.Position(p).Offset }
	sig := fn.Type().(*types.Signature)
	if sig.TypeParams() != nil || sig.RecvTypeParams() != nil || sig.Variadic() {
		return "", "generic or variadic iterator"
	}
	if len(fd.Body.List) != 1 {
		return "", "iterator body is not a single return"
	}
	ret, ok := fd.Body.List[0].(*ast.ReturnStmt)
	if !ok || len(ret.Results) != 1 {
		return "", "iterator body is not a single return"
	}
	fl, ok := ret.Results[0].(*ast.FuncLit)
	if !ok || fl.Type.Params == nil || len(fl.Type.Params.List) != 1 || len(fl.Type.Params.List[0].Names) != 1 {
		return "", "iterator does not return a function literal with a named yield parameter"
	}
	yieldObj := info.Defs[fl.Type.Params.List[0].Names[0]]
	if yieldObj == nil {
		return "", "yield parameter unresolved"
	}
	nz.counter++
	id := "inlIt" + strconv.Itoa(nz.counter)
	// ---- the loop body
	if rs.Tok != token.DEFINE && (rs.Key != nil || rs.Value != nil) {
		return "", "range assigns to existing variables"
	}
	var bodyRepl []repl
	usedL, usedC := false, false
	bad := ""
	localLabels := map[string]bool{}
	ast.Inspect(rs.Body, func(m ast.Node) bool {
		if ls, ok := m.(*ast.LabeledStmt); ok {
			localLabels[ls.Label.Name] = true
		}
		return true
	})
	var walkBody func(n ast.Node, inLoop, inSwitch bool)
	walkBody = func(n ast.Node, inLoop, inSwitch bool) {
		ast.Inspect(n, func(m ast.Node) bool {
			if m == nil || m == n {
				return true
			}
			switch x := m.(type) {
			case *ast.FuncLit:
				return false
			case *ast.ForStmt:
				walkBody(x.Body, true, false)
				return false
			case *ast.RangeStmt:
				walkBody(x.Body, true, false)
				return false
			case *ast.SwitchStmt:
				walkBody(x.Body, inLoop, true)
				return false
			case *ast.TypeSwitchStmt:
				walkBody(x.Body, inLoop, true)
				return false
			case *ast.SelectStmt:
				walkBody(x.Body, inLoop, true)
				return false
			case *ast.LabeledStmt:
				localLabels[x.Label.Name] = true
			case *ast.DeferStmt:
				// a defer in the body runs at the end of the enclosing function in both forms
			case *ast.BranchStmt:
				if x.Label != nil {
					// a label inside the body, or one that encloses the (unlabelled) range statement: unaffected
					return false
				}
				switch x.Tok {
				case token.BREAK:
					if !inLoop && !inSwitch {
						bodyRepl = append(bodyRepl, repl{off(x.Pos()), off(x.End()), "break " + id + "L"})
						usedL = true
					}
				case token.CONTINUE:
					if !inLoop {
						bodyRepl = append(bodyRepl, repl{off(x.Pos()), off(x.End()), "break " + id + "C"})
						usedC = true
					}
				case token.GOTO, token.FALLTHROUGH:
					if x.Tok == token.GOTO {
						bad = "goto in the loop body"
					}
				}
			}
			return true
		})
	}
	walkBody(rs.Body, false, false)
	if bad != "" {
		return "", bad
	}
	// names the iterator declares must not capture names the body uses from outside
	declared := map[string]bool{}
	ast.Inspect(fd, func(m ast.Node) bool {
		if idn, ok := m.(*ast.Ident); ok {
			if info.Defs[idn] != nil {
				declared[idn.Name] = true
			}
		}
		return true
	})
	// a receiver or parameter of the iterator that is handed the caller's variable of the same name stands for the same value
	sameBinding := map[types.Object]bool{}
	{
		sig0 := fn.Type().(*types.Signature)
		if sel, isSel := call.Fun.(*ast.SelectorExpr); isSel && sig0.Recv() != nil {
			if ri, isI := sel.X.(*ast.Ident); isI && ri.Name == sig0.Recv().Name() && info.Uses[ri] != nil {
				sameBinding[info.Uses[ri]] = true
			}
		}
		for i := 0; i < sig0.Params().Len() && i < len(call.Args); i++ {
			if ai, isI := call.Args[i].(*ast.Ident); isI && ai.Name == sig0.Params().At(i).Name() && info.Uses[ai] != nil {
				sameBinding[info.Uses[ai]] = true
			}
		}
	}
	assigned := map[string]bool{}
	ast.Inspect(fd, func(m ast.Node) bool {
		switch x := m.(type) {
		case *ast.AssignStmt:
			if x.Tok != token.DEFINE {
				for _, l := range x.Lhs {
					if li := identOf(l); li != nil {
						assigned[li.Name] = true
					}
				}
			}
		case *ast.IncDecStmt:
			if li := identOf(x.X); li != nil {
				assigned[li.Name] = true
			}
		case *ast.UnaryExpr:
			if x.Op == token.AND {
				if li := identOf(x.X); li != nil {
					assigned[li.Name] = true
				}
			}
		}
		return true
	})
	ast.Inspect(rs.Body, func(m ast.Node) bool {
		idn, ok := m.(*ast.Ident)
		if !ok {
			return true
		}
		obj := info.Uses[idn]
		if obj == nil || obj.Pkg() == nil {
			return true
		}
		if sameBinding[obj] && !assigned[idn.Name] {
			return true
		}
		if obj.Parent() == obj.Pkg().Scope() {
			// package-level name: must not be shadowed by the iterator's names either
			if declared[idn.Name] {
				bad = "name " + idn.Name + " of the loop body would be captured by the iterator"
			}
			return true
		}
		if obj.Pos() >= rs.Body.Pos() && obj.Pos() < rs.Body.End() {
			return true // declared inside the body
		}
		if _, isField := obj.(*types.Var); isField && obj.(*types.Var).IsField() {
			return true
		}
		if declared[idn.Name] {
			// the loop's own variables are re-declared under the same name: fine
			if (rs.Key != nil && info.Defs[identOf(rs.Key)] == obj) || (rs.Value != nil && info.Defs[identOf(rs.Value)] == obj) {
				return true
			}
			bad = "name " + idn.Name + " of the loop body would be captured by the iterator"
		}
		return true
	})
	if bad != "" {
		return "", bad
	}
	bodyText := nz.spliced(file, off(rs.Body.Lbrace)+1, off(rs.Body.Rbrace), bodyRepl)
	// ---- the iterator's loops
	var itRepl []repl
	nYield, nUse := 0, 0
	ast.Inspect(fl.Body, func(m ast.Node) bool {
		if idn, ok := m.(*ast.Ident); ok && info.Uses[idn] == yieldObj {
			nUse++
		}
		return true
	})
	var walkIt func(n ast.Node)
	walkIt = func(n ast.Node) {
		ast.Inspect(n, func(m ast.Node) bool {
			if m == nil {
				return true
			}
			switch x := m.(type) {
			case *ast.FuncLit:
				if x != fl {
					return false
				}
			case *ast.DeferStmt, *ast.GoStmt, *ast.LabeledStmt:
				bad = "defer, go or label in the iterator"
			case *ast.BranchStmt:
				if x.Tok == token.GOTO {
					bad = "goto in the iterator"
				}
			case *ast.ReturnStmt:
				itRepl = append(itRepl, repl{off(x.Pos()), off(x.End()), "break " + id + "L"})
				usedL = true
			case *ast.IfStmt:
				// if !yield(E…) { return }
				un, isU := x.Cond.(*ast.UnaryExpr)
				if !isU || un.Op != token.NOT || x.Init != nil || x.Else != nil {
					return true
				}
				yc, isC := un.X.(*ast.CallExpr)
				if !isC {
					return true
				}
				yi, isI := yc.Fun.(*ast.Ident)
				if !isI || info.Uses[yi] != yieldObj {
					return true
				}
				if len(x.Body.List) != 1 {
					bad = "yield failure does more than return"
					return false
				}
				if r, isR := x.Body.List[0].(*ast.ReturnStmt); !isR || len(r.Results) != 0 {
					bad = "yield failure does more than return"
					return false
				}
				nYield++
				src := nz.content(dfile)
				var bind strings.Builder
				vars := []ast.Expr{rs.Key, rs.Value}
				for i, a := range yc.Args {
					at := string(src[off(a.Pos()):off(a.End())])
					if i < len(vars) && vars[i] != nil && identOf(vars[i]) != nil && identOf(vars[i]).Name != "_" {
						name := identOf(vars[i]).Name
						fmt.Fprintf(&bind, "%s := %s\n_ = %s\n", name, at, name)
					} else {
						fmt.Fprintf(&bind, "_ = %s\n", at)
					}
				}
				cl := id + "C" + strconv.Itoa(nYield)
				body := strings.ReplaceAll(bodyText, "break "+id+"C", "break "+cl)
				var sb strings.Builder
				sb.WriteString("{\n" + bind.String())
				if usedC {
					fmt.Fprintf(&sb, "%s:\nfor %s_o := true; %s_o; %s_o = false {\n%s\n}\n", cl, cl, cl, cl, body)
				} else {
					sb.WriteString("{\n" + body + "\n}\n")
				}
				sb.WriteString("}")
				itRepl = append(itRepl, repl{off(x.Pos()), off(x.End()), sb.String()})
				return false
			}
			return true
		})
	}
	walkIt(fl.Body)
	if bad != "" {
		return "", bad
	}
	if nYield == 0 || nYield != nUse {
		return "", "yield is used in another form than `if !yield(…) { return }`"
	}
	if file != dfile {
		// the iterator lives in another file of the package: its text may use that file's import names
		for _, im := range importNamesUsed(info, fl.Body) {
			_ = im
			return "", "iterator in another file uses imported names"
		}
	}
	loops := nz.spliced(dfile, off(fl.Body.Lbrace)+1, off(fl.Body.Rbrace), itRepl)
	// ---- parameters
	var names, temps, args []string
	qual := func(p *types.Package) string {
		if p == fn.Pkg() {
			return ""
		}
		return p.Name()
	}
	var decl strings.Builder
	k := 0
	if sig.Recv() != nil {
		sel, ok := call.Fun.(*ast.SelectorExpr)
		if !ok {
			return "", "method iterator not called through a selector"
		}
		src := nz.content(file)
		recvText := string(src[off(sel.X.Pos()):off(sel.X.End())])
		rt := info.TypeOf(sel.X)
		_, wantPtr := sig.Recv().Type().(*types.Pointer)
		_, havePtr := rt.(*types.Pointer)
		if wantPtr && !havePtr {
			recvText = "&" + recvText
		} else if !wantPtr && havePtr {
			recvText = "*" + recvText
		}
		name := sig.Recv().Name()
		if name == "" || name == "_" {
			name = id + "_r"
		}
		t := id + "_a" + strconv.Itoa(k)
		k++
		fmt.Fprintf(&decl, "var %s %s = %s\n", t, types.TypeString(sig.Recv().Type(), qual), recvText)
		names, temps = append(names, name), append(temps, t)
	}
	src := nz.content(file)
	for i := 0; i < sig.Params().Len(); i++ {
		p := sig.Params().At(i)
		if i >= len(call.Args) {
			return "", "argument count"
		}
		name := p.Name()
		if name == "" || name == "_" {
			name = id + "_p" + strconv.Itoa(i)
		}
		t := id + "_a" + strconv.Itoa(k)
		k++
		fmt.Fprintf(&decl, "var %s %s = %s\n", t, types.TypeString(p.Type(), qual), string(src[off(call.Args[i].Pos()):off(call.Args[i].End())]))
		names, temps = append(names, name), append(temps, t)
		args = append(args, name)
	}
	var sb strings.Builder
	sb.WriteString("{\n" + decl.String() + "{\n")
	if len(names) > 0 {
		fmt.Fprintf(&sb, "%s := %s\n_ = []any{%s}\n", strings.Join(names, ", "), strings.Join(temps, ", "), strings.Join(names, ", "))
	}
	if usedL {
		fmt.Fprintf(&sb, "%sL:\n", id)
	}
	fmt.Fprintf(&sb, "for %s_o := true; %s_o; %s_o = false {\n%s\n}\n}\n}", id, id, id, loops)
	return sb.String(), ""
}

func identOf(e ast.Expr) *ast.Ident {
	idn, _ := e.(*ast.Ident)
	return idn
}

func importNamesUsed(info *types.Info, n ast.Node) []string {
	var out []string
	ast.Inspect(n, func(m ast.Node) bool {
		if idn, ok := m.(*ast.Ident); ok {
			if pn, isP := info.Uses[idn].(*types.PkgName); isP {
				out = append(out, pn.Name())
			}
		}
		return true
	})
	return out
}

func debugNF() bool { return debugNFEnv }

var debugNFEnv = os.Getenv("VERIF_NF_DEBUG") != ""
