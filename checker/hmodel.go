package main

import (
	"strings"

	"golang.org/x/tools/go/ssa"
)

// Handler model: the structured facts about the login redirect and the callback that several
// properties (C03, C04, C05, C09, C11, C13, C14) read. Everything is resolved from SSA values.

type headerWriter struct {
	Fn      *ssa.Function
	KeyName string // constant header key it appends ("location", "set-cookie")
	ValIdx  int    // parameter index of the header value
	DenyIdx int    // parameter index of the *DeniedHttpResponse
}

type hModel struct {
	R *Roles

	LocationWriter  *headerWriter
	SetCookieWriter *headerWriter
	CookieBuilder   *ssa.Function // generateSetCookieHeader
	CookieDirs      *ssa.Function // getCookieDirectives
	NewDeny         *ssa.Function // newDenyResponse (appends the standard headers)
	SessionErrDeny  *ssa.Function // newSessionErrorResponse

	// redirect
	GenSID, GenNonce, GenState, GenVerifier *ssa.Call
	RedirSetState                           *ssa.Call
	RedirStateLit                           map[string][]ssa.Value
	RedirQuery                              map[string]ssa.Value
	RedirQueryDyn                           []mapEntry
	RedirQueryMap                           ssa.Value
	RedirLocation                           ssa.Value // value passed to the location writer
	RedirCookie                             *ssa.Call // call of the cookie builder
	RedirRemove                             *ssa.Call
	OldSID                                  *ssa.Parameter
	RedirHTTP                               *ssa.Parameter

	// callback
	CbSID        *ssa.Parameter
	CbSplit      *ssa.Call
	CbParseQuery *ssa.Call
	CbStateReq   ssa.Value
	CbCodeReq    ssa.Value
	CbGetState   *ssa.Call
	CbExchange   *ssa.Call
	CbForm       map[string]ssa.Value
	CbFormDyn    []mapEntry
	CbHeaders    map[string]ssa.Value
	CbHeadersDyn []mapEntry
	CbValidator  *ssa.Call
	CbClear      *ssa.Call
	CbSetToken   *ssa.Call
	CbLocation   ssa.Value

	// refresh
	RfExchange *ssa.Call
	RfForm     map[string]ssa.Value
	RfFormDyn  []mapEntry
	RfHeaders  map[string]ssa.Value

	missing map[string]bool
}

var hmodelCache *hModel

// headerSite: a place where a response header (corev3.HeaderValue) is built, resolved up to the function
// in which its key becomes known: a helper that builds the HeaderValue from a key parameter is looked
// through to its call sites (helper extraction must not change what the rules see).
type headerSite struct {
	Fn       *ssa.Function   // function at whose level the site is resolved
	At       ssa.Instruction // the HeaderValue allocation, or the call of the building helper, inside Fn
	KeyConst string          // constant key ("" when the key is computed)
	KeyVal   ssa.Value
	Val      ssa.Value // header value, in Fn's context
}

var headerSitesCache []headerSite
var headerSitesFor *Program

func headerSites(P *Program, R *Roles) []headerSite {
	if headerSitesFor == P {
		return headerSitesCache
	}
	var out []headerSite
	paramIdx := func(fn *ssa.Function, v ssa.Value) int {
		p, ok := resolveCell(stripConv(v)).(*ssa.Parameter)
		if !ok || p.Parent() != fn {
			return -1
		}
		for i, q := range fn.Params {
			if q == p {
				return i
			}
		}
		return -1
	}
	var resolve func(fn *ssa.Function, at ssa.Instruction, key, val ssa.Value, depth int)
	resolve = func(fn *ssa.Function, at ssa.Instruction, key, val ssa.Value, depth int) {
		if k, isC := constString(key); isC {
			out = append(out, headerSite{fn, at, k, key, val})
			return
		}
		ki := paramIdx(fn, key)
		if ki >= 0 && depth > 0 {
			vi := paramIdx(fn, val)
			callers := P.CallersOf(fn)
			n := 0
			for _, cs := range callers {
				if !R.InHandler(cs.Parent()) {
					continue
				}
				args := cs.Common().Args
				if ki >= len(args) {
					continue
				}
				v2 := val
				if vi >= 0 && vi < len(args) {
					v2 = args[vi]
				}
				n++
				resolve(cs.Parent(), cs, args[ki], v2, depth-1)
			}
			if n > 0 {
				return
			}
		}
		out = append(out, headerSite{fn, at, "", key, val})
	}
	for _, fn := range R.HandlerFuncs {
		for _, b := range fn.Blocks {
			for _, ins := range b.Instrs {
				al, ok := ins.(*ssa.Alloc)
				if !ok || typeID(al.Type()) != pkgEnvoyCore+".HeaderValue" {
					continue
				}
				fs := structFieldStores(al)
				if len(fs["Key"]) != 1 || len(fs["Value"]) != 1 {
					out = append(out, headerSite{fn, al, "", nil, nil})
					continue
				}
				resolve(fn, al, fs["Key"][0], fs["Value"][0], 3)
			}
		}
	}
	headerSitesFor, headerSitesCache = P, out
	return out
}

// findHeaderWriter: the function that appends the header with the given constant key taking the value
// from one of its parameters (setRedirect, setSetCookieHeader).
func findHeaderWriter(R *Roles, key string) *headerWriter {
	for _, hs := range headerSites(R.P, R) {
		if !strings.EqualFold(hs.KeyConst, key) || hs.Val == nil {
			continue
		}
		p, isP := resolveCell(stripConv(hs.Val)).(*ssa.Parameter)
		if !isP || p.Parent() != hs.Fn {
			continue
		}
		hw := &headerWriter{Fn: hs.Fn, KeyName: key, ValIdx: -1, DenyIdx: -1}
		for i, q := range hs.Fn.Params {
			if q == p {
				hw.ValIdx = i
			}
			if typeID(q.Type()) == idDenied {
				hw.DenyIdx = i
			}
		}
		if hw.ValIdx >= 0 && hw.DenyIdx >= 0 {
			return hw
		}
	}
	return nil
}

func getHModel(P *Program) *hModel {
	if hmodelCache != nil && hmodelCache.R.P == P {
		return hmodelCache
	}
	R := GetRoles(P)
	m := &hModel{R: R, missing: map[string]bool{}}
	hmodelCache = m
	miss := func(s string) { m.missing[s] = true }
	if len(R.Missing()) > 0 {
		for _, r := range R.Missing() {
			m.missing["role:"+r] = true
		}
		return m
	}
	m.LocationWriter = findHeaderWriter(R, "location")
	m.SetCookieWriter = findHeaderWriter(R, "set-cookie")
	if m.LocationWriter == nil {
		miss("hw.location")
	}
	if m.SetCookieWriter == nil {
		miss("hw.setcookie")
	}
	for _, fn := range R.HandlerFuncs {
		if len(callsTo(fn, pkgHTTP+".EncodeCookieHeader")) > 0 {
			m.CookieBuilder = fn
		}
		if fn.Signature.Results().Len() == 1 && typeID(fn.Signature.Results().At(0).Type()) == idDenied && fn.Signature.Params().Len() == 0 {
			// newDenyResponse appends the standard headers; newSessionErrorResponse sets a body
			usesStd := false
			for _, b := range fn.Blocks {
				for _, ins := range b.Instrs {
					if u, ok := ins.(*ssa.UnOp); ok {
						if g, isG := u.X.(*ssa.Global); isG && g.Name() == "standardResponseHeaders" {
							usesStd = true
						}
					}
				}
			}
			if usesStd {
				m.NewDeny = fn
			} else {
				m.SessionErrDeny = fn
			}
		}
	}
	if m.CookieBuilder == nil {
		miss("cookie.builder")
	} else {
		for _, ci := range allCalls(m.CookieBuilder) {
			if callee := ci.Common().StaticCallee(); callee != nil && R.InHandler(callee) {
				m.CookieDirs = callee
			}
		}
		if m.CookieDirs == nil {
			m.CookieDirs = m.CookieBuilder // the directive list is built in the cookie builder itself
		}
	}
	if m.NewDeny == nil {
		miss("newdeny")
	}

	// ---- redirect
	rd := R.Redirect
	one := func(fn *ssa.Function, id string) *ssa.Call {
		cs := callsTo(fn, id)
		if len(cs) != 1 {
			return nil
		}
		c, _ := cs[0].(*ssa.Call)
		return c
	}
	m.GenSID = one(rd, idGeneratorIfc+".GenerateSessionID")
	m.GenNonce = one(rd, idGeneratorIfc+".GenerateNonce")
	m.GenState = one(rd, idGeneratorIfc+".GenerateState")
	m.GenVerifier = one(rd, idGeneratorIfc+".GenerateCodeVerifier")
	if m.GenSID == nil || m.GenNonce == nil || m.GenState == nil || m.GenVerifier == nil {
		miss("redirect.gens")
	}
	m.RedirSetState = one(rd, mSetState)
	m.RedirRemove = one(rd, mRemove)
	if m.RedirSetState == nil {
		miss("redirect.setstate")
	} else {
		lit := resolveCell(stripConv(callArgs(m.RedirSetState)[2]))
		m.RedirStateLit = structFieldStores(lit)
	}
	for _, p := range rd.Params {
		if isString(p.Type()) {
			m.OldSID = p
		}
		if typeID(p.Type()) == pkgEnvoyAuth+".AttributeContext_HttpRequest" {
			m.RedirHTTP = p
		}
	}
	// the url.Values table: the MakeMap of type url.Values in the function
	for _, b := range rd.Blocks {
		for _, ins := range b.Instrs {
			if mm, ok := ins.(*ssa.MakeMap); ok && strings.HasSuffix(typeID(mm.Type()), "net/url.Values") {
				tab, dyn, _ := constKeyTable(mm)
				if len(tab) >= 3 {
					m.RedirQuery, m.RedirQueryDyn, m.RedirQueryMap = tab, dyn, mm
				}
			}
		}
	}
	if m.RedirQuery == nil {
		miss("redirect.query")
	}
	if m.LocationWriter != nil {
		for _, ci := range callsToFn(rd, m.LocationWriter.Fn) {
			m.RedirLocation = ci.Common().Args[m.LocationWriter.ValIdx]
		}
	}
	if m.RedirLocation == nil {
		miss("redirect.location")
	}
	if m.CookieBuilder != nil {
		for _, ci := range callsToFn(rd, m.CookieBuilder) {
			m.RedirCookie, _ = ci.(*ssa.Call)
		}
	}
	if m.RedirCookie == nil {
		miss("redirect.cookie")
	}

	// ---- callback
	cb := R.Callback
	for _, p := range cb.Params {
		if isString(p.Type()) {
			m.CbSID = p
		}
	}
	m.CbSplit = one(cb, fSplit)
	m.CbParseQuery = one(cb, "net/url.ParseQuery")
	m.CbGetState = one(cb, mGetState)
	m.CbClear = one(cb, mClearState)
	m.CbSetToken = one(cb, mSetToken)
	for _, ci := range callsToFn(cb, R.TokenExchange) {
		m.CbExchange, _ = ci.(*ssa.Call)
	}
	for _, ci := range callsToFn(cb, R.Validator) {
		m.CbValidator, _ = ci.(*ssa.Call)
	}
	for _, ci := range callsTo(cb, "net/url.Values.Get") {
		if cc, ok := ci.(*ssa.Call); ok {
			if s, isC := constString(cc.Common().Args[1]); isC {
				switch s {
				case "state":
					m.CbStateReq = cc
				case "code":
					m.CbCodeReq = cc
				}
			}
		}
	}
	for name, nilp := range map[string]bool{"cb.split": m.CbSplit == nil, "cb.parsequery": m.CbParseQuery == nil, "cb.getstate": m.CbGetState == nil,
		"cb.clear": m.CbClear == nil, "cb.settoken": m.CbSetToken == nil, "cb.exchange": m.CbExchange == nil, "cb.validator": m.CbValidator == nil,
		"cb.statereq": m.CbStateReq == nil, "cb.codereq": m.CbCodeReq == nil, "cb.sid": m.CbSID == nil} {
		if nilp {
			miss(name)
		}
	}
	if m.CbExchange != nil {
		args := m.CbExchange.Common().Args
		ex := R.TokenExchange
		for i, p := range ex.Params {
			switch typeID(p.Type()) {
			case "net/url.Values":
				m.CbForm, m.CbFormDyn, _ = constKeyTable(args[i])
			case "net/http.Header":
				m.CbHeaders, m.CbHeadersDyn, _ = constKeyTable(args[i])
			}
		}
		if m.CbForm == nil || m.CbHeaders == nil {
			miss("cb.tables")
		}
	}
	// callback location: a header site with key "location" resolved in the callback itself, or via the writer
	for _, hs := range headerSites(P, R) {
		if hs.Fn == cb && strings.EqualFold(hs.KeyConst, "location") && hs.Val != nil {
			m.CbLocation = hs.Val
		}
	}
	if m.LocationWriter != nil && m.CbLocation == nil {
		for _, ci := range callsToFn(cb, m.LocationWriter.Fn) {
			m.CbLocation = ci.Common().Args[m.LocationWriter.ValIdx]
		}
	}
	if m.CbLocation == nil {
		miss("cb.location")
	}

	// ---- refresh
	rf := R.Refresh
	for _, ci := range callsToFn(rf, R.TokenExchange) {
		m.RfExchange, _ = ci.(*ssa.Call)
	}
	if m.RfExchange == nil {
		miss("refresh.exchange")
	} else {
		args := m.RfExchange.Common().Args
		for i, p := range R.TokenExchange.Params {
			switch typeID(p.Type()) {
			case "net/url.Values":
				m.RfForm, m.RfFormDyn, _ = constKeyTable(args[i])
			case "net/http.Header":
				m.RfHeaders, _, _ = constKeyTable(args[i])
			}
		}
		if m.RfForm == nil {
			miss("refresh.form")
		}
	}
	return m
}

// requireModel fails the rule (anchor unresolved) when one of the model parts it needs is missing.
// needs are prefixes: "cb." = every callback anchor, "redirect.gens" = that one. Unresolved roles
// always count.
func requireModel(c *Check, rule string, m *hModel, needs ...string) bool {
	ok := true
	var names []string
	for k := range m.missing {
		names = append(names, k)
	}
	sortStrings(names)
	for _, k := range names {
		hit := strings.HasPrefix(k, "role:")
		for _, n := range needs {
			if strings.HasPrefix(k, n) {
				hit = true
			}
		}
		if hit {
			c.Anchor(rule, "handler model part "+k, false)
			ok = false
		}
	}
	return ok
}

// cfgGetter: v == o.config.<Getter>() for the handler's own configuration.
func cfgGetter(v ssa.Value, getter string) bool {
	return isGetterOn(v, idOIDCConfig+"."+getter, isHandlerConfig)
}
