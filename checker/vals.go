package main

import (
	"fmt"
	"go/constant"
	"go/token"
	"go/types"
	"sort"
	"strings"

	"golang.org/x/tools/go/ssa"
)

// ---- resolved callees -------------------------------------------------------------------------

// Callee describes the resolved target of a call: a static function and/or the *types.Func
// (declared function, concrete method or abstract interface method).
type Callee struct {
	Fn     *ssa.Function // static callee (nil for interface invokes and dynamic calls)
	Obj    *types.Func   // declared object (nil for closures / dynamic)
	Invoke bool
}

func calleeOf(c ssa.CallInstruction) Callee {
	cc := c.Common()
	if cc.IsInvoke() {
		return Callee{Obj: cc.Method, Invoke: true}
	}
	if fn := cc.StaticCallee(); fn != nil {
		var obj *types.Func
		if o, ok := fn.Object().(*types.Func); ok {
			obj = o
		} else if fn.Origin() != nil {
			if o, ok := fn.Origin().Object().(*types.Func); ok {
				obj = o
			}
		}
		return Callee{Fn: fn, Obj: obj}
	}
	return Callee{}
}

// funcID renders a *types.Func as "pkgpath.Name" or "pkgpath.Type.Name" (pointer-ness dropped).
func funcID(f *types.Func) string {
	if f == nil {
		return ""
	}
	sig, _ := f.Type().(*types.Signature)
	pk := ""
	if f.Pkg() != nil {
		pk = f.Pkg().Path()
	}
	if sig != nil && sig.Recv() != nil {
		t := sig.Recv().Type()
		if p, ok := t.(*types.Pointer); ok {
			t = p.Elem()
		}
		switch n := t.(type) {
		case *types.Named:
			if n.Obj().Pkg() != nil {
				pk = n.Obj().Pkg().Path()
			}
			return pk + "." + n.Obj().Name() + "." + f.Name()
		case *types.Alias:
			return pk + "." + n.Obj().Name() + "." + f.Name()
		}
		return pk + ".?." + f.Name()
	}
	return pk + "." + f.Name()
}

// isCallTo reports whether instruction c calls the function/method with the given funcID.
func isCallTo(c ssa.CallInstruction, id string) bool {
	ce := calleeOf(c)
	return ce.Obj != nil && funcID(ce.Obj) == id
}

func isCallToAny(c ssa.CallInstruction, ids ...string) bool {
	ce := calleeOf(c)
	if ce.Obj == nil {
		return false
	}
	fid := funcID(ce.Obj)
	for _, id := range ids {
		if fid == id {
			return true
		}
	}
	return false
}

// callArgs returns the actual arguments without the receiver.
func callArgs(c ssa.CallInstruction) []ssa.Value {
	cc := c.Common()
	if cc.IsInvoke() {
		return cc.Args
	}
	if fn := cc.StaticCallee(); fn != nil && fn.Signature.Recv() != nil && len(cc.Args) > 0 {
		return cc.Args[1:]
	}
	return cc.Args
}

// callRecv returns the receiver value of a method call (nil otherwise).
func callRecv(c ssa.CallInstruction) ssa.Value {
	cc := c.Common()
	if cc.IsInvoke() {
		return cc.Value
	}
	if fn := cc.StaticCallee(); fn != nil && fn.Signature.Recv() != nil && len(cc.Args) > 0 {
		return cc.Args[0]
	}
	return nil
}

// ---- value navigation --------------------------------------------------------------------------

// stripConv removes representation-preserving wrappers.
func stripConv(v ssa.Value) ssa.Value {
	for {
		switch x := v.(type) {
		case *ssa.ChangeType:
			v = x.X
		case *ssa.Convert:
			v = x.X
		case *ssa.MakeInterface:
			v = x.X
		case *ssa.ChangeInterface:
			v = x.X
		default:
			return v
		}
	}
}

// asCall: v is the result of a call (idx -1 for single result) or the idx-th extracted result.
func asCall(v ssa.Value) (*ssa.Call, int, bool) {
	v = stripConv(v)
	switch x := v.(type) {
	case *ssa.Call:
		return x, -1, true
	case *ssa.Extract:
		if c, ok := x.Tuple.(*ssa.Call); ok {
			return c, x.Index, true
		}
	}
	return nil, 0, false
}

// fieldLoad: v is a read of field f of base (through a pointer or of a struct value).
func fieldLoad(v ssa.Value) (base ssa.Value, f *types.Var, ok bool) {
	switch x := v.(type) {
	case *ssa.UnOp:
		if x.Op == token.MUL {
			if fa, ok := x.X.(*ssa.FieldAddr); ok {
				return fa.X, fieldOf(fa.X.Type(), fa.Field), true
			}
		}
	case *ssa.Field:
		return x.X, fieldOf(x.X.Type(), x.Field), true
	}
	return nil, nil, false
}

func fieldOf(t types.Type, i int) *types.Var {
	t = t.Underlying()
	if p, ok := t.(*types.Pointer); ok {
		t = p.Elem().Underlying()
	}
	if s, ok := t.(*types.Struct); ok && i < s.NumFields() {
		return s.Field(i)
	}
	return nil
}

// structName returns "pkgpath.Name" of the (pointer to) named struct type, or "".
func typeID(t types.Type) string {
	if p, ok := t.(*types.Pointer); ok {
		t = p.Elem()
	}
	switch n := t.(type) {
	case *types.Named:
		if n.Obj().Pkg() != nil {
			return n.Obj().Pkg().Path() + "." + n.Obj().Name()
		}
		return n.Obj().Name()
	case *types.Alias:
		return typeID(types.Unalias(n))
	}
	return t.String()
}

// fieldID names a field as "pkgpath.Type.Field".
func fieldAddrID(fa *ssa.FieldAddr) string {
	f := fieldOf(fa.X.Type(), fa.Field)
	if f == nil {
		return ""
	}
	return typeID(fa.X.Type()) + "." + f.Name()
}

func constString(v ssa.Value) (string, bool) {
	v = stripConv(v)
	if c, ok := v.(*ssa.Const); ok && c.Value != nil && c.Value.Kind() == constant.String {
		return constant.StringVal(c.Value), true
	}
	return "", false
}

func constInt(v ssa.Value) (int64, bool) {
	v = stripConv(v)
	if c, ok := v.(*ssa.Const); ok && c.Value != nil && c.Value.Kind() == constant.Int {
		i, ok := constant.Int64Val(c.Value)
		return i, ok
	}
	return 0, false
}

func constBool(v ssa.Value) (bool, bool) {
	v = stripConv(v)
	if c, ok := v.(*ssa.Const); ok && c.Value != nil && c.Value.Kind() == constant.Bool {
		return constant.BoolVal(c.Value), true
	}
	return false, false
}

func isNilConst(v ssa.Value) bool {
	c, ok := v.(*ssa.Const)
	return ok && c.Value == nil
}

// ---- cells: Allocs and their stores --------------------------------------------------------------

// storesTo returns all Store instructions whose address is exactly addr (in addr's function and,
// for captured variables, in closures that reference it through a FreeVar binding).
func storesTo(addr ssa.Value) []*ssa.Store {
	var out []*ssa.Store
	refs := addr.Referrers()
	if refs == nil {
		return nil
	}
	for _, r := range *refs {
		switch x := r.(type) {
		case *ssa.Store:
			if x.Addr == addr {
				out = append(out, x)
			}
		case *ssa.MakeClosure:
			// the cell is captured: find the matching FreeVar in the closure
			fn := x.Fn.(*ssa.Function)
			for i, b := range x.Bindings {
				if b == addr && i < len(fn.FreeVars) {
					out = append(out, storesTo(fn.FreeVars[i])...)
				}
			}
		}
	}
	return out
}

// cellValues: the values that can be read from a local cell (Alloc) — all values stored to it.
// zero=true when no store exists on some path is not tracked; callers treat an Alloc without stores
// as the zero value.
func cellValues(a *ssa.Alloc) []ssa.Value {
	var out []ssa.Value
	for _, s := range storesTo(a) {
		out = append(out, s.Val)
	}
	return out
}

// resolveCell looks through loads of single-assignment local cells and free variables:
// *t0 where t0 is an Alloc with exactly one store → the stored value.
func resolveCell(v ssa.Value) ssa.Value {
	for i := 0; i < 8; i++ {
		u, ok := v.(*ssa.UnOp)
		if !ok || u.Op != token.MUL {
			return v
		}
		switch a := u.X.(type) {
		case *ssa.Alloc:
			st := storesTo(a)
			if len(st) == 1 {
				v = st[0].Val
				continue
			}
			return v
		case *ssa.FieldAddr:
			// field of a struct allocated in this function (possibly reached through single-assignment cells):
			// exactly one store to that field of that object, in a block that dominates the load → the stored value
			if sv := uniqueFieldStore(a, u); sv != nil {
				v = sv
				continue
			}
			return v
		case *ssa.FreeVar:
			// find the binding in the parent's MakeClosure
			if b := freeVarBinding(a); b != nil {
				if al, ok := b.(*ssa.Alloc); ok {
					st := storesTo(al)
					if len(st) == 1 {
						v = st[0].Val
						continue
					}
				}
			}
			return v
		default:
			return v
		}
	}
	return v
}

// freeVarBinding finds the value bound to a free variable at the (unique) MakeClosure site.
func freeVarBinding(fv *ssa.FreeVar) ssa.Value {
	fn := fv.Parent()
	par := fn.Parent()
	if par == nil {
		return nil
	}
	idx := -1
	for i, f := range fn.FreeVars {
		if f == fv {
			idx = i
		}
	}
	if idx < 0 {
		return nil
	}
	var found ssa.Value
	n := 0
	for _, b := range par.Blocks {
		for _, ins := range b.Instrs {
			if mc, ok := ins.(*ssa.MakeClosure); ok && mc.Fn == fn && idx < len(mc.Bindings) {
				found = mc.Bindings[idx]
				n++
			}
		}
	}
	if n == 1 {
		return found
	}
	return nil
}

// ---- leaves (provenance frontier) ----------------------------------------------------------------

// Leaves walks backwards from v through phis, string concatenation, conversions, single-store cells
// and (optionally) the listed pure helper calls, returning the frontier values: calls, params,
// constants, field loads, globals, allocs, lookups...  visited guards against phi cycles.
type leafOpts struct {
	throughCalls func(c *ssa.Call) []ssa.Value // non-nil result ⇒ continue into these operands
	noConcat     bool
}

func Leaves(v ssa.Value, o leafOpts) []ssa.Value {
	seen := map[ssa.Value]bool{}
	var out []ssa.Value
	var walk func(v ssa.Value)
	walk = func(v ssa.Value) {
		v = stripConv(v)
		if seen[v] {
			return
		}
		seen[v] = true
		switch x := v.(type) {
		case *ssa.Phi:
			for _, e := range x.Edges {
				walk(e)
			}
			return
		case *ssa.BinOp:
			if x.Op == token.ADD && !o.noConcat {
				walk(x.X)
				walk(x.Y)
				return
			}
		case *ssa.UnOp:
			if x.Op == token.MUL {
				switch a := x.X.(type) {
				case *ssa.Alloc:
					vals := cellValues(a)
					if len(vals) > 0 {
						for _, s := range vals {
							walk(s)
						}
						return
					}
				case *ssa.FieldAddr:
					// single-store field of a struct built in this function (possibly copied by value)
					if sv := uniqueFieldStore(a, x); sv != nil {
						walk(sv)
						return
					}
				case *ssa.FreeVar:
					if b := freeVarBinding(a); b != nil {
						if al, ok := b.(*ssa.Alloc); ok {
							vals := cellValues(al)
							if len(vals) > 0 {
								for _, s := range vals {
									walk(s)
								}
								return
							}
						}
					}
				}
			}
		case *ssa.Call:
			if o.throughCalls != nil {
				if ops := o.throughCalls(x); ops != nil {
					for _, a := range ops {
						walk(a)
					}
					return
				}
			}
		case *ssa.Extract:
			if c, ok := x.Tuple.(*ssa.Call); ok && o.throughCalls != nil {
				if ops := o.throughCalls(c); ops != nil {
					for _, a := range ops {
						walk(a)
					}
					return
				}
			}
		}
		out = append(out, v)
	}
	walk(v)
	return out
}

// ---- structure extraction: composite literals --------------------------------------------------

// structLitFields: for a pointer value produced by &T{...} (an Alloc, possibly heap) returns
// field name → values stored to that field anywhere in the function.
func structFieldStores(alloc ssa.Value) map[string][]ssa.Value {
	out := map[string][]ssa.Value{}
	refs := alloc.Referrers()
	if refs == nil {
		return out
	}
	for _, r := range *refs {
		fa, ok := r.(*ssa.FieldAddr)
		if !ok || fa.X != alloc {
			continue
		}
		f := fieldOf(fa.X.Type(), fa.Field)
		if f == nil {
			continue
		}
		for _, s := range storesTo(fa) {
			out[f.Name()] = append(out[f.Name()], s.Val)
		}
	}
	return out
}

// sliceLitElems: v is a slice built from a literal ([]T{a,b}) → element values by index.
func sliceLitElems(v ssa.Value) ([]ssa.Value, bool) {
	v = stripConv(v)
	sl, ok := v.(*ssa.Slice)
	if !ok {
		return nil, false
	}
	al, ok := sl.X.(*ssa.Alloc)
	if !ok {
		return nil, false
	}
	arr, ok := al.Type().Underlying().(*types.Pointer).Elem().Underlying().(*types.Array)
	if !ok {
		return nil, false
	}
	elems := make([]ssa.Value, arr.Len())
	refs := al.Referrers()
	if refs == nil {
		return nil, false
	}
	for _, r := range *refs {
		ia, ok := r.(*ssa.IndexAddr)
		if !ok {
			continue
		}
		idx, ok := constInt(ia.Index)
		if !ok || idx < 0 || idx >= arr.Len() {
			return nil, false
		}
		st := storesTo(ia)
		if len(st) != 1 {
			return nil, false
		}
		elems[idx] = st[0].Val
	}
	for _, e := range elems {
		if e == nil {
			return nil, false
		}
	}
	return elems, true
}

// mapLitEntries: v is a map created by MakeMap in this function → all MapUpdate (key,value) pairs
// performed on it anywhere in the function (flow-insensitive), plus whether the map escapes
// to a call before... (not tracked). ok=false when v is not a local MakeMap.
type mapEntry struct {
	Key   ssa.Value
	Val   ssa.Value
	Instr *ssa.MapUpdate
}

func mapLitEntries(v ssa.Value) ([]mapEntry, bool) {
	v = stripConv(v)
	mm, ok := v.(*ssa.MakeMap)
	if !ok {
		return nil, false
	}
	var out []mapEntry
	refs := mm.Referrers()
	if refs == nil {
		return nil, true
	}
	// a ChangeType of the map (url.Values(m)) can also receive updates
	var collect func(val ssa.Value)
	seen := map[ssa.Value]bool{}
	collect = func(val ssa.Value) {
		if seen[val] {
			return
		}
		seen[val] = true
		rs := val.Referrers()
		if rs == nil {
			return
		}
		for _, r := range *rs {
			switch x := r.(type) {
			case *ssa.MapUpdate:
				if x.Map == val {
					out = append(out, mapEntry{x.Key, x.Value, x})
				}
			case *ssa.ChangeType:
				collect(x)
			}
		}
	}
	collect(mm)
	return out, true
}

// ---- description (diagnostics, evidence samples) -------------------------------------------------

func Desc(v ssa.Value) string { return descDepth(v, 4) }

func descDepth(v ssa.Value, d int) string {
	if v == nil {
		return "<nil>"
	}
	if d == 0 {
		return "…"
	}
	v = stripConv(v)
	switch x := v.(type) {
	case *ssa.Const:
		if x.Value == nil {
			return "nil"
		}
		return x.Value.ExactString()
	case *ssa.Parameter:
		return "param:" + x.Name()
	case *ssa.FreeVar:
		return "freevar:" + x.Name()
	case *ssa.Global:
		return "global:" + x.Name()
	case *ssa.Function:
		return "func:" + FuncDisplay(x)
	case *ssa.Call:
		ce := calleeOf(x)
		name := "dyn"
		if ce.Obj != nil {
			name = shortID(funcID(ce.Obj))
		} else if ce.Fn != nil {
			name = FuncDisplay(ce.Fn)
		}
		var as []string
		if r := callRecv(x); r != nil {
			as = append(as, descDepth(r, d-1))
		}
		for _, a := range callArgs(x) {
			as = append(as, descDepth(a, d-1))
		}
		return name + "(" + strings.Join(as, ", ") + ")"
	case *ssa.Extract:
		return descDepth(x.Tuple, d) + fmt.Sprintf("#%d", x.Index)
	case *ssa.UnOp:
		if x.Op == token.MUL {
			if fa, ok := x.X.(*ssa.FieldAddr); ok {
				f := fieldOf(fa.X.Type(), fa.Field)
				n := "?"
				if f != nil {
					n = f.Name()
				}
				return descDepth(fa.X, d-1) + "." + n
			}
			r := resolveCell(x)
			if r != v {
				return descDepth(r, d)
			}
			return "*" + descDepth(x.X, d-1)
		}
		return x.Op.String() + descDepth(x.X, d-1)
	case *ssa.Field:
		f := fieldOf(x.X.Type(), x.Field)
		n := "?"
		if f != nil {
			n = f.Name()
		}
		return descDepth(x.X, d-1) + "." + n
	case *ssa.BinOp:
		return "(" + descDepth(x.X, d-1) + " " + x.Op.String() + " " + descDepth(x.Y, d-1) + ")"
	case *ssa.Phi:
		var as []string
		for _, e := range x.Edges {
			as = append(as, descDepth(e, d-1))
		}
		sort.Strings(as)
		return "phi[" + strings.Join(as, " | ") + "]"
	case *ssa.Alloc:
		return "new(" + typeShort(x.Type()) + ")"
	case *ssa.Lookup:
		return descDepth(x.X, d-1) + "[" + descDepth(x.Index, d-1) + "]"
	case *ssa.Slice:
		return descDepth(x.X, d-1) + "[:]"
	case *ssa.MakeMap:
		return "make(" + typeShort(x.Type()) + ")"
	case *ssa.MakeClosure:
		return "closure:" + FuncDisplay(x.Fn.(*ssa.Function))
	case *ssa.TypeAssert:
		return descDepth(x.X, d-1) + ".(" + typeShort(x.AssertedType) + ")"
	case *ssa.IndexAddr:
		return "&" + descDepth(x.X, d-1) + "[" + descDepth(x.Index, d-1) + "]"
	case *ssa.FieldAddr:
		f := fieldOf(x.X.Type(), x.Field)
		n := "?"
		if f != nil {
			n = f.Name()
		}
		return "&" + descDepth(x.X, d-1) + "." + n
	}
	return fmt.Sprintf("%T", v)
}

func shortID(id string) string {
	id = strings.ReplaceAll(id, modPath+"/", "")
	if i := strings.LastIndex(id, "/"); i >= 0 {
		// keep last path element
		id = id[i+1:]
	}
	return id
}

func typeShort(t types.Type) string {
	return types.TypeString(t, func(p *types.Package) string { return p.Name() })
}

// instrPos returns the best source position for an instruction.
func instrPos(ins ssa.Instruction) token.Pos {
	if ins.Pos().IsValid() {
		return ins.Pos()
	}
	if v, ok := ins.(ssa.Value); ok {
		if rs := v.Referrers(); rs != nil {
			for _, r := range *rs {
				if r.Pos().IsValid() {
					return r.Pos()
				}
			}
		}
	}
	// fall back to any positioned instruction in the same block, then the function
	if b := ins.Block(); b != nil {
		for _, i := range b.Instrs {
			if i.Pos().IsValid() {
				return i.Pos()
			}
		}
		return ins.Parent().Pos()
	}
	return token.NoPos
}

// allCalls lists call instructions (Call, Go, Defer) of a function in block/instruction order.
func allCalls(fn *ssa.Function) []ssa.CallInstruction {
	var out []ssa.CallInstruction
	for _, b := range fn.Blocks {
		for _, ins := range b.Instrs {
			if c, ok := ins.(ssa.CallInstruction); ok {
				out = append(out, c)
			}
		}
	}
	return out
}

// callsTo lists the call sites in fn whose resolved callee has one of the ids.
func callsTo(fn *ssa.Function, ids ...string) []ssa.CallInstruction {
	var out []ssa.CallInstruction
	for _, c := range allCalls(fn) {
		if isCallToAny(c, ids...) {
			out = append(out, c)
		}
	}
	return out
}

// ---- inlining provenance -----------------------------------------------------------------------------

type inlCtx struct {
	fn     *ssa.Function
	call   *ssa.Call
	parent *inlCtx
}

// LeavesInl is Leaves that looks through calls of own functions (helper extraction): the result of
// f(args) is replaced by the leaves of f's returned values, with f's parameters substituted by the
// arguments of this call. skip(fn) excludes functions that rules treat as origins in their own right.
func LeavesInl(v ssa.Value, o leafOpts, depth int, skip func(*ssa.Function) bool) []ssa.Value {
	var out []ssa.Value
	seen := map[[2]interface{}]bool{}
	var walk func(v ssa.Value, ctx *inlCtx, d int)
	walk = func(v ssa.Value, ctx *inlCtx, d int) {
		for _, l := range Leaves(v, o) {
			key := [2]interface{}{l, ctx}
			if seen[key] {
				continue
			}
			seen[key] = true
			// parameter of an inlined callee → the caller's argument
			if p, ok := l.(*ssa.Parameter); ok && ctx != nil && p.Parent() == ctx.fn {
				idx := -1
				for i, q := range ctx.fn.Params {
					if q == p {
						idx = i
					}
				}
				if idx >= 0 && idx < len(ctx.call.Common().Args) {
					walk(ctx.call.Common().Args[idx], ctx.parent, d)
					continue
				}
			}
			call, ridx, isCall := asCall(l)
			if isCall && d > 0 {
				callee := call.Common().StaticCallee()
				if callee != nil && callee.Blocks != nil && isOwnPath(pkgPathOf(callee)) && !strings.HasPrefix(pkgPathOf(callee), modPath+"/config/gen/go") &&
					(skip == nil || !skip(callee)) {
					ri := ridx
					if ri < 0 {
						ri = 0
					}
					sub := &inlCtx{callee, call, ctx}
					n := 0
					for _, r := range returnsOf(callee) {
						if ri < len(r.Results) {
							walk(r.Results[ri], sub, d-1)
							n++
						}
					}
					if n > 0 {
						continue
					}
				}
			}
			out = append(out, l)
		}
	}
	walk(v, nil, depth)
	return out
}

// deepCalls lists the call instructions of fn and of the own functions it calls statically (helper
// extraction), up to depth; closures created in those functions are included.
func deepCalls(fn *ssa.Function, depth int) []ssa.CallInstruction {
	seen := map[*ssa.Function]bool{}
	var out []ssa.CallInstruction
	var walk func(f *ssa.Function, d int)
	walk = func(f *ssa.Function, d int) {
		if f == nil || seen[f] || f.Blocks == nil {
			return
		}
		seen[f] = true
		for _, b := range f.Blocks {
			for _, ins := range b.Instrs {
				switch x := ins.(type) {
				case ssa.CallInstruction:
					out = append(out, x)
					if callee := x.Common().StaticCallee(); callee != nil && d > 0 && isOwnPath(pkgPathOf(callee)) &&
						!strings.HasPrefix(pkgPathOf(callee), modPath+"/config/gen/go") {
						walk(callee, d-1)
					}
				case *ssa.MakeClosure:
					walk(x.Fn.(*ssa.Function), d)
				}
			}
		}
	}
	walk(fn, depth)
	return out
}

// deepFuncs: fn plus the own functions it calls statically, up to depth.
func deepFuncs(fn *ssa.Function, depth int) []*ssa.Function {
	seen := map[*ssa.Function]bool{}
	var out []*ssa.Function
	var walk func(f *ssa.Function, d int)
	walk = func(f *ssa.Function, d int) {
		if f == nil || seen[f] || f.Blocks == nil || !isOwnPath(pkgPathOf(f)) || strings.HasPrefix(pkgPathOf(f), modPath+"/config/gen/go") {
			return
		}
		seen[f] = true
		out = append(out, f)
		if d == 0 {
			return
		}
		for _, b := range f.Blocks {
			for _, ins := range b.Instrs {
				switch x := ins.(type) {
				case ssa.CallInstruction:
					walk(x.Common().StaticCallee(), d-1)
				case *ssa.MakeClosure:
					walk(x.Fn.(*ssa.Function), d)
				}
			}
		}
	}
	walk(fn, depth)
	return out
}

func callsToDeep(fn *ssa.Function, depth int, ids ...string) []ssa.CallInstruction {
	var out []ssa.CallInstruction
	for _, c := range deepCalls(fn, depth) {
		if isCallToAny(c, ids...) {
			out = append(out, c)
		}
	}
	return out
}

// uniqueFieldStore: fa addresses field F of an object allocated in the same function; when F of that
// object is stored exactly once in the function, by a store whose block dominates the load, that value.
// A struct local that is only ever assigned as a whole from another struct local (a by-value copy:
// `callback := params`) is looked through.
func uniqueFieldStore(fa *ssa.FieldAddr, load *ssa.UnOp) ssa.Value {
	base := fa.X
	for i := 0; i < 4; i++ {
		if u, ok := base.(*ssa.UnOp); ok && u.Op == token.MUL {
			if al, isA := u.X.(*ssa.Alloc); isA {
				st := storesTo(al)
				if len(st) == 1 {
					base = st[0].Val
					continue
				}
			}
		}
		break
	}
	al, ok := base.(*ssa.Alloc)
	if !ok || al.Parent() != load.Parent() {
		return nil
	}
	return fieldValueOf(al, fa.Field, load, 7)
}

func dominatesInstr(a, b ssa.Instruction) bool {
	if a.Block() == b.Block() {
		return instrIndex(a) < instrIndex(b)
	}
	return a.Block().Dominates(b.Block())
}

// fieldValueOf: the value of field `field` of the object al as seen at instruction `at`.
func fieldValueOf(al *ssa.Alloc, field int, at ssa.Instruction, depth int) ssa.Value {
	if depth == 0 {
		return nil
	}
	var found *ssa.Store
	n := 0
	var whole []*ssa.Store
	var visit func(v ssa.Value, d int)
	visit = func(v ssa.Value, d int) {
		rs := v.Referrers()
		if rs == nil || d > 3 {
			return
		}
		for _, r := range *rs {
			switch x := r.(type) {
			case *ssa.FieldAddr:
				if x.X == v && x.Field == field {
					if frs := x.Referrers(); frs != nil {
						for _, fr := range *frs {
							if st, isS := fr.(*ssa.Store); isS && st.Addr == ssa.Value(x) {
								found = st
								n++
							}
						}
					}
				}
			case *ssa.Store:
				if x.Addr == v && v == ssa.Value(al) {
					whole = append(whole, x)
				}
				// the object's address stored into a local cell: follow the cell's loads
				if x.Val == v {
					if cell, isA := x.Addr.(*ssa.Alloc); isA {
						if crs := cell.Referrers(); crs != nil {
							for _, cr := range *crs {
								if ld, isL := cr.(*ssa.UnOp); isL && ld.Op == token.MUL && ld.X == ssa.Value(cell) {
									visit(ld, d+1)
								}
							}
						}
					}
				}
			}
		}
	}
	visit(al, 0)
	switch {
	case n == 1 && found != nil && len(whole) == 0:
		if !dominatesInstr(found, at) {
			return nil
		}
		return found.Val
	case n == 0 && len(whole) == 1:
		// by-value copy of another struct local
		cp := whole[0]
		if !dominatesInstr(cp, at) {
			return nil
		}
		src := stripConv(cp.Val)
		if ph, isPhi := src.(*ssa.Phi); isPhi && len(ph.Edges) == 1 {
			src = ph.Edges[0]
		}
		if ld, isL := src.(*ssa.UnOp); isL && ld.Op == token.MUL {
			if other, isA := ld.X.(*ssa.Alloc); isA && other != al && other.Parent() == al.Parent() {
				return fieldValueOf(other, field, ld, depth-1)
			}
		}
	}
	return nil
}

// tableFieldConsts: v is the load of field f of an element of a table — a slice/array literal of structs
// built in this function whose elements all store a constant string into f (`for _, e := range
// []struct{key string; …}{{"a", …}, {"b", …}} { use(e.key) }`). Returns the constants of all elements:
// the value is one of them.
func tableFieldConsts(v ssa.Value) ([]string, bool) {
	v = stripConv(v)
	var base ssa.Value
	fidx := -1
	switch x := v.(type) {
	case *ssa.UnOp:
		if x.Op != token.MUL {
			return nil, false
		}
		fa, ok := x.X.(*ssa.FieldAddr)
		if !ok {
			return nil, false
		}
		base, fidx = fa.X, fa.Field
	case *ssa.Field:
		base, fidx = x.X, x.Field
	default:
		return nil, false
	}
	// the struct: an element address, or a local copy of an element
	var ia *ssa.IndexAddr
	for depth := 0; depth < 4 && ia == nil; depth++ {
		switch b := base.(type) {
		case *ssa.IndexAddr:
			ia = b
		case *ssa.Alloc:
			st := storesTo(b)
			if len(st) != 1 {
				return nil, false
			}
			base = st[0].Val
		case *ssa.UnOp:
			if b.Op != token.MUL {
				return nil, false
			}
			base = b.X
		default:
			return nil, false
		}
	}
	if ia == nil {
		return nil, false
	}
	var arrAlloc *ssa.Alloc
	switch s := stripConv(ia.X).(type) {
	case *ssa.Slice:
		arrAlloc, _ = s.X.(*ssa.Alloc)
	case *ssa.Alloc:
		arrAlloc = s
	}
	if arrAlloc == nil || arrAlloc.Referrers() == nil {
		return nil, false
	}
	arr, ok := arrAlloc.Type().Underlying().(*types.Pointer).Elem().Underlying().(*types.Array)
	if !ok {
		return nil, false
	}
	vals := make([]string, arr.Len())
	have := make([]bool, arr.Len())
	for _, r := range *arrAlloc.Referrers() {
		eia, ok := r.(*ssa.IndexAddr)
		if !ok || eia.Referrers() == nil {
			if _, isSl := r.(*ssa.Slice); isSl {
				continue
			}
			return nil, false
		}
		idx, ok := constInt(eia.Index)
		if !ok || idx < 0 || idx >= arr.Len() {
			return nil, false
		}
		for _, rr := range *eia.Referrers() {
			fa, ok := rr.(*ssa.FieldAddr)
			if !ok {
				return nil, false // whole-element store: not the literal lowering
			}
			if fa.Field != fidx {
				continue
			}
			st := storesTo(fa)
			if len(st) != 1 {
				return nil, false
			}
			s, isC := constString(st[0].Val)
			if !isC {
				return nil, false
			}
			vals[idx], have[idx] = s, true
		}
	}
	for _, h := range have {
		if !h {
			return nil, false
		}
	}
	return vals, len(vals) > 0
}
