package main

import (
	"fmt"
	"go/token"
	"go/types"
	"strings"

	"golang.org/x/tools/go/ssa"
)

func init() {
	registry["C10"] = checkC10
}

type storeRoles struct {
	Mem, Redis     *types.Named
	memMethods     []*ssa.Function // all methods of the memory store (incl. helpers)
	redisMethods   []*ssa.Function
	Expiry         *ssa.Function // memory expiry predicate
	RefreshExp     *ssa.Function // redis TTL refresher
	SessionType    *types.Named
	NewMem, NewRed *ssa.Function
}

func getStoreRoles(P *Program) (*storeRoles, []string) {
	sr := &storeRoles{}
	var missing []string
	store := P.NamedType(pkgOIDC, "SessionStore")
	if store == nil {
		return sr, []string{"oidc.SessionStore"}
	}
	iface := store.Underlying().(*types.Interface)
	for _, n := range P.ownNamedTypes() {
		if n.Obj().Pkg().Path() != pkgOIDC {
			continue
		}
		if !types.Implements(types.NewPointer(n), iface) {
			continue
		}
		st, ok := n.Underlying().(*types.Struct)
		if !ok {
			continue
		}
		hasMap, hasRedis := false, false
		for i := 0; i < st.NumFields(); i++ {
			if _, isMap := st.Field(i).Type().Underlying().(*types.Map); isMap {
				hasMap = true
			}
			if strings.HasPrefix(typeID(st.Field(i).Type()), "github.com/redis/go-redis/v9.") {
				hasRedis = true
			}
		}
		if hasRedis {
			sr.Redis = n
		} else if hasMap {
			sr.Mem = n
		}
	}
	if sr.Mem == nil {
		missing = append(missing, "memory store type")
	}
	if sr.Redis == nil {
		missing = append(missing, "redis store type")
	}
	for _, fn := range P.Funcs {
		if fn.Parent() != nil {
			// closures belong to their parent's type
			if rn := recvNamed(fn.Parent()); rn != nil {
				if rn == sr.Mem {
					sr.memMethods = append(sr.memMethods, fn)
				}
				if rn == sr.Redis {
					sr.redisMethods = append(sr.redisMethods, fn)
				}
			}
			continue
		}
		rn := recvNamed(fn)
		if rn != nil && rn == sr.Mem {
			sr.memMethods = append(sr.memMethods, fn)
		}
		if rn != nil && rn == sr.Redis {
			sr.redisMethods = append(sr.redisMethods, fn)
		}
	}
	// session type: element type of the memory store's map
	if sr.Mem != nil {
		st := sr.Mem.Underlying().(*types.Struct)
		for i := 0; i < st.NumFields(); i++ {
			if m, isMap := st.Field(i).Type().Underlying().(*types.Map); isMap {
				if n, ok := derefType(m.Elem()).(*types.Named); ok {
					sr.SessionType = n
				}
			}
		}
	}
	// expiry predicate: bool method of the memory store taking a *session, or a bool function/method of
	// the package taking a *session (as receiver or parameter) and a time.Time that the store's methods call
	for _, fn := range sr.memMethods {
		res := fn.Signature.Results()
		if res.Len() != 1 || !isBool(res.At(0).Type()) {
			continue
		}
		for i := 0; i < fn.Signature.Params().Len(); i++ {
			if sr.SessionType != nil && types.Identical(derefType(fn.Signature.Params().At(i).Type()), sr.SessionType) {
				sr.Expiry = fn
			}
		}
	}
	if sr.Expiry == nil && sr.SessionType != nil {
		var cands []*ssa.Function
		for _, fn := range P.Funcs {
			if fn.Pkg == nil || fn.Pkg.Pkg.Path() != pkgOIDC || fn.Parent() != nil {
				continue
			}
			res := fn.Signature.Results()
			if res.Len() != 1 || !isBool(res.At(0).Type()) {
				continue
			}
			hasS, hasT := false, false
			for _, p := range fn.Params {
				if types.Identical(derefType(p.Type()), sr.SessionType) {
					hasS = true
				}
				if typeID(p.Type()) == "time.Time" {
					hasT = true
				}
			}
			if !hasT {
				continue
			}
			if !hasS {
				// the timestamps of the session passed one by one: every call site hands over loads of session fields
				nField := 0
				for _, m := range sr.memMethods {
					for _, cs := range callsToFn(m, fn) {
						for _, a := range cs.Common().Args {
							if base, f, isL := fieldLoad(resolveCell(stripConv(a))); isL && f != nil && types.Identical(derefType(base.Type()), sr.SessionType) {
								nField++
							}
						}
					}
				}
				if nField < 2 {
					continue
				}
			}
			called := false
			for _, m := range sr.memMethods {
				if len(callsToFn(m, fn)) > 0 {
					called = true
				}
			}
			if called {
				cands = append(cands, fn)
			}
		}
		if len(cands) == 1 {
			sr.Expiry = cands[0]
		}
	}
	bindPredicateParams(P, sr.Expiry)
	if sr.Expiry == nil {
		missing = append(missing, "memory expiry predicate (bool function of a *session and a time)")
	}
	for _, fn := range sr.redisMethods {
		if len(redisCalls(fn, "ExpireAt")) > 0 {
			sr.RefreshExp = fn
		}
	}
	if sr.RefreshExp == nil {
		missing = append(missing, "redis TTL refresher (calls ExpireAt)")
	}
	sr.NewMem = P.Func(pkgOIDC, "NewMemoryStore")
	sr.NewRed = P.Func(pkgOIDC, "NewRedisStore")
	if sr.NewMem == nil || sr.NewRed == nil {
		missing = append(missing, "store constructors")
	}
	P.MarkAnchor(sr.Expiry, sr.RefreshExp, sr.NewMem, sr.NewRed)
	return sr, missing
}

// redisCalls: calls of the go-redis command method `name` (whatever embedded interface declares it).
func redisCalls(fn *ssa.Function, name string) []ssa.CallInstruction {
	var out []ssa.CallInstruction
	for _, ci := range allCalls(fn) {
		ce := calleeOf(ci)
		if ce.Obj != nil && ce.Obj.Name() == name && ce.Obj.Pkg() != nil && ce.Obj.Pkg().Path() == "github.com/redis/go-redis/v9" {
			out = append(out, ci)
		}
	}
	return out
}

func fieldNameOfLoad(v ssa.Value) string {
	v = stripConv(v)
	if _, f, ok := fieldLoad(v); ok && f != nil {
		return f.Name()
	}
	if p, ok := v.(*ssa.Parameter); ok {
		return c10ParamField[p]
	}
	return ""
}

// c10ParamField: parameters of the expiry predicate that receive, at every call site, the load of one
// and the same field of the memory store (a predicate written as a method of the session that takes
// the two timeouts as arguments). Such a parameter stands for that field.
var c10ParamField = map[*ssa.Parameter]string{}

func bindPredicateParams(P *Program, exp *ssa.Function) {
	c10ParamField = map[*ssa.Parameter]string{}
	if exp == nil {
		return
	}
	sites := callsToFn2(P, exp)
	if len(sites) == 0 {
		return
	}
	for i, p := range exp.Params {
		if typeID(p.Type()) != "time.Duration" && typeID(p.Type()) != "time.Time" {
			continue
		}
		name := ""
		ok := true
		for _, cc := range sites {
			if i >= len(cc.Common().Args) {
				ok = false
				break
			}
			n := ""
			if _, f, isL := fieldLoad(stripConv(cc.Common().Args[i])); isL && f != nil {
				n = f.Name()
			}
			if n == "" || (name != "" && n != name) {
				ok = false
				break
			}
			name = n
		}
		if ok && name != "" {
			c10ParamField[p] = name
		}
	}
}

func callsToFn2(P *Program, callee *ssa.Function) []ssa.CallInstruction {
	var out []ssa.CallInstruction
	for _, fn := range P.Funcs {
		out = append(out, callsToFn(fn, callee)...)
	}
	return out
}

// depFields: names of struct fields (of the given owner type ids) loaded anywhere in the data
// dependencies of v.
func depFields(v ssa.Value) map[string]bool {
	out := map[string]bool{}
	for d := range dataDeps(v) {
		if n := fieldNameOfLoad(d); n != "" {
			out[n] = true
		}
	}
	return out
}

func checkC10(c *Check) {
	P := c.P
	c.Assumes("Redis removes a key at its EXPIREAT time; one second of timestamp granularity; real elapsed time is not modelled")
	c.Rule("C10.R1", "enforcement is live (memory store): an expiry predicate reads both timeouts and both timestamps, pairing absolute↔created and idle↔last-used against the store clock's current time; every session obtained from the sessions map that can flow to a caller or be modified first passes that predicate on the same session, and once the predicate has returned true the session is neither returned nor used. A sweep function with no production caller does not count as enforcement.", 6)
	c.Rule("C10.R2", "the absolute limit is not stretchable: the creation timestamp of a memory session is written only where the session is allocated; in Redis every write whose hash field is time_added uses HSETNX.", 3)
	c.Rule("C10.R3", "Redis TTL on every success path: every successful return of the five session operations passes through the TTL refresher with err == nil; the refresher hands EXPIREAT a time whose alternatives are created+absolute and now+idle (each timeout with its own base, an alternative never selected when its timeout is 0), and a missing creation time deletes the key and returns an error.", 9)
	c.Rule("C10.R4", "wiring: in the factory's PreRun each store constructor receives GetAbsoluteSessionTimeout()·time.Second for its absolute parameter and GetIdleSessionTimeout()·time.Second for its idle parameter, the constructors store each parameter in the field of the same role, and the factory is registered as a run.Group unit in main.", 6)

	sr, missing := getStoreRoles(P)
	if len(missing) > 0 {
		for _, m := range missing {
			c.Anchor("C10.R1", m, false)
		}
		return
	}
	c10R1(c, sr)
	c10R2(c, sr)
	c10R3(c, sr)
	c10R4(c, sr)
}

func c10R1(c *Check, sr *storeRoles) {
	P := c.P
	exp := sr.Expiry
	// ---- predicate shape
	fields := map[string]bool{}
	for _, b := range exp.Blocks {
		for _, ins := range b.Instrs {
			if fa, ok := ins.(*ssa.FieldAddr); ok {
				if f := fieldOf(fa.X.Type(), fa.Field); f != nil {
					fields[f.Name()] = true
				}
			}
		}
	}
	for _, p := range exp.Params {
		if n := c10ParamField[p]; n != "" && len(*p.Referrers()) > 0 {
			fields[n] = true
		}
	}
	need := []string{"absoluteSessionTimeout", "idleSessionTimeout", "added", "accessed"}
	all := true
	for _, n := range need {
		if !fields[n] {
			all = false
		}
	}
	c.Obl(all, "C10.R1", "predicate/reads-all", P.Pos(exp.Pos()), "the expiry predicate reads both timeouts and both timestamps",
		fmt.Sprintf("the expiry predicate does not read all of %v (reads %v)", need, keysOf(fields)))
	// pairing: each Before/After comparison pairs a timestamp with its own timeout and with `now`
	var nowParam ssa.Value
	for _, p := range exp.Params {
		if typeID(p.Type()) == "time.Time" {
			nowParam = p
		}
	}
	pairs := map[string]bool{}
	for _, ci := range allCalls(exp) {
		cc, ok := ci.(*ssa.Call)
		if !ok || !isCallToAny(cc, "time.Time.Before", "time.Time.After") {
			continue
		}
		recvF := depFields(cc.Common().Args[0])
		argF := depFields(cc.Common().Args[1])
		usesNow := false
		for _, side := range cc.Common().Args {
			for d := range dataDeps(side) {
				if d == nowParam {
					usesNow = true
				}
				if dc, isC := d.(*ssa.Call); isC && isCallTo(dc, pkgOIDC+".Clock.Now") {
					usesNow = true
				}
			}
		}
		both := map[string]bool{}
		for k := range recvF {
			both[k] = true
		}
		for k := range argF {
			both[k] = true
		}
		key := ""
		switch {
		case both["added"] && both["absoluteSessionTimeout"] && !both["idleSessionTimeout"] && !both["accessed"]:
			key = "absolute↔created"
		case both["accessed"] && both["idleSessionTimeout"] && !both["absoluteSessionTimeout"] && !both["added"]:
			key = "idle↔last-used"
		default:
			c.Fail("C10.R1", "predicate/pairing", P.Pos(cc.Pos()), fmt.Sprintf("a time comparison in the expiry predicate mixes %v: each timeout must be compared against its own timestamp", keysOf(both)))
			continue
		}
		// direction: timestamp.Before(now - timeout)  ⇔ expired
		dirOK := false
		if isCallTo(cc, "time.Time.Before") && (recvF["added"] || recvF["accessed"]) {
			dirOK = true
		}
		if isCallTo(cc, "time.Time.After") && (argF["added"] || argF["accessed"]) {
			dirOK = true
		}
		if usesNow && dirOK && !influencesOutcome(cc) {
			c.Fail("C10.R1", "predicate/pairing", P.Pos(cc.Pos()), "the comparison "+key+" is computed but does not influence the predicate's result")
			continue
		}
		if usesNow && dirOK {
			pairs[key] = true
		} else {
			c.Fail("C10.R1", "predicate/pairing", P.Pos(cc.Pos()), "comparison "+key+" does not have the form timestamp.Before(now − timeout)")
		}
	}
	for _, k := range []string{"absolute↔created", "idle↔last-used"} {
		c.Obl(pairs[k], "C10.R1", "predicate/"+k, P.Pos(exp.Pos()), "comparison "+k+" present (timestamp before now − timeout ⇒ expired)",
			"the expiry predicate lacks the comparison "+k)
	}
	// a zero timeout disables its limit: each timestamp comparison of the predicate is evaluated only where its
	// own timeout is known to be positive (`timeout > 0 && …`, or an early `if timeout <= 0 { return false }`)
	gt := 0
	ffExp := FactsOf(exp)
	for _, ci := range allCalls(exp) {
		cc, ok := ci.(*ssa.Call)
		if !ok || !isCallToAny(cc, "time.Time.Before", "time.Time.After") {
			continue
		}
		var tv ssa.Value
		for _, side := range cc.Common().Args {
			for d := range dataDeps(side) {
				if n := fieldNameOfLoad(d); n == "absoluteSessionTimeout" || n == "idleSessionTimeout" {
					tv = d
				}
			}
		}
		if tv == nil {
			continue
		}
		if ffExp.At(cc).intFact(tv, func(op token.Token, k int64) bool {
			return (op == token.GTR && k >= 0) || (op == token.GEQ && k >= 1) || (op == token.NEQ && k == 0)
		}) {
			gt++
		}
	}
	c.Obl(gt >= 2, "C10.R1", "predicate/zero-disables", P.Pos(exp.Pos()), "each limit is applied only when its timeout is > 0",
		"the expiry predicate does not guard both limits with timeout > 0 (a zero timeout must disable the limit, not expire everything)")

	// a session leaves the map only through RemoveSession or through that predicate (C12.R6): a sweep with cut-offs of its
	// own applies a limit whose timeout is zero
	if c.ID == "C10" {
		importObls(c, "C12", checkC12, "C10.R1", func(o *Obligation) bool { return strings.HasPrefix(o.Key, "C12.R6/") })
		// the timeouts a store is built with are the filter's own: an override is merged into a copy of the defaults, never
		// into the shared default configuration itself (C18.R3) — otherwise one chain's longer timeouts leak into the next
		importObls(c, "C18", checkC18, "C10.R4", func(o *Obligation) bool { return strings.HasPrefix(o.Key, "C18.R3/merge-into-own-copy") })
	}
	// ---- every lookup passes the predicate
	nLookups := 0
	for _, fn := range sr.memMethods {
		ff := FactsOf(fn)
		for _, b := range fn.Blocks {
			if !ff.Reachable(b) {
				continue
			}
			for _, ins := range b.Instrs {
				lk, ok := ins.(*ssa.Lookup)
				if !ok {
					continue
				}
				if n := fieldNameOfLoad(lk.X); n != "sessions" {
					continue
				}
				nLookups++
				key := "lookup/" + fnKey(fn)
				var s ssa.Value = lk
				if lk.CommaOk {
					if rv := extractOf(lk, 0); rv != nil {
						s = rv
					}
				}
				// uses of s: Return carrying s, field access of s, passing s to a call other than the predicate
				// v is the looked-up session, possibly merged with other values (a phi with a fresh session)
				isS := func(v ssa.Value) bool {
					if v == s {
						return true
					}
					if _, isPhi := v.(*ssa.Phi); isPhi {
						for _, l := range Leaves(v, leafOpts{noConcat: true}) {
							if l == s {
								return true
							}
						}
					}
					return false
				}
				isPredCall := func(i ssa.Instruction) bool {
					cc, ok := i.(*ssa.Call)
					if !ok || cc.Common().StaticCallee() != sr.Expiry {
						return false
					}
					for _, a := range cc.Common().Args {
						if isS(a) {
							return true
						}
						// the predicate is handed the session's timestamps instead of the session
						if base, f, isL := fieldLoad(resolveCell(stripConv(a))); isL && f != nil && isS(resolveCell(stripConv(base))) {
							return true
						}
					}
					return false
				}
				isUse := func(i ssa.Instruction) bool {
					switch x := i.(type) {
					case *ssa.Return:
						for _, r := range x.Results {
							for _, l := range Leaves(r, leafOpts{noConcat: true}) {
								if l == s {
									return true
								}
							}
						}
					case *ssa.FieldAddr:
						if !isS(x.X) {
							return false
						}
						// reading a timestamp only to hand it to the predicate is the consultation itself
						onlyForPred := x.Referrers() != nil && len(*x.Referrers()) > 0
						if onlyForPred {
							for _, r := range *x.Referrers() {
								ld, isLd := r.(*ssa.UnOp)
								if !isLd || ld.Op != token.MUL || ld.Referrers() == nil || len(*ld.Referrers()) == 0 {
									onlyForPred = false
									break
								}
								for _, lr := range *ld.Referrers() {
									if li, isI := lr.(ssa.Instruction); !isI || !isPredCall(li) {
										onlyForPred = false
									}
								}
							}
						}
						return !onlyForPred
					case *ssa.Call:
						if isPredCall(i) {
							return false
						}
						for _, a := range x.Common().Args {
							if isS(a) {
								return true
							}
						}
					}
					return false
				}
				// (1) on paths where s != nil, a use is reachable only through the predicate call
				hit := reachAvoidingEdges(lk, isUse, isPredCall, func(p, q *ssa.BasicBlock) bool {
					return ff.OnEdge(p, q).IsNil(s) // skip edges on which the session is absent
				})
				// returning s itself when nil is fine: filter uses under a nil fact
				if hit != nil && ff.At(hit).IsNil(s) {
					hit = nil
				}
				c.Obl(hit == nil, "C10.R1", key+"/passes-predicate", P.Pos(instrPos(lk)),
					"a session read from the map reaches its first use only through the expiry predicate",
					fmt.Sprintf("a session read from the map in %s is used at %s without the expiry predicate having been consulted: the configured timeouts are not enforced on this access", fnKey(fn), posOf(P, hit)))
				// (2) once the predicate is true, no use
				bad := false
				var badAt ssa.Instruction
				for _, ci := range callsToFn(fn, sr.Expiry) {
					cc := ci.(*ssa.Call)
					if !isPredCall(cc) {
						continue
					}
					region := regionWhere(fn, func(fs FactSet) bool { v, k := fs.CallBool(cc, -1); return k && v })
					if len(region) == 0 {
						// predicate result unused
						bad = true
						badAt = cc
						continue
					}
					// a use through a phi counts here only if the looked-up session can arrive at the phi from the
					// expired region (after `s = nil` on the expired path the merged value is nil there)
					viaRegion := func(v ssa.Value) bool {
						ph, isPhi := v.(*ssa.Phi)
						if !isPhi {
							return true
						}
						for k, e := range ph.Edges {
							carries := e == s
							for _, l := range Leaves(e, leafOpts{noConcat: true}) {
								if l == s {
									carries = true
								}
							}
							if !carries {
								continue
							}
							pred := ph.Block().Preds[k]
							for _, rb := range region {
								if rb == pred || blockReaches(rb, pred) {
									return true
								}
							}
						}
						return false
					}
					isUseAfterExpiry := func(i ssa.Instruction) bool {
						if !isUse(i) {
							return false
						}
						switch x := i.(type) {
						case *ssa.FieldAddr:
							return viaRegion(x.X)
						case *ssa.Call:
							for _, a := range x.Common().Args {
								if isS(a) && viaRegion(a) {
									return true
								}
							}
							return false
						}
						return true
					}
					if h := reachFromBlocks(region, isUseAfterExpiry, nil); h != nil {
						bad = true
						badAt = h
					}
				}
				c.Obl(!bad, "C10.R1", key+"/expired-not-used", P.Pos(instrPos(lk)),
					"after the predicate reported expiry the session is neither returned nor used",
					fmt.Sprintf("in %s an expired session can still be returned or used (%s)", fnKey(fn), posOf(P, badAt)))
			}
		}
	}
	c.Obl(nLookups >= 1, "C10.R1", "lookup/count", "-", fmt.Sprintf("%d lookups of the sessions map analysed", nLookups), "no lookup of the sessions map found (anchor lost)")
	// the `now` handed to the predicate at those sites is the store clock's current time
	for _, fn := range sr.memMethods {
		for _, ci := range callsToFn(fn, sr.Expiry) {
			cc := ci.(*ssa.Call)
			okNow := false
			for _, a := range cc.Common().Args {
				if typeID(a.Type()) != "time.Time" {
					continue
				}
				for _, l := range Leaves(a, leafOpts{noConcat: true}) {
					if nc, _, isC := asCall(l); isC && isCallTo(nc, pkgOIDC+".Clock.Now") {
						okNow = true
					}
				}
			}
			c.Obl(okNow, "C10.R1", "now/"+nthCallKey(cc), P.Pos(cc.Pos()), "the predicate is evaluated against clock.Now() of this activation",
				"the expiry predicate is not evaluated against the store clock's current time")
		}
	}
	// activity extends the idle limit: every interface method that hands out or updates an existing session
	// refreshes its last-used time from the store clock before a successful return
	for _, fn := range sr.memMethods {
		if fn.Parent() != nil {
			continue
		}
		touches := false
		for _, b := range fn.Blocks {
			for _, ins := range b.Instrs {
				if fa, ok := ins.(*ssa.FieldAddr); ok && sr.SessionType != nil && types.Identical(derefType(fa.X.Type()), sr.SessionType) {
					if f := fieldOf(fa.X.Type(), fa.Field); f != nil && (f.Name() == "tokenResponse" || f.Name() == "authorizationState") {
						touches = true
					}
				}
			}
		}
		if !touches || fn == sr.Expiry {
			continue
		}
		isTouch := func(i ssa.Instruction) bool {
			st, ok := i.(*ssa.Store)
			if !ok {
				return false
			}
			fa, isF := st.Addr.(*ssa.FieldAddr)
			if !isF || sr.SessionType == nil || !types.Identical(derefType(fa.X.Type()), sr.SessionType) {
				return false
			}
			f := fieldOf(fa.X.Type(), fa.Field)
			if f == nil || f.Name() != "accessed" {
				return false
			}
			for _, l := range Leaves(st.Val, leafOpts{noConcat: true}) {
				if nc, _, isC := asCall(l); isC && isCallTo(nc, pkgOIDC+".Clock.Now") {
					return true
				}
				if _, isP := l.(*ssa.Parameter); isP {
					return true // newSession(t): the creation time
				}
			}
			return false
		}
		isFreshSession := func(i ssa.Instruction) bool {
			cc, ok := i.(*ssa.Call)
			return ok && cc.Common().StaticCallee() != nil && cc.Common().StaticCallee().Name() == "newSession"
		}
		ok := true
		var at ssa.Instruction
		ff := FactsOf(fn)
		for _, r := range returnsOf(fn) {
			// returns that hand out nothing (nil data) are exempt
			if len(r.Results) == 2 && isNilConst(r.Results[0]) {
				continue
			}
			// a path to this return on which a session exists must pass a touch (or creates a fresh session)
			hit := reachAvoidingEdges(fn.Blocks[0].Instrs[0], func(i ssa.Instruction) bool { return i == ssa.Instruction(r) },
				func(i ssa.Instruction) bool { return isTouch(i) || isFreshSession(i) },
				func(p, q *ssa.BasicBlock) bool {
					// skip edges on which the looked-up session is known absent
					for cond, pol := range ff.OnEdge(p, q) {
						if bo, isB := cond.(*ssa.BinOp); isB && isNilConst(bo.Y) && sr.SessionType != nil && types.Identical(derefType(bo.X.Type()), sr.SessionType) {
							if (bo.Op == token.EQL && pol) || (bo.Op == token.NEQ && !pol) {
								return true
							}
						}
					}
					return false
				})
			if hit != nil && len(r.Results) <= 1 && fn.Name() == "ClearAuthorizationState" {
				// clearing a non-existent session touches nothing: only paths with a session count (handled by skipEdge)
			}
			if hit != nil {
				ok, at = false, r
			}
		}
		c.Obl(ok, "C10.R1", "touch/"+fnKey(fn), P.Pos(fn.Pos()), "an existing session's last-used time is refreshed (clock.Now()) before "+fn.Name()+" returns successfully",
			fmt.Sprintf("%s can hand out or update an existing session without refreshing its last-used time (%s): activity no longer extends the idle limit and a session inside both limits is dropped", fn.Name(), posOf(P, at)))
	}
	// information: who calls the sweep
	sweepCallers := 0
	for _, fn := range P.Funcs {
		for _, ci := range allCalls(fn) {
			if isCallTo(ci, mSweep) || (ci.Common().StaticCallee() != nil && ci.Common().StaticCallee().Name() == "RemoveAllExpired") {
				sweepCallers++
			}
		}
	}
	c.extra["production_callers_of_RemoveAllExpired"] = sweepCallers
}

// influencesOutcome: v reaches an If condition or a Return operand through phis, negations and
// boolean operators.
func influencesOutcome(v ssa.Value) bool {
	seen := map[ssa.Value]bool{}
	var walk func(x ssa.Value) bool
	walk = func(x ssa.Value) bool {
		if seen[x] {
			return false
		}
		seen[x] = true
		rs := x.Referrers()
		if rs == nil {
			return false
		}
		for _, r := range *rs {
			switch y := r.(type) {
			case *ssa.If, *ssa.Return:
				return true
			case *ssa.Phi:
				if walk(y) {
					return true
				}
			case *ssa.UnOp:
				if walk(y) {
					return true
				}
			case *ssa.BinOp:
				if walk(y) {
					return true
				}
			}
		}
		return false
	}
	return walk(v)
}

func keysOf(m map[string]bool) []string {
	var out []string
	for k := range m {
		out = append(out, k)
	}
	sortStrings(out)
	return out
}

func sortStrings(s []string) {
	for i := 1; i < len(s); i++ {
		for j := i; j > 0 && s[j] < s[j-1]; j-- {
			s[j], s[j-1] = s[j-1], s[j]
		}
	}
}

func extractOf(t ssa.Value, idx int) ssa.Value {
	rs := t.Referrers()
	if rs == nil {
		return nil
	}
	for _, r := range *rs {
		if e, ok := r.(*ssa.Extract); ok && e.Index == idx {
			return e
		}
	}
	return nil
}

// reachAvoidingEdges: like reachAvoiding from the point after `from`, skipping CFG edges for which
// skipEdge returns true.
func reachAvoidingEdges(from ssa.Instruction, target, barrier func(ssa.Instruction) bool, skipEdge func(p, q *ssa.BasicBlock) bool) ssa.Instruction {
	type st struct {
		b *ssa.BasicBlock
		i int
	}
	seen := map[*ssa.BasicBlock]bool{}
	queue := []st{{from.Block(), instrIndex(from) + 1}}
	for len(queue) > 0 {
		cur := queue[0]
		queue = queue[1:]
		if cur.i == 0 {
			if seen[cur.b] {
				continue
			}
			seen[cur.b] = true
		}
		blocked := false
		for i := cur.i; i < len(cur.b.Instrs); i++ {
			ins := cur.b.Instrs[i]
			if target(ins) {
				return ins
			}
			if barrier != nil && barrier(ins) {
				blocked = true
				break
			}
		}
		if blocked {
			continue
		}
		for _, s := range cur.b.Succs {
			if skipEdge != nil && skipEdge(cur.b, s) {
				continue
			}
			if deadEdge(cur.b, s) {
				continue
			}
			queue = append(queue, st{s, 0})
		}
	}
	return nil
}

func c10R2(c *Check, sr *storeRoles) {
	P := c.P
	// memory: stores to session.added only on freshly allocated sessions
	n := 0
	for _, fn := range P.Funcs {
		for _, b := range fn.Blocks {
			for _, ins := range b.Instrs {
				st, ok := ins.(*ssa.Store)
				if !ok {
					continue
				}
				fa, ok := st.Addr.(*ssa.FieldAddr)
				if !ok || sr.SessionType == nil || !types.Identical(derefType(fa.X.Type()), sr.SessionType) {
					continue
				}
				f := fieldOf(fa.X.Type(), fa.Field)
				if f == nil || f.Name() != "added" {
					continue
				}
				n++
				_, fresh := fa.X.(*ssa.Alloc)
				c.Obl(fresh, "C10.R2", "created-write/"+fnKey(fn), P.Pos(instrPos(st)),
					"creation time written on a freshly allocated session only",
					"the creation time of an existing session is overwritten in "+fnKey(fn)+": activity can stretch the absolute limit")
			}
		}
	}
	c.Obl(n >= 1, "C10.R2", "created-write/count", "-", fmt.Sprintf("%d writes of the creation time", n), "no write of the session creation time found (anchor lost)")
	// … and a freshly allocated session (with a new creation time) is put into the map only where no live session is
	// stored under that id: replacing a live session by a new object restarts its absolute limit
	nIns := 0
	for _, fn := range sr.memMethods {
		ffm := FactsOf(fn)
		for _, b := range fn.Blocks {
			for _, ins := range b.Instrs {
				mu, ok := ins.(*ssa.MapUpdate)
				if !ok {
					continue
				}
				if _, f, isL := fieldLoad(resolveCell(stripConv(mu.Map))); !isL || f == nil || f.Name() != "sessions" {
					continue
				}
				nIns++
				// the looked-up session under the same key is known to be absent here
				absent := false
				for _, b2 := range fn.Blocks {
					for _, i2 := range b2.Instrs {
						var looked ssa.Value
						var key ssa.Value
						switch x := i2.(type) {
						case *ssa.Lookup:
							if _, f, isL := fieldLoad(resolveCell(stripConv(x.X))); isL && f != nil && f.Name() == "sessions" {
								looked, key = x, x.Index
								if x.CommaOk {
									looked = extractOf(x, 0)
								}
							}
						case *ssa.Call:
							if callee := x.Common().StaticCallee(); callee != nil && recvNamed(callee) == sr.Mem && x.Type() != nil && sr.SessionType != nil &&
								types.Identical(derefType(x.Type()), sr.SessionType) {
								for _, a := range x.Common().Args {
									if isString(a.Type()) {
										looked, key = x, a
									}
								}
							}
						}
						if looked == nil || key == nil || !sameVal(key, mu.Key) {
							continue
						}
						if ffm.At(mu).IsNil(looked) {
							absent = true
						}
					}
				}
				c.Obl(absent, "C10.R2", "insert-only-when-absent/"+fnKey(fn), P.Pos(mu.Pos()), "a session object is put into the map only where no live session is stored under that id",
					"a session object is put into the map in "+fnKey(fn)+" although a live session may be stored under that id: the replacement carries a new creation time, so activity restarts the absolute limit")
			}
		}
	}
	c.Obl(nIns >= 1, "C10.R2", "insert-sites", "-", fmt.Sprintf("%d insertions into the session map", nIns), "no insertion into the session map found (anchor lost)")
	// redis: time_added only through HSetNX
	nx := 0
	for _, fn := range sr.redisMethods {
		for _, ci := range allCalls(fn) {
			ce := calleeOf(ci)
			if ce.Obj == nil || !strings.HasPrefix(funcID(ce.Obj), "github.com/redis/go-redis/v9.") {
				continue
			}
			name := ce.Obj.Name()
			if !strings.HasPrefix(name, "HSet") && !strings.HasPrefix(name, "HMSet") && !strings.HasPrefix(name, "HIncr") {
				continue
			}
			mentions := false
			for _, a := range callArgs(ci) {
				for d := range dataDeps(a) {
					if s, isC := constString(d); isC && s == "time_added" {
						mentions = true
					}
				}
				if entries, isMap := mapLitEntries(a); isMap {
					for _, e := range entries {
						if s, isC := constString(e.Key); isC && s == "time_added" {
							mentions = true
						}
					}
				}
			}
			if !mentions {
				continue
			}
			nx++
			c.Obl(name == "HSetNX", "C10.R2", "redis-created-write/"+nthCallKey(ci), P.Pos(ci.Pos()),
				"time_added written with HSETNX (first write wins)",
				"time_added is written with "+name+" instead of HSETNX: every write moves the creation time, stretching the absolute limit")
		}
	}
	// both set operations record the creation time (directly or through a shared helper method)
	for _, wn := range []string{"SetTokenResponse", "SetAuthorizationState"} {
		for _, fn := range sr.redisMethods {
			if fn.Name() != wn || fn.Parent() != nil {
				continue
			}
			has := false
			for _, ci := range deepCalls(fn, 2) {
				ce := calleeOf(ci)
				if ce.Obj == nil || ce.Obj.Name() != "HSetNX" {
					continue
				}
				for _, a := range callArgs(ci) {
					if s2, isC := constString(a); isC && s2 == "time_added" {
						has = true
					}
				}
			}
			c.Obl(has, "C10.R2", "redis-created-write/"+wn, P.Pos(fn.Pos()), wn+" records time_added with HSETNX", wn+" no longer records the creation time (time_added) with HSETNX")
		}
	}
	// … on every path: a setter that can succeed without having executed the HSETNX (a cache of "already
	// stamped" ids, a flag) leaves a re-created hash without creation time
	var passesStamp func(h *ssa.Function, depth int) bool
	isStamp := func(ci ssa.CallInstruction) bool {
		ce := calleeOf(ci)
		if ce.Obj == nil || ce.Obj.Name() != "HSetNX" {
			return false
		}
		for _, a := range callArgs(ci) {
			if s2, isC := constString(a); isC && s2 == "time_added" {
				return true
			}
		}
		return false
	}
	passesStamp = func(h *ssa.Function, depth int) bool {
		if h == nil || h.Blocks == nil || depth == 0 {
			return false
		}
		pred := func(i ssa.Instruction) bool {
			ci, ok := i.(ssa.CallInstruction)
			if !ok {
				return false
			}
			if isStamp(ci) {
				return true
			}
			if g := ci.Common().StaticCallee(); g != nil && g != h && recvNamed(g) == sr.Redis && g != sr.RefreshExp {
				return passesStamp(g, depth-1)
			}
			return false
		}
		any := false
		for _, r := range returnsOf(h) {
			if len(r.Results) > 0 {
				errV := r.Results[len(r.Results)-1]
				mayBeNil := false
				for _, l := range Leaves(errV, leafOpts{noConcat: true}) {
					if isNilConst(l) {
						mayBeNil = true
					}
					if cl, _, isC := asCall(l); isC && (cl.Common().StaticCallee() == sr.RefreshExp || (cl.Common().StaticCallee() != nil && recvNamed(cl.Common().StaticCallee()) == sr.Redis)) {
						mayBeNil = true
					}
				}
				if !mayBeNil || FactsOf(h).At(r).NonNil(errV) {
					continue // an error return
				}
			}
			any = true
			if !mustPassBefore(h, r, pred) {
				return false
			}
		}
		return any
	}
	for _, wn := range []string{"SetTokenResponse", "SetAuthorizationState"} {
		for _, fn := range sr.redisMethods {
			if fn.Name() != wn || fn.Parent() != nil {
				continue
			}
			c.Obl(passesStamp(fn, 3), "C10.R2", "redis-created-write-on-every-path/"+wn, P.Pos(fn.Pos()), "every successful return of "+wn+" has executed HSETNX time_added",
				wn+" can succeed without executing HSETNX time_added (conditional stamping): a session re-created after removal or expiry has no creation time")
		}
	}
	// only the two write operations stamp: an operation that is not a write (clear, read, remove) must not create
	// the hash of an absent session — a later real write would inherit that creation time and TTL
	var setters []*ssa.Function
	for _, fn := range sr.redisMethods {
		if fn.Parent() == nil && (fn.Name() == "SetTokenResponse" || fn.Name() == "SetAuthorizationState") {
			setters = append(setters, fn)
		}
	}
	for _, fn := range sr.redisMethods {
		for _, ci := range allCalls(fn) {
			if !isStamp(ci) {
				continue
			}
			top := fn
			for top.Parent() != nil {
				top = top.Parent()
			}
			okWho := false
			for _, st := range setters {
				if top == st {
					okWho = true
				}
			}
			if !okWho && len(setters) > 0 {
				// a helper every caller chain of which starts in a setter
				okWho = true
				var walk func(f *ssa.Function, d int) bool
				walk = func(f *ssa.Function, d int) bool {
					for _, st := range setters {
						if f == st {
							return true
						}
					}
					callers := P.CallersOf(f)
					if d == 0 || len(callers) == 0 {
						return false
					}
					for _, cs := range callers {
						cf := cs.Parent()
						for cf.Parent() != nil {
							cf = cf.Parent()
						}
						if !walk(cf, d-1) {
							return false
						}
					}
					return true
				}
				okWho = walk(top, 3)
			}
			c.Obl(okWho, "C10.R2", "redis-created-stamped-by-writes-only/"+nthCallKey(ci), P.Pos(ci.Pos()), "HSETNX time_added is issued by the two write operations only",
				"HSETNX time_added is issued in "+fnKey(top)+", which is not one of the two write operations: an absent session is re-created (with a creation time and TTL) by an operation that writes nothing")
		}
	}
	// the creation time is never deleted on its own (only with the whole key)
	for _, fn := range sr.redisMethods {
		for _, ci := range allCalls(fn) {
			ce := calleeOf(ci)
			if ce.Obj == nil || ce.Obj.Name() != "HDel" || !strings.HasPrefix(funcID(ce.Obj), "github.com/redis/go-redis/v9.") {
				continue
			}
			keys := constStringArgs(ci, 2)
			for _, a := range callArgs(ci)[2:] {
				keys = append(keys, globalSliceStrings(P, resolveCell(stripConv(a)))...)
			}
			del := false
			for _, k := range keys {
				if k == "time_added" {
					del = true
				}
			}
			c.Obl(!del, "C10.R2", "redis-created-not-deleted/"+nthCallKey(ci), P.Pos(ci.Pos()), "HDEL does not name time_added",
				"HDEL removes time_added from a live session: the next HSETNX stamps a new creation time and the absolute limit starts again")
		}
	}
	c.Obl(nx >= 1, "C10.R2", "redis-created-write/count", "-", fmt.Sprintf("%d write sites of time_added", nx),
		fmt.Sprintf("only %d write sites of time_added found", nx))
}

func c10R3(c *Check, sr *storeRoles) {
	P := c.P
	ref := sr.RefreshExp
	for _, name := range []string{"SetTokenResponse", "SetAuthorizationState", "GetTokenResponse", "GetAuthorizationState", "ClearAuthorizationState"} {
		var fn *ssa.Function
		for _, m := range sr.redisMethods {
			if m.Name() == name && m.Parent() == nil {
				fn = m
			}
		}
		if !c.Anchor("C10.R3", "redis "+name, fn != nil) {
			continue
		}
		ff := FactsOf(fn)
		var rcalls []*ssa.Call
		for _, ci := range callsToFn(fn, ref) {
			rcalls = append(rcalls, ci.(*ssa.Call))
		}
		// calls of own helper methods whose every successful return passes the refresher count as refresher calls
		for _, ci := range allCalls(fn) {
			cc, ok := ci.(*ssa.Call)
			if !ok {
				continue
			}
			h := cc.Common().StaticCallee()
			if h == nil || h == ref || h == fn || recvNamed(h) != sr.Redis || h.Blocks == nil {
				continue
			}
			if helperPassesRefresher(h, ref) {
				rcalls = append(rcalls, cc)
			}
		}
		n := 0
		for _, r := range returnsOf(fn) {
			errV := r.Results[len(r.Results)-1]
			success := false
			viaRefresh := false
			knownErr := ff.At(r).NonNil(errV)
			for _, l := range Leaves(errV, leafOpts{noConcat: true}) {
				if isNilConst(l) && !knownErr {
					success = true
				}
				for _, rc := range rcalls {
					if l == rc {
						viaRefresh = true
					}
				}
			}
			if knownErr && len(r.Results) == 1 {
				continue // `if err != nil { return err }`: an error return, whatever the variable could hold elsewhere
			}
			dataRet := len(r.Results) == 2 && !isNilConst(r.Results[0])
			if len(r.Results) == 2 {
				if !dataRet {
					continue // (nil, …): absent or error — nothing is honoured
				}
			} else if !success && !viaRefresh {
				continue // plain error return
			}
			n++
			key := fmt.Sprintf("ttl/%s/return#%d", name, n)
			ok := viaRefresh && !success
			if !ok {
				for _, rc := range rcalls {
					if ff.At(r).CallErrNil(rc, -1) {
						ok = true
					}
				}
			}
			c.Obl(ok, "C10.R3", key, P.Pos(instrPos(r)), "successful return passes the TTL refresher (its error is returned or known nil)",
				"redis "+name+" can return successfully without the key's TTL having been refreshed: the session would not expire (or keep a stale TTL)")
		}
		c.Obl(n >= 1, "C10.R3", "ttl/"+name+"/count", P.Pos(fn.Pos()), fmt.Sprintf("%d successful returns", n), "no successful return found in redis "+name)
	}
	// the creation time handed to the refresher is the stored one (or the zero time, which makes the refresher
	// read it from the hash) — never the current time: a write to an existing session would otherwise set the
	// key's TTL to now + absolute and a later read would hand out a session that is past its absolute limit
	nRef := 0
	for _, site := range P.CallersOf(ref) {
		var tArg ssa.Value
		for i, p := range ref.Params {
			if typeID(p.Type()) == "time.Time" && i < len(site.Common().Args) {
				tArg = site.Common().Args[i]
			}
		}
		if tArg == nil {
			continue
		}
		nRef++
		isNow := false
		for d := range dataDeps(tArg) {
			if nc, _, isC := asCall(d); isC && isCallTo(nc, pkgOIDC+".Clock.Now") {
				isNow = true
			}
		}
		if nc, _, isC := asCall(resolveCell(stripConv(tArg))); isC && isCallTo(nc, pkgOIDC+".Clock.Now") {
			isNow = true
		}
		c.Obl(!isNow, "C10.R3", "refresher-gets-stored-creation-time/"+fnKey(site.Parent()), P.Pos(site.Pos()), "the refresher is given the stored creation time (or the zero time)",
			"the TTL refresher is given the current time as the session's creation time in "+fnKey(site.Parent())+": for a session that already exists the key's TTL becomes now + absolute timeout and the session is handed out after its absolute limit")
	}
	c.Obl(nRef >= 3, "C10.R3", "refresher-call-sites", "-", fmt.Sprintf("%d call sites of the TTL refresher", nRef), fmt.Sprintf("only %d call sites of the TTL refresher found", nRef))
	// refresher shape
	var ex *ssa.Call
	for _, ci := range redisCalls(ref, "ExpireAt") {
		ex = ci.(*ssa.Call)
	}
	if !c.Anchor("C10.R3", "ExpireAt call", ex != nil) {
		return
	}
	// every successful return of the refresher has armed the key's expiry: it is the EXPIREAT command's own
	// result, or it happens with both timeouts known to be zero (nothing to enforce) — never "the deadline has
	// passed, let Redis do it": a key without TTL, or with a longer one, is never reaped
	{
		ffr := FactsOf(ref)
		nRet := 0
		for _, r := range returnsOf(ref) {
			if len(r.Results) == 0 {
				continue
			}
			errV := r.Results[len(r.Results)-1]
			if !isNilConst(errV) {
				continue // an error, or the result of a command (checked below for EXPIREAT)
			}
			nRet++
			zero := 0
			for cond, pol := range ffr.At(r) {
				x, op, k, ok := cmpWithConstInt(cond)
				if !ok || k != 0 {
					continue
				}
				n := fieldNameOfLoad(x)
				if n != "absoluteSessionTimeout" && n != "idleSessionTimeout" {
					continue
				}
				if (op == token.EQL && pol) || (op == token.NEQ && !pol) {
					zero++
				}
			}
			okRet := zero >= 2 || ffr.At(r).CallErrNil(ex, -1)
			c.Obl(okRet, "C10.R3", fmt.Sprintf("refresher-success-arms-expiry#%d", nRet), P.Pos(instrPos(r)), "a nil return of the refresher happens only with both timeouts zero or after EXPIREAT succeeded",
				"the TTL refresher can return success without having issued EXPIREAT although a timeout is configured: a key without (or with a longer) TTL is honoured past its limits")
		}
	}
	tm := callArgs(ex)[2]
	sawAbs, sawIdle := false, false
	for i, alt := range phiAlternatives(ref, tm, ex) {
		key := fmt.Sprintf("expire-at/alt#%d", i+1)
		ac, _, ok := asCall(resolveCell(alt.V))
		if !ok || !isCallTo(ac, "time.Time.Add") {
			c.Fail("C10.R3", key, P.Pos(ex.Pos()), "EXPIREAT time alternative "+descDepth(alt.V, 3)+" is not base.Add(timeout)")
			continue
		}
		base, dur := ac.Common().Args[0], ac.Common().Args[1]
		durF := fieldNameOfLoad(dur)
		baseIsNow := false
		for _, l := range Leaves(base, leafOpts{noConcat: true}) {
			if nc, _, isC := asCall(l); isC && isCallTo(nc, pkgOIDC+".Clock.Now") {
				baseIsNow = true
			}
		}
		baseIsCreated := false
		for _, l := range Leaves(base, leafOpts{noConcat: true}) {
			if p, isP := l.(*ssa.Parameter); isP && typeID(p.Type()) == "time.Time" {
				baseIsCreated = true
			}
			if tc, _, isC := asCall(l); isC && tc.Common().StaticCallee() == nil {
				_ = tc
			}
			if tc, _, isC := asCall(l); isC && strings.HasSuffix(funcID(calleeOf(tc).Obj), "StringCmd.Time") {
				baseIsCreated = true
			}
		}
		zeroFact := func(field string) bool {
			for cond, pol := range alt.Facts {
				if bo, isB := cond.(*ssa.BinOp); isB && bo.Op == token.EQL && pol {
					if k, isC := constInt(bo.Y); isC && k == 0 && fieldNameOfLoad(bo.X) == field {
						return true
					}
				}
			}
			return false
		}
		switch {
		case durF == "absoluteSessionTimeout" && baseIsCreated && !baseIsNow:
			sawAbs = true
			c.Obl(!zeroFact("absoluteSessionTimeout"), "C10.R3", key, P.Pos(ac.Pos()), "created + absolute timeout", "created + absolute is selected although the absolute timeout is 0 (expires immediately)")
		case durF == "idleSessionTimeout" && baseIsNow && !baseIsCreated:
			sawIdle = true
			c.Obl(!zeroFact("idleSessionTimeout"), "C10.R3", key, P.Pos(ac.Pos()), "now + idle timeout", "now + idle is selected although the idle timeout is 0 (expires immediately)")
		default:
			c.Fail("C10.R3", key, P.Pos(ac.Pos()), fmt.Sprintf("EXPIREAT alternative pairs timeout %q with the wrong base (now=%v, created=%v): absolute must count from creation, idle from now", durF, baseIsNow, baseIsCreated))
		}
	}
	c.Obl(sawAbs && sawIdle, "C10.R3", "expire-at/both-limits", P.Pos(ex.Pos()), "both limits can determine the TTL",
		"the TTL no longer takes both the absolute and the idle limit into account")
	// min: when both are set the idle alternative is chosen only if it is before the absolute one
	minOK := false
	for _, ci := range callsTo(ref, "time.Time.Before") {
		cc := ci.(*ssa.Call)
		r := depFields(cc.Common().Args[0])
		a := depFields(cc.Common().Args[1])
		if r["idleSessionTimeout"] && a["absoluteSessionTimeout"] || r["absoluteSessionTimeout"] && a["idleSessionTimeout"] {
			minOK = true
		}
	}
	// direction: on the edge where X.Before(Y) holds the selected time is X, otherwise Y
	for _, alt := range phiAlternatives(ref, tm, ex) {
		for cond, pol := range alt.Facts {
			bc, _, isC := asCall(cond)
			if !isC || !isCallTo(bc, "time.Time.Before") {
				continue
			}
			x, y := bc.Common().Args[0], bc.Common().Args[1]
			fx, fy := depFields(x), depFields(y)
			if !((fx["idleSessionTimeout"] && fy["absoluteSessionTimeout"]) || (fx["absoluteSessionTimeout"] && fy["idleSessionTimeout"])) {
				continue
			}
			want := y
			if pol {
				want = x
			}
			if !sameVal(resolveCell(alt.V), resolveCell(want)) {
				// the alternative may be the phi itself on the other side; compare by timeout field
				wf := depFields(want)
				af := depFields(alt.V)
				if (wf["idleSessionTimeout"] && !af["idleSessionTimeout"]) || (wf["absoluteSessionTimeout"] && !wf["idleSessionTimeout"] && af["idleSessionTimeout"]) {
					minOK = false
					c.Fail("C10.R3", "expire-at/min-direction", P.Pos(bc.Pos()), "when one candidate is before the other, the later one is selected as the key's expiry (max instead of min)")
				}
			}
		}
	}
	c.Obl(minOK, "C10.R3", "expire-at/min", P.Pos(ref.Pos()), "the two candidate times are compared (the earlier one wins)",
		"the absolute and idle expiry candidates are no longer compared: the later one could win")
	// missing creation time ⇒ delete + error
	okDel := false
	for _, ci := range redisCalls(ref, "Del") {
		cc := ci.(*ssa.Call)
		fs := FactsOf(ref).At(cc)
		for cond, pol := range fs {
			if zc, _, isC := asCall(cond); isC && isCallTo(zc, "time.Time.IsZero") && pol {
				okDel = true
			}
		}
		// and from there only error returns
		if hit := reachAvoiding(cc, nil, func(i ssa.Instruction) bool {
			r, isR := i.(*ssa.Return)
			return isR && isNilConst(r.Results[0])
		}, nil); hit != nil {
			okDel = false
		}
	}
	c.Obl(okDel, "C10.R3", "missing-created-deletes", P.Pos(ref.Pos()), "a hash without creation time is deleted and reported as an error",
		"a session without creation time is no longer deleted-and-reported by the TTL refresher")
}

func c10R4(c *Check, sr *storeRoles) {
	P := c.P
	pre := P.Func(pkgOIDC, "(*sessionStoreFactory).PreRun")
	if !c.Anchor("C10.R4", "sessionStoreFactory.PreRun", pre != nil) {
		return
	}
	roleOfParam := func(name string) string {
		l := strings.ToLower(name)
		switch {
		case strings.Contains(l, "absolute"):
			return "absolute"
		case strings.Contains(l, "idle"):
			return "idle"
		}
		return ""
	}
	for _, ctor := range []*ssa.Function{sr.NewMem, sr.NewRed} {
		sites := callsToFn(pre, ctor)
		// … or from a function literal written in PreRun (the body of a per-filter iteration handed to an iterator helper)
		var lits func(f *ssa.Function, d int)
		lits = func(f *ssa.Function, d int) {
			for _, a := range f.AnonFuncs {
				sites = append(sites, callsToFn(a, ctor)...)
				if d > 0 {
					lits(a, d-1)
				}
			}
		}
		lits(pre, 2)
		c.Obl(len(sites) >= 1, "C10.R4", "ctor-called/"+ctor.Name(), P.Pos(pre.Pos()), ctor.Name()+" is called from PreRun", ctor.Name()+" is not called from the factory's PreRun")
		// … and only from there: the configuration is loaded by an earlier PreRun unit; a store built before
		// that (in a constructor, at package initialisation) gets the timeouts of an empty configuration
		for _, site := range P.CallersOf(ctor) {
			caller := site.Parent()
			for caller.Parent() != nil {
				caller = caller.Parent()
			}
			okCaller := caller == pre
			if !okCaller {
				// a helper whose every (transitive) caller is PreRun
				okCaller = onlyReachedFrom(P, caller, pre, 3)
			}
			c.Obl(okCaller, "C10.R4", "ctor-only-in-prerun/"+ctor.Name()+"/"+fnKey(caller), P.Pos(site.Pos()), ctor.Name()+" is called in the factory's PreRun (after the configuration was loaded)",
				ctor.Name()+" is called from "+fnKey(caller)+", which can run before the configuration is loaded: the store would be built with the timeouts of an empty configuration")
		}
		// the shared in-memory store is built with the timeouts of a filter that uses it: its constructor call is reached
		// only under the fact that the current filter has no Redis server configured (a store built from the first OIDC
		// filter, whatever its backend, gets the timeouts of a filter that never touches it)
		if ctor == sr.NewMem {
			for _, site := range sites {
				okBackend := false
				for cond, pol := range FactsOf(site.Parent()).At(site) {
					bo, isB := cond.(*ssa.BinOp)
					if !isB || (bo.Op != token.EQL && bo.Op != token.NEQ) {
						continue
					}
					empty := false
					if sv, isC := constString(bo.Y); isC && sv == "" {
						empty = true
					}
					if isNilConst(bo.Y) {
						empty = true
					}
					if !empty || (bo.Op == token.EQL) != pol {
						continue
					}
					for _, l := range Leaves(bo.X, leafOpts{noConcat: true}) {
						if dc, _, isC := asCall(resolveCell(stripConv(l))); isC && (isCallTo(dc, idOIDCConfig+".GetRedisSessionStoreConfig") || strings.HasSuffix(funcID(calleeOf(dc).Obj), "RedisConfig.GetServerUri")) {
							okBackend = true
						}
					}
				}
				c.Obl(okBackend, "C10.R4", "memory-store-for-a-memory-filter/"+nthCallKey(site), P.Pos(site.Pos()), "the in-memory store is built under `this filter has no Redis server`",
					"the in-memory store is built without the fact that the current filter uses it (no Redis server configured): it can get the timeouts of a Redis-backed filter")
			}
		}
		for _, site := range sites {
			for i, p := range ctor.Params {
				role := roleOfParam(p.Name())
				if role == "" {
					continue
				}
				arg := site.Common().Args[i]
				getter := ""
				secs := false
				var walk func(v ssa.Value, d int)
				walk = func(v ssa.Value, d int) {
					v = stripConv(v)
					if d == 0 {
						return
					}
					if r := resolveCell(v); r != v {
						// a local cell or a field of a struct built here (the two timeouts bundled in a small value)
						walk(r, d-1)
						return
					}
					switch x := v.(type) {
					case *ssa.BinOp:
						walk(x.X, d-1)
						walk(x.Y, d-1)
					case *ssa.Const:
						if k, isK := constInt(x); isK && k == 1000000000 {
							secs = true
						}
					case *ssa.Call:
						if isCallTo(x, idOIDCConfig+".GetAbsoluteSessionTimeout") {
							getter += "absolute"
						}
						if isCallTo(x, idOIDCConfig+".GetIdleSessionTimeout") {
							getter += "idle"
						}
						if h := x.Common().StaticCallee(); h != nil && h.Blocks != nil && isOwnPath(pkgPathOf(h)) && !strings.HasPrefix(pkgPathOf(h), modPath+"/config/gen/go") {
							for _, r := range returnsOf(h) {
								if len(r.Results) == 1 {
									walk(r.Results[0], d-1)
								}
							}
						}
					case *ssa.Phi:
						for _, e := range x.Edges {
							walk(e, d-1)
						}
					case *ssa.Extract:
						// a helper that computes both timeouts: follow the matching result
						if hc, isC := x.Tuple.(*ssa.Call); isC {
							if h := hc.Common().StaticCallee(); h != nil && h.Blocks != nil && isOwnPath(pkgPathOf(h)) {
								for _, r := range returnsOf(h) {
									if x.Index < len(r.Results) {
										walk(r.Results[x.Index], d-1)
									}
								}
							}
						}
					}
				}
				walk(arg, 8)
				c.Obl(getter == role && secs, "C10.R4", fmt.Sprintf("wiring/%s/%s", nthCallKey(site), role), P.Pos(site.Pos()),
					"parameter "+p.Name()+" ← Get"+strings.Title(role)+"SessionTimeout() · time.Second",
					fmt.Sprintf("constructor parameter %s receives the %q timeout (seconds scaling: %v): the two limits are swapped or mis-scaled", p.Name(), getter, secs))
			}
		}
		// constructor stores each parameter in the field of the same role
		for _, b := range ctor.Blocks {
			for _, ins := range b.Instrs {
				st, ok := ins.(*ssa.Store)
				if !ok {
					continue
				}
				fa, ok := st.Addr.(*ssa.FieldAddr)
				if !ok {
					continue
				}
				f := fieldOf(fa.X.Type(), fa.Field)
				if f == nil || roleOfParam(f.Name()) == "" {
					continue
				}
				p, isP := stripConv(st.Val).(*ssa.Parameter)
				c.Obl(isP && roleOfParam(p.Name()) == roleOfParam(f.Name()), "C10.R4", "ctor-field/"+ctor.Name()+"/"+f.Name(), P.Pos(instrPos(st)),
					"field "+f.Name()+" ← parameter of the same role", "constructor "+ctor.Name()+" stores "+descDepth(st.Val, 2)+" into field "+f.Name())
			}
		}
	}
	// … and nowhere else: a store's timeouts are what its constructor was given (a later "tightening" with min(), where 0
	// means `no limit`, switches a limit off for every session of a shared store)
	nTW := 0
	for _, fn := range P.Funcs {
		if !isOwnPath(pkgPathOf(fn)) || fn == sr.NewMem || fn == sr.NewRed {
			continue
		}
		for _, b := range fn.Blocks {
			for _, ins := range b.Instrs {
				st, ok := ins.(*ssa.Store)
				if !ok {
					continue
				}
				fa, isF := st.Addr.(*ssa.FieldAddr)
				if !isF {
					continue
				}
				f := fieldOf(fa.X.Type(), fa.Field)
				if f == nil || roleOfParam(f.Name()) == "" || typeID(f.Type()) != "time.Duration" {
					continue
				}
				if n, isN := derefType(fa.X.Type()).(*types.Named); !isN || (n != sr.Mem && n != sr.Redis) {
					// a small struct that bundles the two timeouts and is built where it is used
					if al, isA := resolveCell(fa.X).(*ssa.Alloc); isA && al.Parent() == fn {
						continue
					}
					if !strings.HasPrefix(typeID(derefType(fa.X.Type())), pkgOIDC+".") {
						continue
					}
				}
				if al, isA := resolveCell(fa.X).(*ssa.Alloc); isA && al.Parent() == fn && (fn.Name() == "NewMemoryStore" || fn.Name() == "NewRedisStore") {
					continue
				}
				nTW++
				c.Fail("C10.R4", "timeout-written-outside-constructor/"+fnKey(fn)+"/"+f.Name(), P.Pos(st.Pos()), "the store timeout "+f.Name()+" is assigned in "+fnKey(fn)+", outside the store constructors: the limit a filter configured is replaced after the store was built")
			}
		}
	}
	if nTW == 0 {
		c.Pass("C10.R4", "timeout-written-outside-constructor", "-", "the store timeouts are assigned by the constructors only")
	}
	factoryGetIsALookup(c, "C10.R4")
	if hm := getHModel(P); hm != nil && hm.R != nil && hm.R.OIDCProcess != nil {
		removeSessionCallers(c, "C10.R2", hm.R, hm)
	}
	// registration in main
	main := P.Func(pkgCmd, "main")
	if !c.Anchor("C10.R4", "cmd.main", main != nil) {
		return
	}
	reg := false
	for _, ci := range callsTo(main, "github.com/tetratelabs/run.Group.Register") {
		for _, a := range ci.Common().Args {
			if elems, ok := sliceLitElems(a); ok {
				for _, e := range elems {
					for _, l := range Leaves(e, leafOpts{noConcat: true}) {
						if fc, _, isC := asCall(l); isC && fc.Common().StaticCallee() != nil && fc.Common().StaticCallee().Name() == "NewSessionStoreFactory" {
							reg = true
						}
					}
				}
			}
		}
	}
	c.Obl(reg, "C10.R4", "registered-in-main", P.Pos(main.Pos()), "the session store factory is registered as a run.Group unit (its PreRun builds the stores)",
		"the session store factory is not registered with the run.Group in main: PreRun never builds the stores with the configured timeouts")
}

// helperPassesRefresher: every return of h whose error may be nil is the refresher's own result or is
// dominated by a refresher call with err == nil.
func helperPassesRefresher(h, ref *ssa.Function) bool {
	res := h.Signature.Results()
	if res.Len() == 0 || !isErrorType(res.At(res.Len()-1).Type()) {
		return false
	}
	var rcalls []*ssa.Call
	for _, ci := range callsToFn(h, ref) {
		rcalls = append(rcalls, ci.(*ssa.Call))
	}
	if len(rcalls) == 0 {
		return false
	}
	ff := FactsOf(h)
	for _, r := range returnsOf(h) {
		errV := r.Results[len(r.Results)-1]
		for _, l := range Leaves(errV, leafOpts{noConcat: true}) {
			viaRef := false
			for _, rc := range rcalls {
				if l == ssa.Value(rc) {
					viaRef = true
				}
			}
			if viaRef {
				continue
			}
			if isNilConst(l) {
				ok := false
				for _, rc := range rcalls {
					if ff.At(r).CallErrNil(rc, -1) {
						ok = true
					}
				}
				if !ok {
					return false
				}
			}
		}
	}
	return true
}

// onlyReachedFrom: fn has callers and every chain of callers leads to root within depth steps.
func onlyReachedFrom(P *Program, fn, root *ssa.Function, depth int) bool {
	if fn == root {
		return true
	}
	if depth == 0 {
		return false
	}
	callers := P.CallersOf(fn)
	if len(callers) == 0 {
		return false
	}
	for _, s := range callers {
		cf := s.Parent()
		for cf.Parent() != nil {
			cf = cf.Parent()
		}
		if !onlyReachedFrom(P, cf, root, depth-1) {
			return false
		}
	}
	return true
}

// globalSliceStrings: v is the load of a package-level []string variable initialised with a literal; its
// constant elements.
func globalSliceStrings(P *Program, v ssa.Value) []string {
	u, ok := v.(*ssa.UnOp)
	if !ok || u.Op != token.MUL {
		return nil
	}
	g, ok := u.X.(*ssa.Global)
	if !ok || g.Pkg == nil {
		return nil
	}
	init := g.Pkg.Func("init")
	if init == nil {
		return nil
	}
	var out []string
	for _, b := range init.Blocks {
		for _, ins := range b.Instrs {
			if st, isSt := ins.(*ssa.Store); isSt && st.Addr == ssa.Value(g) {
				if elems, isLit := sliceLitElems(st.Val); isLit {
					for _, e := range elems {
						if s, isC := constString(e); isC {
							out = append(out, s)
						}
					}
				}
			}
		}
	}
	return out
}

// removeSessionCallers: the handler removes a session in two places only — the logout branch and the
// login-redirect helper (which issues a new id). A removal followed by a write under the same id (a "clean
// slate" before storing refreshed tokens) re-creates the session with a new creation time: every refresh
// would restart the absolute limit.
func removeSessionCallers(c *Check, rule string, R *Roles, m *hModel) {
	P := c.P
	n := 0
	for _, fn := range R.HandlerFuncs {
		for _, ci := range callsTo(fn, idStoreIface+".RemoveSession") {
			n++
			ok := fn == R.Redirect || (fn.Parent() != nil && fn.Parent() == R.Redirect)
			if !ok && R.LogoutMatch != nil {
				// under the logout-path test
				for _, lc := range callsToFn(fn, R.LogoutMatch) {
					if v, k := FactsOf(fn).At(ci).CallBool(lc.(*ssa.Call), -1); k && v {
						ok = true
					}
				}
				// a logout helper: every caller reaches it under the logout-path test
				if !ok && fn != R.OIDCProcess {
					all, any := true, false
					for _, cs := range callsToFn2(P, fn) {
						any = true
						under := false
						for _, lc := range callsToFn(cs.Parent(), R.LogoutMatch) {
							if v, k := FactsOf(cs.Parent()).At(cs).CallBool(lc.(*ssa.Call), -1); k && v {
								under = true
							}
						}
						if !under {
							all = false
						}
					}
					ok = any && all
				}
			}
			c.Obl(ok, rule, "remove-session-site/"+fnKey(fn)+"/"+nthCallKey(ci), P.Pos(ci.Pos()), "RemoveSession is called for a logout or a session renewal",
				"RemoveSession is called in "+fnKey(fn)+" outside the logout branch and the login-redirect helper: a write that follows under the same id re-creates the session with a new creation time (the absolute limit restarts)")
		}
	}
	c.Obl(n >= 2, rule, "remove-session-sites", "-", fmt.Sprintf("%d RemoveSession call sites in the handler", n), "RemoveSession call sites of the handler not found (anchor lost)")
}
