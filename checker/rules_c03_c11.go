package main

import (
	"fmt"
	"go/token"
	"go/types"
	"strings"

	"golang.org/x/tools/go/ssa"
)

func init() {
	registry["C03"] = checkC03
	registry["C11"] = checkC11
}

// idpValidators: own bool functions of the handler that take the IdP's token response.
func idpValidators(R *Roles) []*ssa.Function {
	var out []*ssa.Function
	for _, fn := range R.HandlerFuncs {
		if fn.Parent() != nil || fn.Signature.Results().Len() != 1 || !isBool(fn.Signature.Results().At(0).Type()) {
			continue
		}
		for _, p := range fn.Params {
			if typeID(p.Type()) == pkgAuthz+".idpTokensResponse" {
				out = append(out, fn)
			}
		}
	}
	return out
}

// expiryStores: stores into TokenResponse.AccessTokenExpiresAt in the handler, with the value and the
// facts at the store.
type expiryStore struct {
	fn  *ssa.Function
	st  *ssa.Store
	val ssa.Value
}

func expiryStores(R *Roles) []expiryStore {
	var out []expiryStore
	for _, fn := range R.HandlerFuncs {
		for _, b := range fn.Blocks {
			for _, ins := range b.Instrs {
				st, ok := ins.(*ssa.Store)
				if !ok {
					continue
				}
				fa, isF := st.Addr.(*ssa.FieldAddr)
				if isF && fieldAddrID(fa) == idTokenResponse+".AccessTokenExpiresAt" {
					out = append(out, expiryStore{fn, st, st.Val})
				}
			}
		}
	}
	return out
}

// dependsOnExpiresIn: the value is computed from the IdP answer's expires_in; returns the loads.
func expiresInLoads(v ssa.Value) []ssa.Value {
	var out []ssa.Value
	for d := range dataDeps(v) {
		if base, f, ok := fieldLoad(d); ok && f != nil && f.Name() == "ExpiresIn" && typeID(base.Type()) == pkgAuthz+".idpTokensResponse" {
			out = append(out, d)
		}
	}
	return out
}

func checkC03(c *Check) {
	P := c.P
	m := getHModel(P)
	R := m.R
	c.Assumes("progress of the composed redirect chain for every compliant IdP is a composition property and is not decided; only the structural links without which the chain cannot close, and the sibling agreement on `expiry unknown`")
	c.Rule("C03.R1", "cookie round trip: the cookie name written by the Set-Cookie producers and the name the cookie reader looks up are both getCookieName of the handler's configuration.", 2)
	c.Rule("C03.R2", "id round trip: the callback reads the login state, clears it and binds the tokens under the one session id it was given (the cookie's), and the redirect stores the login state under the id it puts in the cookie.", 3)
	c.Rule("C03.R3", "return address: the callback's success answer is a 302 to the RequestedURL stored at the redirect (C13.R3), reached on every path after the tokens were bound.", 2)
	c.Rule("C03.R4", "`expiry unknown` is encoded the same way by both writers and understood by the reader: every write of AccessTokenExpiresAt computed from the IdP's expires_in happens under expires_in > 0 (otherwise the field stays zero or is carried over), and the expiry test applies the access-token clause only when the stored time is not zero.", 3)
	c.Rule("C03.R5", "tolerant decoding: both IdP-response validators compare token_type with strings.EqualFold against \"Bearer\", agree on their common checks, reject only a negative expires_in, and the response decoder does not enable DisallowUnknownFields.", 4)
	c.Rule("C03.R8", "the callback is recognised: the callback test returns true only when the request's path component equals the path of the configured callback URI and the host matches it (host:port, or the bare host with the scheme's default port) — otherwise the provider's redirect back would start a new login.", 1)
	c.Rule("C03.R7", "no extra rejections: every `invalid` outcome of the ID-token validator and of the two IdP-response validators is one of the enumerated, standards-mandated reasons (token does not parse; required nonce absent / not a string / different; no audience element equals the client id; key source or signature verification failed; token_type not Bearer; negative expires_in; access token missing although forwarding is configured). Any other rejection could refuse a compliant provider's answer and is a violation.", 8)
	c.Rule("C03.R6", "no second trip: from a successful read of unexpired tokens the OK writer is reachable without any token-endpoint call or login redirect.", 1)
	if !requireModel(c, "C03.R1", m, "cb.", "redirect.cookie", "redirect.setstate", "redirect.gens", "hw.") {
		return
	}
	// ---- R1
	redirectCookieOutlivesLogin(c, "C03.R1", R, m)
	rdName := resolveCell(stripConv(m.RedirCookie.Common().Args[0]))
	nc, _, ok := asCall(rdName)
	c.Obl(ok && nc.Common().StaticCallee() == R.CookieName && isHandlerConfig(nc.Common().Args[0]), "C03.R1", "cookie-name/written", P.Pos(m.RedirCookie.Pos()),
		"login cookie is named getCookieName(handler config)", "the login redirect's cookie is not named by getCookieName(handler config)")
	readOK := false
	for _, ci := range callsToFn(R.CookieReader, R.CookieName) {
		cc := ci.(*ssa.Call)
		// compared (==) against the parsed cookie names
		for _, b := range R.CookieReader.Blocks {
			for _, ins := range b.Instrs {
				if bo, isB := ins.(*ssa.BinOp); isB && (bo.Op == token.EQL || bo.Op == token.NEQ) && (bo.X == ssa.Value(cc) || bo.Y == ssa.Value(cc)) {
					readOK = true
				}
			}
		}
	}
	cfgOK := true
	idx := -1
	for i, p := range R.CookieReader.Params {
		if typeID(p.Type()) == idOIDCConfig {
			idx = i
		}
	}
	if idx < 0 {
		// the reader is a method of the handler: it names the cookie from the handler's own configuration field
		n := 0
		for _, ci := range callsToFn(R.CookieReader, R.CookieName) {
			n++
			if !isHandlerConfig(ci.Common().Args[0]) {
				cfgOK = false
			}
		}
		if n == 0 {
			cfgOK = false
		}
	} else {
		for _, site := range P.CallersOf(R.CookieReader) {
			if !isHandlerConfig(site.Common().Args[idx]) {
				cfgOK = false
			}
		}
	}
	c.Obl(readOK && cfgOK, "C03.R1", "cookie-name/read", P.Pos(R.CookieReader.Pos()), "the reader selects the cookie whose name equals getCookieName(handler config)",
		"the cookie reader does not select the cookie by exact equality with getCookieName(handler config)")

	// ---- R2
	same := sameVal(callArgs(m.CbGetState)[1], m.CbSID) && sameVal(callArgs(m.CbClear)[1], m.CbSID) && sameVal(callArgs(m.CbSetToken)[1], m.CbSID)
	c.Obl(same, "C03.R2", "callback-one-id", P.Pos(R.Callback.Pos()), "state read, state clear and token binding use the callback's one session id",
		"the callback reads, clears and binds under different session ids")
	okSID, whySID := sidFromCookieAtAllCallers(P, R, R.Callback, m.CbSID)
	c.Obl(okSID, "C03.R2", "callback-id-is-cookie", P.Pos(R.Callback.Pos()), "that id is the cookie's", "callback session id: "+whySID)
	c.Obl(resolveCell(stripConv(callArgs(m.RedirSetState)[1])) == resolveCell(stripConv(m.RedirCookie.Common().Args[1])), "C03.R2", "redirect-one-id", P.Pos(m.RedirSetState.Pos()),
		"the redirect stores the login state under the id it sets in the cookie", "the login state key and the cookie value differ: the callback will not find the state")

	// ---- R3
	cb := R.Callback
	// after SetTokenResponse success every path to return passes a verdict with a location header and 302
	okFound := false
	for _, b := range cb.Blocks {
		for _, ins := range b.Instrs {
			if st, isS := ins.(*ssa.Store); isS {
				if fa, isF := st.Addr.(*ssa.FieldAddr); isF && fieldAddrID(fa) == idDenied+".Status" {
					for name, vals := range structFieldStores(resolveCell(stripConv(st.Val))) {
						if name == "Code" {
							for _, v := range vals {
								if k, isK := constInt(v); isK && k == 302 && FactsOf(cb).At(st).CallErrNil(m.CbSetToken, -1) {
									okFound = true
								}
							}
						}
					}
				}
			}
		}
	}
	if !okFound && m.LocationWriter != nil {
		// through the location writer (which sets 302)
		for _, ci := range callsToFn(cb, m.LocationWriter.Fn) {
			if FactsOf(cb).At(ci).CallErrNil(m.CbSetToken, -1) {
				okFound = true
			}
		}
	}
	c.Obl(okFound, "C03.R3", "callback-302", P.Pos(cb.Pos()), "after the tokens are bound the answer is a 302", "the callback's success answer is not a 302 redirect issued after the tokens were bound")
	stored := extractOf(m.CbGetState, 0)
	c.Obl(isFieldOf(m.CbLocation, "RequestedURL", func(b ssa.Value) bool { return stored != nil && sameVal(b, stored) }), "C03.R3", "callback-location", P.Pos(cb.Pos()),
		"Location = stored RequestedURL", "the callback does not redirect to the stored RequestedURL")

	okReq, whyReq := false, "RequestedURL not assigned exactly once"
	if vals := m.RedirStateLit["RequestedURL"]; len(vals) == 1 && m.RedirHTTP != nil {
		okReq, whyReq = requestedURLLeavesOK(m, vals[0])
	}
	c.Obl(okReq, "C03.R3", "stored-return-url", P.Pos(R.Redirect.Pos()), "the URL stored for the return trip is scheme://host path [?query] of the request, verbatim (no re-encoding)",
		"stored return URL: "+whyReq+" — the browser would not be returned to the URL it first asked for")

	// ---- R8: the callback is recognised
	{
		cm := R.CallbackMatch
		cff := FactsOf(cm)
		okShape, nTrue := true, 0
		why := ""
		var parse *ssa.Call
		for _, ci := range callsTo(cm, "net/url.Parse") {
			parse, _ = ci.(*ssa.Call)
		}
		okParse := parse != nil && isGetterOn(parse.Common().Args[0], idOIDCConfig+".GetCallbackUri", func(v ssa.Value) bool { _, isP := v.(*ssa.Parameter); return isP })
		for _, r := range returnsOf(cm) {
			if b, isC := constBool(r.Results[0]); isC && !b {
				continue
			}
			nTrue++
			pathEq := false
			for cond, pol := range cff.At(r) {
				inner, neg := unwrapBool(cond)
				bo, ok := inner.(*ssa.BinOp)
				if !ok || (bo.Op != token.EQL && bo.Op != token.NEQ) || !isString(bo.X.Type()) {
					continue
				}
				if ((bo.Op == token.EQL) == (pol != neg)) == false {
					continue // the fact says the two strings differ
				}
				isReqPath := func(v ssa.Value) bool {
					sc, si, isC := asCall(resolveCell(stripConv(v)))
					return isC && si == 0 && isCallTo(sc, fSplit)
				}
				isConfPath := func(v ssa.Value) bool {
					base, f, okf := fieldLoad(resolveCell(stripConv(v)))
					return okf && f != nil && f.Name() == "Path" && parse != nil && sameVal(base, extractOf(parse, 0))
				}
				if (isReqPath(bo.X) && isConfPath(bo.Y)) || (isReqPath(bo.Y) && isConfPath(bo.X)) {
					pathEq = true
				}
			}
			if !pathEq {
				okShape, why = false, "a `true` outcome is not guarded by request path (splitter result #0) == path of the configured callback URI"
			}
		}
		// the host test accepts host:port equality and the two default-port forms
		hostForms := 0
		for _, b := range cm.Blocks {
			for _, ins := range b.Instrs {
				if bo, ok := ins.(*ssa.BinOp); ok && bo.Op == token.EQL && isString(bo.X.Type()) {
					for _, side := range []ssa.Value{bo.X, bo.Y} {
						if hc, _, isC := asCall(resolveCell(stripConv(side))); isC && isCallTo(hc, pkgEnvoyAuth+".AttributeContext_HttpRequest.GetHost") {
							hostForms++
						}
					}
				}
			}
		}
		c.Obl(okShape && nTrue >= 1 && okParse && hostForms >= 3, "C03.R8", "callback-test-shape", P.Pos(cm.Pos()),
			"callback request ⇔ path component == configured callback path ∧ host matches (host:port, or host with the scheme's default port)",
			fmt.Sprintf("callback test: %s (configured URI parsed: %v, host comparison forms: %d of 3)", why, okParse, hostForms))
	}

	// ---- R7: no extra rejections
	c03R7(c, R, m)
	optionalNonceRule(c, "C03.R7", R)
	// the provider's answer is read whole: the reader handed to io.ReadAll is the response body itself, not a
	// truncating wrapper (a compliant answer with large tokens would be cut and fail to decode)
	if R.TokenExchange != nil {
		nRead := 0
		for _, ci := range callsToDeep(R.TokenExchange, 2, "io.ReadAll") {
			nRead++
			arg := resolveCell(stripConv(ci.Common().Args[0]))
			_, f, isL := fieldLoad(arg)
			c.Obl(isL && f != nil && f.Name() == "Body", "C03.R5", "answer-read-whole/"+nthCallKey(ci), P.Pos(ci.Pos()), "io.ReadAll reads the response body itself",
				"the token endpoint answer is read through "+descDepth(arg, 3)+" instead of the response body itself: an answer that exceeds the wrapper's limit is truncated and the login cannot complete")
		}
		c.Obl(nRead >= 1, "C03.R5", "answer-read", P.Pos(R.TokenExchange.Pos()), fmt.Sprintf("%d read(s) of the token endpoint answer", nRead), "the token exchange no longer reads the answer with io.ReadAll (anchor lost)")
	}
	// the code-for-token request must reach the provider as it was built (C04.R2's transport rule)
	transportPreservesRequest(c, "C03.R5")
	// a redirect answer keeps its own Location and cookie until it is sent (no shared header backing array)
	headersOwnBacking(c, "C03.R3", R)
	// … over a TLS configuration that carries the trusted CA (C20.R4's pool rule)
	poolInsertIsFinal(c, "C03.R5")
	exchangeRejectsForEnumeratedReasonsOnly(c, "C03.R7", R)
	// the cookie name, client id and callback the round trip relies on are those of the handler's own filter
	handlerConfigOwn(c, "C03.R1", R)
	// … and, with discovery, the endpoints the login is completed against are those of the discovery document
	discoveryFillsEndpoints(c, "C03.R2")
	// the login state written at the redirect is still there at the callback: the memory store expires a session only
	// by the rules of C10.R1 (each limit applied only when its timeout is > 0, against its own timestamp)
	if c.ID == "C03" {
		importObls(c, "C10", checkC10, "C03.R2", func(o *Obligation) bool { return strings.HasPrefix(o.Key, "C10.R1/predicate") })
		// the tokens just stored are found valid by the next request: the expiry test answers `not expired` exactly under
		// Expiration().Before(now) == false (C01.R4) — a stricter test (issued-at in the future, not-before) sends a user
		// whose provider's clock runs ahead straight back to the provider, for ever
		importObls(c, "C01", checkC01, "C03.R4", func(o *Obligation) bool { return strings.HasPrefix(o.Key, "C01.R4/not-expired-return") })
		// the callback reaches the OIDC filter: a path that some trigger rule includes is checked whatever another rule
		// excludes (decision shape of C07.R3)
		importObls(c, "C07", checkC07, "C03.R8", func(o *Obligation) bool {
			return strings.HasPrefix(o.Key, "C07.R3/") || strings.HasPrefix(o.Key, "C07.R1/anchor")
		})
	}

	// ---- R4
	n := 0
	for _, es := range expiryStores(R) {
		loads := expiresInLoads(es.val)
		if len(loads) == 0 {
			continue // carried over / zero
		}
		n++
		ok := true
		for _, alt := range phiAlternatives(es.fn, es.val, es.st) {
			al := expiresInLoads(alt.V)
			if len(al) == 0 {
				continue
			}
			fs := unionFacts(FactsOf(es.fn).At(es.st), alt.Facts)
			pos := false
			for _, l := range al {
				if fs.knownPositive(l) {
					pos = true
				}
			}
			if !pos {
				ok = false
			}
		}
		c.Obl(ok, "C03.R4", "expiry-unknown/"+fnKey(es.fn), P.Pos(instrPos(es.st)), "expiry computed from expires_in only under expires_in > 0",
			"AccessTokenExpiresAt is computed from the IdP's expires_in without the guard expires_in > 0 in "+fnKey(es.fn)+": an IdP that omits expires_in yields tokens that are expired at once (login loop)")
	}
	// stores via a variable (callback after the fix): the literal's field gets a cell whose writes are guarded
	for _, fn := range []*ssa.Function{R.Callback, R.Refresh} {
		for _, b := range fn.Blocks {
			for _, ins := range b.Instrs {
				st, ok := ins.(*ssa.Store)
				if !ok {
					continue
				}
				if _, isAlloc := st.Addr.(*ssa.Alloc); !isAlloc || typeID(st.Val.Type()) != "time.Time" {
					continue
				}
				loads := expiresInLoads(st.Val)
				if len(loads) == 0 {
					continue
				}
				n++
				fs := FactsOf(fn).At(st)
				ok2 := false
				for _, l := range loads {
					if fs.knownPositive(l) {
						ok2 = true
					}
				}
				c.Obl(ok2, "C03.R4", "expiry-unknown/var/"+fnKey(fn), P.Pos(instrPos(st)), "expiry variable computed from expires_in only under expires_in > 0",
					"an expiry time is computed from the IdP's expires_in without the guard expires_in > 0 in "+fnKey(fn))
			}
		}
	}
	c.Obl(n >= 2, "C03.R4", "expiry-unknown/writers", "-", fmt.Sprintf("%d expiry computations (login and refresh)", n), fmt.Sprintf("%d expiry computations found (floor 2: login and refresh path)", n))
	// reader: access-token `expired` only when !IsZero
	et := R.ExpiryTest
	okReader := false
	for _, r := range returnsOf(et) {
		if b, isC := constBool(r.Results[0]); !isC || !b {
			continue
		}
		fs := FactsOf(et).At(r)
		usesAT := false
		notZero := false
		for cond, pol := range fs {
			cc, _, isCall := asCall(cond)
			if !isCall {
				continue
			}
			if isCallTo(cc, "time.Time.Before") && depFields(cc.Common().Args[0])["AccessTokenExpiresAt"] && pol {
				usesAT = true
			}
			if isCallTo(cc, "time.Time.IsZero") && depFields(cc.Common().Args[0])["AccessTokenExpiresAt"] && !pol {
				notZero = true
			}
		}
		if usesAT {
			okReader = notZero
		}
	}
	c.Obl(okReader, "C03.R4", "expiry-unknown/reader", P.Pos(et.Pos()), "the access-token clause is applied only when the stored expiry is not zero",
		"the expiry test applies the access-token clause to a zero (unknown) expiry")

	// ---- R5
	vals := idpValidators(R)
	nVal := len(vals)
	if nVal == 1 && R.Callback != nil && R.Refresh != nil && len(callsToFn(R.Callback, vals[0])) > 0 && len(callsToFn(R.Refresh, vals[0])) > 0 {
		nVal = 2 // one validator shared by the login and the refresh path
	}
	c.Obl(nVal >= 2, "C03.R5", "validators", "-", fmt.Sprintf("%d IdP-response validators", len(vals)), "IdP-response validators not found")
	for _, v := range vals {
		okFold := false
		for _, ci := range callsToDeep(v, 2, "strings.EqualFold") {
			a := ci.Common().Args
			s0, c0 := constString(a[0])
			s1, c1 := constString(a[1])
			tt := depFields(a[0])["TokenType"] || depFields(a[1])["TokenType"]
			if tt && ((c0 && s0 == "Bearer") || (c1 && s1 == "Bearer")) {
				okFold = true
			}
		}
		c.Obl(okFold, "C03.R5", "token-type/"+fnKey(v), P.Pos(v.Pos()), "token_type compared with strings.EqualFold(…, \"Bearer\")", "token_type is not compared case-insensitively with \"Bearer\" in "+fnKey(v))
		tokenTypeDecisive(c, "C03.R5", v)
		// expires_in: only negative values rejected
		okExp := true
		for _, vf := range deepFuncs(v, 2) {
			for _, b := range vf.Blocks {
				for _, ins := range b.Instrs {
					if bo, isB := ins.(*ssa.BinOp); isB && depFields(bo.X)["ExpiresIn"] {
						if k, isK := constInt(bo.Y); isK && !(bo.Op == token.LSS && k == 0) {
							okExp = false
						}
					}
				}
			}
		}
		c.Obl(okExp, "C03.R5", "expires-in/"+fnKey(v), P.Pos(v.Pos()), "only a negative expires_in is rejected", "the validator rejects an absent (zero) expires_in")
	}
	noStrict := true
	for _, fn := range R.HandlerFuncs {
		if len(callsTo(fn, "encoding/json.Decoder.DisallowUnknownFields")) > 0 {
			noStrict = false
		}
	}
	c.Obl(noStrict, "C03.R5", "decoder-tolerant", "-", "unknown response members are ignored", "the IdP response decoder rejects unknown members")

	// ---- R6
	pr := R.OIDCProcess
	var fresh *ssa.Call
	for _, ci := range callsToFn(pr, R.AllowFn) {
		cc := ci.(*ssa.Call)
		if src, _, isC := asCall(resolveCell(stripConv(callArgs(cc)[1]))); isC && isCallTo(src, mGetToken) {
			fresh = cc
		}
	}
	okNo := false
	if fresh != nil {
		var get *ssa.Call
		for _, ci := range callsTo(pr, mGetToken) {
			get, _ = ci.(*ssa.Call)
		}
		if get != nil {
			hit := reachAvoiding(get, nil, func(i ssa.Instruction) bool { return i == ssa.Instruction(fresh) }, func(i ssa.Instruction) bool {
				cc, ok := i.(*ssa.Call)
				if !ok {
					return false
				}
				callee := cc.Common().StaticCallee()
				return callee == R.Redirect || callee == R.Refresh || callee == R.Callback || callee == R.TokenExchange
			})
			okNo = hit != nil
		}
	}
	c.Obl(okNo, "C03.R6", "fresh-path", P.Pos(pr.Pos()), "the fresh-token allow is reachable from the store read without any IdP round trip or redirect",
		"no path from the token read to the OK writer avoids the IdP: a logged-in browser would be sent to the provider again")
}

// ---------------------------------------------------------------------------------------------- C11

func checkC11(c *Check) {
	P := c.P
	m := getHModel(P)
	R := m.R
	c.Assumes("the provider's ledger over many token lifetimes is not modelled; these rules hold per refresh")
	c.Rule("C11.R1", "refresh request: the form has exactly grant_type=refresh_token, refresh_token ← the refresh token of the tokens read from the store in this check, client_id and client_secret from the configuration, sent to the configured token URI; it is attempted only when the tokens were found expired and the stored refresh token is not empty.", 7)
	c.Rule("C11.R2", "merge is total and guarded: for every field of TokenResponse the returned object's field is assigned on every path to the non-nil return; a value taken from the IdP answer is the same-named member under its guard (ID token: parses; access/refresh token: non-empty; expiry: expires_in > 0), otherwise the same field of the stored tokens.", 4)
	c.Rule("C11.R3", "the merged result is validated: every non-nil return of the refresh helper is dominated by token exchange OK and validator(returned.IDToken) == true; every other exit returns nil.", 1)
	c.Rule("C11.R4", "outcome: a nil result leads to the login redirect with the presented session id (which removes the stale session: C05.R1); a non-nil result is stored under the same session id and that same object is the one allowed.", 3)
	c.Rule("C11.R5", "expiry test: the refresh is attempted exactly when a required token has expired — every `not expired` return of the expiry test is dominated by a successful parse of the stored ID token and by the false outcome of IDToken.Expiration().Before(clock.Now()); the access-token clause can only add `expired` outcomes (the rule C01.R4: an expiry test that overlooks the ID token never triggers the refresh).", 2)
	refile(c, "C11.R5", func() { c01R4(c, R) })
	optionalNonceRule(c, "C11.R3", R)
	for _, v := range idpValidators(R) {
		tokenTypeDecisive(c, "C11.R3", v)
	}
	if !requireModel(c, "C11.R1", m, "refresh.") {
		return
	}
	rf := R.Refresh
	pr := R.OIDCProcess
	// parameters of the refresh helper
	var oldTok *ssa.Parameter
	var strParams []*ssa.Parameter
	for _, p := range rf.Params {
		if typeID(p.Type()) == idTokenResponse {
			oldTok = p
		}
		if isString(p.Type()) {
			strParams = append(strParams, p)
		}
	}
	// ---- R1
	var site *ssa.Call
	for _, ci := range callsToFn(pr, rf) {
		site, _ = ci.(*ssa.Call)
	}
	if !c.Anchor("C11.R1", "call of the refresh helper in Process", site != nil && oldTok != nil) {
		return
	}
	// which string param is the refresh token: the one used in the form
	rtv, has := m.RfForm["refresh_token"]
	var rtParam *ssa.Parameter
	if has {
		rtParam, _ = resolveCell(stripConv(rtv)).(*ssa.Parameter)
	}
	argOf := func(p *ssa.Parameter) ssa.Value {
		for i, q := range rf.Params {
			if q == p {
				return site.Common().Args[i]
			}
		}
		return nil
	}
	storedTok := resolveCell(stripConv(argOf(oldTok)))
	gsrc, gi, isG := asCall(storedTok)
	fromStore := isG && gi == 0 && isCallTo(gsrc, mGetToken)
	okRT := false
	if rtParam != nil {
		okRT = isFieldOf(argOf(rtParam), "RefreshToken", func(b ssa.Value) bool { return sameVal(b, storedTok) })
	} else if has {
		okRT = isFieldOf(rtv, "RefreshToken", func(b ssa.Value) bool { return b == ssa.Value(oldTok) })
	}
	c.Obl(has && okRT && fromStore, "C11.R1", "form/refresh_token", P.Pos(m.RfExchange.Pos()), "refresh_token ← RefreshToken of the tokens read from the store in this check",
		"the refresh request does not carry the refresh token of the tokens just read from the store")
	gt, _ := constString(m.RfForm["grant_type"])
	c.Obl(gt == "refresh_token", "C11.R1", "form/grant_type", P.Pos(m.RfExchange.Pos()), "grant_type = refresh_token", "grant_type is "+gt)
	c.Obl(cfgGetter(m.RfForm["client_id"], "GetClientId"), "C11.R1", "form/client_id", P.Pos(m.RfExchange.Pos()), "client_id ← configuration", "client_id of the refresh request is not the configured client id")
	c.Obl(cfgGetter(m.RfForm["client_secret"], "GetClientSecret"), "C11.R1", "form/client_secret", P.Pos(m.RfExchange.Pos()), "client_secret ← configuration (read when the request is built)", "client_secret of the refresh request is not the configured client secret")
	c.Obl(len(m.RfForm) == 4 && len(m.RfFormDyn) == 0, "C11.R1", "form/exact", P.Pos(m.RfExchange.Pos()), "exactly the four members", fmt.Sprintf("refresh form members: %v", tableKeys(m.RfForm)))
	okURL := exchangeURLOK(R, m.RfExchange)
	c.Obl(okURL, "C11.R1", "url", P.Pos(m.RfExchange.Pos()), "sent to the configured token URI", "the refresh request is not sent to the configured token URI")
	exchangeIsSentOnce(c, "C11.R1", R)
	exchangeKeepsItsForm(c, "C11.R1", R)
	// guard at the call site
	fs := FactsOf(pr).At(site)
	expired := false
	for _, ci := range callsToFn(pr, R.ExpiryTest) {
		ec := ci.(*ssa.Call)
		if v, k := fs.CallBool(ec, 0); k && v && fs.CallErrNil(ec, 1) {
			expired = true
		}
	}
	nonEmptyRT := false
	for cond, pol := range fs {
		bo, ok := cond.(*ssa.BinOp)
		if !ok {
			continue
		}
		if s, isC := constString(bo.Y); isC && s == "" && isFieldOf(bo.X, "RefreshToken", func(b ssa.Value) bool { return sameVal(b, storedTok) }) {
			if (bo.Op == token.EQL && !pol) || (bo.Op == token.NEQ && pol) {
				nonEmptyRT = true
			}
		}
	}
	c.Obl(expired && nonEmptyRT, "C11.R1", "attempt-guard", P.Pos(site.Pos()), "refresh is attempted only for expired tokens with a non-empty refresh token",
		fmt.Sprintf("the refresh is attempted without the facts expired (%v) and refresh token non-empty (%v)", expired, nonEmptyRT))

	// ---- R2
	var ex *ssa.Call = m.RfExchange
	body := extractOf(ex, 0)
	for _, r := range returnsOf(rf) {
		if isNilConst(r.Results[0]) {
			continue
		}
		al := uniqueAllocOf(resolveCell(stripConv(r.Results[0])))
		if !c.Anchor("C11.R2", "merged object built in the refresh helper", al != nil) {
			return
		}
		tr := P.NamedType(pkgOIDC, "TokenResponse")
		st := tr.Underlying().(interface {
			NumFields() int
		})
		_ = st
		fields := structFieldStores(al)
		names := []string{}
		if s, isS := tr.Underlying().(interface{ NumFields() int }); isS {
			_ = s
		}
		ts := tr.Underlying()
		for i := 0; ; i++ {
			f := fieldOf(ts, i)
			if f == nil {
				break
			}
			names = append(names, f.Name())
		}
		guardFor := map[string]string{"IDToken": "parses", "AccessToken": "non-empty", "RefreshToken": "non-empty", "AccessTokenExpiresAt": "expires_in > 0"}
		for _, name := range names {
			key := "merge/" + name
			if _, known := guardFor[name]; !known {
				c.Fail("C11.R2", key, P.Pos(instrPos(r)), "TokenResponse has a field "+name+" for which no merge rule exists: it would be dropped or carried without a rule")
				continue
			}
			// assigned on every path
			isStoreOf := func(i ssa.Instruction) bool {
				s, isS := i.(*ssa.Store)
				if !isS {
					return false
				}
				fa, isF := s.Addr.(*ssa.FieldAddr)
				if !isF || fa.X != ssa.Value(al) {
					return false
				}
				f := fieldOf(fa.X.Type(), fa.Field)
				return f != nil && f.Name() == name
			}
			total := mustPassBefore(rf, r, isStoreOf)
			okProv := len(fields[name]) > 0
			why := ""
			takesNew := false
			for _, b := range rf.Blocks {
				for _, ins := range b.Instrs {
					if !isStoreOf(ins) {
						continue
					}
					s := ins.(*ssa.Store)
					// each alternative of the stored value is judged under the facts of the edge that selects it (a value
					// chosen by a small selector — `if v == "" { use old } else { use v }` merged into one assignment)
					for _, alt := range phiAlternatives(rf, s.Val, s) {
						sfs := alt.Facts
						l := resolveCell(stripConv(alt.V))
						base, f, isF := fieldLoad(l)
						switch {
						case isF && f != nil && resolveCell(stripConv(base)) == ssa.Value(oldTok):
							if f.Name() != name {
								okProv, why = false, "carried over from stored field "+f.Name()
							}
						case isF && f != nil && body != nil && sameVal(base, body):
							want := name
							if f.Name() == want {
								takesNew = true
							}
							if f.Name() != want {
								okProv, why = false, "taken from IdP member "+f.Name()
								continue
							}
							// guard
							g := false
							switch guardFor[name] {
							case "non-empty":
								g = sfs.StrNonEmpty(l)
							case "parses":
								for _, pi := range callsTo(rf, fParseToken) {
									pc := pi.(*ssa.Call)
									if sameVal(pc.Common().Args[0], l) && sfs.CallErrNil(pc, 1) {
										g = true
									}
								}
							}
							if !g {
								okProv, why = false, "IdP member "+f.Name()+" used without its guard ("+guardFor[name]+")"
							}
						default:
							// expiry computed from ExpiresIn
							if name == "AccessTokenExpiresAt" {
								loads := expiresInLoads(s.Val)
								g := false
								for _, ld := range loads {
									if sfs.knownPositive(ld) {
										g = true
									}
								}
								if len(loads) == 0 || !g {
									okProv, why = false, "expiry not derived from expires_in under expires_in > 0"
								} else {
									takesNew = true
								}
							} else {
								okProv, why = false, "value "+descDepth(l, 3)
							}
						}
					}
				}
			}
			if okProv && !takesNew {
				okProv, why = false, "the value the IdP returned is never taken (new values must replace old ones; a rotated refresh token must replace its predecessor)"
			}
			c.Obl(total && okProv, "C11.R2", key, P.Pos(instrPos(r)), name+": assigned on every path; new value under its guard ("+guardFor[name]+"), else the stored one",
				fmt.Sprintf("merge of %s is wrong: assigned on every path %v; %s", name, total, why))
		}
	}

	// new values replace old ones whenever the IdP returned them: with `answer.F != ""` assumed, no store of
	// the stored tokens' F into the merged object may be the last word (the old value must not survive)
	for _, fld := range []string{"AccessToken", "RefreshToken"} {
		atoms := atomEnv{}
		for _, b := range rf.Blocks {
			for _, ins := range b.Instrs {
				bo, ok := ins.(*ssa.BinOp)
				if !ok || (bo.Op != token.NEQ && bo.Op != token.EQL) {
					continue
				}
				if s, isC := constString(bo.Y); isC && s == "" {
					if base, f, okf := fieldLoad(resolveCell(stripConv(bo.X))); okf && f != nil && f.Name() == fld && body != nil && sameVal(base, body) {
						atoms[bo] = bo.Op == token.NEQ
					}
				}
			}
		}
		if len(atoms) == 0 {
			continue
		}
		// along every consistent path to a non-nil return, the LAST store to the merged field must be the IdP's value
		bad := lastStoreIsOld(rf, atoms, fld, oldTok)
		c.Obl(!bad, "C11.R2", "merge/"+fld+"/new-value-wins", P.Pos(rf.Pos()),
			"whenever the IdP returned a non-empty "+fld+" the merged object carries it",
			"the IdP returned a non-empty "+fld+" but a path exists on which the merged object keeps the stored one (a rotated refresh token / new access token is dropped)")
	}

	// ---- R3
	ok, why := refreshSummary(R)
	c.Obl(ok, "C11.R3", "validated-merged-result", P.Pos(rf.Pos()), "non-nil only after exchange OK and validator(returned.IDToken) true", "refresh helper: "+why)

	// ---- R4
	// nil ⇒ redirect(sid)
	region := failureRegion(pr, site, -1, failNil)
	redirOK := false
	var cookieSID *ssa.Call
	for _, ci := range callsToFn(pr, R.CookieReader) {
		cookieSID, _ = ci.(*ssa.Call)
	}
	for _, b := range region {
		for _, ins := range b.Instrs {
			if cc, isC := ins.(*ssa.Call); isC && cc.Common().StaticCallee() == R.Redirect {
				for _, a := range cc.Common().Args {
					if cookieSID != nil && resolveCell(stripConv(a)) == ssa.Value(cookieSID) {
						redirOK = true
					}
				}
			}
		}
	}
	noAllow := reachFromBlocks(region, func(i ssa.Instruction) bool {
		cc, isC := i.(*ssa.Call)
		return isC && (cc.Common().StaticCallee() == R.AllowFn || isCallTo(cc, mSetToken))
	}, nil) == nil
	// … and that redirect removes the stale session before anything else can fail (C05.R1: RemoveSession first, the
	// fresh id only after it returned nil); a crash-free exchange: the decoded answer is dereferenced only when non-nil
	if c.ID == "C11" {
		importObls(c, "C05", checkC05, "C11.R4", func(o *Obligation) bool { return strings.HasPrefix(o.Key, "C05.R1/") })
		// the merged tokens a later check reads are the ones stored: every optional member is written under its own presence
		// test or deleted (C12.R2)
		importObls(c, "C12", checkC12, "C11.R2", func(o *Obligation) bool { return strings.HasPrefix(o.Key, "C12.R2/tokens/") })
		importObls(c, "C15", checkC15, "C11.R3", func(o *Obligation) bool {
			// dereferences of the decoded token-endpoint answer
			return strings.HasPrefix(o.Key, "C15.R2/deref/") && (strings.Contains(o.Key, "performIDPRequest#") || strings.Contains(o.Key, "/(*internal/authz.oidcHandler).performIDPRequest/") || strings.Contains(o.Key, "/internal/authz.performIDPRequest/") || strings.Contains(o.Key, "isValidIDP"))
		})
	}
	c.Obl(len(region) > 0 && redirOK && noAllow, "C11.R4", "failure-relogin", P.Pos(site.Pos()), "failed refresh ⇒ login redirect with the presented session id (stale session removed), never allow/store",
		"a failed refresh does not lead to the login redirect for the presented session id")
	// non-nil ⇒ SetTokenResponse(sid, same) then allow(same)
	var setC, allowC *ssa.Call
	for _, ci := range callsTo(pr, mSetToken) {
		if cc := ci.(*ssa.Call); sameVal(callArgs(cc)[2], site) {
			setC = cc
		}
	}
	for _, ci := range callsToFn(pr, R.AllowFn) {
		if cc := ci.(*ssa.Call); sameVal(callArgs(cc)[1], site) {
			allowC = cc
		}
	}
	okStore := setC != nil && cookieSID != nil && resolveCell(stripConv(callArgs(setC)[1])) == ssa.Value(cookieSID)
	c.Obl(okStore, "C11.R4", "success-stored", P.Pos(site.Pos()), "the merged result is stored under the presented session id", "the merged result is not stored under the presented session id (later checks would not see it)")
	okAllow := allowC != nil && setC != nil && FactsOf(pr).At(allowC).CallErrNil(setC, -1)
	c.Obl(okAllow, "C11.R4", "success-allowed-same-object", P.Pos(site.Pos()), "the same merged object is allowed after it was stored", "the object that is allowed after a refresh is not the merged object that was stored")
	_ = strings.TrimSpace
	_ = strParams
}

// lastStoreIsOld: is there a path, consistent with atoms, from entry to a non-nil return on which the last
// store into field fld of the merged object takes its value from the stored tokens (parameter old)?
func lastStoreIsOld(fn *ssa.Function, atoms atomEnv, fld string, old *ssa.Parameter) bool {
	isFieldStore := func(i ssa.Instruction) (isStore bool, fromOld bool) {
		s, ok := i.(*ssa.Store)
		if !ok {
			return false, false
		}
		fa, isF := s.Addr.(*ssa.FieldAddr)
		if !isF || typeID(fa.X.Type()) != idTokenResponse {
			return false, false
		}
		f := fieldOf(fa.X.Type(), fa.Field)
		if f == nil || f.Name() != fld {
			return false, false
		}
		// an alternative of a merged value counts only if the edge that selects it is consistent with the assumed
		// atoms (`v := new; if new == "" { v = old }; merged.F = v` never stores the old value when new != "")
		for _, alt := range phiAlternatives(fn, s.Val, s) {
			if base, lf, okf := fieldLoad(resolveCell(stripConv(alt.V))); okf && lf != nil && resolveCell(stripConv(base)) == ssa.Value(old) {
				consistent := true
				for a, want := range atoms {
					if pol, known := alt.Facts[a]; known && pol != want {
						consistent = false
					}
				}
				if consistent {
					return true, true
				}
			}
		}
		return true, false
	}
	// for every old-store: can a non-nil return be reached from it without passing a non-old store, on a
	// path consistent with the atoms — and is the old-store itself reachable consistently?
	for _, b := range fn.Blocks {
		for _, ins := range b.Instrs {
			st, fromOld := isFieldStore(ins)
			if !st || !fromOld {
				continue
			}
			target := ins
			reach := existsPath(fn, atoms, func(i ssa.Instruction) bool { return i == target }, nil)
			if reach == nil {
				continue
			}
			// from the store onwards (atoms still apply): explore with a function-local search
			hit := existsPathFrom(fn, atoms, target, func(i ssa.Instruction) bool {
				r, ok := i.(*ssa.Return)
				return ok && !isNilConst(r.Results[0])
			}, func(i ssa.Instruction) bool {
				s2, old2 := isFieldStore(i)
				return s2 && !old2
			})
			if hit != nil {
				return true
			}
		}
	}
	return false
}

// c03R7 classifies every `invalid` return of the validators by the facts that dominate it.
func c03R7(c *Check, R *Roles, m *hModel) {
	P := c.P
	v := R.Validator
	ff := FactsOf(v)
	n := 0
	for _, r := range returnsOf(v) {
		b, isC := constBool(r.Results[0])
		if !isC || b {
			continue
		}
		n++
		fs := ff.At(r)
		reason := ""
		for cond, pol := range fs {
			// error results of parse / key source / verify
			if bo, ok := cond.(*ssa.BinOp); ok && isNilConst(bo.Y) && ((bo.Op == token.NEQ && pol) || (bo.Op == token.EQL && !pol)) {
				if call, _, isCall := asCall(resolveCell(bo.X)); isCall {
					switch {
					case isCallToAny(call, fParseToken, fParseIDTok):
						reason = "token does not parse"
					case isCallTo(call, mJWKSGet):
						reason = "key source failed"
					case isCallTo(call, fJWSVerify):
						reason = "signature verification failed"
					}
				}
			}
		}
		if reason == "" {
			// nonce reasons: facts mention the nonce claim lookup or the nonce comparison
			for cond := range fs {
				inner, _ := unwrapBool(cond)
				for d := range dataDeps(inner) {
					if gc, isCall := d.(*ssa.Call); isCall && gc.Common().IsInvoke() && gc.Common().Method.Name() == "Get" {
						if s, isS := constString(gc.Common().Args[0]); isS && s == "nonce" {
							reason = "nonce rule"
						}
					}
				}
			}
		}
		if reason == "" {
			// audience: the match flag is false
			for cond, pol := range fs {
				inner, neg := unwrapBool(cond)
				if ph, isPhi := inner.(*ssa.Phi); isPhi && isBool(ph.Type()) && (pol != neg) == false {
					for d := range dataDeps(ph) {
						if ac, isCall := d.(*ssa.Call); isCall && ac.Common().IsInvoke() && ac.Common().Method.Name() == "Audience" {
							reason = "no audience element equals the client id"
						}
					}
					// the phi's true edge is set under the audience comparison
					for i, e := range ph.Edges {
						if bv, isB := constBool(e); isB && bv {
							for c2 := range ff.OnEdge(ph.Block().Preds[i], ph.Block()) {
								for d := range dataDeps(c2) {
									if ac, isCall := d.(*ssa.Call); isCall && ac.Common().IsInvoke() && ac.Common().Method.Name() == "Audience" {
										reason = "no audience element equals the client id"
									}
								}
							}
						}
					}
				}
			}
		}
		if reason == "" {
			// the deciding condition is the library form of the audience comparison itself
			for _, cnd := range branchConds(r) {
				inner, _ := unwrapBool(cnd)
				for _, ac := range audienceComparisons(P, R, v) {
					if _, isCall := ac.(*ssa.Call); isCall && ac == inner {
						reason = "no audience element equals the client id"
					}
				}
			}
		}
		if reason == "" {
			// the deciding condition is a call of an own boolean helper that embodies the audience comparison
			for _, cnd := range branchConds(r) {
				inner, _ := unwrapBool(cnd)
				if hc, _, isC := asCall(inner); isC {
					if g := hc.Common().StaticCallee(); g != nil {
						for _, ac := range audienceComparisons(P, R, v) {
							if ac.(ssa.Instruction).Parent() == g {
								reason = "no audience element equals the client id"
							}
						}
					}
				}
			}
		}
		if reason == "" {
			// the rejection follows the exhaustion of a loop over the audience whose body holds the comparison
			if last := lastBranchCond(r); last != nil && loopExitOverAudience(P, R, v, last) {
				reason = "no audience element equals the client id"
			}
		}
		// the most recent condition decides: the rejection must be *because of* the classified reason, i.e. the
		// last branch taken before the return is the classifying one
		if reason != "" {
			last := lastBranchCond(r)
			if last != nil && !condMatchesReason(last, reason) && !(reason == "no audience element equals the client id" && loopExitOverAudience(P, R, v, last)) {
				reason = ""
			}
		}
		c.Obl(reason != "", "C03.R7", fmt.Sprintf("validator-rejection#%d", n), P.Pos(instrPos(r)), "rejection reason: "+reason,
			"the ID-token validator rejects a token for a reason outside the enumerated ones (condition: "+descLastCond(r)+"): a standards-compliant provider answer can be refused and the login never completes")
	}
	for _, fn := range idpValidators(R) {
		for i, r := range returnsOf(fn) {
			b, isC := constBool(r.Results[0])
			if !isC || b {
				continue
			}
			last := lastBranchCond(r)
			reason := ""
			if last != nil {
				inner0, _ := unwrapBool(last)
				if hc, _, isC := asCall(inner0); isC && hc.Common().StaticCallee() != nil {
					for _, other := range idpValidators(R) {
						if other == hc.Common().StaticCallee() && other != fn {
							reason = "delegated to " + other.Name() + " (classified there)"
						}
					}
				}
			}
			if last != nil && reason == "" {
				df := depFields(last)
				inner, _ := unwrapBool(last)
				switch {
				case df["TokenType"]:
					if call, _, ok := asCall(inner); ok && isCallTo(call, "strings.EqualFold") {
						reason = "token_type not Bearer"
					}
				case df["ExpiresIn"]:
					if _, op, k, ok := cmpWithConstInt(inner); ok && op == token.LSS && k == 0 {
						reason = "negative expires_in"
					}
				case df["AccessToken"]:
					reason = "access token missing although forwarding is configured"
					// must be conjoined with GetAccessToken() != nil
					okCfg := false
					for cond := range FactsOf(fn).At(r) {
						for d := range dataDeps(cond) {
							if gc, isCall := d.(*ssa.Call); isCall && isCallTo(gc, idOIDCConfig+".GetAccessToken") {
								okCfg = true
							}
						}
					}
					for d := range dataDeps(last) {
						if gc, isCall := d.(*ssa.Call); isCall && isCallTo(gc, idOIDCConfig+".GetAccessToken") {
							okCfg = true
						}
					}
					// … or with a boolean parameter that every caller computes from GetAccessToken() (or passes as the
					// constant false): one validator shared by the login and the refresh path
					if !okCfg {
						conds := []ssa.Value{last}
						for cond := range FactsOf(fn).At(r) {
							conds = append(conds, cond)
						}
						for _, cond := range conds {
							for d := range dataDeps(cond) {
								p, isP := d.(*ssa.Parameter)
								if !isP || p.Parent() != fn || !isBool(p.Type()) {
									continue
								}
								idx := -1
								for k, q := range fn.Params {
									if q == p {
										idx = k
									}
								}
								sites := callsToFn2(c.P, fn)
								all := len(sites) > 0 && idx >= 0
								for _, cs := range sites {
									a := cs.Common().Args[idx]
									if b, isK := constBool(a); isK && !b {
										continue
									}
									dep := false
									for ad := range dataDeps(a) {
										if gc, isCall := ad.(*ssa.Call); isCall && isCallTo(gc, idOIDCConfig+".GetAccessToken") {
											dep = true
										}
									}
									if !dep {
										all = false
									}
								}
								if all {
									okCfg = true
								}
							}
						}
					}
					if !okCfg {
						reason = ""
					}
				}
			}
			c.Obl(reason != "", "C03.R7", fmt.Sprintf("response-rejection/%s#%d", fnKey(fn), i+1), P.Pos(instrPos(r)), "rejection reason: "+reason,
				"the IdP-response validator "+fnKey(fn)+" rejects an answer for a reason outside the enumerated ones (condition: "+descLastCond(r)+")")
		}
	}
}

// lastBranchCond: the condition of the If through which the return's block is entered (nil when the
// block has several predecessors with different conditions).
func lastBranchCond(r *ssa.Return) ssa.Value {
	b := r.Block()
	for hops := 0; hops < 4; hops++ {
		if len(b.Preds) != 1 {
			// && / || lowering: all predecessors test conditions of the same disjunction; take the one whose phi…
			var conds []ssa.Value
			for _, p := range b.Preds {
				if iff, ok := p.Instrs[len(p.Instrs)-1].(*ssa.If); ok {
					conds = append(conds, iff.Cond)
				}
			}
			if len(conds) > 0 {
				return conds[len(conds)-1]
			}
			return nil
		}
		p := b.Preds[0]
		if iff, ok := p.Instrs[len(p.Instrs)-1].(*ssa.If); ok {
			return iff.Cond
		}
		b = p
	}
	return nil
}

// branchConds: the conditions of all the Ifs through which the return's block is entered directly.
func branchConds(r *ssa.Return) []ssa.Value {
	b := r.Block()
	for hops := 0; hops < 4; hops++ {
		var conds []ssa.Value
		for _, p := range b.Preds {
			if iff, ok := p.Instrs[len(p.Instrs)-1].(*ssa.If); ok {
				conds = append(conds, iff.Cond)
			}
		}
		if len(conds) > 0 {
			return conds
		}
		if len(b.Preds) != 1 {
			return nil
		}
		b = b.Preds[0]
	}
	return nil
}

func descLastCond(r *ssa.Return) string {
	if c := lastBranchCond(r); c != nil {
		return descDepth(c, 3)
	}
	return "?"
}

func condMatchesReason(cond ssa.Value, reason string) bool {
	inner, _ := unwrapBool(cond)
	deps := dataDeps(inner)
	has := func(pred func(*ssa.Call) bool) bool {
		for d := range deps {
			if c, ok := d.(*ssa.Call); ok && pred(c) {
				return true
			}
		}
		if c, ok := inner.(*ssa.Call); ok && pred(c) {
			return true
		}
		return false
	}
	switch reason {
	case "token does not parse":
		return has(func(c *ssa.Call) bool { return isCallToAny(c, fParseToken, fParseIDTok) })
	case "key source failed":
		return has(func(c *ssa.Call) bool { return isCallTo(c, mJWKSGet) })
	case "signature verification failed":
		return has(func(c *ssa.Call) bool { return isCallTo(c, fJWSVerify) })
	case "nonce rule":
		return has(func(c *ssa.Call) bool {
			if !c.Common().IsInvoke() || c.Common().Method.Name() != "Get" {
				return false
			}
			s, isS := constString(c.Common().Args[0])
			return isS && s == "nonce"
		}) || condIsParamOnly(inner)
	case "no audience element equals the client id":
		if hc, _, isC := asCall(inner); isC && hc.Common().StaticCallee() != nil && hc.Common().StaticCallee().Blocks != nil {
			return true // classified through the helper (see audienceComparisons)
		}
		if hc, _, isC := asCall(inner); isC && has(func(c *ssa.Call) bool { return c.Common().IsInvoke() && c.Common().Method.Name() == "Audience" }) {
			if o := hc.Common().StaticCallee(); o != nil {
				if o.Origin() != nil {
					o = o.Origin()
				}
				if o.Pkg != nil && o.Pkg.Pkg.Path() == "slices" && o.Name() == "Contains" {
					return true
				}
			}
		}
		if ph, ok := inner.(*ssa.Phi); ok {
			for d := range dataDeps(ph) {
				if c, isC := d.(*ssa.Call); isC && c.Common().IsInvoke() && c.Common().Method.Name() == "Audience" {
					return true
				}
			}
			return phiSetUnderAudience(ph)
		}
	}
	return false
}

func condIsParamOnly(v ssa.Value) bool {
	_, ok := v.(*ssa.Parameter)
	return ok
}

func phiSetUnderAudience(ph *ssa.Phi) bool {
	ff := FactsOf(ph.Parent())
	for i, e := range ph.Edges {
		if b, isB := constBool(e); isB && b {
			for c2 := range ff.OnEdge(ph.Block().Preds[i], ph.Block()) {
				for d := range dataDeps(c2) {
					if ac, isCall := d.(*ssa.Call); isCall && ac.Common().IsInvoke() && ac.Common().Method.Name() == "Audience" {
						return true
					}
				}
			}
			// the edge may come through a jump block: look one predecessor further
			pb := ph.Block().Preds[i]
			for _, pp := range pb.Preds {
				for c2 := range ff.OnEdge(pp, pb) {
					for d := range dataDeps(c2) {
						if ac, isCall := d.(*ssa.Call); isCall && ac.Common().IsInvoke() && ac.Common().Method.Name() == "Audience" {
							return true
						}
					}
				}
			}
		}
	}
	return false
}

// loopExitOverAudience: cond is the condition of a natural loop header, it depends on the token's
// Audience() (the loop ranges over the audience) and the loop body holds the comparison of an audience
// element with the client id: leaving the loop by this condition means that no element matched.
func loopExitOverAudience(P *Program, R *Roles, v *ssa.Function, cond ssa.Value) bool {
	ci, ok := cond.(ssa.Instruction)
	if !ok {
		return false
	}
	hb := ci.Block()
	if _, isIf := hb.Instrs[len(hb.Instrs)-1].(*ssa.If); !isIf {
		return false
	}
	isHead := false
	for _, p := range hb.Preds {
		if hb.Dominates(p) {
			isHead = true
		}
	}
	if !isHead {
		return false
	}
	dep := false
	for d := range dataDeps(cond) {
		if ac, isCall := d.(*ssa.Call); isCall && ac.Common().IsInvoke() && ac.Common().Method.Name() == "Audience" {
			dep = true
		}
	}
	if !dep {
		return false
	}
	for _, ac := range audienceComparisons(P, R, v) {
		if bo, ok := ac.(*ssa.BinOp); ok && bo.Parent() == v && hb.Dominates(bo.Block()) && blockReaches(bo.Block(), hb) {
			return true
		}
	}
	return false
}

// tokenTypeDecisive: in the IdP-response validator v no accepting return is reachable without the token_type
// comparison having answered true. Filed under C03.R5 and C11.R3.
func tokenTypeDecisive(c *Check, rule string, v *ssa.Function) {
	P := c.P
	// … and the comparison is decisive: every accepting return of the function that holds the comparison lies
	// behind the EqualFold call and is unreachable when it answered false (an answer without token_type, or
	// with another type, is not accepted — `tokenType != "" && !EqualFold(…)` would let an error document
	// that happens to be served with status 200 pass as a token response)
	for _, ci := range callsToDeep(v, 2, "strings.EqualFold") {
		cc, isCall := ci.(*ssa.Call)
		if !isCall || !(depFields(cc.Common().Args[0])["TokenType"] || depFields(cc.Common().Args[1])["TokenType"]) {
			continue
		}
		hf := cc.Parent()
		accepting := func(i ssa.Instruction) bool {
			r, ok := i.(*ssa.Return)
			if !ok || len(r.Results) != 1 {
				return false
			}
			b, isC := constBool(r.Results[0])
			return !isC || b
		}
		decisive := existsPath(hf, atomEnv{cc: false}, accepting, nil) == nil
		for _, r := range returnsOf(hf) {
			if accepting(r) && !mustPassBefore(hf, r, func(i ssa.Instruction) bool { return i == ssa.Instruction(cc) }) {
				decisive = false
			}
		}
		c.Obl(decisive, rule, "token-type-decisive/"+fnKey(v), P.Pos(cc.Pos()), "no accepting return without token_type having been found to be Bearer",
			"an accepting return of "+fnKey(hf)+" is reachable without the token_type comparison having answered true (a missing token_type is accepted)")
	}
}

// exchangeIsSentOnce: a token request (authorization-code or refresh grant) is not idempotent — the IdP
// consumes the code / rotates the refresh token when it processes it. The exchange function sends it at
// most once per activation: no http.Client.Do (or own RoundTrip forwarding) is reachable from another one,
// so a reply that was lost is never answered with a replay of a superseded credential.
func exchangeIsSentOnce(c *Check, rule string, R *Roles) {
	P := c.P
	ex := R.TokenExchange
	if !c.Anchor(rule, "token exchange function", ex != nil) {
		return
	}
	var sends []ssa.Instruction
	for _, f := range deepFuncs(ex, 2) {
		if !isOwnPath(pkgPathOf(f)) {
			continue
		}
		for _, ci := range allCalls(f) {
			if isCallToAny(ci, "net/http.Client.Do", "net/http.Client.Post", "net/http.Client.PostForm", "net/http.Client.Get") {
				sends = append(sends, ci)
			}
		}
	}
	bad := ""
	isSend := func(i ssa.Instruction) bool {
		for _, s := range sends {
			if s == i {
				return true
			}
		}
		return false
	}
	for _, s := range sends {
		if hit := reachAvoiding(s, nil, isSend, nil); hit != nil {
			bad = "after the send at " + posOf(P, s) + " another send is reachable at " + posOf(P, hit)
		}
	}
	c.Obl(len(sends) >= 1 && bad == "", rule, "exchange-is-sent-once", P.Pos(ex.Pos()), fmt.Sprintf("%d send site(s) in the exchange function, none reachable from another", len(sends)),
		"the token request can be sent twice in one exchange ("+bad+"): a grant the IdP already processed is replayed with a consumed code or a superseded refresh token")
}

// exchangeRejectsForEnumeratedReasonsOnly: the token exchange gives up (returns no tokens) only for the
// enumerated reasons — the request could not be built or sent, the status is not 200, the body could not
// be read or decoded. Any other failing return (a media-type test, a size limit, a header the provider need
// not send) refuses a compliant provider's answer and the login never completes.
func exchangeRejectsForEnumeratedReasonsOnly(c *Check, rule string, R *Roles) {
	P := c.P
	ex := R.TokenExchange
	if !c.Anchor(rule, "token exchange function", ex != nil) {
		return
	}
	ff := FactsOf(ex)
	n := 0
	for i, r := range returnsOf(ex) {
		if len(r.Results) == 0 || !isNilConst(r.Results[0]) {
			continue // hands the decoded answer back
		}
		n++
		reason := ""
		for cond, pol := range ff.At(r) {
			bo, isB := cond.(*ssa.BinOp)
			if !isB {
				continue
			}
			// err != nil of a request/transport/read/decode step
			if isNilConst(bo.Y) && (bo.Op == token.NEQ) == pol {
				if ec, _, isC := asCall(resolveCell(stripConv(bo.X))); isC {
					id := funcID(calleeOf(ec).Obj)
					switch {
					case strings.HasPrefix(id, "net/http.NewRequest"), id == "net/http.Client.Do", id == "io.ReadAll", id == "encoding/json.Unmarshal", id == "encoding/json.Decoder.Decode",
						strings.HasPrefix(id, "net/http.Client."):
						reason = "error of " + shortID(id)
					}
				}
			}
			// status code
			if k, isK := constInt(bo.Y); isK && k == 200 && depFields(bo.X)["StatusCode"] && ((bo.Op == token.NEQ) == pol) {
				reason = "status is not 200"
			}
		}
		c.Obl(reason != "", rule, fmt.Sprintf("exchange-rejection/return#%d", i+1), P.Pos(instrPos(r)), "the exchange gives up because of: "+reason,
			"the token exchange returns without tokens for a reason outside {request/transport/read/decode error, status != 200} (condition: "+descLastCond(r)+"): a compliant provider's answer is refused")
	}
	c.Obl(n >= 3, rule, "exchange-rejections", P.Pos(ex.Pos()), fmt.Sprintf("%d failing returns, all for enumerated reasons", n), "failing returns of the token exchange not found (anchor lost)")
}

// exchangeKeepsItsForm: the token exchange function sends the form and the headers it was handed. It does not write to
// them (url.Values.Set/Add/Del, map updates) — not even through a second name for the same map (`params := form` is
// not a copy): a value "redacted for the log" would be what the provider receives.
func exchangeKeepsItsForm(c *Check, rule string, R *Roles) {
	P := c.P
	ex := R.TokenExchange
	if !c.Anchor(rule, "token exchange function", ex != nil) {
		return
	}
	var maps []*ssa.Parameter
	for _, p := range ex.Params {
		if _, isMap := p.Type().Underlying().(*types.Map); isMap {
			maps = append(maps, p)
		}
	}
	if !c.Anchor(rule, "form/header parameters of the token exchange function", len(maps) >= 1) {
		return
	}
	aliases := func(v ssa.Value) *ssa.Parameter {
		for _, l := range Leaves(v, leafOpts{noConcat: true}) {
			l = resolveCell(stripConv(l))
			for _, p := range maps {
				if l == ssa.Value(p) {
					return p
				}
			}
		}
		return nil
	}
	bad := ""
	for _, f := range deepFuncs(ex, 1) {
		if f != ex && f.Parent() != ex {
			continue
		}
		for _, b := range f.Blocks {
			for _, ins := range b.Instrs {
				switch x := ins.(type) {
				case *ssa.MapUpdate:
					if p := aliases(x.Map); p != nil {
						bad = "an element of the parameter " + p.Name() + " is assigned at " + posOf(P, x)
					}
				case ssa.CallInstruction:
					if isCallToAny(x, "net/url.Values.Set", "net/url.Values.Add", "net/url.Values.Del", "net/http.Header.Set", "net/http.Header.Add", "net/http.Header.Del") && len(x.Common().Args) > 0 {
						if p := aliases(x.Common().Args[0]); p != nil {
							bad = shortID(funcID(calleeOf(x).Obj)) + " is called on the parameter " + p.Name() + " (or another name for the same map) at " + posOf(P, x)
						}
					}
					if bi, isB := x.Common().Value.(*ssa.Builtin); isB && (bi.Name() == "delete" || bi.Name() == "clear") && len(x.Common().Args) > 0 {
						if p := aliases(x.Common().Args[0]); p != nil {
							bad = bi.Name() + " is applied to the parameter " + p.Name() + " at " + posOf(P, x)
						}
					}
				}
			}
		}
	}
	c.Obl(bad == "", rule, "exchange-keeps-its-form", P.Pos(ex.Pos()), "the exchange function only reads the form and headers it was given",
		"the token exchange function modifies what it was asked to send: "+bad+" — the provider receives something else than the caller built (a redacted refresh token or client secret is rejected)")
}
