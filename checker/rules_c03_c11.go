package main

import (
	"fmt"
	"go/token"
	"strings"

	"golang.org/x/tools/go/ssa"
)

func init() {
	registry["C03"] = checkC03
	registry["C11"] = checkC11
}

// idpValidators: own bool functions of the handler that take the IdP's token response.
func idpValidators(R *Roles) []*ssa.Function {
	var out []*ssa.Function
	for _, fn := range R.HandlerFuncs {
		if fn.Parent() != nil || fn.Signature.Results().Len() != 1 || !isBool(fn.Signature.Results().At(0).Type()) {
			continue
		}
		for _, p := range fn.Params {
			if typeID(p.Type()) == pkgAuthz+".idpTokensResponse" {
				out = append(out, fn)
			}
		}
	}
	return out
}

// expiryStores: stores into TokenResponse.AccessTokenExpiresAt in the handler, with the value and the
// facts at the store.
type expiryStore struct {
	fn  *ssa.Function
	st  *ssa.Store
	val ssa.Value
}

func expiryStores(R *Roles) []expiryStore {
	var out []expiryStore
	for _, fn := range R.HandlerFuncs {
		for _, b := range fn.Blocks {
			for _, ins := range b.Instrs {
				st, ok := ins.(*ssa.Store)
				if !ok {
					continue
				}
				fa, isF := st.Addr.(*ssa.FieldAddr)
				if isF && fieldAddrID(fa) == idTokenResponse+".AccessTokenExpiresAt" {
					out = append(out, expiryStore{fn, st, st.Val})
				}
			}
		}
	}
	return out
}

// dependsOnExpiresIn: the value is computed from the IdP answer's expires_in; returns the loads.
func expiresInLoads(v ssa.Value) []ssa.Value {
	var out []ssa.Value
	for d := range dataDeps(v) {
		if base, f, ok := fieldLoad(d); ok && f != nil && f.Name() == "ExpiresIn" && typeID(base.Type()) == pkgAuthz+".idpTokensResponse" {
			out = append(out, d)
		}
	}
	return out
}

func checkC03(c *Check) {
	P := c.P
	m := getHModel(P)
	R := m.R
	c.Assumes("progress of the composed redirect chain for every compliant IdP is a composition property and is not decided; only the structural links without which the chain cannot close, and the sibling agreement on `expiry unknown`")
	c.Rule("C03.R1", "cookie round trip: the cookie name written by the Set-Cookie producers and the name the cookie reader looks up are both getCookieName of the handler's configuration.", 2)
	c.Rule("C03.R2", "id round trip: the callback reads the login state, clears it and binds the tokens under the one session id it was given (the cookie's), and the redirect stores the login state under the id it puts in the cookie.", 3)
	c.Rule("C03.R3", "return address: the callback's success answer is a 302 to the RequestedURL stored at the redirect (C13.R3), reached on every path after the tokens were bound.", 2)
	c.Rule("C03.R4", "`expiry unknown` is encoded the same way by both writers and understood by the reader: every write of AccessTokenExpiresAt computed from the IdP's expires_in happens under expires_in > 0 (otherwise the field stays zero or is carried over), and the expiry test applies the access-token clause only when the stored time is not zero.", 3)
	c.Rule("C03.R5", "tolerant decoding: both IdP-response validators compare token_type with strings.EqualFold against \"Bearer\", agree on their common checks, reject only a negative expires_in, and the response decoder does not enable DisallowUnknownFields.", 4)
	c.Rule("C03.R6", "no second trip: from a successful read of unexpired tokens the OK writer is reachable without any token-endpoint call or login redirect.", 1)
	if !requireModel(c, "C03.R1", m, "cb.", "redirect.cookie", "redirect.setstate", "redirect.gens", "hw.") {
		return
	}
	// ---- R1
	rdName := resolveCell(stripConv(m.RedirCookie.Common().Args[0]))
	nc, _, ok := asCall(rdName)
	c.Obl(ok && nc.Common().StaticCallee() == R.CookieName && isHandlerConfig(nc.Common().Args[0]), "C03.R1", "cookie-name/written", P.Pos(m.RedirCookie.Pos()),
		"login cookie is named getCookieName(handler config)", "the login redirect's cookie is not named by getCookieName(handler config)")
	readOK := false
	for _, ci := range callsToFn(R.CookieReader, R.CookieName) {
		cc := ci.(*ssa.Call)
		// compared (==) against the parsed cookie names
		for _, b := range R.CookieReader.Blocks {
			for _, ins := range b.Instrs {
				if bo, isB := ins.(*ssa.BinOp); isB && bo.Op == token.EQL && (bo.X == ssa.Value(cc) || bo.Y == ssa.Value(cc)) {
					readOK = true
				}
			}
		}
	}
	cfgOK := true
	idx := -1
	for i, p := range R.CookieReader.Params {
		if typeID(p.Type()) == idOIDCConfig {
			idx = i
		}
	}
	for _, site := range P.CallersOf(R.CookieReader) {
		if idx < 0 || !isHandlerConfig(site.Common().Args[idx]) {
			cfgOK = false
		}
	}
	c.Obl(readOK && cfgOK, "C03.R1", "cookie-name/read", P.Pos(R.CookieReader.Pos()), "the reader selects the cookie whose name equals getCookieName(handler config)",
		"the cookie reader does not select the cookie by exact equality with getCookieName(handler config)")

	// ---- R2
	same := sameVal(callArgs(m.CbGetState)[1], m.CbSID) && sameVal(callArgs(m.CbClear)[1], m.CbSID) && sameVal(callArgs(m.CbSetToken)[1], m.CbSID)
	c.Obl(same, "C03.R2", "callback-one-id", P.Pos(R.Callback.Pos()), "state read, state clear and token binding use the callback's one session id",
		"the callback reads, clears and binds under different session ids")
	okSID, whySID := sidFromCookieAtAllCallers(P, R, R.Callback, m.CbSID)
	c.Obl(okSID, "C03.R2", "callback-id-is-cookie", P.Pos(R.Callback.Pos()), "that id is the cookie's", "callback session id: "+whySID)
	c.Obl(resolveCell(stripConv(callArgs(m.RedirSetState)[1])) == resolveCell(stripConv(m.RedirCookie.Common().Args[1])), "C03.R2", "redirect-one-id", P.Pos(m.RedirSetState.Pos()),
		"the redirect stores the login state under the id it sets in the cookie", "the login state key and the cookie value differ: the callback will not find the state")

	// ---- R3
	cb := R.Callback
	// after SetTokenResponse success every path to return passes a verdict with a location header and 302
	okFound := false
	for _, b := range cb.Blocks {
		for _, ins := range b.Instrs {
			if st, isS := ins.(*ssa.Store); isS {
				if fa, isF := st.Addr.(*ssa.FieldAddr); isF && fieldAddrID(fa) == idDenied+".Status" {
					for name, vals := range structFieldStores(resolveCell(stripConv(st.Val))) {
						if name == "Code" {
							for _, v := range vals {
								if k, isK := constInt(v); isK && k == 302 && FactsOf(cb).At(st).CallErrNil(m.CbSetToken, -1) {
									okFound = true
								}
							}
						}
					}
				}
			}
		}
	}
	if !okFound && m.LocationWriter != nil {
		// through the location writer (which sets 302)
		for _, ci := range callsToFn(cb, m.LocationWriter.Fn) {
			if FactsOf(cb).At(ci).CallErrNil(m.CbSetToken, -1) {
				okFound = true
			}
		}
	}
	c.Obl(okFound, "C03.R3", "callback-302", P.Pos(cb.Pos()), "after the tokens are bound the answer is a 302", "the callback's success answer is not a 302 redirect issued after the tokens were bound")
	stored := extractOf(m.CbGetState, 0)
	c.Obl(isFieldOf(m.CbLocation, "RequestedURL", func(b ssa.Value) bool { return stored != nil && sameVal(b, stored) }), "C03.R3", "callback-location", P.Pos(cb.Pos()),
		"Location = stored RequestedURL", "the callback does not redirect to the stored RequestedURL")

	// ---- R4
	n := 0
	for _, es := range expiryStores(R) {
		loads := expiresInLoads(es.val)
		if len(loads) == 0 {
			continue // carried over / zero
		}
		n++
		ok := true
		for _, alt := range phiAlternatives(es.fn, es.val, es.st) {
			al := expiresInLoads(alt.V)
			if len(al) == 0 {
				continue
			}
			fs := unionFacts(FactsOf(es.fn).At(es.st), alt.Facts)
			pos := false
			for _, l := range al {
				if fs.knownPositive(l) {
					pos = true
				}
			}
			if !pos {
				ok = false
			}
		}
		c.Obl(ok, "C03.R4", "expiry-unknown/"+fnKey(es.fn), P.Pos(instrPos(es.st)), "expiry computed from expires_in only under expires_in > 0",
			"AccessTokenExpiresAt is computed from the IdP's expires_in without the guard expires_in > 0 in "+fnKey(es.fn)+": an IdP that omits expires_in yields tokens that are expired at once (login loop)")
	}
	// stores via a variable (callback after the fix): the literal's field gets a cell whose writes are guarded
	for _, fn := range []*ssa.Function{R.Callback, R.Refresh} {
		for _, b := range fn.Blocks {
			for _, ins := range b.Instrs {
				st, ok := ins.(*ssa.Store)
				if !ok {
					continue
				}
				if _, isAlloc := st.Addr.(*ssa.Alloc); !isAlloc || typeID(st.Val.Type()) != "time.Time" {
					continue
				}
				loads := expiresInLoads(st.Val)
				if len(loads) == 0 {
					continue
				}
				n++
				fs := FactsOf(fn).At(st)
				ok2 := false
				for _, l := range loads {
					if fs.knownPositive(l) {
						ok2 = true
					}
				}
				c.Obl(ok2, "C03.R4", "expiry-unknown/var/"+fnKey(fn), P.Pos(instrPos(st)), "expiry variable computed from expires_in only under expires_in > 0",
					"an expiry time is computed from the IdP's expires_in without the guard expires_in > 0 in "+fnKey(fn))
			}
		}
	}
	c.Obl(n >= 2, "C03.R4", "expiry-unknown/writers", "-", fmt.Sprintf("%d expiry computations (login and refresh)", n), fmt.Sprintf("%d expiry computations found (floor 2: login and refresh path)", n))
	// reader: access-token `expired` only when !IsZero
	et := R.ExpiryTest
	okReader := false
	for _, r := range returnsOf(et) {
		if b, isC := constBool(r.Results[0]); !isC || !b {
			continue
		}
		fs := FactsOf(et).At(r)
		usesAT := false
		notZero := false
		for cond, pol := range fs {
			cc, _, isCall := asCall(cond)
			if !isCall {
				continue
			}
			if isCallTo(cc, "time.Time.Before") && depFields(cc.Common().Args[0])["AccessTokenExpiresAt"] && pol {
				usesAT = true
			}
			if isCallTo(cc, "time.Time.IsZero") && depFields(cc.Common().Args[0])["AccessTokenExpiresAt"] && !pol {
				notZero = true
			}
		}
		if usesAT {
			okReader = notZero
		}
	}
	c.Obl(okReader, "C03.R4", "expiry-unknown/reader", P.Pos(et.Pos()), "the access-token clause is applied only when the stored expiry is not zero",
		"the expiry test applies the access-token clause to a zero (unknown) expiry")

	// ---- R5
	vals := idpValidators(R)
	c.Obl(len(vals) >= 2, "C03.R5", "validators", "-", fmt.Sprintf("%d IdP-response validators", len(vals)), "IdP-response validators not found")
	for _, v := range vals {
		okFold := false
		for _, ci := range callsTo(v, "strings.EqualFold") {
			a := ci.Common().Args
			s0, c0 := constString(a[0])
			s1, c1 := constString(a[1])
			tt := depFields(a[0])["TokenType"] || depFields(a[1])["TokenType"]
			if tt && ((c0 && s0 == "Bearer") || (c1 && s1 == "Bearer")) {
				okFold = true
			}
		}
		c.Obl(okFold, "C03.R5", "token-type/"+fnKey(v), P.Pos(v.Pos()), "token_type compared with strings.EqualFold(…, \"Bearer\")", "token_type is not compared case-insensitively with \"Bearer\" in "+fnKey(v))
		// expires_in: only negative values rejected
		okExp := true
		for _, b := range v.Blocks {
			for _, ins := range b.Instrs {
				if bo, isB := ins.(*ssa.BinOp); isB && depFields(bo.X)["ExpiresIn"] {
					if k, isK := constInt(bo.Y); isK && !(bo.Op == token.LSS && k == 0) {
						okExp = false
					}
				}
			}
		}
		c.Obl(okExp, "C03.R5", "expires-in/"+fnKey(v), P.Pos(v.Pos()), "only a negative expires_in is rejected", "the validator rejects an absent (zero) expires_in")
	}
	noStrict := true
	for _, fn := range R.HandlerFuncs {
		if len(callsTo(fn, "encoding/json.Decoder.DisallowUnknownFields")) > 0 {
			noStrict = false
		}
	}
	c.Obl(noStrict, "C03.R5", "decoder-tolerant", "-", "unknown response members are ignored", "the IdP response decoder rejects unknown members")

	// ---- R6
	pr := R.OIDCProcess
	var fresh *ssa.Call
	for _, ci := range callsToFn(pr, R.AllowFn) {
		cc := ci.(*ssa.Call)
		if src, _, isC := asCall(resolveCell(stripConv(callArgs(cc)[1]))); isC && isCallTo(src, mGetToken) {
			fresh = cc
		}
	}
	okNo := false
	if fresh != nil {
		var get *ssa.Call
		for _, ci := range callsTo(pr, mGetToken) {
			get, _ = ci.(*ssa.Call)
		}
		if get != nil {
			hit := reachAvoiding(get, nil, func(i ssa.Instruction) bool { return i == ssa.Instruction(fresh) }, func(i ssa.Instruction) bool {
				cc, ok := i.(*ssa.Call)
				if !ok {
					return false
				}
				callee := cc.Common().StaticCallee()
				return callee == R.Redirect || callee == R.Refresh || callee == R.Callback || callee == R.TokenExchange
			})
			okNo = hit != nil
		}
	}
	c.Obl(okNo, "C03.R6", "fresh-path", P.Pos(pr.Pos()), "the fresh-token allow is reachable from the store read without any IdP round trip or redirect",
		"no path from the token read to the OK writer avoids the IdP: a logged-in browser would be sent to the provider again")
}

// ---------------------------------------------------------------------------------------------- C11

func checkC11(c *Check) {
	P := c.P
	m := getHModel(P)
	R := m.R
	c.Assumes("the provider's ledger over many token lifetimes is not modelled; these rules hold per refresh")
	c.Rule("C11.R1", "refresh request: the form has exactly grant_type=refresh_token, refresh_token ← the refresh token of the tokens read from the store in this check, client_id and client_secret from the configuration, sent to the configured token URI; it is attempted only when the tokens were found expired and the stored refresh token is not empty.", 7)
	c.Rule("C11.R2", "merge is total and guarded: for every field of TokenResponse the returned object's field is assigned on every path to the non-nil return; a value taken from the IdP answer is the same-named member under its guard (ID token: parses; access/refresh token: non-empty; expiry: expires_in > 0), otherwise the same field of the stored tokens.", 4)
	c.Rule("C11.R3", "the merged result is validated: every non-nil return of the refresh helper is dominated by token exchange OK and validator(returned.IDToken) == true; every other exit returns nil.", 1)
	c.Rule("C11.R4", "outcome: a nil result leads to the login redirect with the presented session id (which removes the stale session: C05.R1); a non-nil result is stored under the same session id and that same object is the one allowed.", 3)
	if !requireModel(c, "C11.R1", m, "refresh.") {
		return
	}
	rf := R.Refresh
	pr := R.OIDCProcess
	// parameters of the refresh helper
	var oldTok *ssa.Parameter
	var strParams []*ssa.Parameter
	for _, p := range rf.Params {
		if typeID(p.Type()) == idTokenResponse {
			oldTok = p
		}
		if isString(p.Type()) {
			strParams = append(strParams, p)
		}
	}
	// ---- R1
	var site *ssa.Call
	for _, ci := range callsToFn(pr, rf) {
		site, _ = ci.(*ssa.Call)
	}
	if !c.Anchor("C11.R1", "call of the refresh helper in Process", site != nil && oldTok != nil) {
		return
	}
	// which string param is the refresh token: the one used in the form
	rtv, has := m.RfForm["refresh_token"]
	var rtParam *ssa.Parameter
	if has {
		rtParam, _ = resolveCell(stripConv(rtv)).(*ssa.Parameter)
	}
	argOf := func(p *ssa.Parameter) ssa.Value {
		for i, q := range rf.Params {
			if q == p {
				return site.Common().Args[i]
			}
		}
		return nil
	}
	storedTok := resolveCell(stripConv(argOf(oldTok)))
	gsrc, gi, isG := asCall(storedTok)
	fromStore := isG && gi == 0 && isCallTo(gsrc, mGetToken)
	okRT := false
	if rtParam != nil {
		okRT = isFieldOf(argOf(rtParam), "RefreshToken", func(b ssa.Value) bool { return sameVal(b, storedTok) })
	} else if has {
		okRT = isFieldOf(rtv, "RefreshToken", func(b ssa.Value) bool { return b == ssa.Value(oldTok) })
	}
	c.Obl(has && okRT && fromStore, "C11.R1", "form/refresh_token", P.Pos(m.RfExchange.Pos()), "refresh_token ← RefreshToken of the tokens read from the store in this check",
		"the refresh request does not carry the refresh token of the tokens just read from the store")
	gt, _ := constString(m.RfForm["grant_type"])
	c.Obl(gt == "refresh_token", "C11.R1", "form/grant_type", P.Pos(m.RfExchange.Pos()), "grant_type = refresh_token", "grant_type is "+gt)
	c.Obl(cfgGetter(m.RfForm["client_id"], "GetClientId"), "C11.R1", "form/client_id", P.Pos(m.RfExchange.Pos()), "client_id ← configuration", "client_id of the refresh request is not the configured client id")
	c.Obl(cfgGetter(m.RfForm["client_secret"], "GetClientSecret"), "C11.R1", "form/client_secret", P.Pos(m.RfExchange.Pos()), "client_secret ← configuration (read when the request is built)", "client_secret of the refresh request is not the configured client secret")
	c.Obl(len(m.RfForm) == 4 && len(m.RfFormDyn) == 0, "C11.R1", "form/exact", P.Pos(m.RfExchange.Pos()), "exactly the four members", fmt.Sprintf("refresh form members: %v", tableKeys(m.RfForm)))
	okURL := false
	for i, p := range R.TokenExchange.Params {
		if isString(p.Type()) && cfgGetter(m.RfExchange.Common().Args[i], "GetTokenUri") {
			okURL = true
		}
	}
	c.Obl(okURL, "C11.R1", "url", P.Pos(m.RfExchange.Pos()), "sent to the configured token URI", "the refresh request is not sent to the configured token URI")
	// guard at the call site
	fs := FactsOf(pr).At(site)
	expired := false
	for _, ci := range callsToFn(pr, R.ExpiryTest) {
		ec := ci.(*ssa.Call)
		if v, k := fs.CallBool(ec, 0); k && v && fs.CallErrNil(ec, 1) {
			expired = true
		}
	}
	nonEmptyRT := false
	for cond, pol := range fs {
		bo, ok := cond.(*ssa.BinOp)
		if !ok {
			continue
		}
		if s, isC := constString(bo.Y); isC && s == "" && isFieldOf(bo.X, "RefreshToken", func(b ssa.Value) bool { return sameVal(b, storedTok) }) {
			if (bo.Op == token.EQL && !pol) || (bo.Op == token.NEQ && pol) {
				nonEmptyRT = true
			}
		}
	}
	c.Obl(expired && nonEmptyRT, "C11.R1", "attempt-guard", P.Pos(site.Pos()), "refresh is attempted only for expired tokens with a non-empty refresh token",
		fmt.Sprintf("the refresh is attempted without the facts expired (%v) and refresh token non-empty (%v)", expired, nonEmptyRT))

	// ---- R2
	var ex *ssa.Call = m.RfExchange
	body := extractOf(ex, 0)
	for _, r := range returnsOf(rf) {
		if isNilConst(r.Results[0]) {
			continue
		}
		al, ok := resolveCell(stripConv(r.Results[0])).(*ssa.Alloc)
		if !c.Anchor("C11.R2", "merged object built in the refresh helper", ok) {
			return
		}
		tr := P.NamedType(pkgOIDC, "TokenResponse")
		st := tr.Underlying().(interface {
			NumFields() int
		})
		_ = st
		fields := structFieldStores(al)
		names := []string{}
		if s, isS := tr.Underlying().(interface{ NumFields() int }); isS {
			_ = s
		}
		ts := tr.Underlying()
		for i := 0; ; i++ {
			f := fieldOf(ts, i)
			if f == nil {
				break
			}
			names = append(names, f.Name())
		}
		guardFor := map[string]string{"IDToken": "parses", "AccessToken": "non-empty", "RefreshToken": "non-empty", "AccessTokenExpiresAt": "expires_in > 0"}
		for _, name := range names {
			key := "merge/" + name
			if _, known := guardFor[name]; !known {
				c.Fail("C11.R2", key, P.Pos(instrPos(r)), "TokenResponse has a field "+name+" for which no merge rule exists: it would be dropped or carried without a rule")
				continue
			}
			// assigned on every path
			isStoreOf := func(i ssa.Instruction) bool {
				s, isS := i.(*ssa.Store)
				if !isS {
					return false
				}
				fa, isF := s.Addr.(*ssa.FieldAddr)
				if !isF || fa.X != ssa.Value(al) {
					return false
				}
				f := fieldOf(fa.X.Type(), fa.Field)
				return f != nil && f.Name() == name
			}
			total := mustPassBefore(rf, r, isStoreOf)
			okProv := len(fields[name]) > 0
			why := ""
			takesNew := false
			for _, b := range rf.Blocks {
				for _, ins := range b.Instrs {
					if !isStoreOf(ins) {
						continue
					}
					s := ins.(*ssa.Store)
					sfs := FactsOf(rf).At(s)
					for _, l := range Leaves(s.Val, leafOpts{noConcat: true}) {
						l = resolveCell(l)
						base, f, isF := fieldLoad(l)
						switch {
						case isF && f != nil && resolveCell(stripConv(base)) == ssa.Value(oldTok):
							if f.Name() != name {
								okProv, why = false, "carried over from stored field "+f.Name()
							}
						case isF && f != nil && body != nil && sameVal(base, body):
							want := name
							if f.Name() == want {
								takesNew = true
							}
							if f.Name() != want {
								okProv, why = false, "taken from IdP member "+f.Name()
								continue
							}
							// guard
							g := false
							switch guardFor[name] {
							case "non-empty":
								g = sfs.StrNonEmpty(l)
							case "parses":
								for _, pi := range callsTo(rf, fParseToken) {
									pc := pi.(*ssa.Call)
									if sameVal(pc.Common().Args[0], l) && sfs.CallErrNil(pc, 1) {
										g = true
									}
								}
							}
							if !g {
								okProv, why = false, "IdP member "+f.Name()+" used without its guard ("+guardFor[name]+")"
							}
						default:
							// expiry computed from ExpiresIn
							if name == "AccessTokenExpiresAt" {
								loads := expiresInLoads(s.Val)
								g := false
								for _, ld := range loads {
									if sfs.knownPositive(ld) {
										g = true
									}
								}
								if len(loads) == 0 || !g {
									okProv, why = false, "expiry not derived from expires_in under expires_in > 0"
								} else {
									takesNew = true
								}
							} else {
								okProv, why = false, "value "+descDepth(l, 3)
							}
						}
					}
				}
			}
			if okProv && !takesNew {
				okProv, why = false, "the value the IdP returned is never taken (new values must replace old ones; a rotated refresh token must replace its predecessor)"
			}
			c.Obl(total && okProv, "C11.R2", key, P.Pos(instrPos(r)), name+": assigned on every path; new value under its guard ("+guardFor[name]+"), else the stored one",
				fmt.Sprintf("merge of %s is wrong: assigned on every path %v; %s", name, total, why))
		}
	}

	// ---- R3
	ok, why := refreshSummary(R)
	c.Obl(ok, "C11.R3", "validated-merged-result", P.Pos(rf.Pos()), "non-nil only after exchange OK and validator(returned.IDToken) true", "refresh helper: "+why)

	// ---- R4
	// nil ⇒ redirect(sid)
	region := failureRegion(pr, site, -1, failNil)
	redirOK := false
	var cookieSID *ssa.Call
	for _, ci := range callsToFn(pr, R.CookieReader) {
		cookieSID, _ = ci.(*ssa.Call)
	}
	for _, b := range region {
		for _, ins := range b.Instrs {
			if cc, isC := ins.(*ssa.Call); isC && cc.Common().StaticCallee() == R.Redirect {
				for _, a := range cc.Common().Args {
					if cookieSID != nil && resolveCell(stripConv(a)) == ssa.Value(cookieSID) {
						redirOK = true
					}
				}
			}
		}
	}
	noAllow := reachFromBlocks(region, func(i ssa.Instruction) bool {
		cc, isC := i.(*ssa.Call)
		return isC && (cc.Common().StaticCallee() == R.AllowFn || isCallTo(cc, mSetToken))
	}, nil) == nil
	c.Obl(len(region) > 0 && redirOK && noAllow, "C11.R4", "failure-relogin", P.Pos(site.Pos()), "failed refresh ⇒ login redirect with the presented session id (stale session removed), never allow/store",
		"a failed refresh does not lead to the login redirect for the presented session id")
	// non-nil ⇒ SetTokenResponse(sid, same) then allow(same)
	var setC, allowC *ssa.Call
	for _, ci := range callsTo(pr, mSetToken) {
		if cc := ci.(*ssa.Call); sameVal(callArgs(cc)[2], site) {
			setC = cc
		}
	}
	for _, ci := range callsToFn(pr, R.AllowFn) {
		if cc := ci.(*ssa.Call); sameVal(callArgs(cc)[1], site) {
			allowC = cc
		}
	}
	okStore := setC != nil && cookieSID != nil && resolveCell(stripConv(callArgs(setC)[1])) == ssa.Value(cookieSID)
	c.Obl(okStore, "C11.R4", "success-stored", P.Pos(site.Pos()), "the merged result is stored under the presented session id", "the merged result is not stored under the presented session id (later checks would not see it)")
	okAllow := allowC != nil && setC != nil && FactsOf(pr).At(allowC).CallErrNil(setC, -1)
	c.Obl(okAllow, "C11.R4", "success-allowed-same-object", P.Pos(site.Pos()), "the same merged object is allowed after it was stored", "the object that is allowed after a refresh is not the merged object that was stored")
	_ = strings.TrimSpace
	_ = strParams
}
