package main

import (
	"fmt"
	"go/token"
	"go/types"
	"sort"
	"strings"

	"golang.org/x/tools/go/ssa"
)

func init() { registry["C07"] = checkC07 }

const fSplit = pkgHTTP + ".GetPathQueryFragment"

type serverRoles struct {
	StringMatcher *ssa.Function
	RuleMatcher   *ssa.Function
	Trigger       *ssa.Function
	ChainMatch    *ssa.Function
	matchIface    *types.Interface
	matchKinds    []*types.Named
}

func getServerRoles(P *Program) (*serverRoles, []string) {
	sr := &serverRoles{}
	var missing []string
	// oneof interface of StringMatch
	if sm := P.NamedType(pkgCfgV1, "StringMatch"); sm != nil {
		if st, ok := sm.Underlying().(*types.Struct); ok {
			for i := 0; i < st.NumFields(); i++ {
				if ifc, ok := st.Field(i).Type().Underlying().(*types.Interface); ok && st.Field(i).Name() == "MatchType" {
					sr.matchIface = ifc
				}
			}
		}
	}
	if sr.matchIface != nil {
		scope := P.SSA[pkgCfgV1].Pkg.Scope()
		for _, n := range scope.Names() {
			tn, ok := scope.Lookup(n).(*types.TypeName)
			if !ok {
				continue
			}
			named, ok := tn.Type().(*types.Named)
			if !ok {
				continue
			}
			if _, isS := named.Underlying().(*types.Struct); !isS {
				continue
			}
			if types.Implements(types.NewPointer(named), sr.matchIface) {
				sr.matchKinds = append(sr.matchKinds, named)
			}
		}
	} else {
		missing = append(missing, "StringMatch oneof interface")
	}
	isKind := func(t types.Type) bool {
		for _, k := range sr.matchKinds {
			if types.Identical(derefType(t), k) {
				return true
			}
		}
		return false
	}
	var sms []*ssa.Function
	for _, fn := range P.Funcs {
		if pkgPathOf(fn) != pkgServer {
			continue
		}
		for _, b := range fn.Blocks {
			for _, ins := range b.Instrs {
				if ta, ok := ins.(*ssa.TypeAssert); ok && isKind(ta.AssertedType) {
					if len(sms) == 0 || sms[len(sms)-1] != fn {
						sms = append(sms, fn)
					}
				}
			}
		}
	}
	if len(sms) == 1 {
		sr.StringMatcher = sms[0]
	} else {
		missing = append(missing, fmt.Sprintf("StringMatcher(%d candidates)", len(sms)))
		return sr, missing
	}
	callersIn := func(target *ssa.Function) []*ssa.Function {
		seen := map[*ssa.Function]bool{}
		var out []*ssa.Function
		for _, c := range P.CallersOf(target) {
			if !seen[c.Parent()] {
				seen[c.Parent()] = true
				out = append(out, c.Parent())
			}
		}
		return out
	}
	// the rule matcher takes one trigger rule, the decision takes the list of rules; both reach the string
	// matcher (possibly through a helper). When the parameter types do not single them out, fall back to
	// the chain of unique callers.
	hasParam := func(fn *ssa.Function, pred func(types.Type) bool) bool {
		for _, p := range fn.Params {
			if pred(p.Type()) {
				return true
			}
		}
		return false
	}
	isRule := func(t types.Type) bool { return typeID(t) == pkgCfgV1+".TriggerRule" }
	isRuleList := func(t types.Type) bool {
		sl, ok := t.Underlying().(*types.Slice)
		return ok && typeID(sl.Elem()) == pkgCfgV1+".TriggerRule"
	}
	reaches := func(fn, target *ssa.Function) bool {
		for _, g := range deepFuncs(fn, 3) {
			if g == target {
				return true
			}
		}
		return false
	}
	var rms, tds []*ssa.Function
	for _, fn := range P.Funcs {
		if pkgPathOf(fn) != pkgServer || fn.Parent() != nil || fn == sr.StringMatcher {
			continue
		}
		if hasParam(fn, isRule) && reaches(fn, sr.StringMatcher) {
			rms = append(rms, fn)
		}
	}
	if len(rms) == 1 {
		sr.RuleMatcher = rms[0]
	} else if cs := callersIn(sr.StringMatcher); len(cs) == 1 {
		sr.RuleMatcher = cs[0]
	} else {
		missing = append(missing, fmt.Sprintf("RuleMatcher(%d candidates)", len(cs)))
		return sr, missing
	}
	for _, fn := range P.Funcs {
		if pkgPathOf(fn) != pkgServer || fn.Parent() != nil || fn == sr.RuleMatcher {
			continue
		}
		if hasParam(fn, isRuleList) && reaches(fn, sr.RuleMatcher) {
			tds = append(tds, fn)
		}
	}
	if len(tds) == 1 {
		sr.Trigger = tds[0]
	} else if cs := callersIn(sr.RuleMatcher); len(cs) == 1 {
		sr.Trigger = cs[0]
	} else {
		missing = append(missing, fmt.Sprintf("TriggerDecision(%d candidates)", len(cs)))
	}
	P.MarkAnchor(sr.StringMatcher, sr.RuleMatcher, sr.Trigger)
	return sr, missing
}

// returnsReachable collects the Return instructions reachable from block b without executing an
// instruction satisfying barrier.
func returnsReachable(b *ssa.BasicBlock, barrier func(ssa.Instruction) bool) []*ssa.Return {
	seen := map[*ssa.BasicBlock]bool{}
	var out []*ssa.Return
	var walk func(b *ssa.BasicBlock)
	walk = func(b *ssa.BasicBlock) {
		if seen[b] {
			return
		}
		seen[b] = true
		for _, ins := range b.Instrs {
			if barrier != nil && barrier(ins) {
				return
			}
			if r, ok := ins.(*ssa.Return); ok {
				out = append(out, r)
				return
			}
		}
		for _, s := range b.Succs {
			walk(s)
		}
	}
	walk(b)
	return out
}

// edgeOutcome: for the If that tests boolean value v (possibly negated), return the successor taken
// when v is true.
func trueSuccessors(v ssa.Value) []*ssa.BasicBlock {
	var out []*ssa.BasicBlock
	var visit func(x ssa.Value, neg bool)
	visit = func(x ssa.Value, neg bool) {
		rs := x.Referrers()
		if rs == nil {
			return
		}
		for _, r := range *rs {
			switch y := r.(type) {
			case *ssa.If:
				if neg {
					out = append(out, y.Block().Succs[1])
				} else {
					out = append(out, y.Block().Succs[0])
				}
			case *ssa.BinOp:
				// comparison of the boolean with a constant: x == false, x != true, ...
				if y.Op == token.EQL || y.Op == token.NEQ {
					other := y.Y
					if y.Y == x {
						other = y.X
					}
					if b, isC := constBool(other); isC {
						flip := (y.Op == token.EQL) != b
						visit(y, neg != flip)
					}
				}
			case *ssa.UnOp:
				if y.Op == token.NOT {
					visit(y, !neg)
				}
			}
		}
	}
	visit(v, false)
	return out
}

func allConstBool(rs []*ssa.Return, want bool) bool {
	if len(rs) == 0 {
		return false
	}
	for _, r := range rs {
		b, ok := constBool(r.Results[0])
		if !ok || b != want {
			return false
		}
	}
	return true
}

func checkC07(c *Check) {
	P := c.P
	c.Assumes("Envoy's AttributeContext.HttpRequest.path carries the full request target (path?query#fragment) and `query` is empty")
	c.Rule("C07.R1", "path-only data flow: every string handed to the pattern matcher, and the string whose emptiness short-circuits the decision, originates (interprocedurally) in result #0 of the path/query/fragment splitter applied to the request's GetPath(); no flow from the raw target or the query reaches a matcher.", 2)
	c.Rule("C07.R2", "splitter shape: result #0 of the splitter is, on every path, a prefix of its input that ends at a '?' found by strings.Index before any '#', else at the first '#', else the whole input — each slice bound used only under `index != -1`.", 3)
	c.Rule("C07.R3", "decision shape: no rules or an empty path trigger; a matching rule triggers; otherwise not. In the rule matcher an excluded-pattern match leads only to `false`, no `true` is reachable before the excluded list has been exhausted, an empty included list yields `true`, an included match yields `true`, exhaustion of the included list yields `false`.", 7)
	c.Rule("C07.R4", "matcher exhaustiveness and argument order: the type switch has an arm for every implementer of the generated oneof StringMatch.match_type, and each arm applies the operator of its kind with the request path as the subject (m.Exact == path, HasPrefix(path, m.Prefix), HasSuffix(path, m.Suffix), MatchString(m.Regex, path)).", 4)

	sr, missing := getServerRoles(P)
	if len(missing) > 0 {
		for _, m := range missing {
			c.Anchor("C07.R1", m, false)
		}
		return
	}
	c07R1(c, sr)
	c07R2(c)
	c07R3(c, sr)
	c07R4(c, sr)
	requestIsReadOnly(c, "C07.R1")
	// the rules that are evaluated are the configured ones: nothing rewrites them after loading
	configFieldsNotWritten(c, "C07.R3", "rules-as-configured", map[string]bool{
		pkgCfgV1 + ".Config.TriggerRules": true, pkgCfgV1 + ".TriggerRule.ExcludedPaths": true, pkgCfgV1 + ".TriggerRule.IncludedPaths": true,
		pkgCfgV1 + ".StringMatch.MatchType": true, pkgCfgV1 + ".StringMatch_Exact.Exact": true, pkgCfgV1 + ".StringMatch_Prefix.Prefix": true,
		pkgCfgV1 + ".StringMatch_Suffix.Suffix": true, pkgCfgV1 + ".StringMatch_Regex.Regex": true,
	}, "the trigger rules that decide are no longer the configured ones (rules are OR-ed: dropping an empty rule, which triggers for every path, opens every excluded path)")
}

func pathParamOf(fn *ssa.Function) *ssa.Parameter {
	var p *ssa.Parameter
	for _, q := range fn.Params {
		if isString(q.Type()) {
			p = q
		}
	}
	return p
}

func isSplitPathResult(v ssa.Value) (bool, *ssa.Call) {
	call, idx, ok := asCall(v)
	if ok && idx == 0 && isCallTo(call, fSplit) {
		return true, call
	}
	return false, nil
}

func c07R1(c *Check, sr *serverRoles) {
	P := c.P
	check := func(key string, where token.Pos, v ssa.Value) {
		origins := interOrigins(P, v, leafOpts{}, 4)
		if len(origins) == 0 {
			c.Fail("C07.R1", key, P.Pos(where), "no origin found for the matched string")
			return
		}
		for _, o := range origins {
			ok, split := isSplitPathResult(o)
			if !ok {
				c.Fail("C07.R1", key, P.Pos(where), "the matched string can originate in "+descDepth(o, 3)+", which is not the path component produced by the splitter (a query or fragment can influence the decision)")
				return
			}
			// the splitter input is the request path
			in := split.Common().Args[0]
			okIn := false
			for _, l := range interOrigins(P, in, leafOpts{}, 3) {
				if call, _, isC := asCall(l); isC && isCallTo(call, pkgEnvoyAuth+".AttributeContext_HttpRequest.GetPath") {
					okIn = true
				} else {
					okIn = false
					break
				}
			}
			if !okIn {
				c.Fail("C07.R1", key, P.Pos(where), "the splitter is not applied to the request's GetPath()")
				return
			}
		}
		c.Pass("C07.R1", key, P.Pos(where), "origin: result #0 of GetPathQueryFragment(request.GetPath())")
	}
	// every call of the string matcher
	for _, site := range P.CallersOf(sr.StringMatcher) {
		// path argument = the string-typed argument that is not a pattern (last string param)
		pp := pathParamOf(sr.StringMatcher)
		idx := -1
		for i, q := range sr.StringMatcher.Params {
			if q == pp {
				idx = i
			}
		}
		if idx < 0 {
			c.Anchor("C07.R1", "path parameter of the string matcher", false)
			return
		}
		check("matcher-input/"+nthCallKey(site), site.Pos(), site.Common().Args[idx])
	}
	// emptiness test in the trigger decision: len(x) == 0 on a string
	n := 0
	for _, b := range sr.Trigger.Blocks {
		for _, ins := range b.Instrs {
			call, ok := ins.(*ssa.Call)
			if !ok {
				continue
			}
			bi, isB := call.Call.Value.(*ssa.Builtin)
			if !isB || bi.Name() != "len" || !isString(call.Call.Args[0].Type()) {
				continue
			}
			n++
			check(fmt.Sprintf("empty-path-test#%d", n), call.Pos(), call.Call.Args[0])
		}
	}
	// `path == ""` forms
	for _, b := range sr.Trigger.Blocks {
		for _, ins := range b.Instrs {
			bo, ok := ins.(*ssa.BinOp)
			if !ok || (bo.Op != token.EQL && bo.Op != token.NEQ) || !isString(bo.X.Type()) {
				continue
			}
			if s, isC := constString(bo.Y); isC && s == "" {
				n++
				check(fmt.Sprintf("empty-path-test#%d", n), bo.Pos(), bo.X)
			}
		}
	}
}

func c07R2(c *Check) {
	P := c.P
	fn := P.Func(pkgHTTP, "GetPathQueryFragment")
	if !c.Anchor("C07.R2", "path/query/fragment splitter", fn != nil && len(fn.Params) == 1) {
		return
	}
	in := fn.Params[0]
	isIndexOf := func(v ssa.Value, sep string) (*ssa.Call, bool) {
		call, _, ok := asCall(v)
		if !ok || !isCallTo(call, "strings.Index") {
			return nil, false
		}
		s, isC := constString(call.Common().Args[1])
		return call, isC && s == sep
	}
	// index of '#': strings.Index(in, "#")
	hashIdx := func(v ssa.Value) bool {
		call, ok := isIndexOf(v, "#")
		return ok && call.Common().Args[0] == in
	}
	// index of '?': strings.Index(in, "?") or strings.Index(in[:hash], "?")
	interIdx := func(v ssa.Value) bool {
		call, ok := isIndexOf(v, "?")
		if !ok {
			return false
		}
		// the subject is the input, its prefix up to the first '#', or one or the other chosen by a branch
		// (`before := in; if hash != -1 { before = in[:hash] }; strings.Index(before, "?")`)
		okSubj := func(subj ssa.Value) bool {
			subj = resolveCell(stripConv(subj))
			if subj == in {
				return true
			}
			if sl, isS := subj.(*ssa.Slice); isS && sl.X == in && sl.Low == nil && sl.High != nil {
				for _, hl := range Leaves(sl.High, leafOpts{noConcat: true}) {
					if !hashIdx(resolveCell(stripConv(hl))) {
						return false
					}
				}
				return true
			}
			return false
		}
		subj := call.Common().Args[0]
		if okSubj(subj) {
			return true
		}
		if ph, isPhi := resolveCell(stripConv(subj)).(*ssa.Phi); isPhi {
			for _, e := range ph.Edges {
				if !okSubj(e) {
					return false
				}
			}
			return true
		}
		return false
	}
	notMinusOne := func(fs FactSet, v ssa.Value) bool {
		return fs.intFact(v, func(op token.Token, k int64) bool {
			return (op == token.NEQ && k == -1) || (op == token.GTR && k >= -1) || (op == token.GEQ && k >= 0)
		})
	}
	isMinusOne := func(fs FactSet, v ssa.Value) bool {
		return fs.intFact(v, func(op token.Token, k int64) bool { return op == token.EQL && k == -1 })
	}
	n := 0
	for _, r := range returnsOf(fn) {
		for _, alt := range phiAlternatives(fn, r.Results[0], r) {
			n++
			key := fmt.Sprintf("path-result-alt#%d", n)
			where := P.Pos(instrPos(r))
			v := alt.V
			fs := alt.Facts
			// the library form: strings.Cut(strings.Cut(input, "#")#before, "?")#before (or with the separators
			// in the other order) — `before` is the prefix up to the first separator, or the whole string: the
			// composition is the prefix of the input that ends at the first '?' or '#', whichever comes first
			if isCutPrefixOf(v, in, map[string]bool{"?": true, "#": true}) {
				c.Pass("C07.R2", key, where, "path = strings.Cut(strings.Cut(input, sep1).before, sep2).before over both separators: the prefix up to the first '?' or '#'")
				c.Pass("C07.R2", key+"/cut-covers-query", where, "the '?' separator is cut")
				c.Pass("C07.R2", key+"/cut-covers-fragment", where, "the '#' separator is cut")
				continue
			}
			switch x := v.(type) {
			case *ssa.Parameter:
				if x != in {
					c.Fail("C07.R2", key, where, "path result is a different parameter")
					continue
				}
				// whole input: neither '?' nor '#' found
				okQ, okH := false, false
				for cond := range fs {
					if val, _, _, isCmp := cmpWithConstInt(cond); isCmp {
						for _, l := range Leaves(val, leafOpts{}) {
							if interIdx(l) && isMinusOne(fs, val) {
								okQ = true
							}
							if hashIdx(l) && isMinusOne(fs, val) {
								okH = true
							}
						}
					}
				}
				c.Obl(okQ && okH, "C07.R2", key, where, "whole input returned only when neither '?' nor '#' was found",
					"the whole input is returned as the path without the facts index('?') == -1 and index('#') == -1")
			case *ssa.Slice:
				// a prefix of a prefix of the input is a prefix of the input (`p := s; if h != -1 { p = s[:h] }; p[:q]`)
				var prefixOfInput func(v ssa.Value, d int) bool
				prefixOfInput = func(v ssa.Value, d int) bool {
					v = resolveCell(stripConv(v))
					if v == ssa.Value(in) {
						return true
					}
					if d == 0 {
						return false
					}
					switch y := v.(type) {
					case *ssa.Slice:
						return y.Low == nil && prefixOfInput(y.X, d-1)
					case *ssa.Phi:
						for _, e := range y.Edges {
							if !prefixOfInput(e, d-1) {
								return false
							}
						}
						return len(y.Edges) > 0
					}
					return false
				}
				if !prefixOfInput(x.X, 3) || x.Low != nil || x.High == nil {
					c.Fail("C07.R2", key, where, "path result "+descDepth(v, 3)+" is not a prefix slice of the input")
					continue
				}
				h := x.High
				leaves := Leaves(h, leafOpts{})
				allQ, allH := true, true
				for _, l := range leaves {
					if !interIdx(l) {
						allQ = false
					}
					if !hashIdx(l) {
						allH = false
					}
				}
				switch {
				case allQ:
					c.Obl(notMinusOne(fs, h), "C07.R2", key, where, "prefix up to the first '?' (searched before any '#'), used under index != -1",
						"prefix slice at the '?' index is used without the fact index != -1")
				case allH:
					// no '?' before the '#'
					okQ := false
					for cond := range fs {
						if val, _, _, isCmp := cmpWithConstInt(cond); isCmp {
							for _, l := range Leaves(val, leafOpts{}) {
								if interIdx(l) && isMinusOne(fs, val) {
									okQ = true
								}
							}
						}
					}
					c.Obl(notMinusOne(fs, h) && okQ, "C07.R2", key, where, "prefix up to the first '#', used under index('#') != -1 and no '?' before it",
						"prefix slice at the '#' index is used without the facts index('#') != -1 and index('?') == -1")
				default:
					// the bound is chosen by a branch (`end := len(s); if hash != -1 { end = hash }; s[:end]`): each alternative is
					// judged under the facts of the edge that selects it, together with the facts at the return
					okAll, nAlt := true, 0
					for _, ha := range phiAlternatives(fn, h, x) {
						nAlt++
						cfs := unionFacts(fs, ha.Facts)
						hv := resolveCell(stripConv(ha.V))
						isLen := false
						if lc, isC := hv.(*ssa.Call); isC {
							if bi, isB := lc.Call.Value.(*ssa.Builtin); isB && bi.Name() == "len" && len(lc.Call.Args) == 1 && resolveCell(stripConv(lc.Call.Args[0])) == ssa.Value(in) {
								isLen = true
							}
						}
						qMinus := false
						hMinus := false
						for cond := range cfs {
							if val, _, _, isCmp := cmpWithConstInt(cond); isCmp {
								for _, l := range Leaves(val, leafOpts{}) {
									if interIdx(l) && isMinusOne(cfs, val) {
										qMinus = true
									}
									if hashIdx(l) && isMinusOne(cfs, val) {
										hMinus = true
									}
								}
							}
						}
						switch {
						case isLen:
							if !(qMinus && hMinus) {
								okAll = false
							}
						case interIdx(hv):
							if !notMinusOne(cfs, hv) {
								okAll = false
							}
						case hashIdx(hv):
							if !(notMinusOne(cfs, hv) && qMinus) {
								okAll = false
							}
						default:
							okAll = false
						}
					}
					if okAll && nAlt >= 2 {
						for k := 1; k <= nAlt; k++ {
							c.Pass("C07.R2", fmt.Sprintf("%s/end#%d", key, k), where, "prefix whose end is chosen by a branch: this alternative (whole input / '#' index / '?' index) is used under its own facts")
						}
						continue
					}
					var ds []string
					for _, l := range leaves {
						ds = append(ds, descDepth(l, 3))
					}
					sort.Strings(ds)
					c.Fail("C07.R2", key, where, fmt.Sprintf("slice bound of the path result comes from %v, not from strings.Index(input, \"?\"|\"#\")", ds))
				}
			default:
				c.Fail("C07.R2", key, where, "path result "+descDepth(v, 3)+" is neither the input nor a prefix slice of it")
			}
		}
	}
}

func c07R3(c *Check, sr *serverRoles) {
	P := c.P
	// ---- trigger decision
	fn := sr.Trigger
	ff := FactsOf(fn)
	isRuleCall := func(ins ssa.Instruction) bool {
		call, ok := ins.(*ssa.Call)
		return ok && call.Common().StaticCallee() == sr.RuleMatcher
	}
	// (a) rule match ⇒ true
	for _, site := range callsToFn(fn, sr.RuleMatcher) {
		ts := trueSuccessors(site.(*ssa.Call))
		ok := len(ts) > 0
		for _, s := range ts {
			if !returnsAllYield(s, isRuleCall, true) {
				ok = false
			}
		}
		c.Obl(ok, "C07.R3", "rule-match-triggers/"+nthCallKey(site), P.Pos(site.Pos()),
			"a matching rule leads only to `return true`", "a matching rule does not lead only to `return true` (the disjunction over rules is broken)")
	}
	// (a') a non-matching rule does not end the evaluation: from its false edge a Return is reachable
	// only through the head of the loop over the rules
	for _, site := range callsToFn(fn, sr.RuleMatcher) {
		c.Obl(nonMatchContinues(site.(*ssa.Call)), "C07.R3", "rule-nonmatch-continues/"+nthCallKey(site), P.Pos(site.Pos()),
			"a non-matching rule leads back to the loop head (remaining rules are still consulted)",
			"a non-matching rule reaches a return without the remaining rules being consulted (disjunction over rules broken)")
	}
	// (b) short circuits: len(rules) == 0 and empty path
	// emptiness conditions: len(x) == 0 or x == ""; condArg maps each to the tested value
	var lenConds []ssa.Value
	condArg := map[ssa.Value]ssa.Value{}
	for _, b := range fn.Blocks {
		for _, ins := range b.Instrs {
			bo, ok := ins.(*ssa.BinOp)
			if !ok || bo.Op != token.EQL {
				continue
			}
			if v, op, k, isCmp := cmpWithConstInt(bo); isCmp && k == 0 && op == token.EQL {
				if call, isC := v.(*ssa.Call); isC {
					if bi, isB := call.Call.Value.(*ssa.Builtin); isB && bi.Name() == "len" {
						lenConds = append(lenConds, bo)
						condArg[bo] = call.Call.Args[0]
					}
				}
			}
			if s, isC := constString(bo.Y); isC && s == "" && isString(bo.X.Type()) {
				lenConds = append(lenConds, bo)
				condArg[bo] = bo.X
			}
		}
	}
	sawRules, sawPath := false, false
	for _, lc := range lenConds {
		arg := condArg[lc]
		ts := trueSuccessors(lc)
		ok := len(ts) > 0
		for _, s := range ts {
			// the true edge may still evaluate the other operand of `||` first; only Returns count
			rs := returnsReachable(s, isRuleCall)
			if !allConstBool(rs, true) {
				ok = false
			}
		}
		what := "empty path"
		if _, isSlice := arg.Type().Underlying().(*types.Slice); isSlice {
			what = "no rules"
			sawRules = sawRules || ok
		} else {
			sawPath = sawPath || ok
		}
		c.Obl(ok, "C07.R3", "short-circuit/"+what, P.Pos(lc.Pos()), what+" ⇒ `return true` before any rule is evaluated",
			what+" does not lead to `return true` before the rules are evaluated")
	}
	c.Obl(sawRules, "C07.R3", "short-circuit-present/no-rules", P.Pos(fn.Pos()), "len(rules) == 0 short-circuit present", "the `no rules ⇒ triggered` short-circuit is missing")
	c.Obl(sawPath, "C07.R3", "short-circuit-present/empty-path", P.Pos(fn.Pos()), "empty-path short-circuit present", "the `empty path ⇒ triggered` short-circuit is missing")
	// (c) every `return false` knows rules and path non-empty
	for i, r := range returnsOf(fn) {
		if b, isC := constBool(r.Results[0]); isC && !b {
			fs := ff.At(r)
			nz := 0
			for _, lc := range lenConds {
				if v, k := fs.truth(lc); k && !v {
					nz++
				}
			}
			c.Obl(nz >= 2, "C07.R3", fmt.Sprintf("not-triggered-return#%d", i+1), P.Pos(instrPos(r)),
				"`return false` only with rules and a non-empty path", "`return false` is reachable although there are no rules or the path is empty")
			// … and only after every rule was consulted: the return lies behind the exhaustion of the loop that
			// calls the rule matcher (no other early `not triggered`)
			after := false
			for _, site := range callsToFn(fn, sr.RuleMatcher) {
				if head := loopHeadOf(site.Block()); head != nil {
					for _, sx := range head.Succs {
						if !blockReaches(sx, site.Block()) && (sx == r.Block() || sx.Dominates(r.Block())) {
							after = true
						}
					}
				}
			}
			c.Obl(after, "C07.R3", fmt.Sprintf("not-triggered-after-all-rules#%d", i+1), P.Pos(instrPos(r)),
				"`return false` lies behind the exhaustion of the rule loop", "`return false` is reachable before every rule has been consulted: one rule (or a pre-check) vetoes the disjunction over rules")
		}
	}

	// the decision is a function of (rules, path): the trigger functions consult no package-level variable and no
	// sync.Map (a memo of earlier verdicts makes the decision for a path depend on earlier requests)
	nState := 0
	for _, tf := range deepFuncs(fn, 3) {
		if pkgPathOf(tf) != pkgServer {
			continue
		}
		for _, b := range tf.Blocks {
			for _, ins := range b.Instrs {
				for _, op := range ins.Operands(nil) {
					if g, isG := (*op).(*ssa.Global); isG && g.Pkg != nil && isOwnPath(g.Pkg.Pkg.Path()) && !isErrorType(derefType(g.Type())) {
						nState++
						c.Fail("C07.R3", fmt.Sprintf("stateless/%s/%s", fnKey(tf), g.Name()), P.Pos(instrPos(ins)), "the trigger decision reads or writes the package-level variable "+g.Name()+" in "+fnKey(tf)+": the decision for a path can depend on earlier requests")
					}
				}
				if ci, isC := ins.(ssa.CallInstruction); isC && strings.HasPrefix(funcID(calleeOf(ci).Obj), "sync.Map.") {
					nState++
					c.Fail("C07.R3", fmt.Sprintf("stateless/%s/sync.Map#%d", fnKey(tf), nState), P.Pos(ci.Pos()), "the trigger decision uses a sync.Map in "+fnKey(tf)+": the decision for a path can depend on earlier requests")
				}
			}
		}
	}
	if nState == 0 {
		c.Pass("C07.R3", "stateless", P.Pos(fn.Pos()), "the trigger functions consult no package-level state")
	}

	// ---- rule matcher
	rm := sr.RuleMatcher
	isSM := func(ins ssa.Instruction) bool {
		call, ok := ins.(*ssa.Call)
		return ok && call.Common().StaticCallee() == sr.StringMatcher
	}
	listOf := func(site ssa.CallInstruction) string {
		// pattern argument: the *StringMatch one; its origin is an element of Get{Excluded,Included}Paths()
		for _, a := range site.Common().Args {
			if typeID(a.Type()) != pkgCfgV1+".StringMatch" {
				continue
			}
			deps := dataDeps(a)
			ex, in := false, false
			for d := range deps {
				if call, isC := d.(*ssa.Call); isC {
					if isCallTo(call, pkgCfgV1+".TriggerRule.GetExcludedPaths") {
						ex = true
					}
					if isCallTo(call, pkgCfgV1+".TriggerRule.GetIncludedPaths") {
						in = true
					}
				}
				if _, f, ok := fieldLoad(d); ok && f != nil {
					if f.Name() == "ExcludedPaths" {
						ex = true
					}
					if f.Name() == "IncludedPaths" {
						in = true
					}
				}
			}
			switch {
			case ex && !in:
				return "excluded"
			case in && !ex:
				return "included"
			}
		}
		return "?"
	}
	var exclSites []ssa.CallInstruction
	nEx, nIn := 0, 0
	for _, site := range callsToFn(rm, sr.StringMatcher) {
		kind := listOf(site)
		ts := trueSuccessors(site.(*ssa.Call))
		switch kind {
		case "excluded":
			nEx++
			exclSites = append(exclSites, site)
			ok := len(ts) > 0
			for _, s := range ts {
				if !returnsAllYield(s, isSM, false) {
					ok = false
				}
			}
			c.Obl(ok, "C07.R3", "excluded-match-rejects/"+nthCallKey(site), P.Pos(site.Pos()),
				"an excluded-pattern match leads only to `return false`", "an excluded-pattern match does not lead only to `return false`")
		case "included":
			nIn++
			ok := len(ts) > 0
			for _, s := range ts {
				if !returnsAllYield(s, isSM, true) {
					ok = false
				}
			}
			c.Obl(ok, "C07.R3", "included-match-accepts/"+nthCallKey(site), P.Pos(site.Pos()),
				"an included-pattern match leads only to `return true`", "an included-pattern match does not lead only to `return true`")
		}
		switch kind {
		case "excluded", "included":
			c.Obl(nonMatchContinues(site.(*ssa.Call)), "C07.R3", kind+"-nonmatch-continues/"+nthCallKey(site), P.Pos(site.Pos()),
				"a non-matching "+kind+" pattern leads back to the loop head (remaining patterns are still consulted)",
				"a non-matching "+kind+" pattern reaches a return without the remaining patterns being consulted")
		default:
			c.Fail("C07.R3", "pattern-list/"+nthCallKey(site), P.Pos(site.Pos()), "cannot tell whether this matcher call ranges over the excluded or the included patterns")
		}
	}
	c.Obl(nEx >= 1 && nIn >= 1, "C07.R3", "both-lists-evaluated", P.Pos(rm.Pos()), "both pattern lists are evaluated",
		fmt.Sprintf("excluded list evaluated at %d sites, included list at %d sites (each must be evaluated)", nEx, nIn))
	// excluded before any `true`: no `return true` reachable from entry while avoiding the loop head of
	// the excluded loop (the block that decides whether another excluded pattern remains).
	if len(exclSites) > 0 {
		heads := map[*ssa.BasicBlock]bool{}
		for _, s := range exclSites {
			// loop head: the nearest dominator block ending in an If from which the call's block is reachable
			// and which is itself reachable from the call (a loop).
			b := s.Block()
			if d := loopHeadOf(b); d != nil {
				heads[d] = true
			}
		}
		if len(heads) == 0 {
			c.Fail("C07.R3", "excluded-first", P.Pos(rm.Pos()), "the excluded patterns are not evaluated in a loop whose head could be identified")
		} else {
			hit := reachAvoiding(nil, rm.Blocks[0], func(i ssa.Instruction) bool {
				r, ok := i.(*ssa.Return)
				if !ok {
					return false
				}
				b, isC := constBool(r.Results[0])
				return !isC || b
			}, func(i ssa.Instruction) bool { return heads[i.Block()] })
			c.Obl(hit == nil, "C07.R3", "excluded-first", P.Pos(rm.Pos()),
				"no `true` outcome is reachable before the excluded list has been walked",
				"a `true` outcome is reachable without first walking the excluded patterns (excluded-before-included order broken)")
		}
	}
	// empty included list ⇒ true; exhaustion ⇒ false
	okEmpty := false
	for _, b := range rm.Blocks {
		for _, ins := range b.Instrs {
			bo, ok := ins.(*ssa.BinOp)
			if !ok {
				continue
			}
			v, op, k, isCmp := cmpWithConstInt(bo)
			if !isCmp || k != 0 || op != token.EQL {
				continue
			}
			call, isC := v.(*ssa.Call)
			if !isC {
				continue
			}
			if bi, isB := call.Call.Value.(*ssa.Builtin); !isB || bi.Name() != "len" {
				continue
			}
			inc := false
			for d := range dataDeps(call.Call.Args[0]) {
				if cc, isCall := d.(*ssa.Call); isCall && isCallTo(cc, pkgCfgV1+".TriggerRule.GetIncludedPaths") {
					inc = true
				}
				if _, f, okf := fieldLoad(d); okf && f != nil && f.Name() == "IncludedPaths" {
					inc = true
				}
			}
			if !inc {
				continue
			}
			ts := trueSuccessors(bo)
			good := len(ts) > 0
			for _, s := range ts {
				if !returnsAllYield(s, isSM, true) {
					good = false
				}
			}
			okEmpty = okEmpty || good
		}
	}
	c.Obl(okEmpty, "C07.R3", "no-included-accepts", P.Pos(rm.Pos()), "no included patterns ⇒ `return true`",
		"the `no included patterns ⇒ rule matches` case is missing or does not return true")
}

// falseSuccessors: successors taken when boolean v is false.
func falseSuccessors(v ssa.Value) []*ssa.BasicBlock {
	var out []*ssa.BasicBlock
	var visit func(x ssa.Value, neg bool)
	visit = func(x ssa.Value, neg bool) {
		rs := x.Referrers()
		if rs == nil {
			return
		}
		for _, r := range *rs {
			switch y := r.(type) {
			case *ssa.If:
				if neg {
					out = append(out, y.Block().Succs[0])
				} else {
					out = append(out, y.Block().Succs[1])
				}
			case *ssa.BinOp:
				// comparison of the boolean with a constant: x == false, x != true, ...
				if y.Op == token.EQL || y.Op == token.NEQ {
					other := y.Y
					if y.Y == x {
						other = y.X
					}
					if b, isC := constBool(other); isC {
						flip := (y.Op == token.EQL) != b
						visit(y, neg != flip)
					}
				}
			case *ssa.UnOp:
				if y.Op == token.NOT {
					visit(y, !neg)
				}
			}
		}
	}
	visit(v, false)
	return out
}

// loopHeadOf: nearest dominating block ending in an If that is reachable again from b (loop head).
func loopHeadOf(b *ssa.BasicBlock) *ssa.BasicBlock {
	for d := b.Idom(); d != nil; d = d.Idom() {
		if _, ok := d.Instrs[len(d.Instrs)-1].(*ssa.If); ok && blockReaches(b, d) {
			// natural loop header: has a back edge from a block it dominates
			for _, p := range d.Preds {
				if d.Dominates(p) {
					return d
				}
			}
		}
	}
	return nil
}

// nonMatchContinues: the call is evaluated in a loop, and from its false edge no Return is reachable
// without passing the loop head.
func nonMatchContinues(site *ssa.Call) bool {
	head := loopHeadOf(site.Block())
	if head == nil {
		return false
	}
	fsucc := falseSuccessors(site)
	if len(fsucc) == 0 {
		return false
	}
	for _, s := range fsucc {
		if s == head {
			continue
		}
		hit := reachAvoiding(nil, s, isReturn, func(i ssa.Instruction) bool { return i.Block() == head })
		if hit != nil {
			return false
		}
	}
	return true
}

func blockReaches(from, to *ssa.BasicBlock) bool {
	seen := map[*ssa.BasicBlock]bool{}
	var walk func(b *ssa.BasicBlock) bool
	walk = func(b *ssa.BasicBlock) bool {
		if b == to {
			return true
		}
		if seen[b] {
			return false
		}
		seen[b] = true
		for _, s := range b.Succs {
			if walk(s) {
				return true
			}
		}
		return false
	}
	for _, s := range from.Succs {
		if walk(s) {
			return true
		}
	}
	return false
}

func callsToFn(fn, callee *ssa.Function) []ssa.CallInstruction {
	var out []ssa.CallInstruction
	for _, c := range allCalls(fn) {
		if c.Common().StaticCallee() == callee {
			out = append(out, c)
		}
	}
	return out
}

func c07R4(c *Check, sr *serverRoles) {
	P := c.P
	fn := sr.StringMatcher
	path := pathParamOf(fn)
	if !c.Anchor("C07.R4", "path parameter of the string matcher", path != nil) {
		return
	}
	type spec struct {
		field  string
		callee string // "" ⇒ ==
		subj   int    // argument position of the request path
	}
	table := map[string]spec{
		"StringMatch_Exact":  {"Exact", "", -1},
		"StringMatch_Prefix": {"Prefix", "strings.HasPrefix", 0},
		"StringMatch_Suffix": {"Suffix", "strings.HasSuffix", 0},
		"StringMatch_Regex":  {"Regex", "regexp.MatchString", 1},
	}
	for _, kind := range sr.matchKinds {
		name := kind.Obj().Name()
		key := "arm/" + name
		sp, known := table[name]
		if !known {
			c.Fail("C07.R4", key, P.Pos(fn.Pos()), "pattern kind "+name+" exists in the generated configuration but has no entry in the matcher table (a new kind needs an arm and a rule)")
			continue
		}
		// find the TypeAssert
		var ta *ssa.TypeAssert
		for _, b := range fn.Blocks {
			for _, ins := range b.Instrs {
				if x, ok := ins.(*ssa.TypeAssert); ok && types.Identical(derefType(x.AssertedType), kind) {
					ta = x
				}
			}
		}
		if ta == nil {
			c.Fail("C07.R4", key, P.Pos(fn.Pos()), "the matcher has no arm for pattern kind "+name+": such patterns never match")
			continue
		}
		// the asserted value
		var m ssa.Value = ta
		if ta.CommaOk {
			m = nil
			if rs := ta.Referrers(); rs != nil {
				for _, r := range *rs {
					if e, ok := r.(*ssa.Extract); ok && e.Index == 0 {
						m = e
					}
				}
			}
		}
		if m == nil {
			c.Fail("C07.R4", key, P.Pos(ta.Pos()), "asserted value unused")
			continue
		}
		isField := func(v ssa.Value) bool {
			base, f, ok := fieldLoad(stripConv(v))
			if ok && f != nil && f.Name() == sp.field && base == m {
				return true
			}
			if call, _, isC := asCall(v); isC && call.Common().StaticCallee() != nil &&
				call.Common().StaticCallee().Name() == "Get"+sp.field && len(call.Common().Args) == 1 && call.Common().Args[0] == m {
				return true
			}
			return false
		}
		ok := false
		var opVal ssa.Value
		why := "no use of the pattern with the operator of its kind and the request path as subject was found"
		for _, b := range fn.Blocks {
			for _, ins := range b.Instrs {
				switch x := ins.(type) {
				case *ssa.BinOp:
					if sp.callee == "" && x.Op == token.EQL {
						if (isField(x.X) && x.Y == path) || (isField(x.Y) && x.X == path) {
							ok, why = true, "m."+sp.field+" == path"
							opVal = x
						}
					}
				case *ssa.Call:
					if sp.callee != "" && isCallTo(x, sp.callee) {
						args := x.Common().Args
						if len(args) == 2 && args[sp.subj] == path && isField(args[1-sp.subj]) {
							ok, why = true, shortID(sp.callee)+" with the request path as subject and m."+sp.field+" as pattern"
							opVal = x
						} else if len(args) == 2 && (isField(args[0]) || isField(args[1])) {
							why = shortID(sp.callee) + " is applied with its arguments in the wrong roles (pattern and subject swapped?)"
						}
					}
				}
			}
		}
		if ok && ta.CommaOk {
			// the arm returns the operator's verdict
			var okv ssa.Value
			if rs := ta.Referrers(); rs != nil {
				for _, r := range *rs {
					if e, isE := r.(*ssa.Extract); isE && e.Index == 1 {
						okv = e
					}
				}
			}
			if okv != nil {
				for _, arm := range trueSuccessors(okv) {
					for _, r := range returnsReachable(arm, func(i ssa.Instruction) bool { _, isTA := i.(*ssa.TypeAssert); return isTA }) {
						res := resolveCell(stripConv(r.Results[0]))
						if call, idx, isC := asCall(res); isC && idx == 0 {
							res = call
						}
						if res != opVal {
							ok = false
							why = "the arm does not return the verdict of " + why + " (returns " + descDepth(r.Results[0], 2) + ")"
						}
					}
				}
			}
		}
		c.Obl(ok, "C07.R4", key, P.Pos(ta.Pos()), why, "arm "+name+": "+why)
	}
}

// isCutPrefixOf: v is the `before` result of a chain of strings.Cut calls that starts at the input and
// uses every separator of want exactly once.
func isCutPrefixOf(v ssa.Value, in ssa.Value, want map[string]bool) bool {
	left := map[string]bool{}
	for k := range want {
		left[k] = true
	}
	cur := resolveCell(stripConv(v))
	for i := 0; i < 4; i++ {
		ex, ok := cur.(*ssa.Extract)
		if !ok || ex.Index != 0 {
			return false
		}
		call, ok := ex.Tuple.(*ssa.Call)
		if !ok || !isCallTo(call, "strings.Cut") {
			return false
		}
		sep, isC := constString(call.Common().Args[1])
		if !isC || !left[sep] {
			return false
		}
		delete(left, sep)
		cur = resolveCell(stripConv(call.Common().Args[0]))
		if cur == in {
			return len(left) == 0
		}
	}
	return false
}

// returnsAllYield: every return reachable from block b (not crossing barrier) yields the boolean `want` —
// as a constant, or as a boolean phi whose value on the path taken is `want` (`found = true; break` …
// `return found`). Path-sensitive in the same way as reachAvoiding: only constant-valued phi edges are
// followed, so this can only accept more than the constant-only test on paths that are really taken.
func returnsAllYield(b *ssa.BasicBlock, barrier func(ssa.Instruction) bool, want bool) bool {
	type key struct {
		b   *ssa.BasicBlock
		env string
	}
	seen := map[key]bool{}
	n := 0
	ok := true
	states := 0
	var walk func(b *ssa.BasicBlock, env map[*ssa.Phi]bool)
	walk = func(b *ssa.BasicBlock, env map[*ssa.Phi]bool) {
		if !ok {
			return
		}
		var parts []string
		for p, v := range env {
			parts = append(parts, fmt.Sprintf("%p=%v", p, v))
		}
		sort.Strings(parts)
		k := key{b, strings.Join(parts, ",")}
		if seen[k] {
			return
		}
		seen[k] = true
		states++
		if states > 4000 {
			ok = false
			return
		}
		for _, ins := range b.Instrs {
			if barrier != nil && barrier(ins) {
				return
			}
			if r, isR := ins.(*ssa.Return); isR {
				n++
				v := r.Results[0]
				if cv, isC := constBool(v); isC {
					if cv != want {
						ok = false
					}
					return
				}
				inner, neg := unwrapBool(v)
				if ph, isPhi := inner.(*ssa.Phi); isPhi {
					if pv, known := env[ph]; known && (pv != neg) == want {
						return
					}
				}
				ok = false
				return
			}
		}
		succs := b.Succs
		if len(succs) == 2 && len(b.Instrs) > 0 {
			if iff, isIf := b.Instrs[len(b.Instrs)-1].(*ssa.If); isIf {
				inner, neg := unwrapBool(iff.Cond)
				if ph, isPhi := inner.(*ssa.Phi); isPhi {
					if v, known := env[ph]; known {
						if v != neg {
							succs = succs[:1]
						} else {
							succs = succs[1:]
						}
					}
				}
			}
		}
		for _, s := range succs {
			next := map[*ssa.Phi]bool{}
			for p, v := range env {
				next[p] = v
			}
			for _, ins := range s.Instrs {
				ph, isPhi := ins.(*ssa.Phi)
				if !isPhi {
					break
				}
				if !isBool(ph.Type()) {
					continue
				}
				delete(next, ph)
				for i, pb := range s.Preds {
					if pb != b || i >= len(ph.Edges) {
						continue
					}
					if cv, isC := constBool(ph.Edges[i]); isC {
						next[ph] = cv
					} else if q, isQ := ph.Edges[i].(*ssa.Phi); isQ {
						if qv, has := env[q]; has {
							next[ph] = qv
						}
					}
					break
				}
			}
			if len(next) > 6 {
				next = map[*ssa.Phi]bool{}
			}
			walk(s, next)
		}
	}
	walk(b, map[*ssa.Phi]bool{})
	return ok && n > 0
}
