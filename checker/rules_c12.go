package main

import (
	"fmt"
	"go/token"
	"go/types"
	"reflect"
	"sort"
	"strings"

	"golang.org/x/tools/go/ssa"
)

func init() { registry["C12"] = checkC12 }

func sortedKeys(m map[string]bool) []string {
	var o []string
	for k := range m {
		o = append(o, k)
	}
	sort.Strings(o)
	return o
}

func sameSet(a, b map[string]bool) bool {
	if len(a) != len(b) {
		return false
	}
	for k := range a {
		if !b[k] {
			return false
		}
	}
	return true
}

// redisTags: `redis:"name"` tags of a struct type.
func redisTags(n *types.Named) map[string]string {
	out := map[string]string{}
	st, ok := n.Underlying().(*types.Struct)
	if !ok {
		return out
	}
	for i := 0; i < st.NumFields(); i++ {
		tag := reflect.StructTag(st.Tag(i)).Get("redis")
		if tag != "" {
			out[st.Field(i).Name()] = tag
		}
	}
	return out
}

// globalStringSlice reads a package-level []string initialised with a literal in the package init.
func globalStringSlice(P *Program, pkg, name string) (map[string]bool, bool) {
	g := P.SSA[pkg].Var(name)
	init := P.SSA[pkg].Func("init")
	if g == nil || init == nil {
		return nil, false
	}
	for _, b := range init.Blocks {
		for _, ins := range b.Instrs {
			st, ok := ins.(*ssa.Store)
			if !ok || st.Addr != ssa.Value(g) {
				continue
			}
			elems, isLit := sliceLitElems(st.Val)
			if !isLit {
				return nil, false
			}
			out := map[string]bool{}
			for _, e := range elems {
				s, isC := constString(e)
				if !isC {
					return nil, false
				}
				out[s] = true
			}
			return out, true
		}
	}
	return nil, false
}

// constStringsIn: constant strings among the (variadic-expanded) arguments of a call from position i.
func constStringArgs(ci ssa.CallInstruction, from int) []string {
	var out []string
	args := callArgs(ci)
	for i := from; i < len(args); i++ {
		a := args[i]
		if s, ok := constString(a); ok {
			out = append(out, s)
			continue
		}
		if elems, isLit := sliceLitElems(a); isLit {
			for _, e := range elems {
				if s, ok := constString(e); ok {
					out = append(out, s)
				} else if tab, isT := tableFieldConsts(e); isT {
					out = append(out, tab...)
				}
			}
		}
	}
	return out
}

func checkC12(c *Check) {
	P := c.P
	c.Assumes("equivalence with an abstract map over all operation sequences and linearizability are not decided; the rules below are necessary conditions of them. miniredis/Redis command semantics (HSET/HDEL/HMGET/DEL) are assumed as documented")
	c.Rule("C12.R1", "memory atomicity: every read or write of the sessions map and of any session field on a non-fresh session happens with the store mutex held (closures run by the locked setter included); no store method returns holding the mutex without a deferred unlock and none blocks while holding it.", 12)
	c.Rule("C12.R2", "Redis field tables agree: fields written by SetTokenResponse ∪ {time_added} = tokenResponseKeys = tags of the token scan struct; fields written by SetAuthorizationState ∪ {time_added} = authorizationStateKeys = tags of the state scan struct; every optional token field is either HSET or queued for HDEL (no stale member survives an overwrite); ClearAuthorizationState deletes ≥ 1 member the state reader requires and no token member; RemoveSession deletes the whole key; the scan structs are copied field by field into the API types.", 10)
	c.Rule("C12.R3", "no replica-local state: no field of the Redis store is written outside its constructor and its methods write no package-level variable — any replica attached to the same Redis serves any session.", 2)
	c.Rule("C12.R4", "ids do not interfere: in both stores the key of every backend access is exactly the method's session-id parameter (sweeps range over the map's own keys).", 12)
	c.Rule("C12.R6", "sessions disappear only by RemoveSession or by expiry: every delete from the memory store's session map is RemoveSession's or is guarded by the expiry predicate alone — otherwise a later write would re-create the session with a new creation time.", 4)
	c.Rule("C12.R7", "a write counts as a use in both stores: every successful Redis operation (writes included) re-arms the key expiry through the TTL refresher from created+absolute / now+idle, as the memory store stamps `accessed` on every operation (the rules of C10.R3).", 9)
	c.Rule("C12.R5", "creation time is write-once (first write fixes it): as C10.R2.", 2)
	sr, missing := getStoreRoles(P)
	if len(missing) > 0 {
		for _, m := range missing {
			c.Anchor("C12.R1", m, false)
		}
		return
	}

	// ---- R1 (lockset restricted to the memory store)
	var roots []*ssa.Function
	for _, fn := range sr.memMethods {
		if fn.Parent() == nil && fn.Object() != nil && fn.Object().Exported() {
			roots = append(roots, fn)
		}
	}
	var all []*ssa.Function
	seen := map[*ssa.Function]bool{}
	for _, r := range roots {
		for _, f := range P.reachableOwn(r) {
			if !seen[f] && pkgPathOf(f) == pkgOIDC {
				seen[f] = true
				all = append(all, f)
			}
		}
	}
	la := NewLockAnalysis(P, all, roots)
	memID := shortID(typeID(sr.Mem))
	sessID := ""
	if sr.SessionType != nil {
		sessID = shortID(typeID(sr.SessionType))
	}
	mu := ""
	if st, ok := sr.Mem.Underlying().(*types.Struct); ok {
		for i := 0; i < st.NumFields(); i++ {
			if tid := typeID(st.Field(i).Type()); tid == "sync.Mutex" || tid == "sync.RWMutex" {
				mu = memID + "." + st.Field(i).Name()
			}
		}
	}
	if !c.Anchor("C12.R1", "mutex field of the memory store", mu != "") {
		return
	}
	nAcc := 0
	for _, fn := range all {
		if recvNamed(fn) != sr.Mem && (fn.Parent() == nil || recvNamed(fn.Parent()) != sr.Mem) {
			// helpers such as newSession operate on fresh objects; still scanned below via freshness
		}
		for _, b := range fn.Blocks {
			for _, ins := range b.Instrs {
				var class string
				var base ssa.Value
				write := false
				switch x := ins.(type) {
				case *ssa.Store:
					class, base = classOfAddr(x.Addr)
					write = true
				case *ssa.UnOp:
					if x.Op == token.MUL {
						class, base = classOfAddr(x.X)
					}
				case *ssa.MapUpdate:
					class, base = classOfMap(x.Map)
					write = true
				case *ssa.Lookup:
					class, base = classOfMap(x.X)
				case *ssa.Range:
					class, base = classOfMap(x.X)
				case *ssa.Call:
					if bi, ok := x.Call.Value.(*ssa.Builtin); ok && bi.Name() == "delete" {
						class, base = classOfMap(x.Call.Args[0])
						write = true
					}
				}
				if class == "" {
					continue
				}
				isSessions := strings.HasPrefix(class, memID+".sessions")
				isSessField := sessID != "" && strings.HasPrefix(class, sessID+".")
				if !isSessions && !isSessField {
					continue
				}
				if class == memID+".sessions" && !write {
					// loading the map header itself (to index it) is covered by the element access
				}
				if base != nil && isFresh(P, base, 2) {
					continue
				}
				nAcc++
				held := lockFor(la.At(ins), write)[mu]
				kind := "read"
				if write {
					kind = "write"
				}
				c.Obl(held, "C12.R1", fmt.Sprintf("locked/%s/%s/%s", fnKey(fn), class, kind), P.Pos(instrPos(ins)),
					kind+" of "+class+" under "+mu, kind+" of "+class+" in "+fnKey(fn)+" without holding "+mu+": a single store operation is no longer atomic")
			}
		}
	}
	// the time an operation stamps into a session (created, last used) is read inside the critical section: a clock
	// value taken before the lock can be older than the stamp of an operation that completed in between, last-used moves
	// backwards and the session idles out early
	nStamp := 0
	for _, fn := range all {
		for _, b := range fn.Blocks {
			for _, ins := range b.Instrs {
				st, ok := ins.(*ssa.Store)
				if !ok {
					continue
				}
				fa, isF := st.Addr.(*ssa.FieldAddr)
				if !isF || sr.SessionType == nil || !types.Identical(derefType(fa.X.Type()), sr.SessionType) {
					continue
				}
				f := fieldOf(fa.X.Type(), fa.Field)
				if f == nil || (f.Name() != "accessed" && f.Name() != "added") {
					continue
				}
				for _, l := range LeavesInl(st.Val, leafOpts{noConcat: true}, 2, func(f *ssa.Function) bool { return pkgPathOf(f) != pkgOIDC || recvNamed(f) != sr.Mem }) {
					nc, _, isC := asCall(resolveCell(stripConv(l)))
					if !isC || !isCallTo(nc, pkgOIDC+".Clock.Now") {
						continue
					}
					if !la.fns[nc.Parent()] {
						continue
					}
					nStamp++
					held := lockFor(la.At(nc), false)[mu]
					c.Obl(held, "C12.R1", "stamp-clock-read-under-lock/"+fnKey(nc.Parent())+"/"+f.Name(), P.Pos(nc.Pos()), "the clock value stamped into the session is read under "+mu,
						"the clock value that "+fnKey(fn)+" stamps into session."+f.Name()+" is read in "+fnKey(nc.Parent())+" without holding "+mu+": an operation that completes in between leaves a later stamp, which this one then overwrites with an older time")
				}
			}
		}
	}
	c.Obl(nStamp >= 2, "C12.R1", "stamp-clock-reads", "-", fmt.Sprintf("%d clock reads feed session stamps", nStamp), "no clock read feeding a session stamp found (anchor lost)")
	c.Obl(nAcc >= 12, "C12.R1", "locked/count", "-", fmt.Sprintf("%d accesses to the session map and session fields", nAcc), fmt.Sprintf("only %d accesses found (floor 12)", nAcc))
	for _, fn := range all {
		for _, b := range fn.Blocks {
			for _, ins := range b.Instrs {
				held := realLocks(la.At(ins))
				if len(held) == 0 {
					continue
				}
				if r, ok := ins.(*ssa.Return); ok {
					for k := range held {
						if !la.deferred[fn][k] && !la.entry[fn][k] {
							c.Fail("C12.R1", "unlock-missing/"+fnKey(fn), P.Pos(instrPos(r)), "returns while holding "+k+" without a deferred unlock")
						}
					}
				}
				if cc, ok := ins.(*ssa.Call); ok {
					// a call of a store method that takes the same (non-reentrant) mutex itself
					if callee := cc.Common().StaticCallee(); callee != nil && callee.Blocks != nil && recvNamed(callee) == sr.Mem {
						for _, ci2 := range allCalls(callee) {
							if c2, isC := ci2.(*ssa.Call); isC {
								if k2, op2 := mutexKey(c2); k2 != "" && (op2 == "lock" || op2 == "rlock") && held[k2] {
									c.Fail("C12.R1", "relock/"+fnKey(fn)+"/"+callee.Name(), P.Pos(cc.Pos()), "calls "+fnKey(callee)+", which locks "+k2+", while already holding it (self-deadlock: the check never returns and every later check blocks)")
								}
							}
						}
					}
					if k, op := mutexKey(cc); k != "" && op == "lock" && held[k] {
						c.Fail("C12.R1", "relock/"+fnKey(fn), P.Pos(cc.Pos()), "locks "+k+" while already holding it (self-deadlock)")
					}
				}
			}
		}
	}

	// ---- R2
	written := func(fnName string) (hset map[string]bool, hsetnx map[string]bool, hdel map[string]bool, queued map[string]bool, fn *ssa.Function) {
		hset, hsetnx, hdel, queued = map[string]bool{}, map[string]bool{}, map[string]bool{}, map[string]bool{}
		for _, m := range sr.redisMethods {
			if m.Name() == fnName && m.Parent() == nil {
				fn = m
			}
		}
		if fn == nil {
			return
		}
		for _, ci := range deepCalls(fn, 2) {
			if ci.Parent() != fn && (ci.Parent() == sr.RefreshExp || recvNamed(ci.Parent()) != sr.Redis) {
				continue // only shared helper methods of the store are looked through, not the TTL refresher
			}
			ce := calleeOf(ci)
			if ce.Obj == nil || ce.Obj.Pkg() == nil || ce.Obj.Pkg().Path() != "github.com/redis/go-redis/v9" {
				if cc, ok := ci.(*ssa.Call); ok {
					if bi, isB := cc.Call.Value.(*ssa.Builtin); isB && bi.Name() == "append" {
						for _, a := range cc.Call.Args[1:] {
							if elems, isLit := sliceLitElems(a); isLit {
								for _, e := range elems {
									if s, isC := constString(e); isC {
										queued[s] = true
									} else if tab, isT := tableFieldConsts(e); isT {
										for _, k := range tab {
											queued[k] = true
										}
									}
								}
							}
						}
					}
				}
				continue
			}
			switch ce.Obj.Name() {
			case "HSet":
				ks := constStringArgs(ci, 2)
				if len(ks) > 0 {
					hset[ks[0]] = true
				}
				// key taken from a table of constants: any of them
				if args := callArgs(ci); len(args) > 2 {
					if elems, isLit := sliceLitElems(args[2]); isLit && len(elems) > 0 {
						if tab, isT := tableFieldConsts(elems[0]); isT {
							for _, k := range tab {
								hset[k] = true
							}
						}
					}
				}
			case "HMSet", "HSetMap":
				for _, a := range callArgs(ci)[2:] {
					tab, _, ok := constKeyTable(a)
					if !ok {
						if elems, isLit := sliceLitElems(a); isLit && len(elems) == 1 {
							tab, _, ok = constKeyTable(elems[0])
						}
					}
					for k := range tab {
						hset[k] = true
					}
				}
			case "HSetNX":
				ks := constStringArgs(ci, 2)
				if len(ks) > 0 {
					hsetnx[ks[0]] = true
				}
			case "HDel":
				for _, k := range constStringArgs(ci, 2) {
					hdel[k] = true
				}
			}
		}
		return
	}
	tokKeys, ok1 := globalStringSlice(P, pkgOIDC, "tokenResponseKeys")
	stKeys, ok2 := globalStringSlice(P, pkgOIDC, "authorizationStateKeys")
	tokStruct := P.NamedType(pkgOIDC, "redisToken")
	stStruct := P.NamedType(pkgOIDC, "redisAuthState")
	if !c.Anchor("C12.R2", "reader key tables and scan structs", ok1 && ok2 && tokStruct != nil && stStruct != nil) {
		return
	}
	tagSet := func(n *types.Named) map[string]bool {
		o := map[string]bool{}
		for _, t := range redisTags(n) {
			o[t] = true
		}
		return o
	}
	hs, nx, _, queued, setTok := written("SetTokenResponse")
	wTok := map[string]bool{}
	for k := range hs {
		wTok[k] = true
	}
	for k := range nx {
		wTok[k] = true
	}
	c.Obl(sameSet(wTok, tokKeys) && sameSet(tokKeys, tagSet(tokStruct)), "C12.R2", "tokens/writer=reader=scan", posFn(P, setTok),
		fmt.Sprintf("token fields agree: %v", sortedKeys(tokKeys)),
		fmt.Sprintf("token field tables disagree: written %v, read %v, scanned %v — a member is written but never read back (or vice versa)", sortedKeys(wTok), sortedKeys(tokKeys), sortedKeys(tagSet(tokStruct))))
	// a write that fails half-way leaves no new expiry next to an old token: the access token's expiry member is
	// written after the access token itself (separate HSET sites in that order, or in that order in the table the
	// writer iterates) — the reverse order lets a fault between the two turn an expired token into a fresh-looking one
	if setTok != nil {
		var atSites, expSites []ssa.Instruction
		tableOrderOK, sawTable := true, false
		for _, ci := range allCalls(setTok) {
			ce := calleeOf(ci)
			if ce.Obj == nil || ce.Obj.Pkg() == nil || ce.Obj.Pkg().Path() != "github.com/redis/go-redis/v9" || ce.Obj.Name() != "HSet" {
				continue
			}
			ks := constStringArgs(ci, 2)
			args := callArgs(ci)
			if len(args) > 2 {
				if elems, isLit := sliceLitElems(args[2]); isLit && len(elems) > 0 {
					if _, isK := constString(elems[0]); !isK {
						if tab, isT := tableFieldConsts(elems[0]); isT {
							sawTable = true
							ia, ie := -1, -1
							for i, k := range tab {
								if k == "access_token" {
									ia = i
								}
								if k == "access_token_expiry" {
									ie = i
								}
							}
							if ia >= 0 && ie >= 0 && ie < ia {
								tableOrderOK = false
							}
							continue
						}
					}
				}
			}
			if len(ks) > 0 && ks[0] == "access_token" {
				atSites = append(atSites, ci)
			}
			if len(ks) > 0 && ks[0] == "access_token_expiry" {
				expSites = append(expSites, ci)
			}
		}
		okOrder := tableOrderOK
		for _, e := range expSites {
			// on every path the expiry write is preceded by the token write or by the decision not to write the token
			for _, a := range atSites {
				if reachAvoiding(e, nil, func(i ssa.Instruction) bool { return i == a }, nil) != nil && !dominatesInstr(a, e) {
					okOrder = false
				}
			}
		}
		if len(expSites) > 0 || sawTable {
			c.Obl(okOrder, "C12.R2", "tokens/expiry-after-token", posFn(P, setTok), "the access token is written before its expiry",
				"SetTokenResponse writes access_token_expiry before access_token: a Redis fault between the two leaves the new expiry next to the old, expired access token, which is then served as fresh")
		}
	}
	// optional members: HSET or queued for HDEL
	for k := range hs {
		if k == "id_token" {
			continue
		}
		c.Obl(queued[k], "C12.R2", "tokens/stale-"+k, posFn(P, setTok), "optional member "+k+" is deleted when not written",
			"optional member "+k+" is not queued for HDEL when absent: a stale value from an earlier write survives an overwrite")
	}
	// the HDel really takes the queued keys: an HDel call whose variadic argument is the queue
	hdelQueue := false
	if setTok != nil {
		for _, ci := range redisCalls(setTok, "HDel") {
			for _, a := range callArgs(ci)[2:] {
				if _, isLit := sliceLitElems(a); !isLit {
					hdelQueue = true // a computed slice (the queue)
				}
			}
		}
	}
	c.Obl(hdelQueue, "C12.R2", "tokens/hdel-queue", posFn(P, setTok), "the queued members are passed to HDEL", "the queue of stale members is never passed to HDEL")
	hs2, nx2, _, _, setSt := written("SetAuthorizationState")
	wSt := map[string]bool{}
	for k := range hs2 {
		wSt[k] = true
	}
	for k := range nx2 {
		wSt[k] = true
	}
	c.Obl(sameSet(wSt, stKeys) && sameSet(stKeys, tagSet(stStruct)), "C12.R2", "state/writer=reader=scan", posFn(P, setSt),
		fmt.Sprintf("login-state fields agree: %v", sortedKeys(stKeys)),
		fmt.Sprintf("login-state field tables disagree: written %v, read %v, scanned %v", sortedKeys(wSt), sortedKeys(stKeys), sortedKeys(tagSet(stStruct))))
	c.Obl(nx["time_added"] && nx2["time_added"], "C12.R2", "created-by-both-writers", "-", "both writers record time_added with HSETNX", "a writer no longer records time_added with HSETNX")
	// readers use their tables
	for name, tab := range map[string]string{"GetTokenResponse": "tokenResponseKeys", "GetAuthorizationState": "authorizationStateKeys"} {
		var fn *ssa.Function
		for _, m := range sr.redisMethods {
			if m.Name() == name && m.Parent() == nil {
				fn = m
			}
		}
		okT := false
		if fn != nil {
			g := P.SSA[pkgOIDC].Var(tab)
			for _, ci := range redisCalls(fn, "HMGet") {
				for _, a := range callArgs(ci) {
					if isLoadOfGlobal(resolveCell(stripConv(a)), g) {
						okT = true
					}
				}
			}
		}
		c.Obl(okT, "C12.R2", "reader-uses-table/"+name, posFn(P, fn), name+" reads exactly "+tab, name+" does not read its key table with HMGET")
	}
	// clear
	_, _, del, _, clr := written("ClearAuthorizationState")
	tokenMembers := map[string]bool{"id_token": true, "access_token": true, "access_token_expiry": true, "refresh_token": true, "time_added": true}
	okClr := len(del) >= 1
	whyClr := ""
	for k := range del {
		if tokenMembers[k] {
			okClr, whyClr = false, "deletes token/creation member "+k
		}
		if !stKeys[k] {
			okClr, whyClr = false, "deletes "+k+", which is not a login-state member"
		}
	}
	// required by the reader: GetAuthorizationState returns nil when a member is empty
	c.Obl(okClr, "C12.R2", "clear/members", posFn(P, clr), fmt.Sprintf("clear deletes %v (login-state members only, tokens untouched)", sortedKeys(del)),
		"ClearAuthorizationState: "+whyClr+fmt.Sprintf(" (deletes %v)", sortedKeys(del)))
	var getSt *ssa.Function
	for _, m := range sr.redisMethods {
		if m.Name() == "GetAuthorizationState" && m.Parent() == nil {
			getSt = m
		}
	}
	reqd := map[string]bool{}
	if getSt != nil {
		tags := redisTags(stStruct)
		for _, b := range getSt.Blocks {
			for _, ins := range b.Instrs {
				if bo, ok := ins.(*ssa.BinOp); ok && (bo.Op == token.EQL || bo.Op == token.NEQ) && flowsToBranch(bo) {
					if s, isC := constString(bo.Y); isC && s == "" {
						if _, f, okf := fieldLoad(resolveCell(stripConv(bo.X))); okf && f != nil {
							if t, has := tags[f.Name()]; has {
								reqd[t] = true
							}
						}
					}
				}
			}
		}
	}
	// … required in the sense that counts: the state is handed out (a non-nil first result) only under the fact that the
	// member is not empty. A test that is merely mentioned (`all four empty` instead of `any one empty`) requires nothing.
	if getSt != nil && len(reqd) > 0 {
		tags := redisTags(stStruct)
		loads := map[string][]ssa.Value{}
		for _, b := range getSt.Blocks {
			for _, ins := range b.Instrs {
				if u, isU := ins.(*ssa.UnOp); isU && u.Op == token.MUL {
					if _, f, okf := fieldLoad(u); okf && f != nil {
						if t, has := tags[f.Name()]; has {
							loads[t] = append(loads[t], u)
						}
					}
				}
				if fv, isF := ins.(*ssa.Field); isF {
					if f := fieldOf(fv.X.Type(), fv.Field); f != nil {
						if t, has := tags[f.Name()]; has {
							loads[t] = append(loads[t], fv)
						}
					}
				}
			}
		}
		first := true
		byFact := map[string]bool{}
		for _, r := range returnsOf(getSt) {
			if len(r.Results) == 0 {
				continue
			}
			nonNil := false
			for _, l := range Leaves(r.Results[0], leafOpts{noConcat: true}) {
				if !isNilConst(l) {
					nonNil = true
				}
			}
			if !nonNil {
				continue
			}
			fs := FactsOf(getSt).At(r)
			here := map[string]bool{}
			for t, ls := range loads {
				for _, l := range ls {
					if fs.StrNonEmpty(l) {
						here[t] = true
					}
				}
			}
			if first {
				byFact, first = here, false
			} else {
				for t := range byFact {
					if !here[t] {
						delete(byFact, t)
					}
				}
			}
		}
		if !first {
			for t := range reqd {
				if !byFact[t] {
					delete(reqd, t)
				}
			}
		}
	}
	hit := false
	for k := range del {
		if reqd[k] {
			hit = true
		}
	}
	c.Obl(hit, "C12.R2", "clear/makes-state-absent", posFn(P, clr), fmt.Sprintf("a deleted member is required by the reader (%v): the state reads as absent afterwards", sortedKeys(reqd)),
		"no member deleted by ClearAuthorizationState is required by GetAuthorizationState: the login state would still be readable after a clear")
	// remove
	var rem *ssa.Function
	for _, m := range sr.redisMethods {
		if m.Name() == "RemoveSession" && m.Parent() == nil {
			rem = m
		}
	}
	okRem := false
	if rem != nil {
		for _, ci := range redisCalls(rem, "Del") {
			if a := callArgs(ci); len(a) >= 2 {
				if elems, isLit := sliceLitElems(a[1]); isLit && len(elems) == 1 {
					if p, isP := stripConv(elems[0]).(*ssa.Parameter); isP && isString(p.Type()) {
						okRem = true
					}
				}
			}
		}
	}
	c.Obl(okRem, "C12.R2", "remove/del-key", posFn(P, rem), "RemoveSession = DEL of the session key", "RemoveSession is not DEL of the whole session key")
	// conversions copy every field
	for _, conv := range []struct {
		scan *types.Named
		api  string
		meth string
	}{{tokStruct, idTokenResponse, "TokenResponse"}, {stStruct, idAuthState, "AuthorizationState"}} {
		fn := P.Func(pkgOIDC, "("+conv.scan.Obj().Name()+")."+conv.meth)
		okConv := fn != nil
		missingF := ""
		if fn != nil {
			for _, r := range returnsOf(fn) {
				al, isA := resolveCell(stripConv(r.Results[0])).(*ssa.Alloc)
				if !isA {
					okConv = false
					continue
				}
				fs := structFieldStores(al)
				apiT := al.Type().Underlying().(*types.Pointer).Elem().Underlying().(*types.Struct)
				for i := 0; i < apiT.NumFields(); i++ {
					name := apiT.Field(i).Name()
					vals := fs[name]
					good := false
					for _, v := range vals {
						if _, f, okf := fieldLoad(resolveCell(stripConv(v))); okf && f != nil && f.Name() == name {
							good = true
						}
						if fv, isF := stripConv(v).(*ssa.Field); isF {
							if f := fieldOf(fv.X.Type(), fv.Field); f != nil && f.Name() == name {
								good = true
							}
						}
					}
					if !good {
						okConv = false
						missingF = name
					}
				}
			}
		}
		c.Obl(okConv, "C12.R2", "conversion/"+conv.meth, posFn(P, fn), "every field of the API type is copied from the same-named scan field", "conversion "+conv.meth+" does not copy field "+missingF+" from the scan struct")
	}

	// ---- R3
	redID := typeID(sr.Redis)
	badW := ""
	for _, fn := range P.Funcs {
		for _, b := range fn.Blocks {
			for _, ins := range b.Instrs {
				st, ok := ins.(*ssa.Store)
				if !ok {
					continue
				}
				if fa, isF := st.Addr.(*ssa.FieldAddr); isF && typeID(fa.X.Type()) == redID {
					if _, fresh := fa.X.(*ssa.Alloc); !fresh {
						badW = "field " + fieldAddrID(fa) + " written in " + fnKey(fn)
					}
				}
			}
		}
	}
	c.Obl(badW == "", "C12.R3", "no-field-writes", "-", "Redis store fields are written only on the freshly allocated object in the constructor", "replica-local state: "+badW)
	badG := ""
	for _, fn := range sr.redisMethods {
		for _, b := range fn.Blocks {
			for _, ins := range b.Instrs {
				switch x := ins.(type) {
				case *ssa.Store:
					if _, isG := addrRoot(x.Addr).(*ssa.Global); isG {
						badG = "package variable written in " + fnKey(fn)
					}
				case *ssa.MapUpdate:
					if cl, _ := classOfMap(x.Map); strings.HasPrefix(cl, "global:") {
						badG = "package-level map written in " + fnKey(fn)
					}
				}
			}
		}
	}
	c.Obl(badG == "", "C12.R3", "no-global-writes", "-", "Redis store methods write no package-level variable", "replica-local state: "+badG)

	// ---- R4
	nKey := 0
	sidParam := func(fn *ssa.Function) *ssa.Parameter {
		root := fn
		for root.Parent() != nil {
			root = root.Parent()
		}
		for _, p := range root.Params {
			if isString(p.Type()) {
				return p
			}
		}
		return nil
	}
	for _, fn := range sr.redisMethods {
		sp := sidParam(fn)
		for _, ci := range allCalls(fn) {
			ce := calleeOf(ci)
			if ce.Obj == nil || ce.Obj.Pkg() == nil || ce.Obj.Pkg().Path() != "github.com/redis/go-redis/v9" || !ce.Invoke {
				continue
			}
			switch ce.Obj.Name() {
			case "Ping", "Err", "Result", "Time", "Scan":
				continue
			}
			args := callArgs(ci)
			if len(args) < 2 {
				continue
			}
			nKey++
			k := args[1]
			if elems, isLit := sliceLitElems(k); isLit && len(elems) == 1 {
				k = elems[0]
			}
			c.Obl(sp != nil && resolveCell(stripConv(k)) == ssa.Value(sp), "C12.R4", "redis-key/"+nthCallKey(ci), P.Pos(ci.Pos()),
				ce.Obj.Name()+" keyed by the method's session id", ce.Obj.Name()+" in "+fnKey(fn)+" is keyed by "+descDepth(k, 2)+", not by the method's session-id parameter")
		}
	}
	for _, fn := range all {
		sp := sidParam(fn)
		for _, b := range fn.Blocks {
			for _, ins := range b.Instrs {
				var idx ssa.Value
				var m ssa.Value
				switch x := ins.(type) {
				case *ssa.Lookup:
					idx, m = x.Index, x.X
				case *ssa.MapUpdate:
					idx, m = x.Key, x.Map
				case *ssa.Call:
					if bi, ok := x.Call.Value.(*ssa.Builtin); ok && bi.Name() == "delete" {
						idx, m = x.Call.Args[1], x.Call.Args[0]
					}
				}
				if idx == nil {
					continue
				}
				if cl, _ := classOfMap(m); !strings.HasPrefix(cl, memID+".sessions") {
					continue
				}
				nKey++
				k := resolveCell(stripConv(idx))
				okK := sp != nil && k == ssa.Value(sp)
				if !okK {
					// range key of a sweep over the same map
					if ex, isE := k.(*ssa.Extract); isE {
						if _, isNext := ex.Tuple.(*ssa.Next); isNext {
							okK = true
						}
					}
				}
				if !okK && fn.Parent() != nil {
					// the same sweep written with a callback iterator: the closure's parameter is handed the range key by the
					// (store-owned) helper that walks the map and calls the closure
					if p, isP := k.(*ssa.Parameter); isP && p.Parent() == fn {
						pi := -1
						for i, q := range fn.Params {
							if q == p {
								pi = i
							}
						}
						fromRange := false
						for _, f2 := range all {
							for _, ci := range allCalls(f2) {
								callee := ci.Common().StaticCallee()
								if callee == nil || recvNamed(callee) != sr.Mem {
									continue
								}
								for ai, a := range ci.Common().Args {
									mc, isMC := a.(*ssa.MakeClosure)
									if !isMC || mc.Fn != fn || ai >= len(callee.Params) {
										continue
									}
									cp := callee.Params[ai]
									if cp.Referrers() == nil {
										continue
									}
									for _, r := range *cp.Referrers() {
										inv, isC := r.(ssa.CallInstruction)
										if !isC || inv.Common().Value != ssa.Value(cp) || pi >= len(inv.Common().Args) {
											continue
										}
										if ex, isE := resolveCell(stripConv(inv.Common().Args[pi])).(*ssa.Extract); isE {
											if _, isNext := ex.Tuple.(*ssa.Next); isNext {
												fromRange = true
											}
										}
									}
								}
							}
						}
						okK = fromRange
					}
				}
				c.Obl(okK, "C12.R4", fmt.Sprintf("memory-key/%s#%d", fnKey(fn), nKey), P.Pos(instrPos(ins)), "map access keyed by the method's session id (or the sweep's own range key)",
					"map access in "+fnKey(fn)+" is keyed by "+descDepth(k, 2)+", not by the method's session-id parameter")
			}
		}
	}
	c.Obl(nKey >= 12, "C12.R4", "key-count", "-", fmt.Sprintf("%d keyed backend accesses", nKey), fmt.Sprintf("only %d keyed backend accesses found (floor 12)", nKey))

	// ---- R6: sessions disappear only by RemoveSession or expiry
	nDel := 0
	for _, fn := range all {
		ff := FactsOf(fn)
		for _, b := range fn.Blocks {
			for _, ins := range b.Instrs {
				cc, ok := ins.(*ssa.Call)
				if !ok {
					continue
				}
				bi, isB := cc.Call.Value.(*ssa.Builtin)
				if !isB || bi.Name() != "delete" {
					continue
				}
				if cl, _ := classOfMap(cc.Call.Args[0]); !strings.HasPrefix(cl, memID+".sessions") {
					continue
				}
				nDel++
				root := fn
				for root.Parent() != nil {
					root = root.Parent()
				}
				if root.Name() == "RemoveSession" {
					c.Pass("C12.R6", "delete/"+fnKey(fn), P.Pos(cc.Pos()), "RemoveSession deletes the key it was given")
					continue
				}
				// otherwise: dominated by expiry predicate == true, and by nothing else
				okExp := false
				for cond, pol := range ff.At(cc) {
					inner, neg := unwrapBool(cond)
					if pc, _, isC := asCall(inner); isC && pc.Common().StaticCallee() == sr.Expiry && (pol != neg) {
						okExp = true
					}
				}
				last := ssa.Value(nil)
				if len(cc.Block().Preds) == 1 {
					if iff, isIf := cc.Block().Preds[0].Instrs[len(cc.Block().Preds[0].Instrs)-1].(*ssa.If); isIf {
						last = iff.Cond
					}
				}
				onlyExp := true
				if last != nil {
					inner, _ := unwrapBool(last)
					if pc, _, isC := asCall(inner); !isC || pc.Common().StaticCallee() != sr.Expiry {
						// a phi of `s != nil && expired` is fine; anything that mixes other session properties is not
						if ph, isPhi := inner.(*ssa.Phi); isPhi {
							for _, e := range ph.Edges {
								if _, isK := constBool(e); isK {
									continue
								}
								if pc2, _, isC2 := asCall(e); !isC2 || pc2.Common().StaticCallee() != sr.Expiry {
									onlyExp = false
								}
							}
						} else {
							onlyExp = false
						}
					}
				}
				c.Obl(okExp && onlyExp, "C12.R6", "delete/"+fnKey(fn), P.Pos(cc.Pos()), "a session is dropped only when the expiry predicate says so",
					"a session can be deleted from the map in "+fnKey(fn)+" for a reason other than RemoveSession or the expiry predicate: a later write re-creates it with a new creation time (creation time no longer fixed by the first write)")
			}
		}
	}
	c.Obl(nDel >= 3, "C12.R6", "delete-count", "-", fmt.Sprintf("%d deletes from the session map", nDel), fmt.Sprintf("only %d deletes found (floor 3)", nDel))

	// ---- R7
	refile(c, "C12.R7", func() { c10R3(c, sr) })
	// both stores enforce the limits they were constructed with: each constructor stores each parameter, as it is, in the
	// field of the same role (C10.R4) — a constructor that "normalises" one limit by the other disagrees with its sibling
	if c.ID == "C12" {
		importObls(c, "C10", checkC10, "C12.R7", func(o *Obligation) bool {
			return strings.HasPrefix(o.Key, "C10.R4/ctor-field/") || strings.HasPrefix(o.Key, "C10.R4/timeout-written-outside-constructor") ||
				// … and every memory operation that finds the session refreshes its last-used time, as every Redis operation
				// re-arms the idle deadline (C10.R1 touch)
				strings.HasPrefix(o.Key, "C10.R1/touch/")
		})
	}
	// ---- R5
	c10R2(c, sr)
	for _, o := range c.Obls {
		if o.Rule == "C10.R2" {
			o.Rule = "C12.R5"
			o.Key = strings.Replace(o.Key, "C10.R2", "C12.R5", 1)
		}
	}
}

func posFn(P *Program, fn *ssa.Function) string {
	if fn == nil {
		return "-"
	}
	return P.Pos(fn.Pos())
}

// flowsToBranch: the boolean v decides a branch, directly or through negation / short-circuit merges.
func flowsToBranch(v ssa.Value) bool {
	seen := map[ssa.Value]bool{}
	var walk func(x ssa.Value) bool
	walk = func(x ssa.Value) bool {
		if seen[x] || x.Referrers() == nil {
			return false
		}
		seen[x] = true
		for _, r := range *x.Referrers() {
			switch r := r.(type) {
			case *ssa.If:
				return true
			case *ssa.UnOp:
				if r.Op == token.NOT && walk(r) {
					return true
				}
			case *ssa.Phi:
				if walk(r) {
					return true
				}
			}
		}
		return false
	}
	return walk(v)
}
