package main

// Normal forms. A rule of this checker is anchored in the functions of the role table. A behaviour-
// preserving change that moves part of such a function into a new helper ("extract method") takes the
// anchor's constructs out of the function the rule walks. Rather than teaching every rule about every
// possible helper, the checker can evaluate a property on an *equivalent program*: the source of /repo
// with the calls of non-anchor helper functions inlined at source level (params bound to temporaries,
// `return` turned into assignment + `break` out of a labelled one-case switch) and type-checked again.
// Inlining preserves behaviour, so a property whose structural condition holds on the normal form holds
// on the tree. The normal form is consulted only when the plain run reports a violation; it can acquit,
// never convict (diagnostics always come from the plain run).
//
// The transformation is text splicing driven by the type-checked AST; everything it cannot do safely
// (defer/recover, labels, generics, name capture, calls whose evaluation order would change) is left
// alone, and any type error in the result drops the offending site.

import (
	"bytes"
	"fmt"
	"go/ast"
	"go/token"
	"go/types"
	"os"
	"reflect"
	"sort"
	"strconv"
	"strings"

	"golang.org/x/tools/go/packages"
	"golang.org/x/tools/go/ssa"
	"golang.org/x/tools/go/types/typeutil"
)

type textEdit struct {
	start, end int
	text       string
	site       string // description (for the log and for dropping on type errors)
	site2      string // file of the edit
}

type nfCallee struct {
	fn    *types.Func
	decl  *ast.FuncDecl
	file  *ast.File
	pkg   *packages.Package
	sites []*nfSite
	uses  int
	// a local closure (`f := func(…) {…}` called as f(…)): no *types.Func; decl is synthesised from the literal
	closure bool
	sig     *types.Signature
	lit     *ast.FuncLit
	defStmt ast.Stmt
}

func (c *nfCallee) key() string {
	if c.closure {
		return "closure " + c.decl.Name.Name
	}
	return funcKey(c.fn)
}

func (c *nfCallee) signature() *types.Signature {
	if c.closure {
		return c.sig
	}
	return c.fn.Type().(*types.Signature)
}

type nfSite struct {
	call   *ast.CallExpr
	stack  []ast.Node // ancestors of call, outermost first (file ... parent)
	file   *ast.File
	pkg    *packages.Package
	callee *nfCallee
}

// Normalizer holds the evolving overlay.
type Normalizer struct {
	Repo    string
	Overlay map[string][]byte
	Log     []string
	pinned  map[string]bool
	maxSite int
	counter int
	dropped map[string]bool // site descriptions that produced type errors
}

func funcKey(f *types.Func) string { return f.FullName() }

// NormalForm computes the overlay of the inlined normal form of P. pinned: FullName of functions that
// must stay (anchors). maxSites: inline callees with at most that many call sites.
func NormalForm(P *Program, pinned map[string]bool, maxSites int, goexp string) (*Program, []string, error) {
	nz := &Normalizer{Repo: P.RepoDir, Overlay: map[string][]byte{}, pinned: pinned, maxSite: maxSites, dropped: map[string]bool{}}
	cur := P
	changedAny := false
	for pass := 0; pass < 6; pass++ {
		edits, n := nz.plan(cur)
		if n == 0 {
			break
		}
		saved := map[string][]byte{}
		for f, b := range nz.Overlay {
			saved[f] = b
		}
		descs := nz.apply(cur, edits)
		if debugOverlayDir != "" {
			for f, b := range nz.Overlay {
				_ = os.WriteFile(debugOverlayDir+"/"+strings.ReplaceAll(strings.TrimPrefix(f, P.RepoDir+"/"), "/", "_"), b, 0o644)
			}
		}
		next, err := LoadProgramOverlay(P.RepoDir, P.Whole, goexp, nz.Overlay)
		if err != nil {
			// drop the sites named by the error positions (or all of this pass) and retry the pass
			nz.Overlay = saved
			bad := nz.blame(err.Error(), edits)
			if len(bad) == 0 {
				for _, d := range descs {
					nz.dropped[d] = true
				}
			} else {
				for _, d := range bad {
					nz.dropped[d] = true
				}
			}
			nz.Log = append(nz.Log, fmt.Sprintf("pass %d: type error after inlining (%s); dropped %d site(s), retrying", pass, firstLine(err.Error()), len(nz.dropped)))
			pass--
			if len(nz.dropped) > 200 {
				break
			}
			continue
		}
		nz.Log = append(nz.Log, descs...)
		cur = next
		changedAny = true
	}
	if !changedAny {
		return nil, nz.Log, nil
	}
	return cur, nz.Log, nil
}

func firstLine(s string) string {
	if i := strings.IndexByte(s, '\n'); i >= 0 {
		s = s[:i]
	}
	if len(s) > 300 {
		s = s[:300]
	}
	return s
}

func (nz *Normalizer) content(name string) []byte {
	if b, ok := nz.Overlay[name]; ok {
		return b
	}
	b, _ := os.ReadFile(name)
	return b
}

// blame maps error text "file:line:col" to the edits whose new text covers that line.
func (nz *Normalizer) blame(errText string, edits map[string][]textEdit) []string {
	var out []string
	seen := map[string]bool{}
	for file, es := range edits {
		idx := 0
		for {
			i := strings.Index(errText[idx:], file+":")
			if i < 0 {
				break
			}
			rest := errText[idx+i+len(file)+1:]
			idx += i + len(file) + 1
			j := 0
			for j < len(rest) && rest[j] >= '0' && rest[j] <= '9' {
				j++
			}
			line, _ := strconv.Atoi(rest[:j])
			if line == 0 {
				continue
			}
			// compute new-text line ranges of the edits of this file
			sorted := append([]textEdit(nil), es...)
			sort.Slice(sorted, func(a, b int) bool { return sorted[a].start < sorted[b].start })
			old := nz.contentBefore(file, es)
			delta := 0
			for _, e := range sorted {
				startLine := 1 + bytes.Count(old[:e.start], []byte("\n")) + delta
				nl := strings.Count(e.text, "\n")
				if line >= startLine && line <= startLine+nl {
					if e.site != "" && !seen[e.site] {
						seen[e.site] = true
						out = append(out, e.site)
					}
				}
				delta += nl - bytes.Count(old[e.start:e.end], []byte("\n"))
			}
		}
	}
	return out
}

func (nz *Normalizer) contentBefore(file string, _ []textEdit) []byte { return nz.content(file) }

// apply splices the edits into the overlay; returns site descriptions.
func (nz *Normalizer) apply(_ *Program, edits map[string][]textEdit) []string {
	var descs []string
	seen := map[string]bool{}
	for file, es := range edits {
		src := nz.content(file)
		sort.Slice(es, func(a, b int) bool { return es[a].start > es[b].start })
		out := append([]byte(nil), src...)
		for _, e := range es {
			out = append(out[:e.start], append([]byte(e.text), out[e.end:]...)...)
			if e.site != "" && !seen[e.site] {
				seen[e.site] = true
				descs = append(descs, e.site)
			}
		}
		nz.Overlay[file] = out
	}
	sort.Strings(descs)
	return descs
}

func hasDirective(f *ast.File) bool {
	for _, cg := range f.Comments {
		for _, c := range cg.List {
			if strings.HasPrefix(c.Text, "//go:build") || strings.HasPrefix(c.Text, "// +build") ||
				strings.HasPrefix(c.Text, "//go:embed") || strings.HasPrefix(c.Text, "//go:linkname") {
				return true
			}
		}
	}
	return false
}

// plan computes the edits of one bottom-up pass.
func (nz *Normalizer) plan(P *Program) (map[string][]textEdit, int) {
	fset := P.Fset
	callees := map[*types.Func]*nfCallee{}
	ifaceMethodNames := map[string]bool{}
	for _, pkg := range P.Pkgs {
		if strings.Contains(pkg.PkgPath, "/config/gen/") {
			continue // generated code is never rewritten
		}
		for _, f := range pkg.Syntax {
			if hasDirective(f) || ast.IsGenerated(f) {
				continue
			}
			for _, d := range f.Decls {
				fd, ok := d.(*ast.FuncDecl)
				if !ok || fd.Body == nil {
					continue
				}
				obj, _ := pkg.TypesInfo.Defs[fd.Name].(*types.Func)
				if obj == nil {
					continue
				}
				callees[obj] = &nfCallee{fn: obj, decl: fd, file: f, pkg: pkg}
			}
		}
		sc := pkg.Types.Scope()
		for _, n := range sc.Names() {
			if tn, ok := sc.Lookup(n).(*types.TypeName); ok {
				if it, ok := tn.Type().Underlying().(*types.Interface); ok {
					for i := 0; i < it.NumMethods(); i++ {
						ifaceMethodNames[it.Method(i).Name()] = true
					}
				}
			}
		}
	}
	// uses and call sites
	for _, pkg := range P.Pkgs {
		for _, obj := range pkg.TypesInfo.Uses {
			if fn, ok := obj.(*types.Func); ok {
				if c := callees[fn]; c != nil {
					c.uses++
				}
			}
		}
		for _, f := range pkg.Syntax {
			var stack []ast.Node
			ast.Inspect(f, func(n ast.Node) bool {
				if n == nil {
					stack = stack[:len(stack)-1]
					return true
				}
				if call, ok := n.(*ast.CallExpr); ok {
					if fn, ok := typeutil.Callee(pkg.TypesInfo, call).(*types.Func); ok {
						if c := callees[fn]; c != nil {
							c.sites = append(c.sites, &nfSite{call: call, stack: append([]ast.Node(nil), stack...), file: f, pkg: pkg, callee: c})
						}
					}
				}
				stack = append(stack, n)
				return true
			})
		}
	}
	// candidates
	planned := map[*types.Func]*nfCallee{}
	for fn, c := range callees {
		if nz.pinned[funcKey(fn)] || len(c.sites) == 0 || len(c.sites) > nz.maxSite || c.uses != len(c.sites) {
			continue
		}
		if fn.Name() == "init" || fn.Name() == "main" || fn.Name() == "_" {
			continue
		}
		sig := fn.Type().(*types.Signature)
		if sig.RecvTypeParams() != nil {
			continue
		}
		if sig.Recv() != nil && (fn.Exported() || ifaceMethodNames[fn.Name()]) {
			continue
		}
		if !nz.bodyInlinable(c) {
			continue
		}
		ok := true
		for _, s := range c.sites {
			if s.pkg != c.pkg || hasDirective(s.file) || ast.IsGenerated(s.file) {
				ok = false
			}
		}
		if ok {
			planned[fn] = c
		}
	}
	// bottom-up: a callee whose body contains a site of a planned callee waits for the next pass
	for changed := true; changed; {
		changed = false
		for fn, c := range planned {
			for _, other := range planned {
				if other == c {
					continue
				}
				for _, s := range other.sites {
					if s.call.Pos() >= c.decl.Pos() && s.call.End() <= c.decl.End() {
						delete(planned, fn)
						changed = true
					}
				}
			}
		}
	}
	// deterministic order
	var order []*nfCallee
	for _, c := range planned {
		order = append(order, c)
	}
	sort.Slice(order, func(i, j int) bool { return funcKey(order[i].fn) < funcKey(order[j].fn) })
	if len(order) == 0 {
		// nothing left to inline among the declared functions: calls of local closures bound once to a function literal
		// (also those that an earlier pass produced when it inlined a helper that takes a callback)
		order = nz.closureCallees(P)
	}
	if len(order) == 0 {
		// … and loops over freshly introduced range-over-func iterators (normalize_iter.go)
		if ie, in := nz.iterEdits(P); in > 0 {
			return ie, in
		}
	}

	edits := map[string][]textEdit{}
	type span struct{ s, e int }
	used := map[string][]span{}
	overlaps := func(file string, s, e int) bool {
		for _, u := range used[file] {
			if s < u.e && u.s < e {
				return true
			}
		}
		return false
	}
	imports := map[string]map[string]string{} // file → name → path to add
	n := 0
	for _, c := range order {
		var es []textEdit
		var imps []map[string]string
		ok := true
		desc := "inline " + c.key()
		if nz.dropped[desc] {
			continue
		}
		allSites := true
		for _, s := range c.sites {
			e, imp, why := nz.siteEdit(fset, s)
			if why != "" {
				allSites = false
				if os.Getenv("VERIF_NF_DEBUG") != "" {
					fmt.Printf("  NF skip %s at %s: %s\n", c.key(), fset.Position(s.call.Pos()), why)
				}
				continue
			}
			e.site = desc
			file := fset.Position(s.file.Pos()).Filename
			clash := overlaps(file, e.start, e.end)
			for _, prev := range es {
				if file == prev.site2 && e.start < prev.end && prev.start < e.end {
					clash = true
				}
			}
			if clash {
				// another edit of this pass covers the same statement: this site waits for the next pass
				allSites = false
				continue
			}
			e.site2 = file
			es = append(es, e)
			imps = append(imps, imp)
		}
		if len(es) == 0 {
			continue
		}
		_ = ok
		// deletion of the declaration (only when every call site is inlined in this pass)
		cfile := fset.Position(c.file.Pos()).Filename
		ds := c.decl.Pos()
		if c.decl.Doc != nil {
			ds = c.decl.Doc.Pos()
		}
		dstart, dend := fset.Position(ds).Offset, fset.Position(c.decl.End()).Offset
		if c.closure {
			allSites = false
			at := fset.Position(c.defStmt.End()).Offset
			es = append(es, textEdit{start: at, end: at, text: "\n_ = " + c.decl.Name.Name + "\n", site: desc, site2: cfile})
			imps = append(imps, nil)
		}
		if allSites && overlaps(cfile, dstart, dend) {
			continue
		}
		for i, e := range es {
			edits[e.site2] = append(edits[e.site2], e)
			used[e.site2] = append(used[e.site2], span{e.start, e.end})
			for name, path := range imps[i] {
				if imports[e.site2] == nil {
					imports[e.site2] = map[string]string{}
				}
				imports[e.site2][name] = path
			}
		}
		if allSites {
			edits[cfile] = append(edits[cfile], textEdit{start: dstart, end: dend, text: "", site: desc})
			used[cfile] = append(used[cfile], span{dstart, dend})
		}
		n++
	}
	// imports whose every use sat in a deleted declaration are kept alive with a blank reference
	for _, pkg := range P.Pkgs {
		for _, f := range pkg.Syntax {
			file := fset.Position(f.Pos()).Filename
			if len(used[file]) == 0 {
				continue
			}
			var keep []string
			for _, im := range f.Imports {
				var pn *types.PkgName
				if im.Name != nil {
					pn, _ = pkg.TypesInfo.Defs[im.Name].(*types.PkgName)
				} else {
					pn, _ = pkg.TypesInfo.Implicits[im].(*types.PkgName)
				}
				if pn == nil || pn.Name() == "_" || pn.Name() == "." {
					continue
				}
				total, gone := 0, 0
				for idn, obj := range pkg.TypesInfo.Uses {
					if obj != types.Object(pn) || fset.Position(idn.Pos()).Filename != file {
						continue
					}
					total++
					o := fset.Position(idn.Pos()).Offset
					for _, u := range used[file] {
						if o >= u.s && o < u.e {
							gone++
							break
						}
					}
				}
				if total > 0 && gone > 0 {
					if ref := keepAliveRef(pn); ref != "" {
						keep = append(keep, ref)
					}
				}
			}
			if len(keep) > 0 {
				end := fset.Position(f.End()).Offset
				if n := len(nz.content(file)); end > n {
					end = n
				}
				edits[file] = append(edits[file], textEdit{start: end, end: end, text: "\n" + strings.Join(keep, "\n") + "\n"})
			}
		}
	}
	// import additions
	for file, m := range imports {
		var f *ast.File
		for _, pkg := range P.Pkgs {
			for _, sf := range pkg.Syntax {
				if fset.Position(sf.Pos()).Filename == file {
					f = sf
				}
			}
		}
		if f == nil {
			continue
		}
		off := fset.Position(f.Name.End()).Offset
		var names []string
		for name := range m {
			names = append(names, name)
		}
		sort.Strings(names)
		var sb strings.Builder
		for _, name := range names {
			fmt.Fprintf(&sb, "\nimport %s %q", name, m[name])
		}
		sb.WriteString("\n")
		edits[file] = append(edits[file], textEdit{start: off, end: off, text: sb.String()})
	}
	return edits, n
}

// bodyInlinable: no defer, recover, labels, goto, self reference.
func (nz *Normalizer) bodyInlinable(c *nfCallee) bool {
	ok := true
	ast.Inspect(c.decl.Body, func(n ast.Node) bool {
		switch x := n.(type) {
		case *ast.DeferStmt:
			ok = false
		case *ast.BranchStmt:
			if x.Tok == token.GOTO {
				ok = false
			}
		case *ast.Ident:
			if obj := c.pkg.TypesInfo.Uses[x]; obj != nil {
				if c.fn != nil && obj == types.Object(c.fn) {
					ok = false
				}
				if b, isB := obj.(*types.Builtin); isB && b.Name() == "recover" {
					ok = false
				}
			}
		}
		return ok
	})
	return ok
}

func isSimpleExpr(e ast.Expr) bool {
	switch x := e.(type) {
	case nil:
		return true
	case *ast.Ident, *ast.BasicLit:
		return true
	case *ast.ParenExpr:
		return isSimpleExpr(x.X)
	case *ast.SelectorExpr:
		return isSimpleExpr(x.X)
	case *ast.UnaryExpr:
		return x.Op != token.ARROW && isSimpleExpr(x.X)
	case *ast.BinaryExpr:
		return x.Op != token.QUO && x.Op != token.REM && isSimpleExpr(x.X) && isSimpleExpr(x.Y)
	case *ast.StarExpr:
		return isSimpleExpr(x.X)
	}
	return false
}

// siteEdit builds the replacement of the statement containing the call.
func (nz *Normalizer) siteEdit(fset *token.FileSet, s *nfSite) (textEdit, map[string]string, string) {
	info := s.pkg.TypesInfo
	c := s.callee
	callerFile := fset.Position(s.file.Pos()).Filename
	calleeFile := fset.Position(c.file.Pos()).Filename
	src := nz.content(callerFile)
	csrc := nz.content(calleeFile)
	off := func(p token.Pos) int { return fset.Position(p).Offset }
	text := func(b []byte, n ast.Node) string { return string(b[off(n.Pos()):off(n.End())]) }

	sig := c.signature()
	nres := sig.Results().Len()

	// ---- generic callee: the type arguments of this call replace the type parameters in the copied text ----
	tsub := map[types.Object]string{}
	if tps := sig.TypeParams(); tps != nil {
		var id *ast.Ident
		fun := ast.Expr(s.call.Fun)
		for id == nil {
			switch f := fun.(type) {
			case *ast.ParenExpr:
				fun = f.X
			case *ast.IndexExpr:
				fun = f.X
			case *ast.IndexListExpr:
				fun = f.X
			case *ast.SelectorExpr:
				id = f.Sel
			case *ast.Ident:
				id = f
			default:
				return textEdit{}, nil, "generic call form"
			}
		}
		inst, ok := info.Instances[id]
		if !ok || inst.TypeArgs == nil || inst.TypeArgs.Len() != tps.Len() {
			return textEdit{}, nil, "generic instance unknown"
		}
		bad := ""
		qual := func(p *types.Package) string {
			if p == s.pkg.Types {
				return ""
			}
			for _, im := range s.file.Imports {
				ip, _ := strconv.Unquote(im.Path.Value)
				if ip != p.Path() {
					continue
				}
				if im.Name != nil {
					if im.Name.Name == "_" || im.Name.Name == "." {
						break
					}
					return im.Name.Name
				}
				return p.Name()
			}
			bad = "type argument from a package the caller file does not import: " + p.Path()
			return p.Name()
		}
		for i := 0; i < tps.Len(); i++ {
			tsub[tps.At(i).Obj()] = "(" + types.TypeString(inst.TypeArgs.At(i), qual) + ")"
		}
		if bad != "" {
			return textEdit{}, nil, bad
		}
	}
	// ctext: source text of a node of the callee's declaration with type parameters substituted
	ctext := func(n ast.Node) string {
		if len(tsub) == 0 {
			return text(csrc, n)
		}
		type rp struct {
			s, e int
			t    string
		}
		var rps []rp
		ast.Inspect(n, func(x ast.Node) bool {
			if idn, ok := x.(*ast.Ident); ok {
				if t, has := tsub[info.Uses[idn]]; has {
					rps = append(rps, rp{off(idn.Pos()) - off(n.Pos()), off(idn.End()) - off(n.Pos()), t})
				}
			}
			return true
		})
		out := text(csrc, n)
		sort.Slice(rps, func(a, b int) bool { return rps[a].s > rps[b].s })
		for _, r := range rps {
			out = out[:r.s] + r.t + out[r.e:]
		}
		return out
	}

	// ---- climb from the call to the enclosing statement ------------------------------------------
	var stmt ast.Stmt
	var stmtIdx int
	child := ast.Node(s.call)
	// operands that are evaluated before the call in the same statement and are not trivially pure are
	// hoisted into temporaries, in evaluation order (outer levels first), so that the order of calls is kept
	var hoistLevels [][]ast.Expr
	var scWrappers []*ast.BinaryExpr // short-circuit expressions (innermost first) whose right operand holds the call
	for i := len(s.stack) - 1; i >= 0; i-- {
		p := s.stack[i]
		if st, ok := p.(ast.Stmt); ok {
			stmt, stmtIdx = st, i
			break
		}
		var level []ast.Expr
		switch x := p.(type) {
		case *ast.ParenExpr, *ast.StarExpr, *ast.TypeAssertExpr:
		case *ast.SelectorExpr:
		case *ast.UnaryExpr:
			if x.Op == token.ARROW {
				return textEdit{}, nil, "operand of <-"
			}
			if x.Op == token.AND {
				if _, isLit := ast.Unparen(x.X).(*ast.CompositeLit); !isLit {
					return textEdit{}, nil, "operand of &"
				}
			}
		case *ast.BinaryExpr:
			if x.Op == token.LAND || x.Op == token.LOR {
				if x.X != child {
					// `L || call(…)`: rewritten as  t := L; if !t { <inlined>; t = R' }  (see the assembly)
					if nres != 1 || len(hoistLevels) > 0 {
						return textEdit{}, nil, "right operand of a short-circuit operator"
					}
					scWrappers = append(scWrappers, x)
				}
			} else if x.Y == child && !isSimpleExpr(x.X) {
				level = append(level, x.X)
			}
		case *ast.CallExpr:
			if x.Fun == child {
				// method call on the result: the receiver is evaluated before the arguments in both forms
				if _, isSel := child.(*ast.SelectorExpr); !isSel || nres != 1 {
					return textEdit{}, nil, "call of the result"
				}
				child = p
				continue
			}
			if !isSimpleExpr(x.Fun) {
				return textEdit{}, nil, "evaluation order"
			}
			for _, a := range x.Args {
				if a == child {
					break
				}
				if !isSimpleExpr(a) {
					level = append(level, a)
				}
			}
			if nres != 1 {
				return textEdit{}, nil, "tuple passed on"
			}
		case *ast.IndexExpr:
			if x.X != child || !isSimpleExpr(x.Index) {
				return textEdit{}, nil, "index"
			}
		case *ast.KeyValueExpr:
			if x.Value != child {
				return textEdit{}, nil, "call in a literal key"
			}
		case *ast.CompositeLit:
			for _, e := range x.Elts {
				if e == child {
					break
				}
				v := e
				if kv, isKV := e.(*ast.KeyValueExpr); isKV {
					if !isSimpleExpr(kv.Key) {
						return textEdit{}, nil, "literal key evaluated before the call"
					}
					v = kv.Value
				}
				if !isSimpleExpr(v) {
					if _, nested := ast.Unparen(v).(*ast.CompositeLit); nested {
						return textEdit{}, nil, "nested literal before the call"
					}
					level = append(level, v)
				}
			}
		case *ast.ValueSpec, *ast.GenDecl:
		default:
			return textEdit{}, nil, fmt.Sprintf("unsupported context %T", p)
		}
		if len(level) > 0 {
			hoistLevels = append(hoistLevels, level)
		}
		child = p
	}
	if len(scWrappers) > 0 && len(hoistLevels) > 0 {
		return textEdit{}, nil, "short-circuit operand together with operands to hoist"
	}
	var hoists []ast.Expr
	for i := len(hoistLevels) - 1; i >= 0; i-- {
		hoists = append(hoists, hoistLevels[i]...)
	}
	for _, h := range hoists {
		if tv, ok := info.Types[h]; !ok || tv.IsType() || tv.Value != nil {
			return textEdit{}, nil, "evaluation order (operand cannot be hoisted)"
		} else if _, isTuple := tv.Type.(*types.Tuple); isTuple {
			return textEdit{}, nil, "evaluation order (tuple operand)"
		}
	}
	if stmt == nil {
		return textEdit{}, nil, "no enclosing statement (package-level initialiser)"
	}
	// container of the statement
	var parent ast.Node
	if stmtIdx > 0 {
		parent = s.stack[stmtIdx-1]
	}
	elsePos := false
	switch p := parent.(type) {
	case *ast.BlockStmt, *ast.CaseClause, *ast.CommClause:
	case *ast.IfStmt:
		switch {
		case p.Else == stmt:
			elsePos = true
		case p.Init == stmt:
			// the call sits in the init statement of an if: hoist before the if
			stmt, stmtIdx = p, stmtIdx-1
			parent = nil
			if stmtIdx > 0 {
				parent = s.stack[stmtIdx-1]
			}
			switch pp := parent.(type) {
			case *ast.BlockStmt, *ast.CaseClause, *ast.CommClause:
			case *ast.IfStmt:
				if pp.Else != stmt {
					return textEdit{}, nil, "if in unsupported position"
				}
				elsePos = true
			default:
				return textEdit{}, nil, "if in unsupported position"
			}
		default:
			return textEdit{}, nil, "statement in unsupported position"
		}
	case *ast.SwitchStmt:
		if p.Init != stmt {
			return textEdit{}, nil, "statement in unsupported position"
		}
		stmt, stmtIdx = p, stmtIdx-1
		parent = nil
		if stmtIdx > 0 {
			parent = s.stack[stmtIdx-1]
		}
		switch parent.(type) {
		case *ast.BlockStmt, *ast.CaseClause, *ast.CommClause:
		default:
			return textEdit{}, nil, "switch in unsupported position"
		}
	default:
		return textEdit{}, nil, fmt.Sprintf("statement under %T", parent)
	}
	// the call's place inside the statement
	tupleOK := false
	tail := false
	switch st := stmt.(type) {
	case *ast.ExprStmt:
		tupleOK = st.X == ast.Expr(s.call)
	case *ast.AssignStmt:
		for _, l := range st.Lhs {
			if !isSimpleExpr(l) {
				return textEdit{}, nil, "evaluation order (lhs)"
			}
		}
		for _, r := range st.Rhs {
			if containsNode(r, s.call) {
				break
			}
			if !isSimpleExpr(r) {
				return textEdit{}, nil, "evaluation order (rhs)"
			}
		}
		tupleOK = len(st.Rhs) == 1 && st.Rhs[0] == ast.Expr(s.call)
	case *ast.ReturnStmt:
		for _, r := range st.Results {
			if containsNode(r, s.call) {
				break
			}
			if !isSimpleExpr(r) {
				return textEdit{}, nil, "evaluation order (results)"
			}
		}
		tupleOK = len(st.Results) == 1 && st.Results[0] == ast.Expr(s.call)
		tail = tupleOK && len(tsub) == 0
	case *ast.DeclStmt:
		gd, _ := st.Decl.(*ast.GenDecl)
		if gd == nil || len(gd.Specs) != 1 {
			return textEdit{}, nil, "declaration group"
		}
		vs, _ := gd.Specs[0].(*ast.ValueSpec)
		if vs == nil {
			return textEdit{}, nil, "declaration"
		}
		tupleOK = len(vs.Values) == 1 && vs.Values[0] == ast.Expr(s.call)
		for _, r := range vs.Values {
			if containsNode(r, s.call) {
				break
			}
			if !isSimpleExpr(r) {
				return textEdit{}, nil, "evaluation order (values)"
			}
		}
	case *ast.IfStmt:
		inInit := st.Init != nil && containsNode(st.Init, s.call)
		if !inInit {
			if st.Cond == nil || !containsNode(st.Cond, s.call) {
				return textEdit{}, nil, "call in the body of an if reached as statement"
			}
			if st.Init != nil {
				return textEdit{}, nil, "condition call after an init statement"
			}
		} else {
			as, ok := st.Init.(*ast.AssignStmt)
			if !ok {
				if es, ok := st.Init.(*ast.ExprStmt); !ok || es.X != ast.Expr(s.call) {
					return textEdit{}, nil, "if-init form"
				}
				tupleOK = true
			} else {
				for _, l := range as.Lhs {
					if !isSimpleExpr(l) {
						return textEdit{}, nil, "evaluation order (lhs)"
					}
				}
				for _, r := range as.Rhs {
					if containsNode(r, s.call) {
						break
					}
					if !isSimpleExpr(r) {
						return textEdit{}, nil, "evaluation order (rhs)"
					}
				}
				tupleOK = len(as.Rhs) == 1 && as.Rhs[0] == ast.Expr(s.call)
			}
		}
	case *ast.SwitchStmt:
		inInit := st.Init != nil && containsNode(st.Init, s.call)
		if inInit {
			as, ok := st.Init.(*ast.AssignStmt)
			if !ok {
				return textEdit{}, nil, "switch-init form"
			}
			tupleOK = len(as.Rhs) == 1 && as.Rhs[0] == ast.Expr(s.call)
			if !tupleOK {
				return textEdit{}, nil, "switch-init form"
			}
		} else {
			if st.Tag == nil || !containsNode(st.Tag, s.call) || st.Init != nil {
				return textEdit{}, nil, "switch form"
			}
		}
	case *ast.SendStmt:
		if !isSimpleExpr(st.Chan) || !containsNode(st.Value, s.call) {
			return textEdit{}, nil, "send form"
		}
	case *ast.RangeStmt:
		if !containsNode(st.X, s.call) || elsePos {
			return textEdit{}, nil, "range form"
		}
	default:
		return textEdit{}, nil, fmt.Sprintf("unsupported statement %T", stmt)
	}
	if nres > 1 && !tupleOK {
		return textEdit{}, nil, "tuple result in expression context"
	}
	if nres == 0 {
		if es, ok := stmt.(*ast.ExprStmt); !ok || es.X != ast.Expr(s.call) {
			return textEdit{}, nil, "void call not a statement"
		}
	}

	// ---- receiver and arguments --------------------------------------------------------------------
	type bind struct{ name, typ, arg string }
	var binds []bind
	recvHoist := ""
	nz.counter++
	id := "inl" + strconv.Itoa(nz.counter)
	if c.decl.Recv != nil {
		sel, ok := ast.Unparen(s.call.Fun).(*ast.SelectorExpr)
		if !ok {
			return textEdit{}, nil, "method call form"
		}
		selInfo := info.Selections[sel]
		if selInfo == nil || len(selInfo.Index()) < 1 {
			return textEdit{}, nil, "method selection"
		}
		rt := sig.Recv().Type()
		xt := info.TypeOf(sel.X)
		rtxt := text(src, sel.X)
		// a method promoted from an embedded field: spell the field path out (`r.expireAt(…)` is `r.sessionTimeouts.expireAt(…)`)
		if idx := selInfo.Index(); len(idx) > 1 {
			if !isSimpleExpr(sel.X) {
				return textEdit{}, nil, "promoted method on a non-trivial receiver"
			}
			for _, fi := range idx[:len(idx)-1] {
				t := xt
				if pt, isP := t.Underlying().(*types.Pointer); isP {
					t = pt.Elem()
				}
				st, isS := t.Underlying().(*types.Struct)
				if !isS || fi >= st.NumFields() {
					return textEdit{}, nil, "promoted method path"
				}
				rtxt += "." + st.Field(fi).Name()
				xt = st.Field(fi).Type()
			}
		}
		if !isSimpleExpr(sel.X) {
			// the receiver expression is evaluated first in both forms: bind it to a temporary up front
			if _, isCall := ast.Unparen(sel.X).(*ast.CallExpr); isCall {
				if tup, isT := xt.(*types.Tuple); isT && tup.Len() != 1 {
					return textEdit{}, nil, "receiver is a multi-value call"
				}
				recvHoist = fmt.Sprintf("%s_rcv := %s\n_ = %s_rcv\n", id, rtxt, id)
				rtxt = id + "_rcv"
			}
		}
		switch {
		case types.Identical(rt, xt):
		case isPtrTo(rt, xt):
			rtxt = "&(" + rtxt + ")"
		case isPtrTo(xt, rt):
			rtxt = "*(" + rtxt + ")"
		default:
			return textEdit{}, nil, "receiver adaptation"
		}
		f := c.decl.Recv.List[0]
		name := ""
		if len(f.Names) == 1 && f.Names[0].Name != "_" {
			name = f.Names[0].Name
		}
		binds = append(binds, bind{name, ctext(f.Type), rtxt})
	}
	var ptypes []struct {
		name, typ string
		variadic  bool
	}
	for _, f := range c.decl.Type.Params.List {
		t := ctext(f.Type)
		variadic := false
		if el, ok := f.Type.(*ast.Ellipsis); ok {
			t = "[]" + ctext(el.Elt)
			variadic = true
		}
		if len(f.Names) == 0 {
			ptypes = append(ptypes, struct {
				name, typ string
				variadic  bool
			}{"", t, variadic})
		}
		for _, nme := range f.Names {
			n := nme.Name
			if n == "_" {
				n = ""
			}
			ptypes = append(ptypes, struct {
				name, typ string
				variadic  bool
			}{n, t, variadic})
		}
	}
	args := s.call.Args
	for i, pt := range ptypes {
		if pt.variadic {
			if s.call.Ellipsis.IsValid() {
				if i != len(args)-1 {
					return textEdit{}, nil, "variadic form"
				}
				binds = append(binds, bind{pt.name, pt.typ, text(src, args[i])})
			} else {
				var parts []string
				for _, a := range args[i:] {
					parts = append(parts, text(src, a))
				}
				if len(parts) == 0 {
					binds = append(binds, bind{pt.name, pt.typ, "nil"})
				} else {
					binds = append(binds, bind{pt.name, pt.typ, pt.typ + "{" + strings.Join(parts, ", ") + "}"})
				}
			}
			continue
		}
		if i >= len(args) {
			return textEdit{}, nil, "argument count (multi-value call argument)"
		}
		binds = append(binds, bind{pt.name, pt.typ, text(src, args[i])})
	}
	if n := len(ptypes); n > 0 && !ptypes[n-1].variadic && len(args) != n {
		return textEdit{}, nil, "argument count"
	}
	if len(ptypes) == 0 && len(args) != 0 {
		return textEdit{}, nil, "argument count"
	}

	// ---- results --------------------------------------------------------------------------------------
	type res struct{ name, typ string }
	var results []res
	if c.decl.Type.Results != nil {
		for _, f := range c.decl.Type.Results.List {
			t := ctext(f.Type)
			if len(f.Names) == 0 {
				results = append(results, res{"", t})
			}
			for _, nme := range f.Names {
				results = append(results, res{nme.Name, t})
			}
		}
	}
	named := len(results) > 0 && results[0].name != ""
	for _, r := range results {
		if r.name == "_" {
			return textEdit{}, nil, "blank named result"
		}
	}

	// ---- imports and capture -------------------------------------------------------------------------
	addImports := map[string]string{}
	scope := s.pkg.Types.Scope().Innermost(s.call.Pos())
	why := ""
	checkIdent := func(idn *ast.Ident) {
		obj := info.Uses[idn]
		if obj == nil || why != "" {
			return
		}
		switch o := obj.(type) {
		case *types.PkgName:
			path := o.Imported().Path()
			_, found := scope.LookupParent(idn.Name, s.call.Pos())
			if pn, ok := found.(*types.PkgName); ok && pn.Imported().Path() == path {
				return
			}
			if found != nil {
				why = "name capture: " + idn.Name
				return
			}
			// same path under another name in the caller file?
			for _, im := range s.file.Imports {
				p, _ := strconv.Unquote(im.Path.Value)
				if p == path {
					why = "import alias differs: " + path
					return
				}
			}
			addImports[idn.Name] = path
		default:
			if obj.Parent() == types.Universe || (obj.Pkg() != nil && obj.Parent() == obj.Pkg().Scope()) {
				_, found := scope.LookupParent(idn.Name, s.call.Pos())
				if found != obj {
					why = "name capture: " + idn.Name
				}
			}
		}
	}
	var visit func(n ast.Node)
	visit = func(n ast.Node) {
		if n == nil {
			return
		}
		ast.Inspect(n, func(x ast.Node) bool {
			switch y := x.(type) {
			case *ast.SelectorExpr:
				visit(y.X) // the selected name is a field, method or qualified identifier: not free
				return false
			case *ast.Ident:
				checkIdent(y)
			}
			return true
		})
	}
	visit(c.decl.Body)
	visit(c.decl.Type)
	if c.decl.Recv != nil {
		visit(c.decl.Recv)
	}
	if c.closure && why == "" {
		// the variables the literal captured must be the ones visible under the same names at the call site
		ast.Inspect(c.lit, func(x ast.Node) bool {
			idn, ok := x.(*ast.Ident)
			if !ok || why != "" {
				return true
			}
			obj := info.Uses[idn]
			if obj == nil || obj.Pkg() == nil || obj.Parent() == nil || obj.Parent() == types.Universe || obj.Parent() == obj.Pkg().Scope() {
				return true
			}
			if obj.Pos() >= c.lit.Pos() && obj.Pos() <= c.lit.End() {
				return true // declared inside the literal
			}
			if _, isVar := obj.(*types.Var); isVar && obj.(*types.Var).IsField() {
				return true
			}
			if _, found := scope.LookupParent(idn.Name, s.call.Pos()); found != obj {
				why = "closure capture not visible at the call site: " + idn.Name
			}
			return true
		})
		if s.call.Pos() >= c.lit.Pos() && s.call.End() <= c.lit.End() {
			why = "recursive closure"
		}
	}
	if why != "" {
		return textEdit{}, nil, why
	}

	// ---- enclosing function (for the tail form) -----------------------------------------------------
	if tail {
		var encSig *types.Signature
		for i := len(s.stack) - 1; i >= 0; i-- {
			switch f := s.stack[i].(type) {
			case *ast.FuncLit:
				encSig, _ = info.TypeOf(f).(*types.Signature)
			case *ast.FuncDecl:
				if o, ok := info.Defs[f.Name].(*types.Func); ok {
					encSig = o.Type().(*types.Signature)
				}
			default:
				continue
			}
			break
		}
		if encSig == nil || encSig.Results().Len() != nres {
			tail = false
		} else {
			for i := 0; i < nres; i++ {
				if !types.Identical(encSig.Results().At(i).Type(), sig.Results().At(i).Type()) {
					tail = false
				}
			}
		}
	}

	// ---- guard specialisation (normalize_guard.go) ------------------------------------------------
	var g *guardInfo
	needGuard := false
	if !tail && nres > 0 && nfGuards && len(scWrappers) == 0 {
		g = nz.detectGuard(fset, s, stmt, parent, src)
	}

	// ---- body text with rewritten returns -----------------------------------------------------------
	var rets []*ast.ReturnStmt
	var walk func(n ast.Node)
	walk = func(n ast.Node) {
		ast.Inspect(n, func(x ast.Node) bool {
			switch r := x.(type) {
			case *ast.FuncLit:
				return false
			case *ast.ReturnStmt:
				rets = append(rets, r)
			}
			return true
		})
	}
	walk(c.decl.Body)
	body := c.decl.Body
	bstart, bend := off(body.Lbrace)+1, off(body.Rbrace)
	var rtemps []string
	for i := range results {
		rtemps = append(rtemps, fmt.Sprintf("%s_r%d", id, i))
	}
	var rnames []string
	for _, r := range results {
		rnames = append(rnames, r.name)
	}
	trailingOnly := len(rets) == 0 || (len(rets) == 1 && len(body.List) > 0 && body.List[len(body.List)-1] == ast.Stmt(rets[0]))
	if g != nil && len(rets) > 0 {
		trailingOnly = false
	}
	needLabel := false
	var bedits []textEdit
	for _, r := range rets {
		var rep string
		isTrailing := len(body.List) > 0 && body.List[len(body.List)-1] == ast.Stmt(r)
		if tail {
			if len(r.Results) == 0 && named {
				rep = "return " + strings.Join(rnames, ", ")
			} else {
				continue
			}
		} else {
			var assign string
			switch {
			case len(results) == 0:
				assign = ""
			case len(r.Results) == 0: // bare return with named results
				assign = strings.Join(rtemps, ", ") + " = " + strings.Join(rnames, ", ")
			default:
				var parts []string
				for _, e := range r.Results {
					parts = append(parts, ctext(e))
				}
				assign = strings.Join(rtemps, ", ") + " = " + strings.Join(parts, ", ")
			}
			decidedTrue := false
			if g != nil {
				known, dec := false, false
				if len(r.Results) == nres {
					dec, known = g.evalAt(info, r.Results[g.k], body, r)
				}
				switch {
				case known && dec:
					if atxt, ok := nz.guardBodyAt(fset, s, g, rtemps, r, src); ok {
						rep = "{ " + assign + "\n" + atxt + "\n}"
						decidedTrue = true
					} else {
						needGuard = true
					}
				case known && !dec:
				default:
					needGuard = true
				}
			}
			if decidedTrue {
			} else if trailingOnly && isTrailing {
				rep = "{ " + assign + " }"
			} else {
				needLabel = true
				if assign != "" {
					rep = "{ " + assign + "; break " + id + " }"
				} else {
					rep = "break " + id
				}
			}
		}
		bedits = append(bedits, textEdit{start: off(r.Pos()), end: off(r.End()), text: rep})
	}
	// type parameters in the body are replaced by this call's type arguments
	if len(tsub) > 0 {
		ast.Inspect(c.decl.Body, func(x ast.Node) bool {
			if _, isRet := x.(*ast.ReturnStmt); isRet {
				return false // return statements are rewritten as a whole (their operands go through ctext)
			}
			if idn, ok := x.(*ast.Ident); ok {
				if t, has := tsub[info.Uses[idn]]; has {
					bedits = append(bedits, textEdit{start: off(idn.Pos()), end: off(idn.End()), text: t})
				}
			}
			return true
		})
	}
	// labels of the callee are renamed per site (labels are function-scoped)
	{
		var lwalk func(n ast.Node)
		lwalk = func(n ast.Node) {
			ast.Inspect(n, func(x ast.Node) bool {
				switch l := x.(type) {
				case *ast.FuncLit:
					return false
				case *ast.LabeledStmt:
					bedits = append(bedits, textEdit{start: off(l.Label.Pos()), end: off(l.Label.End()), text: l.Label.Name + "_" + id})
				case *ast.BranchStmt:
					if l.Label != nil {
						bedits = append(bedits, textEdit{start: off(l.Label.Pos()), end: off(l.Label.End()), text: l.Label.Name + "_" + id})
					}
				}
				return true
			})
		}
		lwalk(c.decl.Body)
	}
	sort.Slice(bedits, func(a, b int) bool { return bedits[a].start > bedits[b].start })
	btxt := append([]byte(nil), csrc[bstart:bend]...)
	for _, e := range bedits {
		s0, e0 := e.start-bstart, e.end-bstart
		btxt = append(btxt[:s0], append([]byte(e.text), btxt[e0:]...)...)
	}

	// ---- assemble -------------------------------------------------------------------------------------
	var sb strings.Builder
	var atemps []string
	if len(binds) > 0 {
		var rhs []string
		for i, b := range binds {
			atemps = append(atemps, fmt.Sprintf("%s_a%d", id, i))
			rhs = append(rhs, "("+b.typ+")("+b.arg+")")
		}
		fmt.Fprintf(&sb, "%s := %s\n", strings.Join(atemps, ", "), strings.Join(rhs, ", "))
		fmt.Fprintf(&sb, "%s = %s\n", blanks(len(atemps)), strings.Join(atemps, ", "))
	}
	if !tail {
		for i, r := range results {
			fmt.Fprintf(&sb, "var %s %s\n_ = %s\n", rtemps[i], r.typ, rtemps[i])
		}
	}
	sb.WriteString("{\n")
	if named {
		for _, r := range results {
			fmt.Fprintf(&sb, "var %s %s\n_ = %s\n", r.name, r.typ, r.name)
		}
	}
	var pn, pa []string
	for i, b := range binds {
		if b.name != "" {
			pn = append(pn, b.name)
			pa = append(pa, atemps[i])
		}
	}
	if len(pn) > 0 {
		fmt.Fprintf(&sb, "%s := %s\n%s = %s\n", strings.Join(pn, ", "), strings.Join(pa, ", "), blanks(len(pn)), strings.Join(pn, ", "))
	}
	if needLabel {
		fmt.Fprintf(&sb, "%s:\nswitch {\ndefault:\n", id)
	}
	sb.Write(btxt)
	if needLabel {
		sb.WriteString("\n}\n")
	}
	sb.WriteString("\n}\n")
	pre := sb.String()
	// operands hoisted in front of the inlined call (see the climb above)
	type spanRepl struct {
		s, e int
		t    string
	}
	var hoistRepls []spanRepl
	if len(hoists) > 0 {
		var hb strings.Builder
		for k, h := range hoists {
			name := fmt.Sprintf("%s_h%d", id, k)
			fmt.Fprintf(&hb, "%s := %s\n_ = %s\n", name, string(src[off(h.Pos()):off(h.End())]), name)
			hoistRepls = append(hoistRepls, spanRepl{off(h.Pos()) - off(stmt.Pos()), off(h.End()) - off(stmt.Pos()), name})
		}
		pre = hb.String() + pre
	}
	if recvHoist != "" {
		pre = recvHoist + pre
	}

	var out string
	editEnd := off(stmt.End())
	stext := string(src[off(stmt.Pos()):off(stmt.End())])
	cs, ce := off(s.call.Pos())-off(stmt.Pos()), off(s.call.End())-off(stmt.Pos())
	scRepl := ""
	if len(scWrappers) > 0 && len(rtemps) == 1 {
		curRepl := rtemps[0]
		curS, curE := off(s.call.Pos()), off(s.call.End())
		for k, x := range scWrappers {
			name := fmt.Sprintf("%s_sc%d", id, k)
			ltxt := string(src[off(x.X.Pos()):off(x.X.End())])
			ys := off(x.Y.Pos())
			rtxt := string(src[ys:curS]) + curRepl + string(src[curE:off(x.Y.End())])
			cond := name
			if x.Op == token.LOR {
				cond = "!" + name
			}
			pre = name + " := " + ltxt + "\nif " + cond + " {\n" + pre + name + " = " + rtxt + "\n}\n"
			curRepl, curS, curE = name, off(x.Pos()), off(x.End())
		}
		scRepl = curRepl
		cs, ce = curS-off(stmt.Pos()), curE-off(stmt.Pos())
	}
	withRepl := func(repl string) string {
		if scRepl != "" {
			repl = scRepl
		}
		rs := append([]spanRepl{{cs, ce, repl}}, hoistRepls...)
		sort.Slice(rs, func(a, b int) bool { return rs[a].s > rs[b].s })
		out := stext
		for _, r := range rs {
			if r.s < 0 || r.e > len(out) {
				continue
			}
			out = out[:r.s] + r.t + out[r.e:]
		}
		return out
	}
	switch {
	case g != nil && g.kind == 1:
		repl := strings.Join(rtemps, ", ")
		out = pre + withRepl(repl)
		var used []string
		for _, n := range g.lhsText {
			if n != "_" {
				used = append(used, n)
			}
		}
		if len(used) > 0 {
			out += "\n" + blanks(len(used)) + " = " + strings.Join(used, ", ")
		}
		if needGuard {
			out += "\n" + string(src[off(g.ifs.Pos()):off(g.ifs.End())])
		}
		editEnd = off(g.ifs.End())
	case g != nil && !needGuard:
		// every return site decided the guard: the if statement is gone
		out = "{\n" + pre + "}"
	case tail:
		// the whole return statement becomes the block (its last statement terminates)
		out = "{\n" + strings.TrimSuffix(pre, "\n") + "\n}"
		// pre already contains its own block; wrap so that the temporaries stay local
	case nres == 0:
		out = "{\n" + pre + "}"
	default:
		repl := strings.Join(rtemps, ", ")
		if es, ok := stmt.(*ast.ExprStmt); ok && es.X == ast.Expr(s.call) {
			out = "{\n" + pre + "}"
		} else if ifs, ok := stmt.(*ast.IfStmt); ok && ifs.Init != nil {
			if es, ok := ifs.Init.(*ast.ExprStmt); ok && es.X == ast.Expr(s.call) {
				// if call(); cond {…}
				is, ie := off(ifs.Init.Pos())-off(stmt.Pos()), off(ifs.Init.End())-off(stmt.Pos())
				out = "{\n" + pre + stext[:is] + stext[ie:] + "\n}"
			} else {
				out = "{\n" + pre + withRepl(repl) + "\n}"
			}
		} else if _, isDecl := stmt.(*ast.DeclStmt); isDecl {
			out = pre + withRepl(repl)
		} else if as, isAs := stmt.(*ast.AssignStmt); isAs && as.Tok == token.DEFINE {
			out = pre + withRepl(repl)
		} else {
			out = "{\n" + pre + withRepl(repl) + "\n}"
		}
	}
	if elsePos && !strings.HasPrefix(out, "{") {
		out = "{\n" + out + "\n}"
	}
	return textEdit{start: off(stmt.Pos()), end: editEnd, text: out}, addImports, ""
}

func blanks(n int) string {
	b := make([]string, n)
	for i := range b {
		b[i] = "_"
	}
	return strings.Join(b, ", ")
}

func isPtrTo(p, t types.Type) bool {
	pt, ok := p.(*types.Pointer)
	return ok && types.Identical(pt.Elem(), t)
}

func containsNode(root ast.Node, n ast.Node) bool {
	if root == nil {
		return false
	}
	return root.Pos() <= n.Pos() && n.End() <= root.End()
}

// resetCaches clears every memo that is keyed by names rather than by program objects; called when the
// analysed program changes (second build variant, normal form).
func resetCaches() {
	nilSummaryCache = map[string]*nilSummary{}
	derefParamCache = map[string]bool{}
	setsVerdictCache = map[*ssa.Function]int{}
	rolesCache = nil
	hmodelCache = nil
	headerSitesFor, headerSitesCache = nil, nil
}

// collectPinned lists the functions a normal form must keep: every function of the role table and of
// the handler model, and every function a rule looked up by name on the plain run.
func collectPinned(P *Program) map[string]bool {
	out := map[string]bool{}
	for k := range P.anchored {
		out[k] = true
	}
	add := func(fn *ssa.Function) {
		for fn != nil && fn.Parent() != nil {
			fn = fn.Parent()
		}
		if fn == nil {
			return
		}
		if o, ok := fn.Object().(*types.Func); ok {
			out[funcKey(o)] = true
		}
	}
	var walk func(v reflect.Value, depth int)
	fnType := reflect.TypeOf((*ssa.Function)(nil))
	walk = func(v reflect.Value, depth int) {
		if depth > 2 {
			return
		}
		switch v.Kind() {
		case reflect.Ptr:
			if v.IsNil() {
				return
			}
			if v.Type() == fnType {
				add(v.Interface().(*ssa.Function))
				return
			}
			if v.Elem().Kind() == reflect.Struct && strings.HasPrefix(v.Type().String(), "*main.") {
				walk(v.Elem(), depth+1)
			}
		case reflect.Struct:
			for i := 0; i < v.NumField(); i++ {
				f := v.Field(i)
				name := v.Type().Field(i).Name
				if name == "HandlerFuncs" || name == "ProcessImpls" || name == "OKWriters" || name == "P" || name == "R" {
					continue
				}
				if !v.Type().Field(i).IsExported() {
					continue
				}
				walk(f, depth)
			}
		case reflect.Slice:
			if v.Type().Elem() == fnType {
				for i := 0; i < v.Len(); i++ {
					walk(v.Index(i), depth)
				}
			}
		}
	}
	rolesCache, hmodelCache = nil, nil
	R := GetRoles(P)
	walk(reflect.ValueOf(R), 0)
	for fn := range serverDenyFns(P) {
		if fn.Parent() == nil {
			add(fn)
		}
	}
	func() {
		defer func() { _ = recover() }()
		walk(reflect.ValueOf(getHModel(P)), 0)
	}()
	return out
}

// normalFormDebug is NormalForm plus a dump of the overlay under $NF_OUT (development aid).
func normalFormDebug(P *Program, pinned map[string]bool, k int) (*Program, []string, error) {
	debugOverlayDir = os.Getenv("NF_OUT")
	return NormalForm(P, pinned, k, "")
}

var debugOverlayDir string

// nfGuards: whether the inliner specialises the caller's guard at the helper's return sites
var nfGuards = true

// keepAliveRef renders a package-level blank declaration that references the imported package.
func keepAliveRef(pn *types.PkgName) string {
	sc := pn.Imported().Scope()
	var c, t, v, f string
	for _, n := range sc.Names() {
		o := sc.Lookup(n)
		if !o.Exported() {
			continue
		}
		switch x := o.(type) {
		case *types.Const:
			if c == "" {
				c = n
			}
		case *types.TypeName:
			if t == "" {
				if nt, ok := x.Type().(*types.Named); ok && nt.TypeParams() == nil {
					t = n
				}
			}
		case *types.Var:
			if v == "" {
				v = n
			}
		case *types.Func:
			if f == "" && x.Type().(*types.Signature).TypeParams() == nil {
				f = n
			}
		}
	}
	switch {
	case c != "":
		return "const _ = " + pn.Name() + "." + c
	case t != "":
		return "var _ *" + pn.Name() + "." + t
	case v != "":
		return "var _ = &" + pn.Name() + "." + v
	case f != "":
		return "var _ = " + pn.Name() + "." + f
	}
	return ""
}

// closureCallees finds local variables that are bound exactly once to a function literal (directly, through
// a conversion, or through a chain of `a := b` definitions), are never reassigned and are used only in call
// position (or in the inliner's own `_ = x` keep-alive lines), together with their call sites.
func (nz *Normalizer) closureCallees(P *Program) []*nfCallee {
	var out []*nfCallee
	for _, pkg := range P.Pkgs {
		if strings.Contains(pkg.PkgPath, "/config/gen/") {
			continue
		}
		info := pkg.TypesInfo
		for _, f := range pkg.Syntax {
			if hasDirective(f) || ast.IsGenerated(f) {
				continue
			}
			type cand struct {
				lit  *ast.FuncLit
				def  *ast.Ident
				stmt ast.Stmt
				bad  bool
				c    *nfCallee
			}
			cands := map[types.Object]*cand{}
			alias := map[types.Object]types.Object{}
			strip := func(e ast.Expr) ast.Expr {
				for {
					switch x := e.(type) {
					case *ast.ParenExpr:
						e = x.X
						continue
					case *ast.CallExpr:
						if len(x.Args) == 1 {
							if tv, ok := info.Types[x.Fun]; ok && tv.IsType() {
								e = x.Args[0]
								continue
							}
						}
					}
					return e
				}
			}
			ast.Inspect(f, func(n ast.Node) bool {
				as, ok := n.(*ast.AssignStmt)
				if !ok || as.Tok != token.DEFINE || len(as.Lhs) != len(as.Rhs) {
					return true
				}
				for i := range as.Lhs {
					id, isId := as.Lhs[i].(*ast.Ident)
					if !isId || id.Name == "_" {
						continue
					}
					obj := info.Defs[id]
					if obj == nil {
						continue
					}
					switch r := strip(as.Rhs[i]).(type) {
					case *ast.FuncLit:
						cands[obj] = &cand{lit: r, def: id, stmt: as}
					case *ast.Ident:
						if o2, isV := info.Uses[r].(*types.Var); isV {
							alias[obj] = o2
						}
					}
				}
				return true
			})
			if len(cands) == 0 {
				continue
			}
			resolve := func(o types.Object) *cand {
				for i := 0; i < 6 && o != nil; i++ {
					if c := cands[o]; c != nil {
						return c
					}
					o = alias[o]
				}
				return nil
			}
			var stack []ast.Node
			ast.Inspect(f, func(n ast.Node) bool {
				if n == nil {
					stack = stack[:len(stack)-1]
					return true
				}
				defer func() { stack = append(stack, n) }()
				// reassignment
				if as, ok := n.(*ast.AssignStmt); ok && as.Tok != token.DEFINE {
					for _, l := range as.Lhs {
						if id, isId := l.(*ast.Ident); isId {
							if cd := resolve(info.Uses[id]); cd != nil {
								cd.bad = true
							}
						}
					}
				}
				id, ok := n.(*ast.Ident)
				if !ok {
					return true
				}
				obj := info.Uses[id]
				cd := resolve(obj)
				if cd == nil {
					return true
				}
				// climb over parentheses and conversions
				k := len(stack) - 1
				child := ast.Node(id)
				for k >= 0 {
					switch p := stack[k].(type) {
					case *ast.ParenExpr:
						child = p
						k--
						continue
					case *ast.CallExpr:
						if len(p.Args) == 1 && p.Args[0] == child {
							if tv, isT := info.Types[p.Fun]; isT && tv.IsType() {
								child = p
								k--
								continue
							}
						}
					}
					break
				}
				if k < 0 {
					cd.bad = true
					return true
				}
				switch p := stack[k].(type) {
				case *ast.CallExpr:
					if p.Fun == child {
						if cd.c == nil {
							sig, _ := info.TypeOf(cd.lit).(*types.Signature)
							if sig == nil {
								cd.bad = true
								return true
							}
							cd.c = &nfCallee{decl: &ast.FuncDecl{Name: cd.def, Type: cd.lit.Type, Body: cd.lit.Body}, file: f, pkg: pkg,
								closure: true, sig: sig, lit: cd.lit, defStmt: cd.stmt}
						}
						cd.c.sites = append(cd.c.sites, &nfSite{call: p, stack: append([]ast.Node(nil), stack[:k+1]...), file: f, pkg: pkg, callee: cd.c})
						return true
					}
					cd.bad = true // passed on as an argument
				case *ast.AssignStmt:
					allBlank := true
					for _, l := range p.Lhs {
						if lid, isId := l.(*ast.Ident); !isId || lid.Name != "_" {
							allBlank = false
						}
					}
					if allBlank {
						return true // keep-alive reference
					}
					if p.Tok == token.DEFINE {
						for i, r := range p.Rhs {
							if r == child && i < len(p.Lhs) {
								if lid, isId := p.Lhs[i].(*ast.Ident); isId && alias[info.Defs[lid]] == obj {
									return true // alias definition
								}
							}
						}
					}
					cd.bad = true
				default:
					cd.bad = true
				}
				return true
			})
			for _, cd := range cands {
				if cd.bad || cd.c == nil || len(cd.c.sites) == 0 || len(cd.c.sites) > nz.maxSite {
					continue
				}
				if cd.c.sig.TypeParams() != nil || !nz.bodyInlinable(cd.c) {
					continue
				}
				out = append(out, cd.c)
			}
		}
	}
	sort.Slice(out, func(i, j int) bool { return out[i].decl.Pos() < out[j].decl.Pos() })
	return out
}
