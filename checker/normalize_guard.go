package main

// Guard specialisation for the inliner (normalize.go). Inlining `x, err := helper(a)` turns every
// `return` of the helper into an assignment and a jump to a join; the caller's guard that follows
// (`if err != nil { …; return }`) then tests a merged value, and a path-insensitive analysis loses the
// correlation between "the helper failed" and "the caller returned". Where the guard's outcome is
// decidable at a return site of the helper from its syntax (the returned value is nil / non-nil /
// true / false / "" there), the guard's terminating body is placed at the return site itself — or the
// site jumps past the guard — which is exactly what the merged program does on that path. When every
// site is decided the guard disappears; otherwise the guard stays for the undecided sites.

import (
	"go/ast"
	"go/constant"

	"go/token"
	"go/types"
	"golang.org/x/tools/go/packages"
	"golang.org/x/tools/go/types/typeutil"
	"sort"
	"strings"
)

type valKind int

const (
	vkUnknown valKind = iota
	vkNil
	vkNonNil
	vkTrue
	vkFalse
	vkEmptyStr
	vkNonEmptyStr
)

type guardInfo struct {
	pkgs     *packages.Package // the package under transformation (for summaries of own functions)
	constRHS ast.Expr          // non-nil: the guard compares the result with this constant expression
	constNeg bool              // the comparison is !=
	negated  bool              // the whole condition is under an odd number of !
	ifs      *ast.IfStmt
	kind     int // 1 following statement, 2 if-init, 3 call in the condition
	k        int // index of the tested result
	eval     func(valKind) (bool, bool)
	lhsObjs  []types.Object // caller variables that receive the results (nil entries: blank)
	lhsText  []string
}

// side results of condOn for comparisons with a constant that is neither nil, "" nor a boolean
var lastConstRHS ast.Expr
var lastConstNeg bool

// condOn analyses a guard condition: a test of exactly one "variable" (as recognised by isVar).
func condOn(cond ast.Expr, isVar func(ast.Expr) (int, bool), info *types.Info) (int, func(valKind) (bool, bool), bool) {
	switch x := cond.(type) {
	case *ast.ParenExpr:
		return condOn(x.X, isVar, info)
	case *ast.UnaryExpr:
		if x.Op == token.NOT {
			k, ev, ok := condOn(x.X, isVar, info)
			if !ok {
				return 0, nil, false
			}
			return k, func(v valKind) (bool, bool) { b, kn := ev(v); return !b, kn }, true
		}
	case *ast.BinaryExpr:
		if x.Op != token.EQL && x.Op != token.NEQ {
			return 0, nil, false
		}
		a, b := x.X, x.Y
		if _, ok := isVar(b); ok {
			a, b = b, a
		}
		k, ok := isVar(a)
		if !ok {
			return 0, nil, false
		}
		want := classifyConst(b, info)
		if want == vkUnknown {
			if tv, ok := info.Types[b]; ok && tv.Value != nil {
				lastConstRHS, lastConstNeg = b, x.Op == token.NEQ
				return k, func(valKind) (bool, bool) { return false, false }, true
			}
			return 0, nil, false
		}
		neg := x.Op == token.NEQ
		return k, func(v valKind) (bool, bool) {
			var eq, known bool
			switch want {
			case vkNil:
				eq, known = v == vkNil, v == vkNil || v == vkNonNil
			case vkEmptyStr:
				eq, known = v == vkEmptyStr, v == vkEmptyStr || v == vkNonEmptyStr
			case vkTrue:
				eq, known = v == vkTrue, v == vkTrue || v == vkFalse
			case vkFalse:
				eq, known = v == vkFalse, v == vkTrue || v == vkFalse
			}
			return eq != neg, known
		}, true
	}
	if k, ok := isVar(cond); ok {
		return k, func(v valKind) (bool, bool) { return v == vkTrue, v == vkTrue || v == vkFalse }, true
	}
	return 0, nil, false
}

func classifyConst(e ast.Expr, info *types.Info) valKind {
	e = ast.Unparen(e)
	switch x := e.(type) {
	case *ast.Ident:
		switch o := info.Uses[x].(type) {
		case *types.Nil:
			return vkNil
		case *types.Const:
			if o.Parent() == types.Universe {
				if x.Name == "true" {
					return vkTrue
				}
				if x.Name == "false" {
					return vkFalse
				}
			}
		}
	case *ast.BasicLit:
		if x.Kind == token.STRING {
			if x.Value == `""` || x.Value == "``" {
				return vkEmptyStr
			}
			return vkNonEmptyStr
		}
	}
	return vkUnknown
}

// classifyValue: what is syntactically known about the value of e at return statement ret of the callee.
func classifyValue(info *types.Info, e ast.Expr, calleeBody *ast.BlockStmt, ret *ast.ReturnStmt) valKind {
	e = ast.Unparen(e)
	if k := classifyConst(e, info); k != vkUnknown {
		return k
	}
	switch x := e.(type) {
	case *ast.UnaryExpr:
		if x.Op == token.AND {
			if _, ok := ast.Unparen(x.X).(*ast.CompositeLit); ok {
				return vkNonNil
			}
		}
	case *ast.CallExpr:
		if sel, ok := x.Fun.(*ast.SelectorExpr); ok {
			if fn, ok := info.Uses[sel.Sel].(*types.Func); ok && fn.Pkg() != nil {
				full := fn.Pkg().Path() + "." + fn.Name()
				if full == "errors.New" || full == "fmt.Errorf" {
					return vkNonNil
				}
			}
		}
	case *ast.Ident:
		obj, _ := info.Uses[x].(*types.Var)
		if obj == nil || obj.IsField() {
			return vkUnknown
		}
		// a package-level sentinel: `var ErrX = errors.New(…)` that is never assigned again
		if obj.Pkg() != nil && obj.Parent() == obj.Pkg().Scope() {
			if nfCurPkg != nil && sentinelNonNil(nfCurPkg, info, obj) {
				return vkNonNil
			}
			return vkUnknown
		}
		// assigned by the statement immediately before the return, in the same statement list
		if rhs := precedingAssign(info, calleeBody, ret, obj); rhs != nil {
			if _, isID := ast.Unparen(rhs).(*ast.Ident); !isID {
				if k := classifyValue(info, rhs, calleeBody, ret); k != vkUnknown {
					return k
				}
			}
		}
		// innermost enclosing `if obj != nil { … ret … }` without a write to obj inside
		var encl *ast.IfStmt
		ast.Inspect(calleeBody, func(n ast.Node) bool {
			if n == nil {
				return true
			}
			if n.Pos() > ret.Pos() || n.End() < ret.End() {
				return false
			}
			if ifs, ok := n.(*ast.IfStmt); ok && ifs.Body.Pos() <= ret.Pos() && ret.End() <= ifs.Body.End() {
				if be, ok := ast.Unparen(ifs.Cond).(*ast.BinaryExpr); ok && be.Op == token.NEQ {
					a, b := ast.Unparen(be.X), ast.Unparen(be.Y)
					if classifyConst(a, info) == vkNil {
						a, b = b, a
					}
					if id, ok := a.(*ast.Ident); ok && info.Uses[id] == types.Object(obj) && classifyConst(b, info) == vkNil {
						encl = ifs
					}
				}
			}
			return true
		})
		if encl == nil {
			return vkUnknown
		}
		if writesTo(info, encl.Body, obj) || addressTakenOrClosureWritten(info, calleeBody, obj) {
			return vkUnknown
		}
		return vkNonNil
	}
	return vkUnknown
}

// writesTo: an assignment, inc/dec, range assignment to obj, or a re-definition that reuses obj, in n.
func writesTo(info *types.Info, n ast.Node, obj types.Object) bool {
	found := false
	isObj := func(e ast.Expr) bool {
		id, ok := ast.Unparen(e).(*ast.Ident)
		return ok && (info.Uses[id] == obj || info.Defs[id] == obj)
	}
	ast.Inspect(n, func(x ast.Node) bool {
		switch s := x.(type) {
		case *ast.AssignStmt:
			for _, l := range s.Lhs {
				if id, ok := ast.Unparen(l).(*ast.Ident); ok && info.Uses[id] == obj {
					found = true
				}
			}
		case *ast.IncDecStmt:
			if isObj(s.X) {
				found = true
			}
		case *ast.RangeStmt:
			if s.Tok == token.ASSIGN && ((s.Key != nil && isObj(s.Key)) || (s.Value != nil && isObj(s.Value))) {
				found = true
			}
		case *ast.UnaryExpr:
			if s.Op == token.AND && isObj(s.X) {
				found = true
			}
		}
		return !found
	})
	return found
}

func addressTakenOrClosureWritten(info *types.Info, body *ast.BlockStmt, obj types.Object) bool {
	found := false
	ast.Inspect(body, func(x ast.Node) bool {
		switch s := x.(type) {
		case *ast.UnaryExpr:
			if id, ok := ast.Unparen(s.X).(*ast.Ident); ok && s.Op == token.AND && info.Uses[id] == obj {
				found = true
			}
		case *ast.FuncLit:
			if writesTo(info, s.Body, obj) {
				found = true
			}
		}
		return !found
	})
	return found
}

// guardBodyOK: the guard body ends in a return and has no branch statement that could bind outside it.
func guardBodyOK(body *ast.BlockStmt) bool {
	if len(body.List) == 0 {
		return false
	}
	if _, ok := body.List[len(body.List)-1].(*ast.ReturnStmt); !ok {
		return false
	}
	ok := true
	var walk func(n ast.Node, inBreakable bool)
	walk = func(n ast.Node, inBreakable bool) {
		ast.Inspect(n, func(x ast.Node) bool {
			if x == nil || !ok {
				return false
			}
			switch s := x.(type) {
			case *ast.FuncLit:
				return false
			case *ast.LabeledStmt, *ast.DeferStmt:
				ok = false
			case *ast.BranchStmt:
				if s.Label != nil || !inBreakable || s.Tok == token.GOTO {
					ok = false
				}
			case *ast.ForStmt:
				if x != n {
					walk(s.Body, true)
					return false
				}
			case *ast.RangeStmt:
				if x != n {
					walk(s.Body, true)
					return false
				}
			case *ast.SwitchStmt:
				if x != n {
					walk(s.Body, true)
					return false
				}
			case *ast.TypeSwitchStmt:
				if x != n {
					walk(s.Body, true)
					return false
				}
			case *ast.SelectStmt:
				if x != n {
					walk(s.Body, true)
					return false
				}
			}
			return true
		})
	}
	walk(body, false)
	return ok
}

// guardBodyAt renders the guard body for insertion at return statement ret of the callee: references to
// the result variables become the result temporaries; ok=false when a name used by the body would be
// captured by a declaration of the callee that is visible at ret.
func (nz *Normalizer) guardBodyAt(fset *token.FileSet, s *nfSite, g *guardInfo, rtemps []string, ret *ast.ReturnStmt, src []byte) (string, bool) {
	info := s.pkg.TypesInfo
	c := s.callee
	body := g.ifs.Body
	off := func(p token.Pos) int { return fset.Position(p).Offset }
	type ren struct {
		s, e int
		t    string
	}
	var rens []ren
	okAll := true
	inner := s.pkg.Types.Scope().Innermost(ret.Pos())
	var visit func(n ast.Node)
	visit = func(n ast.Node) {
		ast.Inspect(n, func(x ast.Node) bool {
			if !okAll {
				return false
			}
			switch y := x.(type) {
			case *ast.SelectorExpr:
				visit(y.X)
				return false
			case *ast.KeyValueExpr:
				// struct-literal field keys are not free identifiers
				if id, ok := y.Key.(*ast.Ident); ok {
					if v, isV := info.Uses[id].(*types.Var); isV && v.IsField() {
						visit(y.Value)
						return false
					}
				}
			case *ast.Ident:
				obj := info.Uses[y]
				if obj == nil {
					return true
				}
				if obj.Pos() >= body.Pos() && obj.Pos() < body.End() {
					return true // declared inside the guard body
				}
				for i, lo := range g.lhsObjs {
					if lo != nil && lo == obj {
						rens = append(rens, ren{off(y.Pos()), off(y.End()), rtemps[i]})
						return true
					}
				}
				if _, isPkg := obj.(*types.PkgName); isPkg {
					// resolved in the caller's file; the callee's file must bind the name identically
					_, found := inner.LookupParent(y.Name, ret.Pos())
					if pn, ok := found.(*types.PkgName); !ok || pn.Imported() != obj.(*types.PkgName).Imported() {
						if found != nil || fset.Position(c.file.Pos()).Filename != fset.Position(s.file.Pos()).Filename {
							okAll = false
						}
					}
					return true
				}
				_, found := inner.LookupParent(y.Name, ret.Pos())
				switch {
				case found == nil || found == obj:
				case found.Pos() >= c.decl.Pos() && found.Pos() < c.decl.End():
					// shadowed by a declaration of the callee: benign only for a parameter that is bound to
					// this very variable and never written
					if !nz.benignShadow(s, found, obj) || writesTo(info, body, obj) {
						okAll = false
					}
				default:
					// a package-level name of the callee's package/file with the same spelling as a caller local:
					// after inlining the caller's local wins, which is what the guard body means
					if obj.Parent() == types.Universe || (obj.Pkg() != nil && obj.Parent() == obj.Pkg().Scope()) {
						okAll = false
					}
				}
			}
			return true
		})
	}
	visit(body)
	if !okAll {
		return "", false
	}
	bs, be := off(body.Lbrace)+1, off(body.Rbrace)
	txt := append([]byte(nil), src[bs:be]...)
	sort.Slice(rens, func(a, b int) bool { return rens[a].s > rens[b].s })
	for _, r := range rens {
		txt = append(txt[:r.s-bs], append([]byte(r.t), txt[r.e-bs:]...)...)
	}
	return string(txt), true
}

// benignShadow: found is a parameter/receiver of the callee whose argument at this site is the
// identifier denoting obj, and the callee never writes the parameter.
func (nz *Normalizer) benignShadow(s *nfSite, found, obj types.Object) bool {
	info := s.pkg.TypesInfo
	c := s.callee
	var argFor ast.Expr
	idx := 0
	if c.decl.Recv != nil {
		for _, f := range c.decl.Recv.List {
			for _, n := range f.Names {
				if info.Defs[n] == found {
					if sel, ok := ast.Unparen(s.call.Fun).(*ast.SelectorExpr); ok {
						argFor = sel.X
					}
				}
			}
		}
	}
	for _, f := range c.decl.Type.Params.List {
		if len(f.Names) == 0 {
			idx++
			continue
		}
		for _, n := range f.Names {
			if info.Defs[n] == found && idx < len(s.call.Args) {
				if _, variadic := f.Type.(*ast.Ellipsis); !variadic {
					argFor = s.call.Args[idx]
				}
			}
			idx++
		}
	}
	if argFor == nil {
		return false
	}
	id, ok := ast.Unparen(argFor).(*ast.Ident)
	if !ok || info.Uses[id] != obj {
		return false
	}
	return !writesTo(info, c.decl.Body, found) && !addressTakenOrClosureWritten(info, c.decl.Body, found)
}

// detectGuard recognises the guard that consumes the results of the call at site s.
func (nz *Normalizer) detectGuard(fset *token.FileSet, s *nfSite, stmt ast.Stmt, parent ast.Node, src []byte) *guardInfo {
	info := s.pkg.TypesInfo
	textOf := func(n ast.Node) string {
		return string(src[fset.Position(n.Pos()).Offset:fset.Position(n.End()).Offset])
	}
	lhsOf := func(as *ast.AssignStmt) ([]types.Object, []string, bool) {
		if as.Tok != token.DEFINE || len(as.Rhs) != 1 || as.Rhs[0] != ast.Expr(s.call) {
			return nil, nil, false
		}
		var objs []types.Object
		var txt []string
		for _, l := range as.Lhs {
			id, ok := l.(*ast.Ident)
			if !ok {
				return nil, nil, false
			}
			txt = append(txt, id.Name)
			if id.Name == "_" {
				objs = append(objs, nil)
				continue
			}
			o := info.Defs[id]
			if o == nil {
				// `x, err := f()` that reuses an existing err: the guard body placed at a return site reads
				// the result temporaries and returns, so the variable itself need not be assigned on that
				// path — unless a closure of the caller could observe it
				o = info.Uses[id]
				if o == nil || usedInFuncLit(info, s.stack, o) {
					return nil, nil, false
				}
			}
			objs = append(objs, o)
		}
		return objs, txt, true
	}
	mk := func(ifs *ast.IfStmt, kind int, objs []types.Object, txt []string) *guardInfo {
		if ifs.Else != nil || !guardBodyOK(ifs.Body) {
			return nil
		}
		isVar := func(e ast.Expr) (int, bool) {
			e = ast.Unparen(e)
			if kind == 3 {
				if e == ast.Expr(s.call) {
					return 0, true
				}
				return 0, false
			}
			id, ok := e.(*ast.Ident)
			if !ok {
				return 0, false
			}
			for i, o := range objs {
				if o != nil && info.Uses[id] == o {
					return i, true
				}
			}
			return 0, false
		}
		lastConstRHS = nil
		k, ev, ok := condOn(ifs.Cond, isVar, info)
		if !ok {
			return nil
		}
		nfCurPkg = s.pkg
		g := &guardInfo{ifs: ifs, kind: kind, k: k, eval: ev, lhsObjs: objs, lhsText: txt, pkgs: s.pkg}
		if lastConstRHS != nil {
			// only the plain forms `v == K` / `v != K` (no surrounding negation) are handled
			if be, isB := ast.Unparen(ifs.Cond).(*ast.BinaryExpr); !isB || (be.X != lastConstRHS && be.Y != lastConstRHS) {
				return nil
			}
			g.constRHS, g.constNeg = lastConstRHS, lastConstNeg
		}
		return g
	}
	switch st := stmt.(type) {
	case *ast.AssignStmt:
		objs, txt, ok := lhsOf(st)
		if !ok {
			return nil
		}
		var list []ast.Stmt
		switch p := parent.(type) {
		case *ast.BlockStmt:
			list = p.List
		case *ast.CaseClause:
			list = p.Body
		case *ast.CommClause:
			list = p.Body
		}
		for i, x := range list {
			if x == stmt && i+1 < len(list) {
				if ifs, ok := list[i+1].(*ast.IfStmt); ok && ifs.Init == nil {
					return mk(ifs, 1, objs, txt)
				}
			}
		}
	case *ast.IfStmt:
		if st.Init != nil {
			as, ok := st.Init.(*ast.AssignStmt)
			if !ok {
				return nil
			}
			objs, txt, ok := lhsOf(as)
			if !ok {
				return nil
			}
			return mk(st, 2, objs, txt)
		}
		return mk(st, 3, nil, nil)
	}
	_ = textOf
	_ = strings.TrimSpace
	return nil
}

// evalAt decides the guard at return statement ret for returned expression e.
func (g *guardInfo) evalAt(info *types.Info, e ast.Expr, calleeBody *ast.BlockStmt, ret *ast.ReturnStmt) (bool, bool) {
	if g.constRHS == nil {
		return g.eval(classifyValue(info, e, calleeBody, ret))
	}
	kv := info.Types[g.constRHS].Value
	e = ast.Unparen(e)
	if tv, ok := info.Types[e]; ok && tv.Value != nil {
		eq := constant.Compare(tv.Value, token.EQL, kv)
		return eq != g.constNeg, true
	}
	// identifier known to differ from K: innermost enclosing `if id != K { … ret … }` without a write
	if id, ok := e.(*ast.Ident); ok {
		obj, _ := info.Uses[id].(*types.Var)
		if obj == nil || obj.IsField() {
			return false, false
		}
		var encl *ast.IfStmt
		ast.Inspect(calleeBody, func(n ast.Node) bool {
			if n == nil {
				return true
			}
			if n.Pos() > ret.Pos() || n.End() < ret.End() {
				return false
			}
			if ifs, ok := n.(*ast.IfStmt); ok && ifs.Body.Pos() <= ret.Pos() && ret.End() <= ifs.Body.End() {
				if be, ok := ast.Unparen(ifs.Cond).(*ast.BinaryExpr); ok && be.Op == token.NEQ {
					a, b := ast.Unparen(be.X), ast.Unparen(be.Y)
					if aid, isID := a.(*ast.Ident); isID && info.Uses[aid] == types.Object(obj) {
						if tv, ok := info.Types[b]; ok && tv.Value != nil && constant.Compare(tv.Value, token.EQL, kv) {
							encl = ifs
						}
					}
				}
			}
			return true
		})
		if encl != nil && !writesTo(info, encl.Body, obj) && !addressTakenOrClosureWritten(info, calleeBody, obj) {
			return g.constNeg, true // value != K: `v != K` is true, `v == K` is false
		}
		// `ok, code := f(…); if !ok { …; return x, code }`: when every return of the own function f that can
		// yield ok == false pairs it with a constant different from K, code differs from K here
		if g.pkgs != nil && siblingFalseImpliesNotConst(g.pkgs, info, calleeBody, ret, obj, kv) {
			return g.constNeg, true
		}
	}
	return false, false
}

// siblingFalseImpliesNotConst: obj is result #j of `r0, …, rj := f(…)` in body, ret lies in the body of
// the innermost `if !ri { … }` for a boolean sibling result ri of the same call (neither written in
// between), f is a function declared in pkg, and every `return` of f whose i-th result is not the
// literal true has a j-th result that is a constant different from k.
func siblingFalseImpliesNotConst(pkg *packages.Package, info *types.Info, body *ast.BlockStmt, ret *ast.ReturnStmt, obj types.Object, k constant.Value) bool {
	var def *ast.AssignStmt
	j := -1
	ast.Inspect(body, func(n ast.Node) bool {
		as, ok := n.(*ast.AssignStmt)
		if !ok || len(as.Rhs) != 1 || as.End() > ret.Pos() {
			return true
		}
		if _, isCall := ast.Unparen(as.Rhs[0]).(*ast.CallExpr); !isCall {
			return true
		}
		for idx, l := range as.Lhs {
			if id, isID := l.(*ast.Ident); isID && (info.Defs[id] == obj || info.Uses[id] == obj) {
				def, j = as, idx
			}
		}
		return true
	})
	if def == nil || j < 0 {
		return false
	}
	call := ast.Unparen(def.Rhs[0]).(*ast.CallExpr)
	fn, _ := typeutil.Callee(info, call).(*types.Func)
	if fn == nil {
		return false
	}
	var fd *ast.FuncDecl
	for _, f := range pkg.Syntax {
		for _, d := range f.Decls {
			if x, ok := d.(*ast.FuncDecl); ok && info.Defs[x.Name] == types.Object(fn) && x.Body != nil {
				fd = x
			}
		}
	}
	if fd == nil {
		return false
	}
	// the boolean sibling tested by the innermost enclosing if
	var encl *ast.IfStmt
	ast.Inspect(body, func(n ast.Node) bool {
		if n == nil {
			return true
		}
		if n.Pos() > ret.Pos() || n.End() < ret.End() {
			return false
		}
		if ifs, ok := n.(*ast.IfStmt); ok && ifs.Body.Pos() <= ret.Pos() && ret.End() <= ifs.Body.End() {
			encl = ifs
		}
		return true
	})
	if encl == nil {
		return false
	}
	cond := ast.Unparen(encl.Cond)
	un, ok := cond.(*ast.UnaryExpr)
	if !ok || un.Op != token.NOT {
		return false
	}
	cid, ok := ast.Unparen(un.X).(*ast.Ident)
	if !ok {
		return false
	}
	i := -1
	for idx, l := range def.Lhs {
		if id, isID := l.(*ast.Ident); isID && (info.Defs[id] != nil && info.Defs[id] == info.Uses[cid] || info.Uses[id] != nil && info.Uses[id] == info.Uses[cid]) {
			i = idx
		}
	}
	if i < 0 || i == j {
		return false
	}
	sib := info.Uses[cid]
	if sib == nil || writesTo(info, encl.Body, sib) || writesTo(info, encl.Body, obj) {
		return false
	}
	// no write to either between the definition and the if
	for _, st := range enclosingList(body, def) {
		if st.Pos() > def.End() && st.End() <= encl.Pos() {
			if writesTo(info, st, sib) || writesTo(info, st, obj) {
				return false
			}
		}
	}
	// summary of f
	okAll, n := true, 0
	ast.Inspect(fd.Body, func(x ast.Node) bool {
		switch r := x.(type) {
		case *ast.FuncLit:
			return false
		case *ast.ReturnStmt:
			n++
			if len(r.Results) <= i || len(r.Results) <= j {
				okAll = false
				return false
			}
			if classifyConst(r.Results[i], info) == vkTrue {
				return true
			}
			tv, has := info.Types[r.Results[j]]
			if !has || tv.Value == nil || constant.Compare(tv.Value, token.EQL, k) {
				okAll = false
			}
		}
		return okAll
	})
	return okAll && n > 0
}

// enclosingList: the statement list of body (searched recursively) that contains st.
func enclosingList(body *ast.BlockStmt, st ast.Stmt) []ast.Stmt {
	var out []ast.Stmt
	ast.Inspect(body, func(n ast.Node) bool {
		var list []ast.Stmt
		switch x := n.(type) {
		case *ast.BlockStmt:
			list = x.List
		case *ast.CaseClause:
			list = x.Body
		case *ast.CommClause:
			list = x.Body
		}
		for _, s := range list {
			if s == st {
				out = list
			}
		}
		return out == nil
	})
	return out
}

// precedingAssign: the right-hand side assigned to obj by the statement that immediately precedes ret
// in the statement list that contains ret (nil when there is none).
func precedingAssign(info *types.Info, body *ast.BlockStmt, ret *ast.ReturnStmt, obj types.Object) ast.Expr {
	var out ast.Expr
	check := func(list []ast.Stmt) {
		for i, st := range list {
			if st != ast.Stmt(ret) || i == 0 {
				continue
			}
			as, ok := list[i-1].(*ast.AssignStmt)
			if !ok || len(as.Lhs) != len(as.Rhs) {
				return
			}
			for j, l := range as.Lhs {
				if id, ok := ast.Unparen(l).(*ast.Ident); ok && (info.Uses[id] == obj || info.Defs[id] == obj) {
					out = as.Rhs[j]
				}
			}
		}
	}
	ast.Inspect(body, func(n ast.Node) bool {
		switch x := n.(type) {
		case *ast.BlockStmt:
			check(x.List)
		case *ast.CaseClause:
			check(x.Body)
		case *ast.CommClause:
			check(x.Body)
		}
		return out == nil
	})
	return out
}

// usedInFuncLit: some function literal of the enclosing function declaration mentions obj.
func usedInFuncLit(info *types.Info, stack []ast.Node, obj types.Object) bool {
	var encl ast.Node
	for _, n := range stack {
		if fd, ok := n.(*ast.FuncDecl); ok {
			encl = fd
			break
		}
	}
	if encl == nil {
		return true
	}
	found := false
	ast.Inspect(encl, func(n ast.Node) bool {
		if fl, ok := n.(*ast.FuncLit); ok {
			ast.Inspect(fl.Body, func(m ast.Node) bool {
				if id, isID := m.(*ast.Ident); isID && info.Uses[id] == obj {
					found = true
				}
				return !found
			})
		}
		return !found
	})
	return found
}

// nfCurPkg: the package whose call site is being transformed (for package-level facts in classifyValue).
var nfCurPkg *packages.Package

// sentinelNonNil: obj is a package-level variable declared with an initialiser errors.New(…) / fmt.Errorf(…)
// and no statement of the package assigns to it or takes its address.
func sentinelNonNil(pkg *packages.Package, info *types.Info, obj types.Object) bool {
	init := false
	for _, f := range pkg.Syntax {
		for _, d := range f.Decls {
			gd, ok := d.(*ast.GenDecl)
			if !ok || gd.Tok != token.VAR {
				continue
			}
			for _, sp := range gd.Specs {
				vs := sp.(*ast.ValueSpec)
				for i, n := range vs.Names {
					if info.Defs[n] != obj || i >= len(vs.Values) {
						continue
					}
					if call, isCall := ast.Unparen(vs.Values[i]).(*ast.CallExpr); isCall {
						if sel, isSel := call.Fun.(*ast.SelectorExpr); isSel {
							if fn, isFn := info.Uses[sel.Sel].(*types.Func); isFn && fn.Pkg() != nil {
								full := fn.Pkg().Path() + "." + fn.Name()
								init = full == "errors.New" || full == "fmt.Errorf"
							}
						}
					}
				}
			}
		}
	}
	if !init {
		return false
	}
	for _, f := range pkg.Syntax {
		if writesTo(info, f, obj) {
			return false
		}
	}
	return true
}
