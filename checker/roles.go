package main

import (
	"go/types"
	"sort"
	"strings"

	"golang.org/x/tools/go/ssa"
)

// Role table: what the code means, resolved through types and resolved callees (never by source
// text or position). Names appear only where a *type* of the repository has to be designated
// (oidc.SessionStore, authz.Handler, ...); functions are found by what they do.

const (
	idStoreIface    = pkgOIDC + ".SessionStore"
	idFactoryIface  = pkgOIDC + ".SessionStoreFactory"
	idGeneratorIfc  = pkgOIDC + ".SessionGenerator"
	idJWKSIface     = pkgOIDC + ".JWKSProvider"
	idHandlerIface  = pkgAuthz + ".Handler"
	idTokenResponse = pkgOIDC + ".TokenResponse"
	idAuthState     = pkgOIDC + ".AuthorizationState"
	idOIDCConfig    = pkgCfgOIDC + ".OIDCConfig"
	idCheckResponse = pkgEnvoyAuth + ".CheckResponse"
	idDenied        = pkgEnvoyAuth + ".DeniedHttpResponse"
	idOkHTTP        = pkgEnvoyAuth + ".OkHttpResponse"

	mSetToken   = idStoreIface + ".SetTokenResponse"
	mGetToken   = idStoreIface + ".GetTokenResponse"
	mSetState   = idStoreIface + ".SetAuthorizationState"
	mGetState   = idStoreIface + ".GetAuthorizationState"
	mClearState = idStoreIface + ".ClearAuthorizationState"
	mRemove     = idStoreIface + ".RemoveSession"
	mSweep      = idStoreIface + ".RemoveAllExpired"
	mFactoryGet = idFactoryIface + ".Get"
	mJWKSGet    = idJWKSIface + ".Get"

	fJWSVerify  = "github.com/lestrrat-go/jwx/v2/jws.Verify"
	fClientDo   = "net/http.Client.Do"
	fParseToken = pkgOIDC + ".ParseToken"
	fParseIDTok = pkgOIDC + ".TokenResponse.ParseIDToken"
)

var storeMethods = []string{mSetToken, mGetToken, mSetState, mGetState, mClearState, mRemove, mSweep}

type Roles struct {
	P *Program

	CheckEntry    *ssa.Function   // implementation of envoy AuthorizationServer.Check in own code
	ProcessImpls  []*ssa.Function // own implementations of authz.Handler.Process
	OIDCProcess   *ssa.Function   // the one whose receiver holds a SessionStoreFactory
	OIDCType      *types.Named
	MockProcess   *ssa.Function
	NewOIDC       *ssa.Function // constructor returning the OIDC handler
	OKWriters     []*ssa.Function
	AllowFn       *ssa.Function // OK writer of the OIDC handler
	DenyWriter    *ssa.Function // writes DeniedResponse + status from a code parameter
	TokenExchange *ssa.Function // own function performing the token endpoint round trip
	Validator     *ssa.Function // own function calling jws.Verify
	Redirect      *ssa.Function // login redirect helper (generates a session id)
	Callback      *ssa.Function // authorization-code callback helper (clears the login state)
	Refresh       *ssa.Function // refresh helper (returns *TokenResponse, calls TokenExchange)
	ExpiryTest    *ssa.Function // (bool, error) test on *TokenResponse
	CookieReader  *ssa.Function // getSessionIDFromCookie
	CookieName    *ssa.Function // getCookieName
	LogoutMatch   *ssa.Function
	CallbackMatch *ssa.Function
	HandlerFuncs  []*ssa.Function // own functions reachable from OIDCProcess by static calls (incl. closures)
	handlerSet    map[*ssa.Function]bool

	missing []string
}

var rolesCache *Roles

func GetRoles(P *Program) *Roles {
	if rolesCache != nil && rolesCache.P == P {
		return rolesCache
	}
	R := &Roles{P: P, handlerSet: map[*ssa.Function]bool{}}
	rolesCache = R
	miss := func(role string) { R.missing = append(R.missing, role) }

	// Handler implementations
	for _, fn := range P.Funcs {
		if fn.Signature.Recv() == nil || fn.Parent() != nil {
			continue
		}
		pk := ""
		if fn.Package() != nil {
			pk = fn.Package().Pkg.Path()
		}
		if fn.Name() == "Process" && pk == pkgAuthz && fn.Signature.Params().Len() == 3 &&
			typeID(fn.Signature.Params().At(2).Type()) == idCheckResponse {
			R.ProcessImpls = append(R.ProcessImpls, fn)
			named := recvNamed(fn)
			if named != nil && structHasFieldOfType(named, idFactoryIface) {
				R.OIDCProcess = fn
				R.OIDCType = named
			} else {
				R.MockProcess = fn
			}
		}
		if fn.Name() == "Check" && pk == pkgServer && fn.Signature.Params().Len() == 2 &&
			typeID(fn.Signature.Params().At(1).Type()) == pkgEnvoyAuth+".CheckRequest" {
			R.CheckEntry = fn
		}
	}
	if R.OIDCProcess == nil {
		miss("OIDCProcess")
	}
	if R.CheckEntry == nil {
		miss("CheckEntry")
	}

	// Verdict writers: own functions that store into CheckResponse.HttpResponse
	for _, fn := range P.Funcs {
		okW, denyW := false, false
		for _, b := range fn.Blocks {
			for _, ins := range b.Instrs {
				st, ok := ins.(*ssa.Store)
				if !ok {
					continue
				}
				fa, ok := st.Addr.(*ssa.FieldAddr)
				if !ok || fieldAddrID(fa) != idCheckResponse+".HttpResponse" {
					continue
				}
				switch typeID(stripConv(st.Val).Type()) {
				case pkgEnvoyAuth + ".CheckResponse_OkResponse":
					okW = true
				case pkgEnvoyAuth + ".CheckResponse_DeniedResponse":
					denyW = true
				default:
					okW = true // unknown payload: treat as potential OK writer (fail closed)
				}
			}
		}
		if okW {
			R.OKWriters = append(R.OKWriters, fn)
			if recvNamed(fn) == R.OIDCType && R.OIDCType != nil && R.AllowFn == nil {
				R.AllowFn = fn
			}
		}
		if denyW && !okW {
			if R.DenyWriter == nil {
				R.DenyWriter = fn
			} else {
				R.DenyWriter = nil
				miss("DenyWriter(ambiguous)")
			}
		}
	}
	if R.AllowFn == nil {
		miss("AllowFn")
	}
	if R.DenyWriter == nil {
		miss("DenyWriter")
	}

	// Handler function set
	if R.OIDCProcess != nil {
		var walk func(fn *ssa.Function)
		walk = func(fn *ssa.Function) {
			if fn == nil || R.handlerSet[fn] || fn.Blocks == nil {
				return
			}
			pk := fn.Package()
			if pk == nil && fn.Parent() != nil {
				pk = fn.Parent().Package()
			}
			if pk == nil || pk.Pkg.Path() != pkgAuthz {
				return
			}
			R.handlerSet[fn] = true
			for _, b := range fn.Blocks {
				for _, ins := range b.Instrs {
					switch x := ins.(type) {
					case ssa.CallInstruction:
						walk(x.Common().StaticCallee())
					case *ssa.MakeClosure:
						walk(x.Fn.(*ssa.Function))
					}
				}
			}
		}
		walk(R.OIDCProcess)
		for fn := range R.handlerSet {
			R.HandlerFuncs = append(R.HandlerFuncs, fn)
		}
		sort.Slice(R.HandlerFuncs, func(i, j int) bool { return R.HandlerFuncs[i].Pos() < R.HandlerFuncs[j].Pos() })
	}

	one := func(role string, pred func(fn *ssa.Function) bool, set []*ssa.Function) *ssa.Function {
		var found []*ssa.Function
		for _, fn := range set {
			if fn.Parent() != nil {
				continue // closures are part of their enclosing function, never a role of their own
			}
			if pred(fn) {
				found = append(found, fn)
			}
		}
		if len(found) == 1 {
			return found[0]
		}
		if len(found) > 1 {
			// a helper extracted from the role function carries the trait too: the role is the candidate that calls the
			// others (directly), when exactly one candidate is called by no other candidate
			// … and the others are called by candidates only (a helper that also serves other functions is a role of its own
			// that merely acquired a wrapper: the ambiguity stands and the normal forms resolve it by inlining the wrapper)
			var outer []*ssa.Function
			inFound := map[*ssa.Function]bool{}
			for _, f := range found {
				inFound[f] = true
			}
			private := true
			for _, f := range found {
				calledByOther := false
				for _, g := range found {
					if g != f && len(callsToFn(g, f)) > 0 {
						calledByOther = true
					}
				}
				if !calledByOther {
					outer = append(outer, f)
					continue
				}
				for _, site := range callsToFn2(P, f) {
					caller := site.Parent()
					for caller.Parent() != nil {
						caller = caller.Parent()
					}
					if !inFound[caller] {
						private = false
					}
				}
			}
			if len(outer) == 1 && private {
				return outer[0]
			}
		}
		if len(found) == 0 {
			miss(role)
		} else {
			var n []string
			for _, f := range found {
				n = append(n, f.Name())
			}
			miss(role + "(ambiguous:" + strings.Join(n, ",") + ")")
		}
		return nil
	}
	hf := R.HandlerFuncs
	retTypes := func(fn *ssa.Function) string {
		var ts []string
		res := fn.Signature.Results()
		for i := 0; i < res.Len(); i++ {
			ts = append(ts, typeID(res.At(i).Type()))
		}
		return strings.Join(ts, ",")
	}
	// Each role is recognised by any of several independent structural traits, so that removing one
	// call (a realistic defect) does not make the role — and with it every property — unresolvable.
	R.TokenExchange = one("TokenExchange", func(fn *ssa.Function) bool {
		return len(callsTo(fn, fClientDo)) > 0 || retTypes(fn) == pkgAuthz+".idpTokensResponse,"+pkgCodes+".Code"
	}, hf)
	R.Validator = one("IDTokenValidator", func(fn *ssa.Function) bool {
		return len(callsTo(fn, fJWSVerify)) > 0 || (retTypes(fn) == "bool,"+pkgCodes+".Code" && recvNamed(fn) == R.OIDCType)
	}, hf)
	R.Redirect = one("RedirectHelper", func(fn *ssa.Function) bool {
		return len(callsTo(fn, idGeneratorIfc+".GenerateSessionID")) > 0 || len(callsTo(fn, mSetState)) > 0
	}, hf)
	R.Callback = one("CallbackHelper", func(fn *ssa.Function) bool {
		if len(callsTo(fn, mClearState)) > 0 {
			return true
		}
		// performs a token exchange but does not hand tokens back (the refresh helper does)
		if R.TokenExchange != nil && fn != R.TokenExchange && fn.Signature.Results().Len() == 0 {
			for _, c := range allCalls(fn) {
				if c.Common().StaticCallee() == R.TokenExchange {
					return true
				}
			}
		}
		return false
	}, hf)
	R.Refresh = one("RefreshHelper", func(fn *ssa.Function) bool {
		res := fn.Signature.Results()
		if res.Len() != 1 || typeID(res.At(0).Type()) != idTokenResponse || R.TokenExchange == nil {
			return false
		}
		for _, c := range allCalls(fn) {
			if c.Common().StaticCallee() == R.TokenExchange {
				return true
			}
		}
		return false
	}, hf)
	R.ExpiryTest = one("ExpiryTest", func(fn *ssa.Function) bool {
		res := fn.Signature.Results()
		if res.Len() != 2 || !isBool(res.At(0).Type()) || !isErrorType(res.At(1).Type()) {
			return false
		}
		ps := fn.Signature.Params()
		for i := 0; i < ps.Len(); i++ {
			if typeID(ps.At(i).Type()) == idTokenResponse {
				return true
			}
		}
		return false
	}, hf)
	R.CookieName = one("CookieName", func(fn *ssa.Function) bool {
		res := fn.Signature.Results()
		return res.Len() == 1 && isString(res.At(0).Type()) && len(callsTo(fn, idOIDCConfig+".GetCookieNamePrefix")) > 0
	}, hf)
	R.CookieReader = one("CookieReader", func(fn *ssa.Function) bool {
		res := fn.Signature.Results()
		return res.Len() == 1 && isString(res.At(0).Type()) && len(callsTo(fn, pkgHTTP+".DecodeCookiesHeader")) > 0
	}, hf)
	R.LogoutMatch = one("LogoutMatch", func(fn *ssa.Function) bool {
		res := fn.Signature.Results()
		return res.Len() == 1 && isBool(res.At(0).Type()) && len(callsTo(fn, pkgCfgOIDC+".LogoutConfig.GetPath")) > 0
	}, hf)
	R.CallbackMatch = one("CallbackMatch", func(fn *ssa.Function) bool {
		res := fn.Signature.Results()
		return res.Len() == 1 && isBool(res.At(0).Type()) && len(callsTo(fn, idOIDCConfig+".GetCallbackUri")) > 0
	}, hf)
	// constructor
	for _, fn := range P.Funcs {
		if fn.Package() != nil && fn.Package().Pkg.Path() == pkgAuthz && fn.Signature.Recv() == nil && fn.Parent() == nil {
			res := fn.Signature.Results()
			if res.Len() == 2 && typeID(res.At(0).Type()) == idHandlerIface {
				R.NewOIDC = fn
			}
		}
	}
	if R.NewOIDC == nil {
		miss("NewOIDCHandler")
	}
	return R
}

func (R *Roles) InHandler(fn *ssa.Function) bool { return R.handlerSet[fn] }

// Missing returns the unresolved roles among those requested (all when none given).
func (R *Roles) Missing(roles ...string) []string {
	if len(roles) == 0 {
		return R.missing
	}
	var out []string
	for _, m := range R.missing {
		for _, r := range roles {
			if strings.HasPrefix(m, r) {
				out = append(out, m)
			}
		}
	}
	return out
}

func recvNamed(fn *ssa.Function) *types.Named {
	if fn.Signature.Recv() == nil {
		return nil
	}
	t := fn.Signature.Recv().Type()
	if p, ok := t.(*types.Pointer); ok {
		t = p.Elem()
	}
	n, _ := t.(*types.Named)
	return n
}

func structHasFieldOfType(n *types.Named, tid string) bool {
	s, ok := n.Underlying().(*types.Struct)
	if !ok {
		return false
	}
	for i := 0; i < s.NumFields(); i++ {
		if typeID(s.Field(i).Type()) == tid {
			return true
		}
	}
	return false
}

func isBool(t types.Type) bool {
	b, ok := t.Underlying().(*types.Basic)
	return ok && b.Kind() == types.Bool
}
func isString(t types.Type) bool {
	b, ok := t.Underlying().(*types.Basic)
	return ok && b.Kind() == types.String
}
func isErrorType(t types.Type) bool {
	// go/ssa uses opaque internal types for some values (iterators); only named types can be `error`
	n, ok := t.(*types.Named)
	return ok && n.Obj().Pkg() == nil && n.Obj().Name() == "error"
}
func isCodeType(t types.Type) bool { return typeID(t) == pkgCodes+".Code" }

// requireRoles records anchor failures for the listed roles; returns false if any is missing.
func requireRoles(c *Check, rule string, R *Roles, roles ...string) bool {
	ok := true
	for _, r := range roles {
		if m := R.Missing(r); len(m) > 0 {
			c.Anchor(rule, strings.Join(m, ","), false)
			ok = false
		}
	}
	return ok
}
