package main

import (
	"fmt"
	"go/token"
	"go/types"
	"os"
	"sort"
	"strings"

	"golang.org/x/tools/go/packages"
	"golang.org/x/tools/go/ssa"
	"golang.org/x/tools/go/ssa/ssautil"
)

const (
	modPath = "github.com/istio-ecosystem/authservice"
	// package paths of the analysed program (own code)
	pkgAuthz   = modPath + "/internal/authz"
	pkgServer  = modPath + "/internal/server"
	pkgOIDC    = modPath + "/internal/oidc"
	pkgHTTP    = modPath + "/internal/http"
	pkgInt     = modPath + "/internal"
	pkgK8s     = modPath + "/internal/k8s"
	pkgCmd     = modPath + "/cmd"
	pkgCfgV1   = modPath + "/config/gen/go/v1"
	pkgCfgOIDC = modPath + "/config/gen/go/v1/oidc"
	pkgCfgMock = modPath + "/config/gen/go/v1/mock"

	pkgEnvoyAuth = "github.com/envoyproxy/go-control-plane/envoy/service/auth/v3"
	pkgEnvoyCore = "github.com/envoyproxy/go-control-plane/envoy/config/core/v3"
	pkgCodes     = "google.golang.org/grpc/codes"
	pkgStatus    = "google.golang.org/genproto/googleapis/rpc/status"
)

// ownPkgFloor is the number of own (production) packages confirmed by hand on the pinned tree.
const ownPkgFloor = 10

// Program is the loaded, type-checked and SSA-built program under analysis.
type Program struct {
	Tier    string
	RepoDir string
	Fset    *token.FileSet
	Pkgs    []*packages.Package // own packages (production code only)
	AllPkgs int                 // number of packages visited (deps included)
	Prog    *ssa.Program
	SSA     map[string]*ssa.Package // own packages by path
	Funcs   []*ssa.Function         // own source functions incl. methods and closures, sorted by position
	Whole   bool                    // whole-program SSA (thorough) or own packages only
	Tags    string

	callersCache map[*ssa.Function][]ssa.CallInstruction
	anchored     map[string]bool // FullName of functions looked up by name (P.Func): anchors of rules
	NormalOf     []string        // non-nil: this program is an inlined normal form; the inlining log
}

func isOwnPath(p string) bool {
	if p != modPath && !strings.HasPrefix(p, modPath+"/") {
		return false
	}
	return !strings.HasPrefix(p, modPath+"/e2e")
}

// LoadProgram loads /repo's current working tree. whole=false: own packages from source, dependencies
// from export data, SSA bodies for own packages only. whole=true: every package from source.
func LoadProgram(repo string, whole bool, goexperiment string) (*Program, error) {
	return LoadProgramOverlay(repo, whole, goexperiment, nil)
}

// LoadProgramOverlay is LoadProgram with some files replaced by in-memory contents (the inlined
// normal form, see normalize.go).
func LoadProgramOverlay(repo string, whole bool, goexperiment string, overlay map[string][]byte) (*Program, error) {
	mode := packages.LoadSyntax
	if whole {
		mode = packages.LoadAllSyntax
	}
	env := append(os.Environ(), "GOWORK=off", "GOFLAGS=-mod=mod", "GOPROXY=off")
	if goexperiment != "" {
		env = append(env, "GOEXPERIMENT="+goexperiment)
	}
	fset := token.NewFileSet()
	cfg := &packages.Config{
		Mode:  mode,
		Dir:   repo,
		Fset:  fset,
		Tests: false,
		Env:   env,
	}
	if len(overlay) > 0 {
		cfg.Overlay = overlay
	}
	pkgs, err := packages.Load(cfg, "./cmd/...", "./internal/...", "./config/...")
	if err != nil {
		return nil, fmt.Errorf("go/packages load: %w", err)
	}
	var errs []string
	n := 0
	packages.Visit(pkgs, nil, func(p *packages.Package) {
		n++
		if isOwnPath(p.PkgPath) || whole {
			for _, e := range p.Errors {
				errs = append(errs, p.PkgPath+": "+e.Error())
			}
		}
		if p.IllTyped && isOwnPath(p.PkgPath) {
			errs = append(errs, p.PkgPath+": ill-typed")
		}
	})
	if len(errs) > 0 {
		sort.Strings(errs)
		if len(errs) > 10 {
			errs = errs[:10]
		}
		return nil, fmt.Errorf("load/type errors (analysis refuses to guess): %s", strings.Join(errs, "; "))
	}
	var own []*packages.Package
	for _, p := range pkgs {
		if isOwnPath(p.PkgPath) {
			own = append(own, p)
		}
	}
	if len(own) < ownPkgFloor {
		return nil, fmt.Errorf("only %d own packages loaded (floor %d)", len(own), ownPkgFloor)
	}
	sort.Slice(own, func(i, j int) bool { return own[i].PkgPath < own[j].PkgPath })

	var prog *ssa.Program
	var spkgs []*ssa.Package
	bmode := ssa.InstantiateGenerics
	if whole {
		prog, spkgs = ssautil.AllPackages(pkgs, bmode)
	} else {
		prog, spkgs = ssautil.Packages(pkgs, bmode)
	}
	prog.Build()
	P := &Program{
		RepoDir: repo, Fset: fset, Pkgs: own, AllPkgs: n, Prog: prog,
		SSA: map[string]*ssa.Package{}, Whole: whole, Tags: goexperiment,
	}
	for i, sp := range spkgs {
		if sp == nil {
			return nil, fmt.Errorf("no SSA for %s", pkgs[i].PkgPath)
		}
		if isOwnPath(sp.Pkg.Path()) {
			P.SSA[sp.Pkg.Path()] = sp
		}
	}
	for fn := range ssautil.AllFunctions(prog) {
		if fn.Synthetic != "" && fn.Parent() == nil {
			continue
		}
		pk := fn.Package()
		if pk == nil && fn.Parent() != nil {
			pk = fn.Parent().Package()
		}
		if pk == nil || !isOwnPath(pk.Pkg.Path()) {
			continue
		}
		if fn.Blocks == nil {
			continue
		}
		if fn.Synthetic != "" {
			continue
		}
		P.Funcs = append(P.Funcs, fn)
	}
	sort.Slice(P.Funcs, func(i, j int) bool {
		a, b := P.Funcs[i], P.Funcs[j]
		if a.Pos() != b.Pos() {
			return a.Pos() < b.Pos()
		}
		return a.String() < b.String()
	})
	return P, nil
}

// Pos renders a position relative to the repository root.
func (P *Program) Pos(p token.Pos) string {
	if !p.IsValid() {
		return "-"
	}
	pos := P.Fset.Position(p)
	f := strings.TrimPrefix(pos.Filename, P.RepoDir+"/")
	return fmt.Sprintf("%s:%d", f, pos.Line)
}

// Func finds an own package-level function or method: Func(pkgAuthz, "setDenyResponse"),
// Func(pkgAuthz, "(*oidcHandler).Process"). nil when absent.
func (P *Program) Func(pkg, name string) *ssa.Function {
	fn := P.lookupFunc(pkg, name)
	if fn != nil {
		if o, ok := fn.Object().(*types.Func); ok {
			if P.anchored == nil {
				P.anchored = map[string]bool{}
			}
			P.anchored[o.FullName()] = true
		}
	}
	return fn
}

// MarkAnchor records functions that a rule resolved as anchors by what they do; the inlined normal
// forms keep them as functions.
func (P *Program) MarkAnchor(fns ...*ssa.Function) {
	for _, fn := range fns {
		for fn != nil && fn.Parent() != nil {
			fn = fn.Parent()
		}
		if fn == nil {
			continue
		}
		if o, ok := fn.Object().(*types.Func); ok {
			if P.anchored == nil {
				P.anchored = map[string]bool{}
			}
			P.anchored[o.FullName()] = true
		}
	}
}

func (P *Program) lookupFunc(pkg, name string) *ssa.Function {
	sp := P.SSA[pkg]
	if sp == nil {
		return nil
	}
	if strings.HasPrefix(name, "(") {
		// method
		end := strings.Index(name, ")")
		recv := name[1:end]
		mname := name[end+2:]
		ptr := strings.HasPrefix(recv, "*")
		recv = strings.TrimPrefix(recv, "*")
		m := sp.Members[recv]
		tn, ok := m.(*ssa.Type)
		if !ok {
			return nil
		}
		var T types.Type = tn.Type()
		if ptr {
			T = types.NewPointer(T)
		}
		sel := P.Prog.MethodSets.MethodSet(T).Lookup(sp.Pkg, mname)
		if sel == nil {
			return nil
		}
		fn := P.Prog.MethodValue(sel)
		if fn != nil && fn.Synthetic != "" {
			// wrapper for a value-receiver method: find the declared one
			if !ptr {
				return fn
			}
			sel2 := P.Prog.MethodSets.MethodSet(tn.Type()).Lookup(sp.Pkg, mname)
			if sel2 != nil {
				return P.Prog.MethodValue(sel2)
			}
		}
		return fn
	}
	if f, ok := sp.Members[name].(*ssa.Function); ok {
		return f
	}
	return nil
}

// NamedType returns the named type pkg.name (own or dependency) or nil.
func (P *Program) NamedType(pkg, name string) *types.Named {
	for _, p := range P.Prog.AllPackages() {
		if p.Pkg.Path() == pkg {
			if o := p.Pkg.Scope().Lookup(name); o != nil {
				if n, ok := o.Type().(*types.Named); ok {
					return n
				}
			}
		}
	}
	return nil
}

// FuncDisplay is a stable, position-free name for a function ("pkg.(*T).m", "pkg.f$1").
func FuncDisplay(fn *ssa.Function) string {
	if fn == nil {
		return "<nil>"
	}
	s := fn.String()
	s = strings.ReplaceAll(s, modPath+"/", "")
	return s
}
