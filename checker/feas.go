package main

import (
	"fmt"
	"go/token"
	"sort"
	"strings"

	"golang.org/x/tools/go/ssa"
)

// P-feas: path feasibility under assumed truth values of a few boolean atoms. existsPath explores the
// CFG of one function from its entry; at an If whose condition can be evaluated from the assumed atoms
// (through negation and through the boolean phis that lower && and ||, resolved along the path) only
// the consistent edge is followed, at every other If both. It answers "is there a path, consistent with
// the assumptions, from entry to an instruction satisfying target?".  Unknown conditions are explored
// both ways, so a `no path` answer is sound with respect to the assumed atoms; a `path exists` answer
// may be infeasible for reasons outside the atoms (callers treat it as a violation only where the atoms
// are the whole story).

type atomEnv map[ssa.Value]bool

type feasState struct {
	b    *ssa.BasicBlock
	prev *ssa.BasicBlock
	env  string
}

func evalBool(v ssa.Value, atoms atomEnv, phis map[*ssa.Phi]int8) (bool, bool) {
	if b, ok := atoms[v]; ok {
		return b, true
	}
	if b, ok := constBool(v); ok {
		return b, true
	}
	switch x := v.(type) {
	case *ssa.UnOp:
		if x.Op == token.NOT {
			if b, ok := evalBool(x.X, atoms, phis); ok {
				return !b, true
			}
		}
	case *ssa.Phi:
		if s, ok := phis[x]; ok && s != 0 {
			return s > 0, true
		}
	case *ssa.BinOp:
		// comparisons between two known booleans are not needed here
	}
	return false, false
}

func envKey(phis map[*ssa.Phi]int8) string {
	var parts []string
	for p, v := range phis {
		parts = append(parts, fmt.Sprintf("%s=%d", p.Name(), v))
	}
	sort.Strings(parts)
	return strings.Join(parts, ",")
}

// existsPath reports whether an instruction satisfying target is reachable from the entry of fn on a
// path consistent with atoms. barrier instructions end a path.
func existsPath(fn *ssa.Function, atoms atomEnv, target func(ssa.Instruction) bool, barrier func(ssa.Instruction) bool) ssa.Instruction {
	if len(fn.Blocks) == 0 {
		return nil
	}
	seen := map[feasState]bool{}
	var found ssa.Instruction
	var dfs func(b, prev *ssa.BasicBlock, phis map[*ssa.Phi]int8, depth int)
	dfs = func(b, prev *ssa.BasicBlock, phis map[*ssa.Phi]int8, depth int) {
		if found != nil || depth > 400 {
			return
		}
		// resolve this block's boolean phis for the edge prev→b
		np := phis
		if prev != nil {
			idx := -1
			for i, p := range b.Preds {
				if p == prev {
					idx = i
				}
			}
			copied := false
			for _, ins := range b.Instrs {
				ph, ok := ins.(*ssa.Phi)
				if !ok {
					break
				}
				if !isBool(ph.Type()) || idx < 0 {
					continue
				}
				if !copied {
					np = map[*ssa.Phi]int8{}
					for k, v := range phis {
						np[k] = v
					}
					copied = true
				}
				if val, ok := evalBool(ph.Edges[idx], atoms, phis); ok {
					if val {
						np[ph] = 1
					} else {
						np[ph] = -1
					}
				} else {
					np[ph] = 0
				}
			}
		}
		st := feasState{b, prev, envKey(np)}
		if seen[st] {
			return
		}
		seen[st] = true
		for _, ins := range b.Instrs {
			if target(ins) {
				found = ins
				return
			}
			if barrier != nil && barrier(ins) {
				return
			}
		}
		if len(b.Instrs) == 0 {
			return
		}
		if iff, ok := b.Instrs[len(b.Instrs)-1].(*ssa.If); ok {
			if val, known := evalBool(iff.Cond, atoms, np); known {
				if val {
					dfs(b.Succs[0], b, np, depth+1)
				} else {
					dfs(b.Succs[1], b, np, depth+1)
				}
				return
			}
		}
		for _, s := range b.Succs {
			dfs(s, b, np, depth+1)
		}
	}
	dfs(fn.Blocks[0], nil, map[*ssa.Phi]int8{}, 0)
	return found
}

// existsPathFrom: like existsPath but starting just after instruction `from` (phi environment empty).
func existsPathFrom(fn *ssa.Function, atoms atomEnv, from ssa.Instruction, target func(ssa.Instruction) bool, barrier func(ssa.Instruction) bool) ssa.Instruction {
	b := from.Block()
	idx := instrIndex(from) + 1
	for i := idx; i < len(b.Instrs); i++ {
		if target(b.Instrs[i]) {
			return b.Instrs[i]
		}
		if barrier != nil && barrier(b.Instrs[i]) {
			return nil
		}
	}
	var found ssa.Instruction
	seen := map[feasState]bool{}
	var dfs func(blk, prev *ssa.BasicBlock, phis map[*ssa.Phi]int8, depth int)
	dfs = func(blk, prev *ssa.BasicBlock, phis map[*ssa.Phi]int8, depth int) {
		if found != nil || depth > 400 {
			return
		}
		np := map[*ssa.Phi]int8{}
		for k, v := range phis {
			np[k] = v
		}
		pidx := -1
		for i, p := range blk.Preds {
			if p == prev {
				pidx = i
			}
		}
		for _, ins := range blk.Instrs {
			ph, ok := ins.(*ssa.Phi)
			if !ok {
				break
			}
			if isBool(ph.Type()) && pidx >= 0 {
				if val, k := evalBool(ph.Edges[pidx], atoms, phis); k {
					if val {
						np[ph] = 1
					} else {
						np[ph] = -1
					}
				}
			}
		}
		st := feasState{blk, prev, envKey(np)}
		if seen[st] {
			return
		}
		seen[st] = true
		for _, ins := range blk.Instrs {
			if target(ins) {
				found = ins
				return
			}
			if barrier != nil && barrier(ins) {
				return
			}
		}
		if iff, ok := blk.Instrs[len(blk.Instrs)-1].(*ssa.If); ok {
			if val, known := evalBool(iff.Cond, atoms, np); known {
				if val {
					dfs(blk.Succs[0], blk, np, depth+1)
				} else {
					dfs(blk.Succs[1], blk, np, depth+1)
				}
				return
			}
		}
		for _, s := range blk.Succs {
			dfs(s, blk, np, depth+1)
		}
	}
	// leave the starting block
	if len(b.Instrs) > 0 {
		if iff, ok := b.Instrs[len(b.Instrs)-1].(*ssa.If); ok {
			if val, known := evalBool(iff.Cond, atoms, map[*ssa.Phi]int8{}); known {
				if val {
					dfs(b.Succs[0], b, map[*ssa.Phi]int8{}, 0)
				} else {
					dfs(b.Succs[1], b, map[*ssa.Phi]int8{}, 0)
				}
				return found
			}
		}
	}
	for _, s := range b.Succs {
		dfs(s, b, map[*ssa.Phi]int8{}, 0)
	}
	return found
}

// existsPathInLoop: existsPath where the atoms are comparisons evaluated inside a loop body: the search
// covers one iteration — it starts at the head of the innermost loop around the atoms and stops when the
// head is reached again — so that paths which bypass the atoms' blocks inside the iteration are found.
func existsPathInLoop(fn *ssa.Function, atoms atomEnv, target func(ssa.Instruction) bool) ssa.Instruction {
	for a := range atoms {
		ins, ok := a.(ssa.Instruction)
		if !ok {
			continue
		}
		head := loopHeadOf(ins.Block())
		if head == nil {
			return existsPath(fn, atoms, target, nil)
		}
		from := head.Instrs[len(head.Instrs)-1]
		hit := existsPathFrom(fn, atoms, from, target, func(i ssa.Instruction) bool {
			return i.Block() == head && i == head.Instrs[0]
		})
		if hit != nil {
			return hit
		}
	}
	return nil
}
