package main

import (
	"fmt"
	"go/token"
	"go/types"
	"strings"

	"golang.org/x/tools/go/ssa"
)

func init() {
	registry["C18"] = checkC18
	registry["C19"] = checkC19
}

func checkC18(c *Check) {
	P := c.P
	R := GetRoles(P)
	c.Assumes("multi-filter histories as such are not explored; the rule decides whether any per-filter value at all reaches the session lookup, which is necessary for isolation")
	c.Rule("C18.R1", "namespacing: for the handler of a filter at least one of these holds — (a) the store instance returned by the factory is created per filter (its creation is not latched by an `already created` test and it is looked up under a key that is unique per filter), (b) the key of every SessionStore call in the handler includes a per-filter discriminator besides the cookie's session id, (c) stored session metadata is compared with the handler's configuration before a session is trusted. Otherwise sessions are looked up by cookie value alone in a store shared between filters.", 1)
	c.Rule("C18.R2", "timeouts follow the filter: a store that can serve several filters must not be constructed with the session timeouts of a single filter.", 1)
	c.Rule("C18.R3", "per-filter parameters: every OIDC configuration getter evaluated in the handler's functions is applied to the handler's own configuration (o.config, or a parameter that receives it at every call site) — never to a package-level or other filter's configuration.", 20)
	if !requireRoles(c, "C18.R1", R, "OIDCProcess") {
		return
	}
	pre := P.Func(pkgOIDC, "(*sessionStoreFactory).PreRun")
	get := P.Func(pkgOIDC, "(*sessionStoreFactory).Get")
	if !c.Anchor("C18.R1", "session store factory PreRun/Get", pre != nil && get != nil) {
		return
	}
	// ---- (a) per-filter stores?
	perFilter := true
	why := []string{}
	for _, ci := range allCalls(pre) {
		callee := ci.Common().StaticCallee()
		if callee == nil || (callee.Name() != "NewMemoryStore" && callee.Name() != "NewRedisStore") {
			continue
		}
		fs := FactsOf(pre).At(ci)
		// latched by `s.memory == nil`
		for cond, pol := range fs {
			if bo, ok := cond.(*ssa.BinOp); ok && isNilConst(bo.Y) {
				if _, f, okf := fieldLoad(resolveCell(stripConv(bo.X))); okf && f != nil && typeID(f.Type()) == idStoreIface {
					if (bo.Op == token.EQL && pol) || (bo.Op == token.NEQ && !pol) {
						perFilter = false
						why = append(why, callee.Name()+" is created once (latched by `"+f.Name()+" == nil`) and shared by every filter without a Redis URI")
					}
				}
			}
		}
	}
	// redis stores keyed by server URI only
	for _, b := range pre.Blocks {
		for _, ins := range b.Instrs {
			if mu, ok := ins.(*ssa.MapUpdate); ok {
				if kc, _, isC := asCall(mu.Key); isC && isCallTo(kc, pkgCfgOIDC+".RedisConfig.GetServerUri") {
					perFilter = false
					why = append(why, "Redis stores are keyed by server URI only: filters pointing at the same Redis share one store (the last one's)")
				}
			}
		}
	}
	// ---- (b) keys with a discriminator
	discr := true
	nKeys := 0
	for _, fn := range R.HandlerFuncs {
		for _, ci := range callsTo(fn, storeMethods...) {
			args := callArgs(ci)
			if len(args) < 2 {
				continue
			}
			nKeys++
			hasCfg := false
			for d := range dataDeps(args[1]) {
				if isHandlerConfig(d) {
					hasCfg = true
				}
				if call, _, ok := asCall(d); ok && call.Common().StaticCallee() == R.CookieName {
					hasCfg = true
				}
			}
			// the cookie reader itself depends on the config (cookie name) but returns the client's value:
			// a discriminator must be part of the key, not of the lookup of the cookie
			direct := false
			for _, l := range Leaves(args[1], leafOpts{}) {
				if isHandlerConfig(l) {
					direct = true
				}
				if call, _, ok := asCall(l); ok && (call.Common().StaticCallee() == R.CookieName || isGeneratedGetter(calleeOf(call))) {
					direct = true
				}
			}
			_ = hasCfg
			if !direct {
				discr = false
			}
		}
	}
	// ---- (c) metadata comparison: a stored field compared against a config getter before allow — none exists
	metaCmp := false
	for _, b := range R.OIDCProcess.Blocks {
		for _, ins := range b.Instrs {
			if bo, ok := ins.(*ssa.BinOp); ok && (bo.Op == token.EQL || bo.Op == token.NEQ) {
				l, r := depFieldsOf(bo.X, idTokenResponse), depFieldsOf(bo.Y, idTokenResponse)
				cl, cr := dependsOnHandlerConfig(bo.X), dependsOnHandlerConfig(bo.Y)
				if (l && cr) || (r && cl) {
					metaCmp = true
				}
			}
		}
	}
	okR1 := perFilter || discr || metaCmp
	c.Obl(okR1, "C18.R1", "sessionStoreFactory.Get", P.Pos(get.Pos()),
		"a per-filter value reaches the session lookup",
		fmt.Sprintf("sessions are looked up by cookie value alone in a store shared between filters: %s; none of the %d store keys in the handler carries a per-filter discriminator and no stored metadata is compared with the handler's configuration — a session created through one filter is honoured by another when the browser renames its cookie", strings.Join(why, "; "), nKeys))

	// ---- R2
	shared := !perFilter
	singleFilterTimeouts := false
	for _, ci := range allCalls(pre) {
		callee := ci.Common().StaticCallee()
		if callee == nil || (callee.Name() != "NewMemoryStore" && callee.Name() != "NewRedisStore") {
			continue
		}
		for _, a := range ci.Common().Args {
			var walk func(v ssa.Value, d int) bool
			walk = func(v ssa.Value, d int) bool {
				v = stripConv(v)
				if d == 0 {
					return false
				}
				switch x := v.(type) {
				case *ssa.BinOp:
					return walk(x.X, d-1) || walk(x.Y, d-1)
				case *ssa.Call:
					return isCallToAny(x, idOIDCConfig+".GetAbsoluteSessionTimeout", idOIDCConfig+".GetIdleSessionTimeout")
				}
				return false
			}
			if walk(a, 5) {
				singleFilterTimeouts = true
			}
		}
	}
	// the timeouts handed to a constructor are those of the filter being visited: an argument that is carried
	// around the filter loop (a variable declared outside it, updated only by some filters) gives a filter the
	// timeouts of an earlier one
	for _, df := range deepFuncs(pre, 2) {
		if pkgPathOf(df) != pkgOIDC {
			continue
		}
		for _, ci := range allCalls(df) {
			callee := ci.Common().StaticCallee()
			if callee == nil || (callee.Name() != "NewMemoryStore" && callee.Name() != "NewRedisStore") {
				continue
			}
			carried := false
			seenV := map[ssa.Value]bool{}
			var walk func(v ssa.Value, d int)
			walk = func(v ssa.Value, d int) {
				v = stripConv(v)
				if d == 0 || seenV[v] {
					return
				}
				seenV[v] = true
				switch x := v.(type) {
				case *ssa.BinOp:
					walk(x.X, d-1)
					walk(x.Y, d-1)
				case *ssa.Phi:
					for _, p := range x.Block().Preds {
						if x.Block().Dominates(p) && isDurationLike(x.Type()) {
							carried = true
						}
					}
					for _, e := range x.Edges {
						walk(e, d-1)
					}
				case *ssa.Extract:
					walk(x.Tuple, d-1)
				case *ssa.UnOp:
					walk(x.X, d-1)
				}
			}
			for _, a := range ci.Common().Args {
				if isDurationLike(a.Type()) {
					walk(a, 8)
				}
			}
			c.Obl(!carried, "C18.R2", "timeouts-of-the-visited-filter/"+nthCallKey(ci), P.Pos(ci.Pos()), "the constructor's timeouts are computed from the filter being visited",
				"a timeout handed to "+callee.Name()+" is carried around the filter loop: a filter that leaves it unset inherits the value of an earlier filter")
		}
	}
	c.Obl(!(shared && singleFilterTimeouts), "C18.R2", "sessionStoreFactory.PreRun", P.Pos(pre.Pos()),
		"stores are per filter (or take no single filter's timeouts)",
		"a store shared between filters is constructed with the session timeouts of one filter (memory: the first OIDC filter; Redis: the last filter per server URI): the other filters' configured timeouts do not govern their sessions")

	// a filter's sessions live in the store Get() returns for it under that filter's own timeouts: the shared memory store
	// is built for a memory filter (C10.R4), never as a stand-in for a Redis filter
	if c.ID == "C18" {
		importObls(c, "C10", checkC10, "C18.R2", func(o *Obligation) bool { return strings.HasPrefix(o.Key, "C10.R4/memory-store-for-a-memory-filter") })
		// each filter's token requests carry its own credentials, built for that request (C04.R1/R2 tables), over its own trust
		// store (C20.R2)
		importObls(c, "C04", checkC04, "C18.R3", func(o *Obligation) bool {
			return strings.HasPrefix(o.Key, "C04.R1/anchor") || strings.HasPrefix(o.Key, "C04.R2/headers") || strings.HasPrefix(o.Key, "C04.R2/exchange-sends-table")
		})
		importObls(c, "C20", checkC20, "C18.R3", func(o *Obligation) bool {
			return strings.HasPrefix(o.Key, "C20.R2/rootcas-provenance") || strings.HasPrefix(o.Key, "C20.R4/pool-key-encoding-injective")
		})
	}

	// ---- R3
	n := 0
	for _, fn := range R.HandlerFuncs {
		for _, ci := range allCalls(fn) {
			ce := calleeOf(ci)
			if ce.Obj == nil || !strings.HasPrefix(funcID(ce.Obj), idOIDCConfig+".Get") || len(ci.Common().Args) != 1 {
				continue
			}
			n++
			recv := resolveCell(stripConv(ci.Common().Args[0]))
			ok := isHandlerConfig(recv)
			if !ok {
				if p, isP := recv.(*ssa.Parameter); isP {
					ok = paramIsHandlerConfig(P, R, p, 3)
				}
			}
			if !ok {
				// the per-handler clone made in the constructor is not in HandlerFuncs; locals derived from o.config
				for _, l := range Leaves(recv, leafOpts{}) {
					if isHandlerConfig(l) {
						ok = true
					}
				}
			}
			c.Obl(ok, "C18.R3", "own-config/"+nthCallKey(ci), P.Pos(ci.Pos()), ce.Obj.Name()+" on the handler's own configuration",
				ce.Obj.Name()+" in "+fnKey(fn)+" is applied to "+descDepth(recv, 2)+", which is not the handler's own filter configuration")
		}
	}
	c.Obl(n >= 20, "C18.R3", "own-config/count", "-", fmt.Sprintf("%d configuration reads in the handler", n), fmt.Sprintf("only %d configuration reads found (floor 20)", n))
	// the cookie reader selects the session cookie by the handler's own cookie name only
	if R.CookieReader != nil && R.CookieName != nil {
		rd := R.CookieReader
		var nameCall *ssa.Call
		for _, ci := range callsToFn(rd, R.CookieName) {
			nameCall, _ = ci.(*ssa.Call)
		}
		nCmp := 0
		okSel := nameCall != nil
		why := ""
		isCookieName := func(v ssa.Value) bool {
			// a key of the decoded cookies map (range key) — or anything derived from DecodeCookiesHeader
			for d := range dataDeps(v) {
				if dc, isC := d.(*ssa.Call); isC && isCallTo(dc, pkgHTTP+".DecodeCookiesHeader") {
					return true
				}
			}
			return false
		}
		for _, b := range rd.Blocks {
			for _, ins := range b.Instrs {
				switch x := ins.(type) {
				case *ssa.BinOp:
					if (x.Op == token.EQL || x.Op == token.NEQ) && isString(x.X.Type()) {
						l, r := isCookieName(x.X), isCookieName(x.Y)
						if l != r {
							nCmp++
							other := x.Y
							if r {
								other = x.X
							}
							if nameCall == nil || resolveCell(stripConv(other)) != ssa.Value(nameCall) {
								okSel, why = false, "a cookie name is compared with "+descDepth(other, 2)
							}
						}
					}
				case *ssa.Lookup:
					if dc, _, isC := asCall(resolveCell(stripConv(x.X))); isC && isCallTo(dc, pkgHTTP+".DecodeCookiesHeader") {
						nCmp++
						if nameCall == nil || resolveCell(stripConv(x.Index)) != ssa.Value(nameCall) {
							okSel, why = false, "the cookies are looked up under "+descDepth(x.Index, 2)
						}
					}
				}
			}
		}
		c.Obl(okSel && nCmp >= 1, "C18.R3", "cookie-selected-by-own-name", P.Pos(rd.Pos()), "the session id is taken only from the cookie named getCookieName(handler configuration)",
			"the cookie reader also accepts a cookie that is not named by the filter's own cookie name ("+why+"): another filter's session cookie is honoured")
	}
	discoveryCacheKeyRule(c, "C18.R3")
	cookieNameIsInjective(c, "C18.R1", R)
	transportIsOwn(c, "C18.R3")
	factoryGetIsALookup(c, "C18.R1")
	// the key set a filter verifies with is derived from its own configuration (C02.R5's key-set provenance)
	importObls(c, "C02", checkC02, "C18.R3", func(o *Obligation) bool { return strings.HasPrefix(o.Key, "C02.R5/keyset") })
	handlerConfigOwn(c, "C18.R3", R)
	// one filter's answer is not rewritten by another filter's: the header list of a denied response has a backing array
	// of its own (a package-level slice handed out with spare capacity is appended to by every filter's redirect)
	headersOwnBacking(c, "C18.R3", R)
	// each Redis-backed filter talks to the Redis its own URI names (database and credentials included): the client
	// handed to the store constructor is redis.NewClient of options parsed from this filter's URI, created for this
	// store — not a client looked up under a coarser key (host:port)
	for _, df := range deepFuncs(pre, 2) {
		if pkgPathOf(df) != pkgOIDC {
			continue
		}
		for _, ci := range allCalls(df) {
			callee := ci.Common().StaticCallee()
			if callee == nil || callee.Name() != "NewRedisStore" {
				continue
			}
			for i, p := range callee.Params {
				if !strings.Contains(typeID(p.Type()), "redis") || i >= len(ci.Common().Args) {
					continue
				}
				okClient, what := true, ""
				for _, l := range LeavesInl(ci.Common().Args[i], leafOpts{noConcat: true}, 2, nil) {
					l = resolveCell(stripConv(l))
					nc, _, isC := asCall(l)
					if !isC || !strings.HasSuffix(funcID(calleeOf(nc).Obj), "go-redis/v9.NewClient") {
						okClient, what = false, descDepth(l, 3)
						continue
					}
					fromURI := false
					for d := range dataDeps(nc.Common().Args[0]) {
						if pc, _, isP := asCall(d); isP && strings.HasSuffix(funcID(calleeOf(pc).Obj), "go-redis/v9.ParseURL") {
							fromURI = true
						}
					}
					if !fromURI {
						okClient, what = false, "a client whose options do not come from redis.ParseURL"
					}
				}
				c.Obl(okClient, "C18.R3", "redis-client-of-own-uri/"+nthCallKey(ci), P.Pos(ci.Pos()), "the store's client is redis.NewClient(ParseURL(the filter's server URI)) made for this store",
					"the Redis client handed to the store can be "+what+": filters whose URIs differ in database or credentials share one client, and with it each other's sessions")
			}
		}
	}
	// a filter's merged configuration is built on a copy of the defaults: proto.Merge never writes into a shared
	// configuration (the defaults, another filter's), or an earlier filter's overrides leak into later filters
	nMerge := 0
	for _, mf := range P.Funcs {
		if strings.HasPrefix(pkgPathOf(mf), modPath+"/config/gen/") {
			continue
		}
		for _, ci := range callsTo(mf, fProtoMerge) {
			nMerge++
			dst := ci.Common().Args[0]
			fresh := true
			what := ""
			for _, l := range Leaves(dst, leafOpts{noConcat: true}) {
				l = resolveCell(stripConv(l))
				if ta, isTA := l.(*ssa.TypeAssert); isTA {
					l = resolveCell(stripConv(ta.X))
				}
				if cl, _, isC := asCall(l); isC && isCallTo(cl, fProtoClone) {
					continue
				}
				if _, isA := l.(*ssa.Alloc); isA {
					continue
				}
				fresh, what = false, descDepth(l, 3)
			}
			c.Obl(fresh, "C18.R3", "merge-into-own-copy/"+nthCallKey(ci), P.Pos(ci.Pos()), "proto.Merge writes into proto.Clone(…) / a new message",
				"proto.Merge writes into "+what+", a configuration that other filters share: one filter's overrides become another filter's settings")
		}
	}
	c.Obl(nMerge >= 1, "C18.R3", "merge-sites", "-", fmt.Sprintf("%d proto.Merge call(s) in own code", nMerge), "no proto.Merge call found (anchor lost)")
	// the handler that serves a check is built in that check from the matched filter's own configuration
	if pc := processInvoke(P, R); c.Anchor("C18.R3", "Handler.Process invocation in Check", pc != nil) {
		handlerBuiltPerCheck(c, "C18.R3", R.CheckEntry, pc)
	}
	// no package-level OIDCConfig in the handler package
	for name, mem := range P.SSA[pkgAuthz].Members {
		if g, ok := mem.(*ssa.Global); ok && strings.Contains(g.Type().String(), "OIDCConfig") {
			c.Fail("C18.R3", "global-config/"+name, P.Pos(g.Pos()), "package-level OIDC configuration "+name+" in the handler package")
		}
	}
}

func depFieldsOf(v ssa.Value, typeid string) bool {
	for d := range dataDeps(v) {
		if base, f, ok := fieldLoad(d); ok && f != nil && typeID(base.Type()) == typeid {
			return true
		}
	}
	return false
}

func dependsOnHandlerConfig(v ssa.Value) bool {
	for d := range dataDeps(v) {
		if isHandlerConfig(d) {
			return true
		}
	}
	return false
}

// paramIsHandlerConfig: parameter p receives o.config (or a parameter that does) at every call site.
func paramIsHandlerConfig(P *Program, R *Roles, p *ssa.Parameter, depth int) bool {
	fn := p.Parent()
	idx := -1
	for i, q := range fn.Params {
		if q == p {
			idx = i
		}
	}
	callers := P.CallersOf(fn)
	if idx < 0 || len(callers) == 0 || depth == 0 {
		return false
	}
	for _, site := range callers {
		if !R.InHandler(site.Parent()) && site.Parent() != R.NewOIDC {
			continue
		}
		a := resolveCell(stripConv(site.Common().Args[idx]))
		if isHandlerConfig(a) {
			continue
		}
		if q, isP := a.(*ssa.Parameter); isP && paramIsHandlerConfig(P, R, q, depth-1) {
			continue
		}
		// constructor: the (possibly cloned) cfg parameter that becomes o.config
		if site.Parent() == R.NewOIDC {
			continue
		}
		return false
	}
	return true
}

// ---------------------------------------------------------------------------------------------- C19

func checkC19(c *Check) {
	P := c.P
	R := GetRoles(P)
	c.Assumes("event orderings, controller-runtime's delivery guarantees and the visibility of the write to concurrently running checks (C16 known finding) are not decided")
	c.Rule("C19.R1", "reconcile guard chain: the client-secret write is reached only when the changed Secret's namespaced name is in the start-up index, the Secret was fetched without error, it is not being deleted, and it has a non-empty client-secret value; each ignore branch returns an empty result and nil without touching the configuration.", 5)
	c.Rule("C19.R2", "exactly the referencing filters: the configurations written are the elements of the index entry found under the changed Secret's name, nothing else in Reconcile writes a configuration field, and the value written is the client-secret datum of the Secret fetched under the same name.", 3)
	c.Rule("C19.R3", "the index is built once and survives rotation: the index map is assigned only in the loader called from PreRun, it holds pointers to the filters' configurations, and no code re-derives it from the (flipping) client-secret oneof after start-up.", 3)
	c.Rule("C19.R4", "cross-namespace refusal: a reference with a non-empty namespace different from the current one makes the loader return ErrCrossNamespaceSecretRef, PreRun returns that error, and index keys are built with the current namespace only.", 3)
	c.Rule("C19.R5", "freshness at use: both token-request builders read the handler configuration's GetClientSecret() when the request is built, and no long-lived own struct field is assigned from GetClientSecret() (no cached copy a reconcile would miss).", 3)
	rec := P.Func(pkgK8s, "(*SecretController).Reconcile")
	load := P.Func(pkgK8s, "(*SecretController).loadSecrets")
	pre := P.Func(pkgK8s, "(*SecretController).PreRun")
	if !c.Anchor("C19.R1", "SecretController Reconcile/loadSecrets/PreRun", rec != nil && load != nil && pre != nil) {
		return
	}
	// every change of a Secret reaches Reconcile: the watch is registered without event filters. Secrets have no
	// spec, so metadata.generation never changes — a GenerationChangedPredicate (or any other predicate, or a global
	// event filter) drops the very update events that carry a rotated value
	{
		nFor, bad := 0, ""
		for _, f := range deepFuncs(pre, 1) {
			if pkgPathOf(f) != pkgK8s {
				continue
			}
			for _, ci := range allCalls(f) {
				ce := calleeOf(ci)
				if ce.Obj == nil || ce.Obj.Pkg() == nil || !strings.HasSuffix(ce.Obj.Pkg().Path(), "controller-runtime/pkg/builder") {
					continue
				}
				switch ce.Obj.Name() {
				case "For", "Owns", "Watches", "WatchesRawSource", "WatchesMetadata":
					if ce.Obj.Name() == "For" {
						nFor++
					}
					args := callArgs(ci)
					if len(args) > 0 {
						last := stripConv(args[len(args)-1])
						if _, isSl := last.Type().Underlying().(*types.Slice); isSl && !isNilConst(last) {
							bad = ce.Obj.Name() + " is given options at " + posOf(P, ci)
						}
					}
				case "WithEventFilter":
					bad = "WithEventFilter is applied to the controller at " + posOf(P, ci)
				}
			}
		}
		c.Obl(nFor >= 1 && bad == "", "C19.R1", "watch-is-unfiltered", P.Pos(pre.Pos()), "the Secret watch is registered without predicates or event filters",
			"the Secret watch filters events ("+bad+"): an update that only changes the Secret's data can be dropped before Reconcile and the rotated value never reaches the filters")
	}
	ff := FactsOf(rec)
	// the write
	var wr *ssa.Store
	for _, b := range rec.Blocks {
		for _, ins := range b.Instrs {
			if st, ok := ins.(*ssa.Store); ok {
				if fa, isF := st.Addr.(*ssa.FieldAddr); isF && fieldAddrID(fa) == idOIDCConfig+".ClientSecretConfig" {
					wr = st
				}
			}
		}
	}
	if !c.Anchor("C19.R1", "client-secret write in Reconcile", wr != nil) {
		return
	}
	fs := ff.At(wr)
	// index lookup
	var lk *ssa.Lookup
	for _, b := range rec.Blocks {
		for _, ins := range b.Instrs {
			if l, ok := ins.(*ssa.Lookup); ok && l.CommaOk {
				if _, f, okf := fieldLoad(resolveCell(stripConv(l.X))); okf && f != nil && f.Name() == "secrets" {
					lk = l
				}
			}
		}
	}
	okIdx := false
	if lk != nil {
		if e := extractOf(lk, 1); e != nil {
			v, k := fs.truth(e)
			okIdx = k && v
		}
		// key: req.NamespacedName.String()
		kc, _, isC := asCall(resolveCell(stripConv(lk.Index)))
		okIdx = okIdx && isC && strings.HasSuffix(funcID(calleeOf(kc).Obj), "NamespacedName.String")
	}
	c.Obl(okIdx, "C19.R1", "guard/in-index", P.Pos(instrPos(wr)), "write only for a Secret whose namespaced name is in the index", "the client secret can be written for a Secret that is not in the start-up index (or the index is not consulted by namespaced name)")
	var getC *ssa.Call
	for _, ci := range allCalls(rec) {
		if cc, ok := ci.(*ssa.Call); ok && cc.Common().IsInvoke() && cc.Common().Method.Name() == "Get" && strings.Contains(typeID(cc.Common().Value.Type()), "client.Client") {
			getC = cc
		}
	}
	c.Obl(getC != nil && fs.CallErrNil(getC, -1), "C19.R1", "guard/fetched", P.Pos(instrPos(wr)), "write only after the Secret was fetched without error", "the client secret can be written although fetching the Secret failed")
	delOK, dataOK := false, false
	for cond, pol := range fs {
		if zc, _, ok := asCall(cond); ok && strings.HasSuffix(funcID(calleeOf(zc).Obj), "Time.IsZero") && pol {
			if depFields(zc.Common().Args[0])["DeletionTimestamp"] {
				delOK = true
			}
		}
	}
	// ok && len(bytes) > 0 — lowered as !(!ok || len == 0)
	var dataLk *ssa.Lookup
	for _, b := range rec.Blocks {
		for _, ins := range b.Instrs {
			if l, ok := ins.(*ssa.Lookup); ok && l.CommaOk {
				if s, isC := constString(l.Index); isC && s == "client-secret" {
					dataLk = l
				}
			}
		}
	}
	if dataLk != nil {
		okv := extractOf(dataLk, 1)
		val := extractOf(dataLk, 0)
		present, nonEmpty := false, false
		if okv != nil {
			v, k := fs.truth(okv)
			present = k && v
		}
		if val != nil {
			nonEmpty = fs.intFact(lenCallOf(rec, val), func(op token.Token, k int64) bool {
				return (op == token.NEQ && k == 0) || (op == token.GTR && k >= 0)
			})
		}
		dataOK = present && nonEmpty
	}
	c.Obl(delOK, "C19.R1", "guard/not-deleting", P.Pos(instrPos(wr)), "write only when DeletionTimestamp.IsZero()", "a Secret that is being deleted can overwrite the client secret")
	c.Obl(dataOK, "C19.R1", "guard/has-value", P.Pos(instrPos(wr)), "write only with a present, non-empty client-secret datum", "a Secret without (or with an empty) client-secret key can overwrite the client secret")
	// ignore branches: every return is (zero result, nil or IgnoreNotFound)
	okRet := true
	for _, r := range returnsOf(rec) {
		for _, l := range Leaves(r.Results[1], leafOpts{noConcat: true}) {
			if isNilConst(l) {
				continue
			}
			if ic, _, ok := asCall(l); ok && strings.HasSuffix(funcID(calleeOf(ic).Obj), "IgnoreNotFound") {
				continue
			}
			okRet = false
		}
	}
	c.Obl(okRet, "C19.R1", "ignore-branches", P.Pos(rec.Pos()), "ignore branches return nil (or the fetch error)", "an ignore branch of Reconcile returns an unexpected error")
	// a failed fetch that is not `not found` is handed back to the controller runtime, which retries it: a transient
	// read error on the reconcile that a rotation triggered must not end in "nothing to do"
	if getC != nil {
		nFail := 0
		for i, r := range returnsOf(rec) {
			failed := false
			for cond, pol := range ff.At(r) {
				if bo, isB := cond.(*ssa.BinOp); isB && isNilConst(bo.Y) && (bo.Op == token.NEQ) == pol {
					if gc, _, isC := asCall(resolveCell(stripConv(bo.X))); isC && gc == getC {
						failed = true
					}
				}
			}
			if !failed {
				continue
			}
			nFail++
			okErr := false
			for _, l := range Leaves(r.Results[1], leafOpts{noConcat: true}) {
				l = resolveCell(stripConv(l))
				if ic, _, ok := asCall(l); ok && strings.HasSuffix(funcID(calleeOf(ic).Obj), "IgnoreNotFound") {
					okErr = true
				}
				if gc, _, ok := asCall(l); ok && gc == getC {
					okErr = true
				}
			}
			c.Obl(okErr, "C19.R1", fmt.Sprintf("fetch-failure-is-returned/return#%d", i+1), P.Pos(instrPos(r)), "a failed fetch returns IgnoreNotFound(err) (or the error itself)",
				"after a failed fetch of the Secret Reconcile returns no error: a transient read failure is never retried and the filters keep the stale secret")
		}
		c.Obl(nFail >= 1, "C19.R1", "fetch-failure-returns", P.Pos(rec.Pos()), fmt.Sprintf("%d return(s) behind a failed fetch", nFail), "no return behind the failed fetch found (anchor lost)")
	}
	// … and an update is ignored only for the enumerated reasons: every return that can be reached without the write lies
	// behind the failed fetch, a name that is not in the index, a Secret that is being deleted, or a missing / empty
	// datum. A further reason to skip (a version or content comparison, a rate limit) keeps a rotation from the filters.
	negGuard := func(fs FactSet) bool {
		for cond, pol := range fs {
			if getC != nil {
				if bo, isB := cond.(*ssa.BinOp); isB && isNilConst(bo.Y) && (bo.Op == token.NEQ) == pol {
					if gc, _, isC := asCall(resolveCell(stripConv(bo.X))); isC && gc == getC {
						return true
					}
				}
			}
			if zc, _, ok := asCall(cond); ok && strings.HasSuffix(funcID(calleeOf(zc).Obj), "Time.IsZero") && !pol && depFields(zc.Common().Args[0])["DeletionTimestamp"] {
				return true
			}
		}
		if lk != nil {
			if e := extractOf(lk, 1); e != nil {
				if v, k := fs.truth(e); k && !v {
					return true
				}
			}
		}
		if dataLk != nil {
			if e := extractOf(dataLk, 1); e != nil {
				if v, k := fs.truth(e); k && !v {
					return true
				}
			}
			if val := extractOf(dataLk, 0); val != nil {
				if fs.intFact(lenCallOf(rec, val), func(op token.Token, k int64) bool { return op == token.EQL && k == 0 }) {
					return true
				}
			}
		}
		return false
	}
	var justified func(b *ssa.BasicBlock, depth int) bool
	justified = func(b *ssa.BasicBlock, depth int) bool {
		if negGuard(ff.In[b]) {
			return true
		}
		if depth == 0 || len(b.Preds) == 0 {
			return false
		}
		for _, p := range b.Preds {
			if negGuard(ff.OnEdge(p, b)) {
				continue
			}
			// a block that only forwards (short-circuit `a || b` lowering): look one step further
			if len(p.Instrs) > 3 || !justified(p, depth-1) {
				return false
			}
		}
		return true
	}
	for i, r := range returnsOf(rec) {
		if mustPassBefore(rec, r, func(x ssa.Instruction) bool { return x == ssa.Instruction(wr) }) {
			continue
		}
		// the final return after the write loop is reachable without the write only through an empty index entry: it is
		// dominated by the guards that hold at the write
		// a helper's "nothing to do" result (`secret == nil`) merged from several reasons: each way the value can be nil
		// carries an enumerated reason on its edge
		viaNilPhi := false
		for cond, pol := range ff.At(r) {
			bo, isB := cond.(*ssa.BinOp)
			if !isB || (bo.Op != token.EQL && bo.Op != token.NEQ) || !isNilConst(bo.Y) || (bo.Op == token.EQL) != pol {
				continue
			}
			pv, isPhi := bo.X.(*ssa.Phi)
			if !isPhi {
				continue
			}
			all, any := true, false
			for k, e := range pv.Edges {
				if known, isNil := nilnessOf(e); known && !isNil {
					continue
				}
				any = true
				if !negGuard(ff.OnEdge(pv.Block().Preds[k], pv.Block())) && !justified(pv.Block().Preds[k], 2) {
					all = false
				}
			}
			if all && any {
				viaNilPhi = true
			}
		}
		if viaNilPhi || negGuard(ff.At(r)) || justified(r.Block(), 3) || (okIdx && delOK && dataOK && wr.Block() != r.Block() && blockReaches(wr.Block(), r.Block())) {
			c.Pass("C19.R1", fmt.Sprintf("skip-reason/return#%d", i+1), P.Pos(instrPos(r)), "ignored for an enumerated reason")
			continue
		}
		c.Fail("C19.R1", fmt.Sprintf("skip-reason/return#%d", i+1), P.Pos(instrPos(r)), "Reconcile can return without updating the filters for a reason other than {fetch failed, not in the index, being deleted, no or empty client-secret}: a rotated secret may never reach the filters that reference it")
	}

	// ---- R2
	// written object: element of the slice found in the index
	var base ssa.Value
	if fa, ok := wr.Addr.(*ssa.FieldAddr); ok {
		base = fa.X
	}
	fromIdx := false
	if lk != nil && base != nil {
		// base = element of a slice whose only source is the index entry
		if u, ok := resolveCell(stripConv(base)).(*ssa.UnOp); ok {
			if ia, isI := u.X.(*ssa.IndexAddr); isI {
				ls := Leaves(ia.X, leafOpts{noConcat: true})
				fromIdx = len(ls) == 1 && (ls[0] == extractOf(lk, 0) || ls[0] == ssa.Value(lk))
			}
		}
	}
	c.Obl(fromIdx, "C19.R2", "targets-from-index", P.Pos(instrPos(wr)), "the configurations written are the elements of the index entry for this Secret", "the configurations written do not come from the index entry of the changed Secret (all filters, or another set, are rewritten)")
	// value
	valOK := false
	for name, vals := range structFieldStores(resolveCell(stripConv(wr.Val))) {
		if name != "ClientSecret" {
			continue
		}
		for _, v := range vals {
			if dataLk != nil && dataDeps(v)[extractOf(dataLk, 0)] {
				valOK = true
			}
			// byte for byte: the datum converted to a string, nothing else (a trimmed, lower-cased, decoded or re-encoded
			// value is not the credential the Secret holds)
			if dataLk != nil {
				exact := true
				for _, l := range Leaves(v, leafOpts{noConcat: true}) {
					if resolveCell(stripConv(l)) != extractOf(dataLk, 0) && resolveCell(stripConv(l)) != ssa.Value(dataLk) {
						exact = false
					}
				}
				c.Obl(exact, "C19.R2", "value-is-the-datum-itself", P.Pos(instrPos(wr)), "the written value is string(datum)", "the value written into the filters is computed from the Secret's datum ("+descDepth(resolveCell(stripConv(v)), 3)+") instead of being the datum itself")
			}
		}
	}
	sameName := false
	if getC != nil && lk != nil {
		// Get(ctx, req.NamespacedName, secret) and index key from the same req
		kd := dataDeps(lk.Index)
		for d := range dataDeps(getC.Common().Args[1]) {
			if p, isP := d.(*ssa.Parameter); isP && kd[p] {
				sameName = true
			}
			if al, isA := d.(*ssa.Alloc); isA && kd[al] {
				sameName = true
			}
		}
	}
	c.Obl(valOK && sameName, "C19.R2", "value-from-secret", P.Pos(instrPos(wr)), "value = client-secret datum of the Secret fetched under the same namespaced name", "the written value is not the client-secret datum of the Secret fetched under the reconciled name")
	// only this config write
	nW := 0
	for _, b := range rec.Blocks {
		for _, ins := range b.Instrs {
			if st, ok := ins.(*ssa.Store); ok {
				if fa, isF := st.Addr.(*ssa.FieldAddr); isF && strings.HasPrefix(fieldAddrID(fa), modPath+"/config/gen/go") {
					if _, fresh := fa.X.(*ssa.Alloc); fresh {
						continue // the freshly allocated oneof wrapper
					}
					nW++
				}
			}
		}
	}
	c.Obl(nW == 1, "C19.R2", "single-config-write", P.Pos(rec.Pos()), "Reconcile writes exactly one configuration field", fmt.Sprintf("Reconcile writes %d configuration fields", nW))

	// ---- R3
	writers := map[string]bool{}
	for _, fn := range P.Funcs {
		for _, b := range fn.Blocks {
			for _, ins := range b.Instrs {
				switch x := ins.(type) {
				case *ssa.Store:
					if fa, isF := x.Addr.(*ssa.FieldAddr); isF && fieldAddrID(fa) == pkgK8s+".SecretController.secrets" {
						writers[fnKey(fn)] = true
					}
				case *ssa.MapUpdate:
					if _, f, okf := fieldLoad(resolveCell(stripConv(x.Map))); okf && f != nil && f.Name() == "secrets" {
						writers[fnKey(fn)] = true
					}
				}
			}
		}
	}
	onlyLoader := len(writers) == 1 && writers[fnKey(load)]
	c.Obl(onlyLoader, "C19.R3", "index-written-by-loader-only", P.Pos(load.Pos()), "the index is written only by the loader", fmt.Sprintf("the index is written by %v", keysOf(writers)))
	callers := P.CallersOf(load)
	onlyPre := len(callers) >= 1
	for _, s := range callers {
		if s.Parent() != pre {
			onlyPre = false
		}
	}
	c.Obl(onlyPre, "C19.R3", "loader-called-from-prerun-only", P.Pos(load.Pos()), "the loader runs at start-up only", "the index loader is called outside PreRun: after the first reconcile the oneof arm has flipped to a literal secret and the filter would drop out of the index")
	// Reconcile does not read GetClientSecretRef
	usesRef := len(callsTo(rec, idOIDCConfig+".GetClientSecretRef")) > 0
	c.Obl(!usesRef, "C19.R3", "reconcile-does-not-rederive", P.Pos(rec.Pos()), "Reconcile relies on the index, not on the current oneof arm", "Reconcile consults GetClientSecretRef(), which is nil after the first rotation")

	// ---- R4
	g := P.SSA[pkgK8s].Var("ErrCrossNamespaceSecretRef")
	refuse := false
	for _, r := range returnsOf(load) {
		dep := false
		for d := range dataDeps(r.Results[0]) {
			if isLoadOfGlobal(d, g) {
				dep = true
			}
		}
		if !dep {
			continue
		}
		// under ns != "" && ns != current
		neEmpty, neCur := false, false
		for cond, pol := range FactsOf(load).At(r) {
			bo, ok := cond.(*ssa.BinOp)
			if !ok || !depFields(bo.X)["Namespace"] {
				continue
			}
			if s, isC := constString(bo.Y); isC && s == "" && ((bo.Op == token.NEQ && pol) || (bo.Op == token.EQL && !pol)) {
				neEmpty = true
			}
			if depFields(bo.Y)["namespace"] && ((bo.Op == token.NEQ && pol) || (bo.Op == token.EQL && !pol)) {
				neCur = true
			}
		}
		refuse = neEmpty && neCur
	}
	// with a foreign namespace no index registration is reachable at all
	{
		atoms := atomEnv{}
		for _, b := range load.Blocks {
			for _, ins := range b.Instrs {
				bo, ok := ins.(*ssa.BinOp)
				if !ok || (bo.Op != token.NEQ && bo.Op != token.EQL) || !depFields(bo.X)["Namespace"] {
					continue
				}
				if s2, isC := constString(bo.Y); isC && s2 == "" {
					atoms[bo] = bo.Op == token.NEQ
				} else if depFields(bo.Y)["namespace"] {
					atoms[bo] = bo.Op == token.NEQ
				}
			}
		}
		var reg ssa.Instruction
		if len(atoms) >= 2 {
			reg = existsPathInLoop(load, atoms, func(i ssa.Instruction) bool {
				mu, ok := i.(*ssa.MapUpdate)
				if !ok {
					return false
				}
				_, f, okf := fieldLoad(resolveCell(stripConv(mu.Map)))
				return okf && f != nil && f.Name() == "secrets"
			})
		}
		if refuse && reg != nil {
			refuse = false
		}
		c.Obl(len(atoms) >= 2 && reg == nil, "C19.R4", "no-registration-for-foreign-namespace", P.Pos(load.Pos()), "a reference into another namespace never reaches the index registration",
			"a reference whose namespace is non-empty and differs from the current one can still be registered in the index ("+posOf(P, reg)+"): it would be refused only under additional conditions")
	}
	// every accepted reference is registered: once the index key of a reference has been computed, no path to the
	// next filter (or out of the loader) avoids the registration — a filter that is skipped ("already tracked", "looks
	// identical") is never given the Secret's value, now or after a rotation
	if nn := P.Func(pkgK8s, "secretNamespacedName"); nn != nil {
		isReg := func(i ssa.Instruction) bool {
			mu, ok := i.(*ssa.MapUpdate)
			if !ok {
				return false
			}
			_, f, okf := fieldLoad(resolveCell(stripConv(mu.Map)))
			return okf && f != nil && f.Name() == "secrets"
		}
		for _, lf := range deepFuncs(load, 1) {
			if pkgPathOf(lf) != pkgK8s {
				continue
			}
			for _, ci := range callsToFn(lf, nn) {
				head := loopHeadOf(ci.Block())
				hit := reachAvoiding(ci, nil, func(i ssa.Instruction) bool {
					if _, isR := i.(*ssa.Return); isR {
						return true
					}
					return head != nil && i.Block() == head && i == head.Instrs[0]
				}, isReg)
				c.Obl(hit == nil, "C19.R4", "registration-not-skippable/"+nthCallKey(ci), P.Pos(ci.Pos()), "after the index key is computed every path registers the filter's configuration",
					"a filter whose reference was accepted can be skipped without being registered in the index ("+posOf(P, hit)+"): its configuration never receives the Secret's value")
			}
		}
	}
	c.Obl(refuse, "C19.R4", "refusal", P.Pos(load.Pos()), "foreign namespace ⇒ ErrCrossNamespaceSecretRef", "a secret reference into another namespace is not refused with ErrCrossNamespaceSecretRef")
	prop := false
	for _, ci := range callsToFn(pre, load) {
		cc := ci.(*ssa.Call)
		region := failureRegion(pre, cc, -1, failErrNonNil)
		if len(region) > 0 && reachFromBlocks(region, func(i ssa.Instruction) bool {
			r, ok := i.(*ssa.Return)
			return ok && isNilConst(r.Results[0])
		}, nil) == nil {
			prop = true
		}
	}
	// the decision to skip the loader is a latch: the flag that guards the early `nothing to watch` return
	// takes only constant values (set to true when a reference is seen, never recomputed by a later filter)
	for _, ci := range callsToFn(pre, load) {
		for i, r := range returnsOf(pre) {
			if len(r.Results) != 1 || !isNilConst(r.Results[0]) || ci.Block().Dominates(r.Block()) {
				continue
			}
			if reachAvoiding(nil, pre.Blocks[0], func(x ssa.Instruction) bool { return x == ssa.Instruction(r) }, func(x ssa.Instruction) bool { return x == ssa.Instruction(ci) }) == nil {
				continue
			}
			cond := lastBranchCond(r)
			if cond == nil {
				continue
			}
			inner, _ := unwrapBool(cond)
			latch := true
			what := ""
			for _, l := range LeavesInl(inner, leafOpts{}, 2, nil) {
				if _, isC := constBool(l); isC {
					continue
				}
				latch = false
				what = descDepth(l, 3)
			}
			c.Obl(latch, "C19.R4", fmt.Sprintf("watch-decision-is-a-latch#%d", i+1), P.Pos(instrPos(r)), "the `nothing to watch` return is guarded by a flag that only takes constant values",
				"the flag guarding the `nothing to watch` return can be recomputed ("+what+"): a later filter without a secret reference resets it and the references are never loaded nor checked")
		}
	}
	c.Obl(prop, "C19.R4", "prerun-propagates", P.Pos(pre.Pos()), "PreRun returns the loader's error", "PreRun does not return the loader's error: a cross-namespace reference would start the service")
	keyOK := false
	if nn := P.Func(pkgK8s, "secretNamespacedName"); nn != nil {
		for _, b := range nn.Blocks {
			for _, ins := range b.Instrs {
				if st, ok := ins.(*ssa.Store); ok {
					if fa, isF := st.Addr.(*ssa.FieldAddr); isF && strings.HasSuffix(fieldAddrID(fa), "NamespacedName.Namespace") {
						if p, isP := stripConv(st.Val).(*ssa.Parameter); isP && isString(p.Type()) {
							keyOK = true
						}
					}
				}
			}
		}
		// and the caller passes s.namespace
		for _, site := range P.CallersOf(nn) {
			okArg := false
			for _, a := range site.Common().Args {
				if fieldNameOfLoad(resolveCell(stripConv(a))) == "namespace" {
					okArg = true
				}
			}
			keyOK = keyOK && okArg
		}
	}
	c.Obl(keyOK, "C19.R4", "keys-in-current-namespace", P.Pos(load.Pos()), "index keys use the current namespace", "index keys are not built with the current namespace")

	// ---- R5
	m := getHModel(P)
	okCB, okRF := false, false
	if m.CbHeaders != nil {
		if bc, _, ok := asCall(resolveCell(stripConv(m.CbHeaders["authorization"]))); ok && len(bc.Common().Args) == 2 {
			okCB = cfgGetter(bc.Common().Args[1], "GetClientSecret")
		}
	}
	if m.RfForm != nil {
		okRF = cfgGetter(m.RfForm["client_secret"], "GetClientSecret")
	}
	c.Obl(okCB, "C19.R5", "fresh-read/code-exchange", posFn(P, R.Callback), "the code exchange reads GetClientSecret() when it builds the request", "the code exchange does not read the client secret from the configuration at request time")
	c.Obl(okRF, "C19.R5", "fresh-read/refresh", posFn(P, R.Refresh), "the refresh reads GetClientSecret() when it builds the request", "the refresh does not read the client secret from the configuration at request time")
	cached := ""
	for _, fn := range P.Funcs {
		if strings.HasPrefix(pkgPathOf(fn), modPath+"/config/gen/go") {
			continue
		}
		for _, b := range fn.Blocks {
			for _, ins := range b.Instrs {
				st, ok := ins.(*ssa.Store)
				if !ok {
					continue
				}
				fa, isF := st.Addr.(*ssa.FieldAddr)
				if !isF || !strings.HasPrefix(typeID(fa.X.Type()), modPath+"/internal") {
					continue
				}
				for d := range dataDeps(st.Val) {
					if gc, isC := d.(*ssa.Call); isC && isCallTo(gc, idOIDCConfig+".GetClientSecret") {
						cached = fieldAddrID(fa) + " in " + fnKey(fn)
					}
				}
			}
		}
	}
	handlerConfigOwn(c, "C19.R5", R)
	// … and the credentials built from it reach the token endpoint as they were built (C04.R2's transport rule)
	transportPreservesRequest(c, "C19.R5")
	c.Obl(cached == "", "C19.R5", "no-cached-secret", "-", "no own struct field is assigned from GetClientSecret()", "the client secret is cached in "+cached+": a later reconcile would not reach requests built from the cached copy")
}

// lenCallOf finds len(v) in fn (nil-safe: returns v itself when absent so that fact queries fail).
func lenCallOf(fn *ssa.Function, v ssa.Value) ssa.Value {
	for _, b := range fn.Blocks {
		for _, ins := range b.Instrs {
			if cc, ok := ins.(*ssa.Call); ok {
				if bi, isB := cc.Call.Value.(*ssa.Builtin); isB && bi.Name() == "len" && len(cc.Call.Args) == 1 && cc.Call.Args[0] == v {
					return cc
				}
			}
		}
	}
	return v
}

// discoveryCacheKeyRule: the discovery cache is read and written under the exact configuration URI that
// is fetched — a filter receives the endpoints (authorization, token, JWKS, end-session) of its own
// discovery document. Filed under C18.R3 and, as a necessary condition, under C09.R3 and C13.R1.
func discoveryCacheKeyRule(c *Check, rule string) {
	P := c.P
	if gw := P.Func(pkgOIDC, "GetWellKnownConfig"); gw != nil {
		var urlParam *ssa.Parameter
		for _, p := range gw.Params {
			if isString(p.Type()) {
				urlParam = p
			}
		}
		okKey, nAcc := urlParam != nil, 0
		for _, gf := range deepFuncs(gw, 2) {
			if pkgPathOf(gf) != pkgOIDC {
				continue
			}
			for _, b := range gf.Blocks {
				for _, ins := range b.Instrs {
					var idx, mp ssa.Value
					switch x := ins.(type) {
					case *ssa.Lookup:
						idx, mp = x.Index, x.X
					case *ssa.MapUpdate:
						idx, mp = x.Key, x.Map
					}
					if idx == nil {
						continue
					}
					if cl, _ := classOfMap(mp); !strings.HasPrefix(cl, "global:") {
						// the cache kept in a small struct (map + mutex) held by a package-level variable: a map field of an own
						// type of this package whose values are discovery documents
						mt, isM := mp.Type().Underlying().(*types.Map)
						if !isM || !strings.HasSuffix(typeID(derefType(mt.Elem())), ".WellKnownConfig") {
							continue
						}
						if _, f, isL := fieldLoad(resolveCell(stripConv(mp))); !isL || f == nil {
							continue
						}
					}
					nAcc++
					if !originsAre(P, idx, urlParam, 2) {
						okKey = false
					}
				}
			}
		}
		fetchSame := false
		for _, ci := range callsToDeep(gw, 2, "net/http.Client.Get") {
			if a := callArgs(ci); len(a) == 1 && urlParam != nil && (resolveCell(stripConv(a[0])) == ssa.Value(urlParam) || originsAre(P, a[0], urlParam, 2)) {
				fetchSame = true
			}
		}
		c.Obl(okKey && nAcc >= 2 && fetchSame, rule, "discovery-cache-key", P.Pos(gw.Pos()), "the discovery cache is read and written under the exact configuration URI that is fetched",
			"the discovery cache is not keyed by the exact configuration URI: two filters whose URIs differ (e.g. only in the query) can receive each other's endpoints")
	}
}

func isDurationLike(t types.Type) bool {
	b, ok := t.Underlying().(*types.Basic)
	return ok && b.Info()&types.IsInteger != 0
}

// handlerLiteralFields: the values stored into the fields of the OIDC handler object built by its constructor.
func handlerLiteralFields(R *Roles) map[string][]ssa.Value {
	out := map[string][]ssa.Value{}
	for _, b := range R.NewOIDC.Blocks {
		for _, ins := range b.Instrs {
			al, ok := ins.(*ssa.Alloc)
			if !ok {
				continue
			}
			if pt, isP := al.Type().(*types.Pointer); !isP || !types.Identical(pt.Elem(), R.OIDCType) {
				continue
			}
			for name, vals := range structFieldStores(al) {
				out[name] = append(out[name], vals...)
			}
		}
	}
	return out
}

// handlerConfigOwn: the configuration an OIDC handler works with is the one it was constructed for — the
// constructor's parameter or a proto.Clone of it made in this very call. Filed under C19.R5 (a kept copy
// freezes the secret) and C03.R4 / C18.R3 (a copy shared between handlers hands one filter's client id,
// callback and cookie prefix to another).
func handlerConfigOwn(c *Check, rule string, R *Roles) {
	P := c.P
	// the configuration a handler works with is the shared one or a copy made for this very handler: a copy
	// kept across checks (package-level map, sync.Map, field of a long-lived object) freezes the secret it held
	if R.NewOIDC != nil && R.OIDCType != nil {
		var cfgParam *ssa.Parameter
		for _, p := range R.NewOIDC.Params {
			if typeID(p.Type()) == idOIDCConfig {
				cfgParam = p
			}
		}
		nCfg := 0
		for name, vals := range handlerLiteralFields(R) {
			for _, v := range vals {
				if typeID(v.Type()) != idOIDCConfig {
					continue
				}
				nCfg++
				okSrc := cfgParam != nil
				what := ""
				for _, l := range Leaves(v, leafOpts{}) {
					l = resolveCell(stripConv(l))
					if cfgParam != nil && l == ssa.Value(cfgParam) {
						continue
					}
					if ta, isTA := l.(*ssa.TypeAssert); isTA {
						l = resolveCell(stripConv(ta.X))
					}
					if ex, isE := l.(*ssa.Extract); isE {
						l = ex.Tuple
					}
					if cl, _, isC := asCall(l); isC && cl.Parent() == R.NewOIDC && strings.HasSuffix(funcID(calleeOf(cl).Obj), "proto.Clone") &&
						resolveCell(stripConv(cl.Common().Args[0])) == ssa.Value(cfgParam) {
						continue
					}
					okSrc = false
					what = descDepth(l, 3)
				}
				c.Obl(okSrc, rule, "handler-config-is-shared-or-own-copy/"+name, P.Pos(R.NewOIDC.Pos()), "the handler's configuration is the constructor's parameter or proto.Clone of it made in this call",
					"the handler's configuration can be "+what+": a copy that outlives the check keeps the client secret it was made with, later rotations never reach the token requests")
			}
		}
		c.Obl(nCfg >= 1, rule, "handler-config-field", P.Pos(R.NewOIDC.Pos()), "the handler literal stores its configuration", "no configuration field found in the handler literal (anchor lost)")
	}
}

// factoryGetIsALookup: the store a filter works with is decided by its configuration alone — the Redis
// store registered under the filter's server URI, and the shared in-memory store only when no store is
// registered under that URI. A fallback that depends on anything else (a health probe, a counter, the
// time) moves a filter's sessions between stores: a logout removes the session from the wrong one.
func factoryGetIsALookup(c *Check, rule string) {
	P := c.P
	get := P.Func(pkgOIDC, "(*sessionStoreFactory).Get")
	if !c.Anchor(rule, "sessionStoreFactory.Get", get != nil) {
		return
	}
	ff := FactsOf(get)
	var lk *ssa.Lookup
	for _, b := range get.Blocks {
		for _, ins := range b.Instrs {
			if l, ok := ins.(*ssa.Lookup); ok {
				if _, f, isL := fieldLoad(resolveCell(stripConv(l.X))); isL && f != nil && f.Name() == "redis" {
					lk = l
				}
			}
		}
	}
	if !c.Anchor(rule, "lookup of the Redis store map in Get", lk != nil) {
		return
	}
	okKey := false
	if kc, _, isC := asCall(resolveCell(stripConv(lk.Index))); isC && strings.HasSuffix(funcID(calleeOf(kc).Obj), "RedisConfig.GetServerUri") {
		okKey = true
	}
	c.Obl(okKey, rule, "factory-get/key", P.Pos(lk.Pos()), "the Redis store is looked up under the filter's server URI", "Get looks the Redis store up under "+descDepth(lk.Index, 3)+", not under the filter's server URI itself")
	bad := ""
	n := 0
	for _, r := range returnsOf(get) {
		if len(r.Results) == 0 {
			continue
		}
		for _, alt := range phiAlternatives(get, r.Results[0], r) {
			v := resolveCell(stripConv(alt.V))
			_, f, isL := fieldLoad(v)
			if !isL || f == nil || f.Name() != "memory" {
				continue
			}
			n++
			// the memory store is chosen only because the lookup missed (or the URI is empty)
			fs := unionFacts(ff.At(r), alt.Facts)
			for cond, pol := range fs {
				inner, neg := unwrapBool(cond)
				if ex, isE := inner.(*ssa.Extract); isE && ex.Tuple == ssa.Value(lk) && ex.Index == 1 {
					continue
				}
				if bo, isB := inner.(*ssa.BinOp); isB {
					if isNilConst(bo.Y) || isNilConst(bo.X) {
						continue // cfg == nil and similar
					}
					if s, isS := constString(bo.Y); isS && s == "" {
						continue
					}
				}
				_ = pol
				_ = neg
				if _, isPhi := inner.(*ssa.Phi); isPhi {
					continue
				}
				bad = descDepth(inner, 3)
			}
		}
	}
	// … and the block that picks the in-memory store is entered only over edges on which the lookup is known to have
	// missed (`!ok || somethingElse` enters it over a second edge)
	for _, b := range get.Blocks {
		for _, ins := range b.Instrs {
			ld, isL := ins.(*ssa.UnOp)
			if !isL || ld.Op != token.MUL {
				continue
			}
			if _, f, isF := fieldLoad(ld); !isF || f == nil || f.Name() != "memory" {
				continue
			}
			for _, p0 := range b.Preds {
				missed := false
				for cond, pol := range ff.OnEdge(p0, b) {
					inner, neg := unwrapBool(cond)
					if ex, isE := inner.(*ssa.Extract); isE && ex.Tuple == ssa.Value(lk) && ex.Index == 1 && (pol != neg) == false {
						missed = true
					}
				}
				if !missed {
					bad = "an edge from " + p0.String() + " on which the lookup did not miss"
				}
			}
		}
	}
	c.Obl(bad == "" && n >= 1, rule, "factory-get/memory-only-on-miss", P.Pos(get.Pos()), "the in-memory store is handed out only when no Redis store is registered under the filter's URI",
		"Get hands out the in-memory store under a condition other than a missed lookup ("+bad+"): a filter's sessions move between stores")
}
