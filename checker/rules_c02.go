package main

import (
	"fmt"
	"go/token"
	"go/types"
	"strings"

	"golang.org/x/tools/go/ssa"
)

func init() { registry["C02"] = checkC02 }

const (
	jwxPkg = "github.com/lestrrat-go/jwx/v2"
)

func checkC02(c *Check) {
	P := c.P
	R := GetRoles(P)
	c.Assumes("jws.Verify with WithKeySet(set, WithInferAlgorithmFromKey(true)) verifies the compact token against exactly the given key set, choosing the algorithm from the key and never from the token; the adversarial token grammar itself is decided by jwx")
	c.Rule("C02.R1", "validation precedes every binding: at every SetTokenResponse call of the handler the stored object's ID token is the very string the ID-token validator accepted (validator == true dominates the call, same access path) — directly on the login path, through the refresh helper's summary on the refresh path — and the stored token fields originate only in the token-endpoint answer of this check or in the tokens read from the store for the same session.", 3)
	c.Rule("C02.R2", "validator shape: every `valid` return is dominated by jws.Verify(err == nil) over the same bytes that were parsed for the claims, with a key-set option built from JWKSProvider.Get(ctx, handler config) (err == nil); no path reaches `valid` when no audience element equals the configured client id, when a required nonce is absent, or when a present nonce differs (string !=) from the expected one while required; the login path passes the nonce stored for the same session and `required = true`.", 7)
	c.Rule("C02.R3", "forbidden verification shortcuts: own non-test code references none of jws.WithKey, jws.WithInsecureNoSignature, jws.WithKeyProvider, jws.WithKeyUsed-free Verify, jwt.WithKey, jwt.WithKeySet-less verification toggles; jwt.WithVerify/WithValidate(false) occur only inside the unverified parser oidc.ParseToken, and every jws.Verify carries a WithKeySet option.", 3)
	c.Rule("C02.R5", "key set of the requesting filter: every key set an implementation of JWKSProvider.Get can return is jwk.Parse of the parameter configuration's static JWKS or the fetch-cache entry for the parameter configuration's JWKS URI; provider state that is not keyed by the requesting configuration never flows into the result.", 3)
	c.Rule("C02.R4", "forwarded == bound: the OK writer adds exactly the headers built by the token encoder from the token object it was given (C01.R2's justified object); the encoder maps the configured ID-token header to preamble+ID token and, only when access-token forwarding is configured, the configured access-token header to its preamble+access token (no cross-wiring of header, preamble and token).", 5)

	if !requireRoles(c, "C02.R1", R, "OIDCProcess", "AllowFn", "TokenExchange", "IDTokenValidator", "CallbackHelper", "RefreshHelper") {
		return
	}
	c02R1(c, R)
	c02R2(c, R)
	c02R3(c, R)
	c02R4(c, R)
	c02R5(c, R)
	// the handler that validates and forwards is the matched filter's own (a cached handler of another chain
	// would validate against another client id / key set and forward under other header names)
	if pc := processInvoke(P, R); c.Anchor("C02.R5", "Handler.Process invocation in Check", pc != nil) {
		handlerBuiltPerCheck(c, "C02.R5", R.CheckEntry, pc)
	}
	// … whose endpoints and keys come from the filter's own discovery document, fetched over the filter's own
	// transport (TLS settings of another filter would let an unauthenticated peer answer the token request)
	discoveryCacheKeyRule(c, "C02.R5")
	discoveryFillsEndpoints(c, "C02.R5")
	// … over a TLS configuration that is this filter's own: the pool key covers every TLS setting (C20.R4)
	if c.ID == "C02" {
		// the filter's own settings: an override is merged into an own copy of the defaults (C18.R3)
		importObls(c, "C18", checkC18, "C02.R5", func(o *Obligation) bool { return strings.HasPrefix(o.Key, "C18.R3/merge-into-own-copy") })
		importObls(c, "C20", checkC20, "C02.R5", func(o *Obligation) bool {
			return strings.HasPrefix(o.Key, "C20.R4/hash-consumes-every-field") || strings.HasPrefix(o.Key, "C20.R4/id-is-hash-of-settings") || strings.HasPrefix(o.Key, "C20.R4/key-reads-every-setting")
		})
	}
	transportIsOwn(c, "C02.R5")
}

// c02R5: the key set handed to the validator is the *requesting filter's* key set: every value returned
// by an implementation of JWKSProvider.Get is jwk.Parse of the parameter configuration's static JWKS or
// the cache entry for the parameter configuration's JWKS URI — never provider state shared across
// configurations (a key set cached without regard to the filter would verify tokens of another IdP).
func c02R5(c *Check, R *Roles) {
	P := c.P
	jp := P.NamedType(pkgOIDC, "JWKSProvider")
	if !c.Anchor("C02.R5", "oidc.JWKSProvider", jp != nil) {
		return
	}
	var get *types.Func
	it := jp.Underlying().(*types.Interface)
	for i := 0; i < it.NumMethods(); i++ {
		if it.Method(i).Name() == "Get" {
			get = it.Method(i)
		}
	}
	impls := P.implementersOf(jp, get)
	c.Obl(len(impls) >= 1, "C02.R5", "implementations", "-", fmt.Sprintf("%d production implementations of JWKSProvider.Get", len(impls)), "no implementation of JWKSProvider.Get found")
	for _, impl := range impls {
		var cfgParam *ssa.Parameter
		for _, p := range impl.Params {
			if typeID(p.Type()) == idOIDCConfig {
				cfgParam = p
			}
		}
		if cfgParam == nil {
			c.Fail("C02.R5", "keyset/"+fnKey(impl), P.Pos(impl.Pos()), "no configuration parameter")
			continue
		}
		// collect returned key-set leaves through own callees
		type leaf struct {
			v  ssa.Value
			fn *ssa.Function
			// maps the callee's config parameter back to "the requesting configuration"
			cfg ssa.Value
		}
		var leaves []leaf
		seen := map[*ssa.Function]bool{}
		var collect func(fn *ssa.Function, cfg ssa.Value, depth int)
		collect = func(fn *ssa.Function, cfg ssa.Value, depth int) {
			if seen[fn] || depth == 0 {
				return
			}
			seen[fn] = true
			for _, r := range returnsOf(fn) {
				for _, l := range Leaves(r.Results[0], leafOpts{noConcat: true}) {
					if call, idx, ok := asCall(l); ok && idx == 0 {
						if callee := call.Common().StaticCallee(); callee != nil && callee.Blocks != nil && isOwnPath(pkgPathOf(callee)) {
							// which argument carries the configuration?
							var sub ssa.Value
							for i, a := range call.Common().Args {
								if i < len(callee.Params) && dependsOnValue(a, cfg) {
									sub = callee.Params[i]
								}
							}
							if sub != nil {
								collect(callee, sub, depth-1)
								continue
							}
						}
					}
					leaves = append(leaves, leaf{l, fn, cfg})
				}
			}
		}
		collect(impl, cfgParam, 4)
		n := 0
		for _, lf := range leaves {
			if isNilConst(lf.v) {
				continue
			}
			n++
			key := fmt.Sprintf("keyset/%s#%d", fnKey(lf.fn), n)
			call, idx, ok := asCall(lf.v)
			okSrc := false
			why := "key set originates in " + descDepth(lf.v, 3) + ", which is not derived from the requesting filter's configuration (shared provider state would verify tokens against another filter's keys)"
			if ok && idx == 0 {
				id := funcID(calleeOf(call).Obj)
				switch {
				case strings.HasSuffix(id, "jwx/v2/jwk.Parse"), strings.HasSuffix(id, "jwx/v2/jwk.ParseString"):
					if dependsOnValue(call.Common().Args[0], lf.cfg) {
						okSrc, why = true, "jwk.Parse of the requesting configuration's static JWKS"
					}
				case strings.HasSuffix(id, "jwx/v2/jwk.Cache.Get"):
					args := callArgs(call)
					if len(args) >= 2 && dependsOnValue(args[1], lf.cfg) {
						okSrc, why = true, "cache entry for the requesting configuration's JWKS URI"
					}
				}
			}
			c.Obl(okSrc, "C02.R5", key, P.Pos(instrPos2(lf.v)), why, why)
		}
		c.Obl(n >= 2, "C02.R5", "keyset-count/"+fnKey(impl), P.Pos(impl.Pos()), fmt.Sprintf("%d key-set sources (static, fetched)", n), fmt.Sprintf("%d key-set sources found (floor 2)", n))
	}
}

// dependsOnValue: v data-depends on x.
func dependsOnValue(v, x ssa.Value) bool {
	if v == x {
		return true
	}
	return dataDeps(v)[x]
}

func instrPos2(v ssa.Value) token.Pos {
	if ins, ok := v.(ssa.Instruction); ok {
		return instrPos(ins)
	}
	return v.Pos()
}

// tokenFieldOrigins classifies where the value stored into a TokenResponse field comes from.
func tokenValueOriginOK(R *Roles, fn *ssa.Function, v ssa.Value) (bool, string) {
	// small own helpers that select or compute the value (`valueOr(new, old)`, `o.expirationFromNow(d)`) are looked
	// through: their parameters stand for the caller's arguments. Role functions and anything that talks to the
	// store or the IdP are opaque.
	skip := func(f *ssa.Function) bool {
		if f == R.TokenExchange || f == R.Refresh || f == R.Callback || f == R.Redirect || f == R.Validator {
			return true
		}
		for _, ci := range allCalls(f) {
			if ci.Common().IsInvoke() && typeID(ci.Common().Value.Type()) != pkgOIDC+".Clock" && !strings.HasSuffix(typeID(ci.Common().Value.Type()), "telemetry.Logger") {
				return true
			}
			if callee := ci.Common().StaticCallee(); callee != nil && isOwnPath(pkgPathOf(callee)) && callee.Signature.Recv() == nil && pkgPathOf(callee) == pkgAuthz && len(allCalls(callee)) > 4 {
				return true
			}
		}
		return false
	}
	for _, l := range LeavesInl(v, leafOpts{noConcat: true}, 1, skip) {
		l = resolveCell(l)
		base, f, ok := fieldLoad(l)
		if ok && f != nil {
			bt := typeID(base.Type())
			switch bt {
			case pkgAuthz + ".idpTokensResponse":
				// base must be the token exchange result of this function
				if call, idx, isC := asCall(resolveCell(stripConv(base))); isC && idx == 0 && call.Common().StaticCallee() == R.TokenExchange {
					continue
				}
				return false, "field of a token response that is not the result of the token exchange in this check: " + descDepth(l, 3)
			case idTokenResponse:
				// stored tokens: a parameter (expiredTokens) or the result of GetTokenResponse
				b := resolveCell(stripConv(base))
				if _, isP := b.(*ssa.Parameter); isP {
					continue
				}
				if call, idx, isC := asCall(b); isC && idx == 0 && isCallTo(call, mGetToken) {
					continue
				}
				return false, "field of a TokenResponse of unknown origin: " + descDepth(l, 3)
			}
		}
		// expiry time: clock.Now().Add(...)
		if call, _, isC := asCall(l); isC && isCallTo(call, "time.Time.Add") {
			continue
		}
		if c, isC := l.(*ssa.Const); isC {
			_ = c
			continue // zero values
		}
		if a, isA := l.(*ssa.Alloc); isA && typeID(a.Type()) == "time.Time" {
			continue // zero time.Time variable
		}
		return false, "token value originates in " + descDepth(l, 3) + " (neither the token endpoint answer of this check nor the stored tokens)"
	}
	return true, ""
}

func c02R1(c *Check, R *Roles) {
	P := c.P
	n := 0
	for _, fn := range R.HandlerFuncs {
		for _, ci := range callsTo(fn, mSetToken) {
			call, ok := ci.(*ssa.Call)
			if !ok {
				continue
			}
			n++
			key := "bind/" + nthCallKey(call)
			where := P.Pos(call.Pos())
			fs := FactsOf(fn).At(call)
			T := resolveCell(stripConv(callArgs(call)[2]))
			// (a) refresh helper result
			if src, _, isC := asCall(T); isC && src.Common().StaticCallee() == R.Refresh {
				ok, why := refreshSummary(R)
				ok2, why2 := refreshFieldsOK(R)
				c.Obl(ok && ok2 && fs.CallResultNonNil(src, -1), "C02.R1", key, where,
					"stored object is the non-nil result of the refresh helper, whose every non-nil return is dominated by token exchange OK and validator(returned.IDToken) == true; its fields come from the exchange answer or the stored tokens",
					"refresh-path binding not justified: "+why+" "+why2)
				continue
			}
			// (b) literal built here
			al, isAlloc := T.(*ssa.Alloc)
			if !isAlloc || typeID(al.Type()) != idTokenResponse {
				c.Fail("C02.R1", key, where, "the stored token object "+descDepth(T, 3)+" is neither a literal built from the token endpoint answer nor the refresh helper's result")
				continue
			}
			fields := structFieldStores(al)
			idVals := fields["IDToken"]
			if len(idVals) != 1 {
				c.Fail("C02.R1", key, where, fmt.Sprintf("the stored object's IDToken field has %d assignments (expected exactly one)", len(idVals)))
				continue
			}
			idv := idVals[0]
			validated := false
			for _, vi := range callsToFn(fn, R.Validator) {
				vc := vi.(*ssa.Call)
				v, known := fs.CallBool(vc, 0)
				if !known || !v {
					continue
				}
				for _, a := range callArgs(vc) {
					if isString(a.Type()) && sameVal(a, idv) {
						validated = true
					}
				}
			}
			if !validated {
				c.Fail("C02.R1", key, where, "the ID token stored in the session ("+descDepth(idv, 3)+") is not the string the validator accepted on a dominating call (validate-one-store-another, or validation skipped)")
				continue
			}
			okAll, whyAll := true, ""
			for name, vals := range fields {
				for _, v := range vals {
					if ok, why := tokenValueOriginOK(R, fn, v); !ok {
						okAll, whyAll = false, name+": "+why
					}
				}
			}
			// the exchange answered OK
			exOK := false
			for _, e := range callsToFn(fn, R.TokenExchange) {
				ec := e.(*ssa.Call)
				if rv := resultValue(ec, 1); rv != nil && fs.intFact(rv, func(op token.Token, k int64) bool { return op == token.EQL && k == 0 }) {
					exOK = true
				}
			}
			c.Obl(okAll && exOK, "C02.R1", key, where, "stored ID token == validated string (validator true dominates), token exchange answered OK, all token fields come from that answer",
				"login-path binding not justified: "+whyAll+map[bool]string{true: "", false: " token exchange not known to have answered OK"}[exOK])
		}
	}
	c.Obl(n >= 2, "C02.R1", "bind/count", "-", fmt.Sprintf("%d binding sites", n), fmt.Sprintf("%d SetTokenResponse sites found in the handler (floor 2)", n))
}

// refreshFieldsOK: every field of the object returned by the refresh helper originates in the exchange
// answer of this call or in the stored tokens passed in.
func refreshFieldsOK(R *Roles) (bool, string) {
	fn := R.Refresh
	for _, r := range returnsOf(fn) {
		if isNilConst(r.Results[0]) {
			continue
		}
		ret := resolveCell(stripConv(r.Results[0]))
		al := uniqueAllocOf(ret)
		if al == nil {
			return false, "refresh helper returns " + descDepth(ret, 2) + ", not an object built in the helper"
		}
		for name, vals := range structFieldStores(al) {
			for _, v := range vals {
				if ok, why := tokenValueOriginOK(R, fn, v); !ok {
					return false, name + ": " + why
				}
			}
		}
	}
	return true, ""
}

func c02R2(c *Check, R *Roles) {
	P := c.P
	fn := R.Validator
	ff := FactsOf(fn)
	var tokParam, nonceParam, reqParam *ssa.Parameter
	strs := 0
	for _, p := range fn.Params {
		switch {
		case isString(p.Type()):
			strs++
			if strs == 1 {
				tokParam = p
			} else {
				nonceParam = p
			}
		case isBool(p.Type()):
			reqParam = p
		}
	}
	if !c.Anchor("C02.R2", "validator parameters (token string, expected nonce, required flag)", tokParam != nil && nonceParam != nil && reqParam != nil) {
		return
	}
	isValidReturn := func(ins ssa.Instruction) bool {
		r, ok := ins.(*ssa.Return)
		if !ok {
			return false
		}
		b, isC := constBool(r.Results[0])
		return !isC || b
	}
	// ---- signature
	nValid := 0
	for _, r := range returnsOf(fn) {
		if !isValidReturn(r) {
			continue
		}
		nValid++
		fs := ff.At(r)
		key := fmt.Sprintf("signature/valid-return#%d", nValid)
		ok, why := false, "no dominating jws.Verify(err == nil)"
		for _, vi := range callsTo(fn, fJWSVerify) {
			vc := vi.(*ssa.Call)
			if !fs.CallErrNil(vc, 1) {
				continue
			}
			// bytes verified = the parsed parameter
			bytesOK := false
			for _, l := range Leaves(vc.Common().Args[0], leafOpts{noConcat: true}) {
				if l == tokParam {
					bytesOK = true
				} else {
					bytesOK = false
					break
				}
			}
			if !bytesOK {
				why = "jws.Verify does not verify the same string that is parsed for the claims"
				continue
			}
			// options: WithKeySet(K, ...) with K from JWKSProvider.Get(ctx, o.config), err nil
			ksOK := false
			for d := range dataDeps(vc.Common().Args[1]) {
				kc, isC := d.(*ssa.Call)
				if !isC || !isCallTo(kc, jwxPkg+"/jws.WithKeySet") {
					continue
				}
				g, gi, isG := asCall(resolveCell(stripConv(kc.Common().Args[0])))
				if isG && gi == 0 && isCallTo(g, mJWKSGet) && fs.CallErrNil(g, 1) && isHandlerConfig(callArgs(g)[1]) {
					ksOK = true
				}
			}
			if !ksOK {
				why = "jws.Verify is not given WithKeySet(keys of JWKSProvider.Get(ctx, handler config) with err == nil)"
				continue
			}
			// the claims come from the same string
			parsedSame := false
			for _, pi := range callsTo(fn, fParseToken) {
				pc := pi.(*ssa.Call)
				if pc.Common().Args[0] == tokParam && fs.CallErrNil(pc, 1) {
					parsedSame = true
				}
			}
			if !parsedSame {
				why = "claims are not parsed (err == nil) from the same string that is verified"
				continue
			}
			ok, why = true, "jws.Verify(bytes(token), WithKeySet(JWKSProvider.Get(ctx, o.config))) err == nil; claims parsed from the same string"
		}
		c.Obl(ok, "C02.R2", key, P.Pos(instrPos(r)), why, "a `valid` return without signature verification: "+why)
	}
	c.Obl(nValid >= 1, "C02.R2", "signature/count", P.Pos(fn.Pos()), fmt.Sprintf("%d `valid` returns", nValid), "validator has no `valid` return")

	// ---- audience
	audCmp := audienceComparisons(P, R, fn)
	if c.Obl(len(audCmp) >= 1, "C02.R2", "audience/comparison", P.Pos(fn.Pos()), "an audience element is compared (==) with the configured client id",
		"no string equality between an element of the token's audience and the handler's configured client id (Contains/prefix/other comparisons do not count)") {
		atoms := atomEnv{}
		okHelpers := true
		for _, a := range audCmp {
			g := a.(ssa.Instruction).Parent()
			if g == fn {
				atoms[a] = false
				continue
			}
			// comparison inside a helper: the helper cannot answer true when the comparison never holds, and the
			// validator then sees the helper's result as false
			if existsPath(g, atomEnv{a: false}, func(i ssa.Instruction) bool {
				r, ok := i.(*ssa.Return)
				if !ok || len(r.Results) != 1 {
					return false
				}
				b, isC := constBool(r.Results[0])
				return !isC || b
			}, nil) != nil {
				okHelpers = false
			}
			for _, ci := range callsToFn(fn, g) {
				atoms[ci.(*ssa.Call)] = false
			}
		}
		hit := existsPath(fn, atoms, isValidReturn, nil)
		c.Obl(hit == nil && okHelpers, "C02.R2", "audience/no-match-never-valid", P.Pos(fn.Pos()), "with no audience element equal to the client id no `valid` return is reachable",
			"a `valid` return is reachable although no audience element equals the client id ("+posOf(P, hit)+")")
	}

	// ---- nonce
	var present ssa.Value
	var claim ssa.Value
	for _, ci := range allCalls(fn) {
		cc, ok := ci.(*ssa.Call)
		if !ok || !cc.Common().IsInvoke() || cc.Common().Method.Name() != "Get" {
			continue
		}
		if s, isS := constString(cc.Common().Args[0]); isS && s == "nonce" {
			present = extractOf(cc, 1)
			claim = extractOf(cc, 0)
		}
	}
	if !c.Anchor("C02.R2", "lookup of the nonce claim", present != nil && claim != nil) {
		return
	}
	var neq []ssa.Value
	for _, b := range fn.Blocks {
		for _, ins := range b.Instrs {
			bo, ok := ins.(*ssa.BinOp)
			if !ok || (bo.Op != token.NEQ && bo.Op != token.EQL) || !isString(bo.X.Type()) {
				continue
			}
			fromClaim := func(v ssa.Value) bool { return dataDeps(v)[claim] }
			if (fromClaim(bo.X) && bo.Y == nonceParam) || (fromClaim(bo.Y) && bo.X == nonceParam) {
				neq = append(neq, bo)
			}
		}
	}
	if !c.Obl(len(neq) >= 1, "C02.R2", "nonce/comparison", P.Pos(fn.Pos()), "the nonce claim is compared with the expected nonce by string (in)equality",
		"no string (in)equality between the token's nonce claim and the expected nonce (EqualFold/prefix/other comparisons do not count)") {
		return
	}
	differs := func(val bool) atomEnv {
		a := atomEnv{present: true, reqParam: true}
		for _, n := range neq {
			if n.(*ssa.BinOp).Op == token.NEQ {
				a[n] = val
			} else {
				a[n] = !val
			}
		}
		// a claim of non-string type is treated as a mismatch by the comma-ok guard: explore both
		return a
	}
	hit := existsPath(fn, differs(true), isValidReturn, nil)
	c.Obl(hit == nil, "C02.R2", "nonce/mismatch-never-valid", P.Pos(fn.Pos()), "nonce present, required and different from the expected one ⇒ no `valid` return reachable",
		"a `valid` return is reachable although the token's nonce differs from the expected one on the login path ("+posOf(P, hit)+")")
	hit = existsPath(fn, atomEnv{present: false, reqParam: true}, isValidReturn, nil)
	c.Obl(hit == nil, "C02.R2", "nonce/absent-never-valid-when-required", P.Pos(fn.Pos()), "nonce required but absent ⇒ no `valid` return reachable",
		"a `valid` return is reachable although the nonce claim is absent on the login path ("+posOf(P, hit)+")")
	// sanity: the happy path exists
	hit = existsPath(fn, differs(false), isValidReturn, nil)
	c.Obl(hit != nil, "C02.R2", "nonce/match-can-be-valid", P.Pos(fn.Pos()), "a matching nonce can reach `valid`", "no `valid` return reachable even with a matching nonce (analysis anchor lost)")

	// ---- login call site
	for _, vi := range callsToFn(R.Callback, R.Validator) {
		vc := vi.(*ssa.Call)
		args := vc.Common().Args
		var nonceArg, reqArg ssa.Value
		for i, p := range fn.Params {
			if p == nonceParam {
				nonceArg = args[i]
			}
			if p == reqParam {
				reqArg = args[i]
			}
		}
		okN := isFieldOf(nonceArg, "Nonce", func(b ssa.Value) bool {
			g, gi, isC := asCall(b)
			return isC && gi == 0 && isCallTo(g, mGetState)
		})
		req, isC := constBool(reqArg)
		c.Obl(okN && isC && req, "C02.R2", "login-call/"+nthCallKey(vc), P.Pos(vc.Pos()), "login path validates against the nonce stored for this session, nonce required",
			"the login path does not validate against the nonce of the login state loaded for this session with `required = true`")
	}
}

func c02R3(c *Check, R *Roles) {
	P := c.P
	forbidden := map[string]string{
		jwxPkg + "/jws.WithKey":                 "verification with a single caller-chosen key/algorithm",
		jwxPkg + "/jws.WithInsecureNoSignature": "accepts unsigned tokens",
		jwxPkg + "/jws.WithKeyProvider":         "key chosen by a callback that can look at the token's own header",
		jwxPkg + "/jwt.WithKey":                 "verification with a caller-chosen algorithm",
		jwxPkg + "/jwt.WithKeyProvider":         "key chosen from the token's own header",
		jwxPkg + "/jws.WithUseDefault":          "falls back to a default key when kid does not match",
		jwxPkg + "/jws.WithRequireKid":          "",
	}
	delete(forbidden, jwxPkg+"/jws.WithRequireKid")
	nScanned := 0
	for _, fn := range P.Funcs {
		if strings.HasPrefix(pkgPathOf(fn), modPath+"/config/gen/go") {
			continue
		}
		nScanned++
		for _, ci := range allCalls(fn) {
			ce := calleeOf(ci)
			if ce.Obj == nil {
				continue
			}
			id := funcID(ce.Obj)
			if why, bad := forbidden[id]; bad {
				c.Fail("C02.R3", "forbidden/"+nthCallKey(ci), P.Pos(ci.Pos()), shortID(id)+": "+why)
			}
			if id == jwxPkg+"/jwt.WithVerify" || id == jwxPkg+"/jwt.WithValidate" {
				inParser := fn.Name() == "ParseToken" && pkgPathOf(fn) == pkgOIDC
				c.Obl(inParser, "C02.R3", "unverified-parse/"+nthCallKey(ci), P.Pos(ci.Pos()), shortID(id)+" only inside the unverified claims parser oidc.ParseToken (whose results never justify a binding by themselves: C02.R1)",
					shortID(id)+" used outside oidc.ParseToken: signature/claim verification is being switched off in "+fnKey(fn))
			}
			if id == fJWSVerify {
				has := false
				if cc, ok := ci.(*ssa.Call); ok && len(cc.Common().Args) > 1 {
					for d := range dataDeps(cc.Common().Args[1]) {
						if kc, isC := d.(*ssa.Call); isC && isCallTo(kc, jwxPkg+"/jws.WithKeySet") {
							has = true
						}
					}
				}
				c.Obl(has, "C02.R3", "verify-has-keyset/"+nthCallKey(ci), P.Pos(ci.Pos()), "jws.Verify carries a WithKeySet option", "jws.Verify is called without a WithKeySet option")
			}
			if id == jwxPkg+"/jwt.Parse" || id == jwxPkg+"/jwt.ParseString" || id == jwxPkg+"/jwt.ParseInsecure" {
				inParser := fn.Name() == "ParseToken" && pkgPathOf(fn) == pkgOIDC
				c.Obl(inParser, "C02.R3", "jwt-parse/"+nthCallKey(ci), P.Pos(ci.Pos()), "jwt parsing happens only in oidc.ParseToken",
					shortID(id)+" is called outside oidc.ParseToken in "+fnKey(fn)+": a second, unaudited parsing path")
			}
		}
	}
	c.Pass("C02.R3", "scan", "-", fmt.Sprintf("%d own functions scanned for forbidden jwx options", nScanned))
}

func c02R4(c *Check, R *Roles) {
	P := c.P
	// encoder = own method returning map[string]string called by the OK writer
	var enc *ssa.Function
	var encCall *ssa.Call
	for _, ci := range allCalls(R.AllowFn) {
		if cc, ok := ci.(*ssa.Call); ok {
			if callee := cc.Common().StaticCallee(); callee != nil && R.InHandler(callee) {
				if _, isMap := callee.Signature.Results().At(0).Type().Underlying().(interface{ Key() interface{} }); isMap {
					_ = isMap
				}
				if strings.HasPrefix(callee.Signature.Results().String(), "(map[string]string") || callee.Signature.Results().Len() == 1 && strings.HasPrefix(callee.Signature.Results().At(0).Type().String(), "map[string]string") {
					enc, encCall = callee, cc
				}
			}
		}
	}
	if !c.Anchor("C02.R4", "token header encoder called by the OK writer", enc != nil) {
		return
	}
	// OK writer: passes its token parameter, appends only the encoder's pairs
	var tokParam *ssa.Parameter
	for _, p := range R.AllowFn.Params {
		if typeID(p.Type()) == idTokenResponse {
			tokParam = p
		}
	}
	passes := false
	for _, a := range encCall.Common().Args {
		if a == tokParam {
			passes = true
		}
	}
	c.Obl(passes, "C02.R4", "ok-writer/passes-tokens", P.Pos(encCall.Pos()), "the OK writer encodes the token object it was given", "the OK writer does not pass its token argument to the header encoder")
	// every header the OK writer adds has key/value from the range over the encoder's map
	nHV := 0
	for _, hs := range headerSites(P, R) {
		if hs.Fn != R.AllowFn {
			continue
		}
		nHV++
		okKV := hs.KeyVal != nil && hs.Val != nil
		for _, v := range []ssa.Value{hs.KeyVal, hs.Val} {
			if v == nil || !dataDeps(v)[encCall] {
				okKV = false
			}
		}
		c.Obl(okKV, "C02.R4", fmt.Sprintf("ok-writer/header#%d", nHV), P.Pos(instrPos(hs.At)), "header key and value come from the encoder's map", "the OK writer adds a header that does not come from the token encoder")
	}
	c.Obl(nHV == 1, "C02.R4", "ok-writer/header-count", P.Pos(R.AllowFn.Pos()), "exactly one header construction site (inside the loop over the encoder's map)",
		fmt.Sprintf("%d header construction sites in the OK writer (expected exactly the loop over the encoder's map)", nHV))

	// encoder table
	var encTok *ssa.Parameter
	for _, p := range enc.Params {
		if typeID(p.Type()) == idTokenResponse {
			encTok = p
		}
	}
	valueHelper := func(v ssa.Value) (pre, tok ssa.Value, ok bool) {
		call, _, isC := asCall(resolveCell(stripConv(v)))
		if !isC || call.Common().StaticCallee() == nil || len(call.Common().Args) != 2 {
			return nil, nil, false
		}
		return call.Common().Args[0], call.Common().Args[1], true
	}
	cfgTok := func(v ssa.Value, which string) bool { // config.Get<which>() or config.<which>
		v = resolveCell(stripConv(v))
		if isGetterOn(v, idOIDCConfig+".Get"+which, isHandlerConfig) {
			return true
		}
		return isFieldOf(v, which, isHandlerConfig)
	}
	nUpd := 0
	seen := map[string]bool{}
	for _, b := range enc.Blocks {
		for _, ins := range b.Instrs {
			mu, ok := ins.(*ssa.MapUpdate)
			if !ok {
				continue
			}
			nUpd++
			which := ""
			for _, w := range []string{"IdToken", "AccessToken"} {
				if isGetterOn(mu.Key, pkgCfgOIDC+".TokenConfig.GetHeader", func(r ssa.Value) bool { return cfgTok(r, w) }) {
					which = w
				}
			}
			key := fmt.Sprintf("encoder/entry#%d", nUpd)
			if which == "" {
				c.Fail("C02.R4", key, P.Pos(instrPos(mu)), "header name "+descDepth(mu.Key, 3)+" is not config.Get{IdToken,AccessToken}().GetHeader()")
				continue
			}
			seen[which] = true
			pre, tok, okH := valueHelper(mu.Value)
			wantField := map[string]string{"IdToken": "IDToken", "AccessToken": "AccessToken"}[which]
			okPre := okH && isGetterOn(pre, pkgCfgOIDC+".TokenConfig.GetPreamble", func(r ssa.Value) bool { return cfgTok(r, which) })
			okTok := okH && isFieldOf(tok, wantField, func(b ssa.Value) bool { return b == encTok })
			okGuard := true
			if which == "AccessToken" {
				fs := FactsOf(enc).At(mu)
				okGuard = false
				for cond, pol := range fs {
					if bo, isB := cond.(*ssa.BinOp); isB && isNilConst(bo.Y) && cfgTok(bo.X, "AccessToken") {
						if (bo.Op == token.EQL && !pol) || (bo.Op == token.NEQ && pol) {
							okGuard = true
						}
					}
				}
			}
			c.Obl(okPre && okTok && okGuard, "C02.R4", key+"/"+which, P.Pos(instrPos(mu)),
				which+": configured header ↦ its own preamble + tokens."+wantField+map[bool]string{true: " (only when access-token forwarding is configured)", false: ""}[which == "AccessToken"],
				fmt.Sprintf("%s header entry is cross-wired or unguarded (own preamble: %v, own token field: %v, forwarding guard: %v)", which, okPre, okTok, okGuard))
		}
	}
	c.Obl(seen["IdToken"] && seen["AccessToken"] && nUpd == 2, "C02.R4", "encoder/entries", P.Pos(enc.Pos()), "exactly the ID-token and access-token entries",
		fmt.Sprintf("the encoder writes %d entries (ID token present: %v, access token present: %v); expected exactly those two", nUpd, seen["IdToken"], seen["AccessToken"]))
	// ID token entry is unconditional: every return of the encoder is preceded by it
	idAlways := true
	for _, r := range returnsOf(enc) {
		if !mustPassBefore(enc, r, func(i ssa.Instruction) bool {
			mu, ok := i.(*ssa.MapUpdate)
			return ok && isGetterOn(mu.Key, pkgCfgOIDC+".TokenConfig.GetHeader", func(rv ssa.Value) bool { return cfgTok(rv, "IdToken") })
		}) {
			idAlways = false
		}
	}
	c.Obl(idAlways, "C02.R4", "encoder/id-token-always", P.Pos(enc.Pos()), "the ID token entry is written on every path", "the ID token header can be omitted on some path of the encoder")
	// the access token entry is omitted only when forwarding is not configured or there is no access token: with
	// GetAccessToken() != nil and AccessToken != "" assumed, no return of the encoder is reachable without the entry
	// (a bound token that is silently not forwarded leaves the client's own header in place: forwarded ≠ bound)
	{
		atoms := atomEnv{}
		for _, b := range enc.Blocks {
			for _, ins := range b.Instrs {
				bo, ok := ins.(*ssa.BinOp)
				if !ok || (bo.Op != token.EQL && bo.Op != token.NEQ) {
					continue
				}
				if gc, _, isC := asCall(bo.X); isC && isCallTo(gc, idOIDCConfig+".GetAccessToken") && isNilConst(bo.Y) {
					atoms[bo] = bo.Op == token.NEQ
				}
				if s, isK := constString(bo.Y); isK && s == "" && fieldNameOfLoad(bo.X) == "AccessToken" {
					atoms[bo] = bo.Op == token.NEQ
				}
			}
		}
		isAcc := func(i ssa.Instruction) bool {
			mu, ok := i.(*ssa.MapUpdate)
			return ok && isGetterOn(mu.Key, pkgCfgOIDC+".TokenConfig.GetHeader", func(rv ssa.Value) bool { return cfgTok(rv, "AccessToken") })
		}
		hit := existsPath(enc, atoms, func(i ssa.Instruction) bool { _, isR := i.(*ssa.Return); return isR }, isAcc)
		c.Obl(len(atoms) >= 2 && hit == nil, "C02.R4", "encoder/access-token-whenever-configured-and-present", P.Pos(enc.Pos()),
			"forwarding configured ∧ access token present ⇒ the entry is written on every path",
			"the encoder can return without the access-token entry although forwarding is configured and the session holds an access token ("+posOf(P, hit)+"): the bound token is not what the upstream receives")
	}
	// preamble helper shape: returns preamble + " " + value or value
	for _, ci := range allCalls(enc) {
		callee := ci.Common().StaticCallee()
		if callee == nil || !R.InHandler(callee) || len(callee.Params) != 2 || !isString(callee.Params[0].Type()) {
			continue
		}
		okShape := true
		for _, r := range returnsOf(callee) {
			for _, l := range Leaves(r.Results[0], leafOpts{}) {
				if l == callee.Params[0] || l == callee.Params[1] {
					continue
				}
				if s, isS := constString(l); isS && s == " " {
					continue
				}
				okShape = false
			}
			// the value parameter is always part of the result
			hasVal := false
			for _, l := range Leaves(r.Results[0], leafOpts{}) {
				if l == callee.Params[1] {
					hasVal = true
				}
			}
			if !hasVal {
				okShape = false
			}
			// the bare value is returned only when no preamble is configured: a result without the preamble under any other
			// condition (the token "already carries it") forwards something else than preamble + bound token
			for _, alt := range phiAlternatives(callee, r.Results[0], r) {
				hasPre := false
				for _, l := range Leaves(alt.V, leafOpts{}) {
					if l == callee.Params[0] {
						hasPre = true
					}
				}
				if !hasPre && !unionFacts(FactsOf(callee).At(r), alt.Facts).StrEmpty(callee.Params[0]) {
					okShape = false
				}
			}
		}
		c.Obl(okShape, "C02.R4", "encoder/value-helper/"+fnKey(callee), P.Pos(callee.Pos()), "value helper returns preamble + \" \" + value, or the bare value exactly when the preamble is empty", "the header value helper returns something other than preamble + \" \" + value (the bare value only for an empty preamble)")
		break
	}
}

// audienceComparisons: string equalities between an element of the token's audience and the handler's
// configured client id, in fn or in own helpers it calls (parameters followed to the call sites in fn).
func audienceComparisons(P *Program, R *Roles, fn *ssa.Function) []ssa.Value {
	var out []ssa.Value
	from := func(v ssa.Value, pred func(*ssa.Call) bool, g *ssa.Function) bool {
		check := func(x ssa.Value) bool {
			for d := range dataDeps(x) {
				if c, ok := d.(*ssa.Call); ok && pred(c) {
					return true
				}
			}
			if c, ok := x.(*ssa.Call); ok && pred(c) {
				return true
			}
			return false
		}
		if check(v) {
			return true
		}
		// through a parameter of the helper
		for d := range dataDeps(v) {
			p, isP := d.(*ssa.Parameter)
			if !isP || p.Parent() != g || g == fn {
				continue
			}
			idx := -1
			for i, q := range g.Params {
				if q == p {
					idx = i
				}
			}
			okAll, n := true, 0
			for _, cs := range P.CallersOf(g) {
				if idx < 0 || idx >= len(cs.Common().Args) {
					continue
				}
				n++
				if !check(cs.Common().Args[idx]) {
					okAll = false
				}
			}
			if okAll && n > 0 {
				return true
			}
		}
		if p, isP := v.(*ssa.Parameter); isP && p.Parent() == g && g != fn {
			idx := -1
			for i, q := range g.Params {
				if q == p {
					idx = i
				}
			}
			okAll, n := true, 0
			for _, cs := range P.CallersOf(g) {
				if idx < 0 || idx >= len(cs.Common().Args) {
					continue
				}
				n++
				if !check(cs.Common().Args[idx]) {
					okAll = false
				}
			}
			return okAll && n > 0
		}
		return false
	}
	isAud := func(c *ssa.Call) bool { return c.Common().IsInvoke() && c.Common().Method.Name() == "Audience" }
	isCID := func(c *ssa.Call) bool {
		return isCallTo(c, idOIDCConfig+".GetClientId") && isHandlerConfig(c.Common().Args[0])
	}
	for _, g := range deepFuncs(fn, 2) {
		if g != fn && !R.InHandler(g) {
			continue
		}
		for _, b := range g.Blocks {
			for _, ins := range b.Instrs {
				bo, ok := ins.(*ssa.BinOp)
				if !ok || bo.Op != token.EQL || !isString(bo.X.Type()) {
					continue
				}
				if (from(bo.X, isAud, g) && from(bo.Y, isCID, g)) || (from(bo.Y, isAud, g) && from(bo.X, isCID, g)) {
					out = append(out, bo)
				}
			}
		}
		// the library form of the same comparison: slices.Contains(audience, client id) — element-wise ==
		for _, ci := range allCalls(g) {
			cc, ok := ci.(*ssa.Call)
			if !ok || len(cc.Common().Args) != 2 {
				continue
			}
			callee := cc.Common().StaticCallee()
			if callee == nil {
				continue
			}
			o := callee
			if callee.Origin() != nil {
				o = callee.Origin()
			}
			if o.Pkg == nil || o.Pkg.Pkg.Path() != "slices" || o.Name() != "Contains" {
				continue
			}
			if from(cc.Common().Args[0], isAud, g) && from(cc.Common().Args[1], isCID, g) {
				out = append(out, cc)
			}
		}
	}
	return out
}

// uniqueAllocOf: v is (on every path: through phis and cells) one and the same allocation.
func uniqueAllocOf(v ssa.Value) *ssa.Alloc {
	var al *ssa.Alloc
	for _, l := range Leaves(v, leafOpts{}) {
		a, ok := resolveCell(stripConv(l)).(*ssa.Alloc)
		if !ok || (al != nil && a != al) {
			return nil
		}
		al = a
	}
	return al
}

// optionalNonceRule: on the path where the nonce is not required (refresh: the login state, and the nonce
// with it, was cleared when the login completed) a nonce carried by the token is compared only when there
// is an expected nonce to compare it with — a provider that repeats the original nonce in refreshed ID tokens
// must not be refused. Decided as path feasibility in the validator: with required = false, expected == ""
// and the (in)equality of the two nonces set to `differ`, a `valid` return must still be reachable.
// Filed under C11.R3 and C03.R7.
func optionalNonceRule(c *Check, rule string, R *Roles) {
	P := c.P
	fn := R.Validator
	if fn == nil {
		return
	}
	var nonceParam, reqParam *ssa.Parameter
	strs := 0
	for _, p := range fn.Params {
		switch {
		case isString(p.Type()):
			strs++
			if strs == 2 {
				nonceParam = p
			}
		case isBool(p.Type()):
			reqParam = p
		}
	}
	var present, claim ssa.Value
	for _, ci := range allCalls(fn) {
		cc, ok := ci.(*ssa.Call)
		if !ok || !cc.Common().IsInvoke() || cc.Common().Method.Name() != "Get" {
			continue
		}
		if s, isS := constString(cc.Common().Args[0]); isS && s == "nonce" {
			present = extractOf(cc, 1)
			claim = extractOf(cc, 0)
		}
	}
	if !c.Anchor(rule, "validator parameters and nonce claim lookup", nonceParam != nil && reqParam != nil && present != nil && claim != nil) {
		return
	}
	atoms := atomEnv{present: true, reqParam: false}
	nCmp := 0
	for _, b := range fn.Blocks {
		for _, ins := range b.Instrs {
			bo, ok := ins.(*ssa.BinOp)
			if !ok || (bo.Op != token.NEQ && bo.Op != token.EQL) || !isString(bo.X.Type()) {
				continue
			}
			fromClaim := func(v ssa.Value) bool { return dataDeps(v)[claim] }
			switch {
			case (fromClaim(bo.X) && bo.Y == ssa.Value(nonceParam)) || (fromClaim(bo.Y) && bo.X == ssa.Value(nonceParam)):
				atoms[bo] = bo.Op == token.NEQ // the nonces differ
				nCmp++
			case bo.X == ssa.Value(nonceParam) || bo.Y == ssa.Value(nonceParam):
				other := bo.Y
				if bo.Y == ssa.Value(nonceParam) {
					other = bo.X
				}
				if s, isC := constString(other); isC && s == "" {
					atoms[bo] = bo.Op == token.EQL // the expected nonce is empty
				}
			case fromClaim(bo.X) || fromClaim(bo.Y):
				other := bo.Y
				if fromClaim(bo.Y) {
					other = bo.X
				}
				if s, isC := constString(other); isC && s == "" {
					atoms[bo] = bo.Op == token.NEQ // the token's nonce is non-empty
				}
			}
		}
	}
	isValidReturn := func(ins ssa.Instruction) bool {
		r, ok := ins.(*ssa.Return)
		if !ok {
			return false
		}
		b, isC := constBool(r.Results[0])
		return !isC || b
	}
	hit := existsPath(fn, atoms, isValidReturn, nil)
	c.Obl(nCmp >= 1 && hit != nil, rule, "optional-nonce-needs-an-expectation", P.Pos(fn.Pos()),
		"not required ∧ no expected nonce ∧ token carries a nonce ⇒ `valid` is still reachable (the nonce is compared only against an existing expectation)",
		"with the nonce not required and no expected nonce, a token that carries a nonce can no longer be valid: refreshed ID tokens that repeat the login's nonce are refused after the login state was cleared")
}
