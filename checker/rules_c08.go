package main

import (
	"fmt"
	"go/token"
	"go/types"
	"strings"

	"golang.org/x/tools/go/ssa"
)

func init() { registry["C08"] = checkC08 }

// rangeLoop describes a `for _, x := range <slice>` lowered by go/ssa.
type rangeLoop struct {
	Head  *ssa.BasicBlock
	Slice ssa.Value // the ranged slice value
	Index ssa.Value // current index (phi + 1)
	Elem  []ssa.Value
}

// forwardRange: the IndexAddr's index is the canonical range counter (phi[-1, next]; next = phi + 1;
// next < len(slice)), i.e. elements are visited first to last, each once.
func forwardRange(ia *ssa.IndexAddr) (bool, string) {
	// the explicit form: for i := 0; i < len(s); i++ { … s[i] … } — the index is phi[0, phi+1] at the loop head
	if ph, isPhi := ia.Index.(*ssa.Phi); isPhi {
		startOK, stepOK := false, false
		for _, e := range ph.Edges {
			if k, isK := constInt(e); isK && k == 0 {
				startOK = true
			} else if inc, isB := e.(*ssa.BinOp); isB && inc.Op == token.ADD && inc.X == ssa.Value(ph) {
				if one, isC := constInt(inc.Y); isC && one == 1 {
					stepOK = true
				} else {
					return false, "index does not advance by one"
				}
			} else {
				return false, "index has another source " + descDepth(e, 2)
			}
		}
		if startOK && stepOK {
			return true, ""
		}
		return false, "index does not start at the first element and step forward"
	}
	bo, ok := ia.Index.(*ssa.BinOp)
	if !ok || bo.Op != token.ADD {
		return false, "index is not the range counter"
	}
	one, isC := constInt(bo.Y)
	ph, isPhi := bo.X.(*ssa.Phi)
	if !isC || one != 1 || !isPhi {
		return false, "index does not advance by one"
	}
	startOK, stepOK := false, false
	for _, e := range ph.Edges {
		if k, isK := constInt(e); isK && k == -1 {
			startOK = true
		} else if e == ssa.Value(bo) {
			stepOK = true
		} else {
			return false, "index has another source " + descDepth(e, 2)
		}
	}
	if !startOK || !stepOK {
		return false, "index does not start at the first element and step forward"
	}
	return true, ""
}

func checkC08(c *Check) {
	P := c.P
	R := GetRoles(P)
	c.Assumes("comparison with an independent reference evaluator over all chain layouts is dynamic and not performed; the shape rules below are necessary conditions of the documented evaluation order")
	c.Rule("C08.R1", "order: the chains are visited by a forward range over the loaded configuration's chain list, and the filters of a chain by a forward range over that chain's filter list; neither list is written, sorted, copied-and-reordered or indexed backwards in Check.", 3)
	c.Rule("C08.R2", "first match is final: within the chain loop the next chain is reachable only through the false outcome of matches(current chain's criterion, request); every path taken after a match ends in a return.", 2)
	c.Rule("C08.R3", "all filters, first denial wins, response as is: (with C01.R5) the handler is chosen by a type switch with an arm for every filter kind that survives configuration loading, each arm building its handler from that filter's own configuration; the denial returned is the response object the handler filled.", 4)
	c.Rule("C08.R4", "default: code after the chain loop returns the shared allow only when AllowUnmatchedRequests is set and otherwise a fresh response with PermissionDenied.", 2)
	c.Rule("C08.R6", "configured order is what Check walks: no own function outside the generated code assigns Config.Chains, FilterChain.Filters or FilterChain.FilterChainMatch (the loader may change a filter's type when merging overrides, never the lists or the match criteria).", 1)
	c.Rule("C08.R5", "criterion: a nil criterion matches; the header is looked up under strings.ToLower(criterion header); a non-empty equality value is compared with string ==; otherwise strings.HasPrefix(header value, configured prefix) with the header value as subject.", 5)
	if !requireRoles(c, "C08.R1", R, "CheckEntry") {
		return
	}
	fn := R.CheckEntry
	var matchFn *ssa.Function
	for _, ci := range allCalls(fn) {
		if callee := ci.Common().StaticCallee(); callee != nil && pkgPathOf(callee) == pkgServer && callee.Signature.Results().Len() == 1 && isBool(callee.Signature.Results().At(0).Type()) {
			for _, p := range callee.Params {
				if typeID(p.Type()) == pkgCfgV1+".Match" {
					matchFn = callee
				}
			}
		}
	}
	if !c.Anchor("C08.R2", "chain criterion function (takes *Match)", matchFn != nil) {
		return
	}
	var matchCall *ssa.Call
	for _, ci := range callsToFn(fn, matchFn) {
		matchCall, _ = ci.(*ssa.Call)
	}
	var procCall *ssa.Call
	for _, ci := range allCalls(fn) {
		if cc, ok := ci.(*ssa.Call); ok && isCallTo(cc, idHandlerIface+".Process") {
			procCall = cc
		}
	}
	if !c.Anchor("C08.R2", "matches call and Process call in Check", matchCall != nil && procCall != nil) {
		return
	}

	// ---- R1
	check := func(name, field, getter string, at ssa.Instruction) *ssa.IndexAddr {
		// the IndexAddr whose slice is a load of `field` (or getter result) that dominates `at`
		var found *ssa.IndexAddr
		for _, b := range fn.Blocks {
			for _, ins := range b.Instrs {
				ia, ok := ins.(*ssa.IndexAddr)
				if !ok {
					continue
				}
				src := resolveCell(stripConv(ia.X))
				isList := false
				if _, f, okf := fieldLoad(src); okf && f != nil && f.Name() == field {
					isList = true
				}
				if gc, _, okc := asCall(src); okc && isCallTo(gc, getter) {
					isList = true
				}
				if isList && ia.Block().Dominates(at.Block()) {
					found = ia
				}
			}
		}
		if found == nil {
			c.Fail("C08.R1", "order/"+name, P.Pos(fn.Pos()), "no forward range over the "+name+" list dominates the evaluation")
			return nil
		}
		ok, why := forwardRange(found)
		c.Obl(ok, "C08.R1", "order/"+name, P.Pos(instrPos(found)), name+" are visited first to last by a range loop over the configured list", name+" are not visited in configuration order: "+why)
		return found
	}
	chainIA := check("chains", "Chains", pkgCfgV1+".Config.GetChains", matchCall)
	filterIA := check("filters", "Filters", pkgCfgV1+".FilterChain.GetFilters", procCall)
	// no reordering / writes
	bad := ""
	for _, ci := range allCalls(fn) {
		id := funcID(calleeOf(ci).Obj)
		if strings.HasPrefix(id, "sort.") || strings.HasPrefix(id, "slices.Sort") || strings.HasPrefix(id, "slices.Reverse") {
			bad = "calls " + shortID(id)
		}
	}
	for _, b := range fn.Blocks {
		for _, ins := range b.Instrs {
			if st, ok := ins.(*ssa.Store); ok {
				if fa, isF := st.Addr.(*ssa.FieldAddr); isF {
					id := fieldAddrID(fa)
					if id == pkgCfgV1+".Config.Chains" || id == pkgCfgV1+".FilterChain.Filters" {
						bad = "writes " + shortID(id)
					}
				}
				if ia, isI := st.Addr.(*ssa.IndexAddr); isI && (chainIA != nil && ia.X == chainIA.X || filterIA != nil && ia.X == filterIA.X) {
					bad = "writes an element of the configured list"
				}
			}
		}
	}
	c.Obl(bad == "", "C08.R1", "order/no-reordering", P.Pos(fn.Pos()), "the configured lists are neither sorted nor written in Check", "Check "+bad)

	// ---- R2
	if chainIA != nil {
		head := loopHeadOf(matchCall.Block())
		// criterion of the current chain
		argOK := false
		if _, f, okf := fieldLoad(resolveCell(stripConv(matchCall.Common().Args[0]))); okf && f != nil && f.Name() == "Match" {
			argOK = true
		}
		if gc, _, okc := asCall(resolveCell(stripConv(matchCall.Common().Args[0]))); okc && isCallTo(gc, pkgCfgV1+".FilterChain.GetMatch") {
			argOK = true
		}
		fromElem := false
		for d := range dataDeps(matchCall.Common().Args[0]) {
			if d == ssa.Value(chainIA) {
				fromElem = true
			}
		}
		c.Obl(argOK && fromElem && head != nil, "C08.R2", "criterion-of-current-chain", P.Pos(matchCall.Pos()), "matches(current chain's Match, request)", "matches is not evaluated on the current chain's criterion")
		if head != nil {
			ts := trueSuccessors(matchCall)
			okFinal := len(ts) > 0
			var via ssa.Instruction
			for _, s := range ts {
				if s == head {
					okFinal = false
				}
				if h := reachAvoiding(nil, s, func(i ssa.Instruction) bool { return i.Block() == head }, nil); h != nil {
					okFinal, via = false, h
				}
			}
			c.Obl(okFinal, "C08.R2", "first-match-final", P.Pos(matchCall.Pos()), "after a match no path leads to the next chain (all end in a return)",
				"after a chain matched, evaluation can continue with a later chain ("+posOf(P, via)+"): a later chain could override the first matching one")
			// a non-match continues with the next chain (does not return a verdict)
			fsucc := falseSuccessors(matchCall)
			okCont := len(fsucc) > 0
			for _, s := range fsucc {
				if s == head {
					continue
				}
				if h := reachAvoiding(nil, s, isReturn, func(i ssa.Instruction) bool { return i.Block() == head }); h != nil {
					okCont = false
				}
			}
			c.Obl(okCont, "C08.R2", "non-match-continues", P.Pos(matchCall.Pos()), "a non-matching chain leads to the next chain without a verdict", "a non-matching chain can end the evaluation")
		}
	}

	// ---- R3: type switch arms
	var ifc *types.Interface
	if ft := P.NamedType(pkgCfgV1, "Filter"); ft != nil {
		if st, ok := ft.Underlying().(*types.Struct); ok {
			for i := 0; i < st.NumFields(); i++ {
				if st.Field(i).Name() == "Type" {
					ifc, _ = st.Field(i).Type().Underlying().(*types.Interface)
				}
			}
		}
	}
	if c.Anchor("C08.R3", "Filter oneof interface", ifc != nil) {
		survives := map[string]string{"Filter_Mock": "Mock", "Filter_Oidc": "Oidc"}
		eliminated := map[string]string{"Filter_OidcOverride": "replaced by a merged Filter_Oidc while loading (C17.R3)"}
		scope := P.SSA[pkgCfgV1].Pkg.Scope()
		for _, n := range scope.Names() {
			tn, ok := scope.Lookup(n).(*types.TypeName)
			if !ok {
				continue
			}
			named, ok := tn.Type().(*types.Named)
			if !ok || !types.Implements(types.NewPointer(named), ifc) {
				continue
			}
			if _, isS := named.Underlying().(*types.Struct); !isS {
				continue
			}
			key := "arm/" + n
			if why, gone := eliminated[n]; gone {
				c.Pass("C08.R3", key, P.Pos(fn.Pos()), "no arm needed: "+why)
				continue
			}
			field, known := survives[n]
			if !known {
				c.Fail("C08.R3", key, P.Pos(fn.Pos()), "filter kind "+n+" exists in the generated configuration but Check's type switch has no rule for it: its filters would be skipped with a nil handler")
				continue
			}
			var ta *ssa.TypeAssert
			for _, df := range deepFuncs(fn, 2) {
				if pkgPathOf(df) != pkgServer {
					continue
				}
				for _, b := range df.Blocks {
					for _, ins := range b.Instrs {
						if x, ok := ins.(*ssa.TypeAssert); ok && types.Identical(derefType(x.AssertedType), named) {
							ta = x
						}
					}
				}
			}
			if ta == nil {
				c.Fail("C08.R3", key, P.Pos(fn.Pos()), "no type-switch arm for "+n+": such filters get a nil handler")
				continue
			}
			// the arm builds a handler from ft.<field>, and that handler is the one processed
			okArm := false
			var asserted ssa.Value = ta
			if ta.CommaOk {
				asserted = extractOf(ta, 0)
			}
			recvLeaves := LeavesInl(procCall.Common().Value, leafOpts{noConcat: true}, 2, func(f *ssa.Function) bool { return pkgPathOf(f) != pkgServer })
			for _, ci := range allCalls(ta.Parent()) {
				cc, ok := ci.(*ssa.Call)
				if !ok || cc.Common().StaticCallee() == nil || pkgPathOf(cc.Common().StaticCallee()) != pkgAuthz {
					continue
				}
				for _, a := range cc.Common().Args {
					if base, f, okf := fieldLoad(resolveCell(stripConv(a))); okf && f != nil && f.Name() == field && base == asserted {
						// flows into the Process receiver (directly, or as the result of the handler-building helper)
						for _, l := range recvLeaves {
							if cl, _, isC := asCall(l); isC && cl == cc {
								okArm = true
							}
						}
					}
				}
			}
			// the asserted value is the current filter's Type
			fromFilter := filterIA != nil && derivesFromValue(P, ta.X, filterIA, 2)
			c.Obl(okArm && fromFilter, "C08.R3", key, P.Pos(instrPos(ta)), "arm builds the handler from the current filter's own "+field+" configuration and that handler judges the request",
				"the "+n+" arm does not build the judging handler from the current filter's own configuration")
		}
	}
	// the per-filter loop: next filter only after OK, returned responses classified (the obligations of C01.R5)
	serverLoopRule = "C08.R3"
	c01R5(c, R)
	serverLoopRule = "C01.R5"
	handlerBuiltPerCheck(c, "C08.R3", fn, procCall)
	requestIsReadOnly(c, "C08.R5")
	// denial is returned as is: covered by C01.R5's return classification; restated here for the denial edge
	respArg := resolveCell(stripConv(callArgs(procCall)[2]))
	okAsIs := false
	for _, r := range returnsOf(fn) {
		if len(r.Results) == 2 && sameVal(r.Results[0], respArg) {
			okAsIs = true
		}
	}
	_, fresh := respArg.(*ssa.Alloc)
	c.Obl(okAsIs && fresh, "C08.R3", "denial-as-is", P.Pos(procCall.Pos()), "the response handed to the filters (a fresh object per matching chain) is the one returned", "the response returned is not the object the filters filled")

	// ---- R4
	if chainIA != nil {
		head := loopHeadOf(matchCall.Block())
		if c.Anchor("C08.R4", "chain loop head", head != nil) {
			// exit successor: the one from which the loop body (matchCall) is not reachable
			var exit *ssa.BasicBlock
			for _, s := range head.Succs {
				if reachAvoiding(nil, s, func(i ssa.Instruction) bool { return i == ssa.Instruction(matchCall) }, nil) == nil {
					exit = s
				}
			}
			if c.Anchor("C08.R4", "chain loop exit", exit != nil) {
				// the fall-through is entered only by exhausting the chain list: no edge from inside the loop body
				// (a `break` before or without a match would hand a request that matches a later chain to the default)
				onlyExhaustion := true
				var stack []*ssa.BasicBlock
				seenB := map[*ssa.BasicBlock]bool{}
				stack = append(stack, exit)
				for len(stack) > 0 {
					b := stack[len(stack)-1]
					stack = stack[:len(stack)-1]
					if seenB[b] {
						continue
					}
					seenB[b] = true
					for _, p := range b.Preds {
						if p == head || seenB[p] {
							continue
						}
						if blockReaches(head, p) && head.Dominates(p) && !exit.Dominates(p) {
							onlyExhaustion = false // p is in the loop body
						}
					}
				}
				c.Obl(onlyExhaustion, "C08.R4", "default-only-after-all-chains", P.Pos(instrPos(head.Instrs[len(head.Instrs)-1])), "the unmatched-request tail is entered only when the chain list is exhausted",
					"the unmatched-request tail can be entered from inside the chain loop (break): a request that matches a later chain is answered by the default rule")
				rets := returnsReachable(exit, nil)
				allowG := P.SSA[pkgServer].Var("allow")
				okDef := len(rets) >= 2
				sawDeny, sawAllow := false, false
				if len(rets) == 1 {
					okDef = true // the two outcomes may be chosen in branches and returned after a join
				}
				for _, r := range rets {
					for _, a := range phiAlternatives(fn, r.Results[0], r) {
						afs := unionFacts(FactsOf(fn).At(r), a.Facts)
						for _, lv := range Leaves(a.V, leafOpts{}) {
							v := resolveCell(stripConv(lv))
							switch {
							case isLoadOfGlobal(v, allowG):
								ok, _ := allowReturnJustified(P, R, fn, afs)
								if !ok {
									okDef = false
								}
								sawAllow = true
							default:
								dc, _, isC := asCall(v)
								if isC && len(dc.Common().Args) >= 1 && isServerDenyCall(P, dc) {
									if k, isK := constInt(dc.Common().Args[0]); isK && k == 7 {
										sawDeny = true
										continue
									}
								}
								okDef = false
							}
						}
					}
				}
				// the AllowUnmatchedRequests default is applied only there: a return of the shared allow that is justified by
				// that flag alone lies behind the exhaustion of the chain list (a shortcut in front of the loop, however the
				// request is pre-classified, hands requests of catch-all chains to the default)
				inTail := map[*ssa.Return]bool{}
				for _, r := range rets {
					inTail[r] = true
				}
				for i, r := range returnsOf(fn) {
					if inTail[r] || len(r.Results) == 0 {
						continue
					}
					for _, a := range phiAlternatives(fn, r.Results[0], r) {
						afs := unionFacts(FactsOf(fn).At(r), a.Facts)
						for _, lv := range Leaves(a.V, leafOpts{}) {
							if !isLoadOfGlobal(resolveCell(stripConv(lv)), allowG) {
								continue
							}
							if ok, why := allowReturnJustified(P, R, fn, afs); ok && strings.Contains(why, "AllowUnmatchedRequests") {
								c.Fail("C08.R4", fmt.Sprintf("unmatched-default-before-exhaustion/return#%d", i+1), P.Pos(instrPos(r)),
									"the AllowUnmatchedRequests default is applied at a return that is not behind the exhaustion of the chain list: a request that a (catch-all) chain would judge is allowed without its filters")
							}
						}
					}
				}
				c.Obl(okDef && sawDeny && sawAllow, "C08.R4", "default-deny", P.Pos(fn.Pos()), "no chain matched ⇒ PermissionDenied unless AllowUnmatchedRequests",
					"the fall-through after the chain loop is not {allow under AllowUnmatchedRequests, deny(PermissionDenied) otherwise}")
				// deny closure really uses its code
				c.Obl(denyTemplateOK(P), "C08.R4", "deny-template", "internal/server", "deny(code, msg) builds a response with that code", "the deny template does not put its code argument into the status")
			}
		}
	}

	// ---- R6: the list Check walks is the configured list
	nW := 0
	for _, f := range P.Funcs {
		if strings.HasPrefix(pkgPathOf(f), modPath+"/config/gen/") {
			continue
		}
		for _, b := range f.Blocks {
			for _, ins := range b.Instrs {
				st, ok := ins.(*ssa.Store)
				if !ok {
					continue
				}
				fa, isF := st.Addr.(*ssa.FieldAddr)
				if !isF {
					continue
				}
				id := fieldAddrID(fa)
				if id == pkgCfgV1+".Config.Chains" || id == pkgCfgV1+".FilterChain.Filters" || id == pkgCfgV1+".FilterChain.FilterChainMatch" {
					nW++
					c.Fail("C08.R6", "list-write/"+fnKey(f)+"/"+shortID(id), P.Pos(st.Pos()), "own code assigns "+shortID(id)+": the chain/filter list that Check walks is no longer the configured list in the configured order")
				}
			}
		}
	}
	if nW == 0 {
		c.Pass("C08.R6", "no-list-writer", "-", "no own (non-generated) function assigns Config.Chains, FilterChain.Filters or FilterChain.FilterChainMatch")
	}

	// ---- R5
	mf := matchFn
	var mParam, reqParam *ssa.Parameter
	for _, p := range mf.Params {
		if typeID(p.Type()) == pkgCfgV1+".Match" {
			mParam = p
		} else {
			reqParam = p
		}
	}
	_ = reqParam
	ff := FactsOf(mf)
	nilTrue := false
	for _, r := range returnsOf(mf) {
		if b, isC := constBool(r.Results[0]); isC && b && ff.At(r).IsNil(mParam) {
			nilTrue = true
		}
	}
	c.Obl(nilTrue, "C08.R5", "nil-criterion-matches", P.Pos(mf.Pos()), "nil criterion ⇒ true", "a chain without criterion no longer matches everything")
	var lookup *ssa.Lookup
	for _, b := range mf.Blocks {
		for _, ins := range b.Instrs {
			if lk, ok := ins.(*ssa.Lookup); ok {
				lookup = lk
			}
		}
	}
	if c.Anchor("C08.R5", "header lookup in the criterion function", lookup != nil) {
		lc, _, isC := asCall(resolveCell(stripConv(lookup.Index)))
		okKey := isC && isCallTo(lc, "strings.ToLower")
		if okKey {
			a := resolveCell(stripConv(lc.Common().Args[0]))
			okKey = isFieldOf(a, "Header", func(b ssa.Value) bool { return b == ssa.Value(mParam) }) || isGetterOn(a, pkgCfgV1+".Match.GetHeader", func(r ssa.Value) bool { return r == ssa.Value(mParam) })
		}
		hdrs := false
		if gc, _, okc := asCall(resolveCell(stripConv(lookup.X))); okc && isCallTo(gc, pkgEnvoyAuth+".AttributeContext_HttpRequest.GetHeaders") {
			hdrs = true
		}
		c.Obl(okKey && hdrs, "C08.R5", "header-lookup", P.Pos(instrPos(lookup)), "request headers [strings.ToLower(criterion header)]", "the header is not looked up in the request headers under the lower-cased configured name")
		var hv ssa.Value = lookup
		if lookup.CommaOk {
			hv = extractOf(lookup, 0)
		}
		eqOK, preOK := false, false
		for _, r := range returnsOf(mf) {
			v := resolveCell(stripConv(r.Results[0]))
			fs := ff.At(r)
			if bo, ok := v.(*ssa.BinOp); ok && bo.Op == token.EQL {
				isEq := func(x ssa.Value) bool {
					return isGetterOn(x, pkgCfgV1+".Match.GetEquality", func(rv ssa.Value) bool { return rv == ssa.Value(mParam) })
				}
				if (bo.X == hv && isEq(bo.Y)) || (bo.Y == hv && isEq(bo.X)) {
					// under GetEquality() != ""
					for cond, pol := range fs {
						if b2, isB := cond.(*ssa.BinOp); isB {
							if s, isS := constString(b2.Y); isS && s == "" && isEq(b2.X) && ((b2.Op == token.NEQ && pol) || (b2.Op == token.EQL && !pol)) {
								eqOK = true
							}
						}
					}
				}
			}
			if pc, _, ok := asCall(v); ok && isCallTo(pc, "strings.HasPrefix") {
				if pc.Common().Args[0] == hv && isGetterOn(pc.Common().Args[1], pkgCfgV1+".Match.GetPrefix", func(rv ssa.Value) bool { return rv == ssa.Value(mParam) }) {
					preOK = true
				}
			}
		}
		c.Obl(eqOK, "C08.R5", "equality-arm", P.Pos(mf.Pos()), "non-empty equality ⇒ header value == equality", "the equality criterion is not `header value == configured value` under a non-empty equality")
		c.Obl(preOK, "C08.R5", "prefix-arm", P.Pos(mf.Pos()), "otherwise strings.HasPrefix(header value, configured prefix)", "the prefix criterion is not strings.HasPrefix(header value, configured prefix) (arguments swapped or other operator)")
		c.Obl(len(returnsOf(mf)) == 3, "C08.R5", "three-outcomes", P.Pos(mf.Pos()), "exactly the three documented outcomes", fmt.Sprintf("the criterion function has %d return sites (expected nil, equality, prefix)", len(returnsOf(mf))))
	}
}

// serverDenyFns: the deny templates of the server package — functions (declared or closures) that store
// a code-typed parameter into Status.Code of the response they return and never give it an OkResponse.
func serverDenyFns(P *Program) map[*ssa.Function]bool {
	out := map[*ssa.Function]bool{}
	for _, fn := range P.Funcs {
		if pkgPathOf(fn) != pkgServer {
			continue
		}
		if fn.Signature.Results().Len() != 1 || typeID(fn.Signature.Results().At(0).Type()) != idCheckResponse {
			continue
		}
		codeFromParam, denied, ok := false, false, false
		for _, b := range fn.Blocks {
			for _, ins := range b.Instrs {
				st, isSt := ins.(*ssa.Store)
				if !isSt {
					continue
				}
				fa, isF := st.Addr.(*ssa.FieldAddr)
				if !isF {
					continue
				}
				switch fieldAddrID(fa) {
				case pkgStatus + ".Status.Code":
					if p, isP := stripConv(st.Val).(*ssa.Parameter); isP && isCodeType(p.Type()) {
						codeFromParam = true
					}
				case idCheckResponse + ".HttpResponse":
					switch typeID(stripConv(st.Val).Type()) {
					case pkgEnvoyAuth + ".CheckResponse_DeniedResponse":
						denied = true
					case pkgEnvoyAuth + ".CheckResponse_OkResponse":
						ok = true
					}
				}
			}
		}
		_ = denied
		if codeFromParam && !ok {
			out[fn] = true
		}
	}
	return out
}

// isServerDenyCall: call invokes a deny template, statically or through a package variable of the
// server package that only ever holds deny templates.
func isServerDenyCall(P *Program, call ssa.CallInstruction) bool {
	tmpl := serverDenyFns(P)
	if callee := call.Common().StaticCallee(); callee != nil {
		return tmpl[callee]
	}
	u, ok := call.Common().Value.(*ssa.UnOp)
	if !ok || u.Op != token.MUL {
		return false
	}
	g, ok := u.X.(*ssa.Global)
	if !ok || g.Pkg == nil || g.Pkg.Pkg.Path() != pkgServer {
		return false
	}
	n := 0
	for _, fn := range P.Funcs {
		for _, b := range fn.Blocks {
			for _, ins := range b.Instrs {
				if st, isSt := ins.(*ssa.Store); isSt && st.Addr == ssa.Value(g) {
					n++
					var target *ssa.Function
					switch v := stripConv(st.Val).(type) {
					case *ssa.MakeClosure:
						target, _ = v.Fn.(*ssa.Function)
					case *ssa.Function:
						target = v
					}
					if target == nil || !tmpl[target] {
						return false
					}
				}
			}
		}
	}
	if init := P.SSA[pkgServer].Func("init"); init != nil {
		for _, b := range init.Blocks {
			for _, ins := range b.Instrs {
				if st, isSt := ins.(*ssa.Store); isSt && st.Addr == ssa.Value(g) {
					n++
					var target *ssa.Function
					switch v := stripConv(st.Val).(type) {
					case *ssa.MakeClosure:
						target, _ = v.Fn.(*ssa.Function)
					case *ssa.Function:
						target = v
					}
					if target == nil || !tmpl[target] {
						return false
					}
				}
			}
		}
	}
	return n > 0
}

// denyTemplateOK: the server has a deny template that stores its code parameter into Status.Code.
func denyTemplateOK(P *Program) bool {
	return len(serverDenyFns(P)) > 0
}

// derivesFromValue: v data-depends on target, possibly through a parameter of an own helper whose
// argument at every call site derives from target.
func derivesFromValue(P *Program, v, target ssa.Value, depth int) bool {
	deps := dataDeps(v)
	if v == target || deps[target] {
		return true
	}
	if depth == 0 {
		return false
	}
	check := func(p *ssa.Parameter) bool {
		fn := p.Parent()
		idx := -1
		for i, q := range fn.Params {
			if q == p {
				idx = i
			}
		}
		callers := P.CallersOf(fn)
		if idx < 0 || len(callers) == 0 {
			return false
		}
		for _, cs := range callers {
			if idx >= len(cs.Common().Args) || !derivesFromValue(P, cs.Common().Args[idx], target, depth-1) {
				return false
			}
		}
		return true
	}
	if p, ok := v.(*ssa.Parameter); ok && check(p) {
		return true
	}
	for d := range deps {
		if p, ok := d.(*ssa.Parameter); ok && check(p) {
			return true
		}
	}
	return false
}

// handlerBuiltPerCheck: the judging handler is built in this check from the current filter only — every
// source of the Process receiver is a handler constructor call made in Check (a cached or shared handler
// may belong to another chain or carry another filter's settings). Filed under C08.R3 and C18.R3.
func handlerBuiltPerCheck(c *Check, rule string, fn *ssa.Function, procCall ssa.CallInstruction) {
	P := c.P
	inCheck := map[*ssa.Function]bool{}
	for _, df := range deepFuncs(fn, 2) {
		if pkgPathOf(df) == pkgServer {
			inCheck[df] = true
		}
	}
	for _, l := range LeavesInl(procCall.Common().Value, leafOpts{noConcat: true}, 2, func(f *ssa.Function) bool { return pkgPathOf(f) != pkgServer }) {
		if isNilConst(l) {
			continue
		}
		hc, _, isC := asCall(l)
		okH := isC && hc.Common().StaticCallee() != nil && pkgPathOf(hc.Common().StaticCallee()) == pkgAuthz && inCheck[hc.Parent()]
		c.Obl(okH, rule, "handler-built-per-check/"+shortOrigin(l), P.Pos(procCall.Pos()), "handler = constructor call in this check",
			"the handler that judges the request can come from "+descDepth(l, 3)+" instead of being built in this check from the current filter (a cached handler can belong to another chain)")
	}
}

// processInvoke finds the invocation of Handler.Process in Check or its server-package helpers.
func processInvoke(P *Program, R *Roles) ssa.CallInstruction {
	if R.CheckEntry == nil {
		return nil
	}
	for _, df := range deepFuncs(R.CheckEntry, 2) {
		if pkgPathOf(df) != pkgServer {
			continue
		}
		for _, ci := range allCalls(df) {
			if ci.Common().IsInvoke() && ci.Common().Method.Name() == "Process" && typeID(ci.Common().Value.Type()) == idHandlerIface {
				return ci
			}
		}
	}
	return nil
}

// requestIsReadOnly: what Check judges is the request as Envoy sent it. No own function (interceptors and
// logging included — they run before Check on the same object) writes into the CheckRequest object graph:
// no map update on a map obtained from an ext_authz request type (getter or field), no store into a field of
// such a type, no element store into a slice obtained from one.
func requestIsReadOnly(c *Check, rule string) {
	P := c.P
	const envoyAuth = "github.com/envoyproxy/go-control-plane/envoy/service/auth/v3"
	isReqType := func(t types.Type) bool {
		n, ok := derefType(t).(*types.Named)
		if !ok || n.Obj().Pkg() == nil || n.Obj().Pkg().Path() != envoyAuth {
			return false
		}
		return n.Obj().Name() == "CheckRequest" || strings.HasPrefix(n.Obj().Name(), "AttributeContext")
	}
	fromRequest := func(v ssa.Value) bool {
		for _, l := range Leaves(v, leafOpts{noConcat: true}) {
			switch x := resolveCell(stripConv(l)).(type) {
			case *ssa.Call:
				if x.Common().IsInvoke() {
					continue
				}
				if callee := x.Common().StaticCallee(); callee != nil && callee.Signature.Recv() != nil && isReqType(callee.Signature.Recv().Type()) {
					return true
				}
			case *ssa.UnOp:
				if fa, ok := x.X.(*ssa.FieldAddr); ok && x.Op == token.MUL && isReqType(fa.X.Type()) {
					return true
				}
			case *ssa.Field:
				if isReqType(x.X.Type()) {
					return true
				}
			}
		}
		return false
	}
	n, sites := 0, 0
	for _, fn := range P.Funcs {
		if !isOwnPath(pkgPathOf(fn)) || strings.Contains(pkgPathOf(fn), "/config/gen/") {
			continue
		}
		n++
		for _, b := range fn.Blocks {
			for _, ins := range b.Instrs {
				switch x := ins.(type) {
				case *ssa.MapUpdate:
					sites++
					if fromRequest(x.Map) {
						c.Fail(rule, "request-read-only/"+fnKey(fn), P.Pos(x.Pos()), "a map of the ext_authz request (its headers) is written in "+fnKey(fn)+": the chains are no longer judged on the request as it was sent")
					}
				case *ssa.Store:
					if fa, ok := x.Addr.(*ssa.FieldAddr); ok && isReqType(fa.X.Type()) {
						if al, isA := resolveCell(fa.X).(*ssa.Alloc); isA && al.Parent() == fn {
							continue // an object built here, not the request
						}
						c.Fail(rule, "request-read-only/"+fnKey(fn), P.Pos(x.Pos()), "a field of the ext_authz request is written in "+fnKey(fn))
					}
					if ia, ok := x.Addr.(*ssa.IndexAddr); ok && fromRequest(ia.X) {
						c.Fail(rule, "request-read-only/"+fnKey(fn), P.Pos(x.Pos()), "an element of a slice of the ext_authz request is written in "+fnKey(fn))
					}
				}
			}
		}
	}
	c.Obl(n > 50, rule, "request-read-only", "-", fmt.Sprintf("%d own functions, %d map updates: none writes into the request", n, sites), "own functions not enumerated (anchor lost)")
}

// responseFreshPerCheck: the CheckResponse a filter fills in (Set-Cookie with the session id, state and
// nonce in the Location of a login redirect, forwarded tokens) belongs to this check alone — the object
// handed to Process is allocated in the activation of Check that returns it, not taken from a pool, a
// field or a package-level variable that another check can see while gRPC still has to serialise it.
func responseFreshPerCheck(c *Check, rule string, R *Roles) {
	P := c.P
	pc := processInvoke(P, R)
	if !c.Anchor(rule, "Process invocation in Check", pc != nil) {
		return
	}
	fn := pc.Parent()
	args := callArgs(pc)
	var resp ssa.Value
	for _, a := range args {
		if strings.HasSuffix(typeID(derefType(a.Type())), "auth/v3.CheckResponse") {
			resp = a
		}
	}
	if resp == nil {
		c.Fail(rule, "response-fresh-per-check", P.Pos(pc.Pos()), "Process is not handed a *CheckResponse")
		return
	}
	bad := ""
	for _, l := range LeavesInl(resp, leafOpts{noConcat: true}, 2, func(f *ssa.Function) bool { return !isOwnPath(pkgPathOf(f)) }) {
		l = resolveCell(stripConv(l))
		if al, ok := l.(*ssa.Alloc); ok && isOwnPath(pkgPathOf(al.Parent())) {
			continue
		}
		if p, ok := l.(*ssa.Parameter); ok && p.Parent() != R.CheckEntry {
			continue // helper parameter resolved by the interprocedural walk
		}
		bad = descDepth(l, 3)
	}
	c.Obl(bad == "", rule, "response-fresh-per-check", P.Pos(pc.Pos()), "the response the filters write to is allocated by this check ("+fnKey(fn)+")",
		"the response the filters write to can be "+bad+": an object another check can reach while this answer is still waiting to be sent carries one client's session cookie, state and nonce to another")
}

// configFieldsNotWritten: no own (non-generated) function assigns the listed configuration fields, stores
// into an element of such a list, or hands the list to a function that edits its argument in place
// (slices.DeleteFunc / Delete / Insert / Compact / Sort / Reverse, sort.*): what the request path evaluates is
// the configuration as it was loaded.
func configFieldsNotWritten(c *Check, rule, key string, ids map[string]bool, what string, allowed ...*ssa.Function) {
	P := c.P
	n := 0
	isListLoad := func(v ssa.Value) (string, bool) {
		for _, l := range Leaves(v, leafOpts{noConcat: true}) {
			l = resolveCell(stripConv(l))
			if u, ok := l.(*ssa.UnOp); ok && u.Op == token.MUL {
				if fa, isF := u.X.(*ssa.FieldAddr); isF && ids[fieldAddrID(fa)] {
					return fieldAddrID(fa), true
				}
			}
		}
		return "", false
	}
	for _, f := range P.Funcs {
		if !isOwnPath(pkgPathOf(f)) || strings.HasPrefix(pkgPathOf(f), modPath+"/config/gen/") {
			continue
		}
		skip := false
		for _, a := range allowed {
			if a == f {
				skip = true
			}
		}
		if skip {
			continue
		}
		for _, b := range f.Blocks {
			for _, ins := range b.Instrs {
				switch x := ins.(type) {
				case *ssa.Store:
					if fa, isF := x.Addr.(*ssa.FieldAddr); isF && ids[fieldAddrID(fa)] {
						n++
						c.Fail(rule, key+"/"+fnKey(f)+"/"+shortID(fieldAddrID(fa)), P.Pos(x.Pos()), "own code assigns "+shortID(fieldAddrID(fa))+": "+what)
					}
					if ia, isI := x.Addr.(*ssa.IndexAddr); isI {
						if id, isL := isListLoad(ia.X); isL {
							n++
							c.Fail(rule, key+"/"+fnKey(f)+"/"+shortID(id)+"[]", P.Pos(x.Pos()), "own code stores into an element of "+shortID(id)+": "+what)
						}
					}
				case ssa.CallInstruction:
					id := funcID(calleeOf(x).Obj)
					if !(strings.HasPrefix(id, "slices.Delete") || strings.HasPrefix(id, "slices.Insert") || strings.HasPrefix(id, "slices.Compact") ||
						strings.HasPrefix(id, "slices.Sort") || id == "slices.Reverse" || strings.HasPrefix(id, "sort.")) {
						continue
					}
					for _, a := range x.Common().Args {
						if lid, isL := isListLoad(a); isL {
							n++
							c.Fail(rule, key+"/"+fnKey(f)+"/"+shortID(lid)+"/"+shortID(id), P.Pos(x.Pos()), shortID(id)+" edits "+shortID(lid)+" in place: "+what)
						}
					}
				}
			}
		}
	}
	if n == 0 {
		c.Pass(rule, key, "-", "no own (non-generated) function writes "+strings.Join(sortedKeys(ids), ", "))
	}
}
