package main

import (
	_ "embed"
	"encoding/json"
	"flag"
	"fmt"
	"os"
	"regexp"
	"runtime/debug"
	"sort"
	"strings"

	"go/types"

	"golang.org/x/tools/go/ssa"
)

//go:embed reference_funcs.txt
var referenceFuncs string

type ruleFn func(c *Check)

var registry = map[string]ruleFn{}

// needsWhole lists properties whose thorough tier wants whole-program SSA.
var needsWhole = map[string]bool{}

func usage() {
	fmt.Fprintln(os.Stderr, "usage: authcheck <C01..C20> [-tier quick|thorough] [-repo DIR] [-verif DIR] | dump <pkg> <func> | explain <report.json> | list")
	os.Exit(2)
}

func main() {
	if len(os.Args) < 2 {
		usage()
	}
	cmd := os.Args[1]
	fs := flag.NewFlagSet(cmd, flag.ExitOnError)
	tier := fs.String("tier", "quick", "quick|thorough")
	repo := fs.String("repo", "/repo", "repository under analysis")
	verif := fs.String("verif", "/verif", "verification directory (evidence, reports, known findings)")
	_ = fs.Parse(os.Args[2:])
	if t := os.Getenv("VERIF_TIER"); t != "" && !flagSet(fs, "tier") {
		*tier = t
	}
	switch cmd {
	case "list":
		var ids []string
		for id := range registry {
			ids = append(ids, id)
		}
		sort.Strings(ids)
		fmt.Println(strings.Join(ids, " "))
		return
	case "explain":
		explain(fs.Args())
		return
	case "reffuncs":
		// prints the FullName of every own declared function: the reference list of helpers known on
		// the tree the rules were confirmed on (checker/reference_funcs.txt)
		P, err := LoadProgram(*repo, false, "")
		if err != nil {
			fmt.Fprintln(os.Stderr, err)
			os.Exit(2)
		}
		var names []string
		for _, fn := range P.Funcs {
			if fn.Parent() == nil {
				if o, ok := fn.Object().(*types.Func); ok {
					names = append(names, o.FullName())
				}
			}
		}
		sort.Strings(names)
		fmt.Println(strings.Join(names, "\n"))
		return
	case "nf":
		// development aid: print the inlining log of the normal form and write the overlay files
		P, err := LoadProgram(*repo, false, "")
		if err != nil {
			fmt.Fprintln(os.Stderr, err)
			os.Exit(2)
		}
		pinned := collectPinned(P)
		for _, a := range fs.Args() {
			if f, ok := registry[a]; ok {
				c := NewCheck(a, "quick", os.TempDir(), P)
				func() { defer func() { _ = recover() }(); f(c) }()
				for k := range collectPinned(P) {
					pinned[k] = true
				}
			}
		}
		k := 1
		if v := os.Getenv("NF_K"); v != "" {
			fmt.Sscan(v, &k)
		}
		if os.Getenv("NF_NEW") != "" {
			for _, n := range strings.Fields(referenceFuncs) {
				pinned[n] = true
			}
		}
		NP, log, err := normalFormDebug(P, pinned, k)
		fmt.Println("pinned:", len(pinned), "err:", err, "changed:", NP != nil)
		for _, l := range log {
			fmt.Println("  ", l)
		}
		return
	case "dump":
		P, err := LoadProgram(*repo, false, "")
		if err != nil {
			fmt.Fprintln(os.Stderr, err)
			os.Exit(2)
		}
		dump(P, fs.Args())
		return
	}
	fn, ok := registry[cmd]
	if !ok {
		usage()
	}
	os.Exit(runCheck(cmd, *tier, *repo, *verif, fn))
}

func flagSet(fs *flag.FlagSet, name string) bool {
	set := false
	fs.Visit(func(f *flag.Flag) {
		if f.Name == name {
			set = true
		}
	})
	return set
}

// evalOn runs the rules of a property on one loaded program (and, in the thorough tier, on the
// second build variant produced by loadVariant).
func evalOn(id, tier, verif string, fn ruleFn, P *Program, loadVariant func() (*Program, error)) (c *Check) {
	resetCaches()
	c = NewCheck(id, tier, verif, P)
	defer func() {
		if r := recover(); r != nil {
			c.Fail(id+".meta", "analyser-panic", "-", fmt.Sprintf("analyser panic (fails closed): %v\n%s", r, debug.Stack()))
		}
	}()
	fn(c)
	if tier == "thorough" && loadVariant != nil {
		// second build configuration: the only build tag of the repository (boringcrypto selects
		// internal/fips_enabled.go). Every rule is evaluated again on that variant.
		P2, err := loadVariant()
		if err != nil {
			c.Fail(id+".meta", "load/boringcrypto", "-", "cannot load the boringcrypto build variant: "+err.Error())
		} else {
			resetCaches()
			c.P = P2
			c.variant = "@boringcrypto"
			fn(c)
			c.P = P
			c.variant = ""
			c.extra["build_variants"] = []string{"default", "GOEXPERIMENT=boringcrypto"}
		}
	}
	return c
}

var instanceNo = regexp.MustCompile(`#\d+`)

func runCheck(id, tier, repo, verif string, fn ruleFn) (code int) {
	whole := tier == "thorough" && needsWhole[id]
	P, err := LoadProgram(repo, whole, "")
	if err != nil {
		// A tree that does not load is not a tree on which the property can be decided; fail closed.
		fmt.Printf("%s [%s]: cannot analyse: %v\n", id, tier, err)
		rep := verif + "/reports/" + id + "-" + tier + ".json"
		_ = os.MkdirAll(verif+"/reports", 0o755)
		writeJSON(rep, map[string]any{"property": id, "error": err.Error()})
		fmt.Printf("VIOLATION property=%s replay=%s\n", id, rep)
		return 1
	}
	c := evalOn(id, tier, verif, fn, P, func() (*Program, error) { return LoadProgram(repo, false, "boringcrypto") })
	if n := c.unlisted(); n > 0 && os.Getenv("VERIF_NO_NORMALFORM") == "" {
		// The plain run reports a violation. Before believing it, evaluate the property on the inlined
		// normal forms of the tree (normalize.go): equivalent programs in which the calls of non-anchor
		// helpers are inlined into their callers. A normal form can acquit (the structural condition
		// holds on a program with the same behaviour), never convict: diagnostics come from the plain run.
		pinned := collectPinned(P)
		pinnedRef := map[string]bool{}
		for k := range pinned {
			pinnedRef[k] = true
		}
		for _, n := range strings.Fields(referenceFuncs) {
			pinnedRef[n] = true
		}
		type nfMode struct {
			k      int
			pinned map[string]bool
			what   string
			guards bool
		}
		// normal forms: the helpers that the reference tree (checker/reference_funcs.txt) does not have —
		// freshly extracted or renamed functions — are inlined, first those with one call site, then up to
		// four; each with and without the specialisation of the caller's guard at the helper's return sites
		modes := []nfMode{
			{1, pinnedRef, "new helpers", true}, {4, pinnedRef, "new helpers", true},
			{1, pinnedRef, "new helpers", false}, {4, pinnedRef, "new helpers", false},
		}
		if os.Getenv("VERIF_NF_ALL") != "" {
			// development aid: also inline the helpers the reference tree already has
			modes = append(modes, nfMode{1, pinned, "all non-anchor helpers", true}, nfMode{4, pinned, "all non-anchor helpers", true})
		}
		type nfResult struct {
			c    *Check
			what string
			log  []string
		}
		var evaluated []nfResult
		acquitted := false
		for _, md := range modes {
			k, pinned := md.k, md.pinned
			nfGuards = md.guards
			NP, log, err := NormalForm(P, pinned, k, "")
			if err != nil || NP == nil {
				continue
			}
			NP.NormalOf = log
			c2 := evalOn(id, tier, verif, fn, NP, func() (*Program, error) {
				P2, err := LoadProgram(repo, false, "boringcrypto")
				if err != nil {
					return nil, err
				}
				NP2, _, err := NormalForm(P2, pinned, k, "boringcrypto")
				if err != nil {
					return nil, err
				}
				if NP2 == nil {
					return P2, nil
				}
				return NP2, nil
			})
			if os.Getenv("VERIF_NF_DEBUG") != "" {
				fmt.Printf("normal form k=%d guards=%v (%s): %d inlinings, %d unlisted\n", k, md.guards, md.what, len(log), c2.unlisted())
				for _, o := range c2.Obls {
					if o.Status == "violated" {
						fmt.Printf("  NF violated %s at %s: %s\n", o.Key, o.Where, o.Why)
					}
				}
				for _, kk := range c2.unlistedKeys() {
					fmt.Println("  NF unlisted:", kk)
				}
			}
			evaluated = append(evaluated, nfResult{c2, fmt.Sprintf("k=%d guards=%v", k, md.guards), log})
			if c2.unlisted() == 0 {
				acquitted = true
				c2.extra["normal_form"] = map[string]any{
					"why": fmt.Sprintf("the plain run reported %d violation(s) (first: %s); the property was decided on the "+
						"inlined normal form of the tree (%s with at most %d call site(s) inlined at source level, type-checked again)", n, c.firstUnlisted(), md.what, k),
					"inlined": log,
				}
				c2.Note("decided on the inlined normal form: " + strings.Join(log, "; "))
				c = c2
				break
			}
		}
		// No single normal form discharges everything, but every normal form is the same program: an obligation that
		// holds on one of them holds. If no obligation (compared by rule and construct, instance numbers dropped) is
		// violated on all the forms, each reported violation is an artefact of one form; the form with the fewest
		// reports is taken and its remaining reports are discharged with a reference to the form on which they hold.
		if !acquitted && len(evaluated) >= 2 && os.Getenv("VERIF_NF_NOCOMBINE") == "" {
			norm := func(k string) string { return instanceNo.ReplaceAllString(k, "") }
			count := map[string]int{}
			for _, ev := range evaluated {
				seen := map[string]bool{}
				for _, k := range ev.c.unlistedKeys() {
					if nk := norm(k); !seen[nk] {
						seen[nk] = true
						count[nk]++
					}
				}
			}
			common := false
			for _, n := range count {
				if n == len(evaluated) {
					common = true
				}
			}
			if !common {
				best := evaluated[0]
				for _, ev := range evaluated[1:] {
					if ev.c.unlisted() < best.c.unlisted() {
						best = ev
					}
				}
				unl := map[string]bool{}
				for _, k := range best.c.unlistedKeys() {
					unl[k] = true
				}
				flippable := 0
				for _, o := range best.c.Obls {
					if o.Status == "violated" && unl[o.Key] {
						flippable++
					}
				}
				if flippable != len(unl) {
					return c.Finish() // a floor or the findings file itself is at fault: nothing to combine
				}
				for _, o := range best.c.Obls {
					if o.Status != "violated" || !unl[o.Key] {
						continue
					}
					holdsOn := ""
					for _, ev := range evaluated {
						if ev.c == best.c {
							continue
						}
						still := false
						for _, k := range ev.c.unlistedKeys() {
							if norm(k) == norm(o.Key) {
								still = true
							}
						}
						if !still {
							holdsOn = ev.what
							break
						}
					}
					o.Status = "discharged"
					o.Why = "holds on the normal form " + holdsOn + " of the same tree (on this form the rule reported: " + o.Why + ")"
				}
				best.c.extra["normal_form"] = map[string]any{
					"why": fmt.Sprintf("the plain run reported %d violation(s) (first: %s); no obligation is violated on all %d inlined normal forms of the tree, "+
						"so each was decided on a form on which it holds", n, c.firstUnlisted(), len(evaluated)),
					"inlined": best.log,
				}
				best.c.Note("decided on the inlined normal forms (combined): " + strings.Join(best.log, "; "))
				c = best.c
				acquitted = true
			}
		}
		if !acquitted && len(evaluated) > 0 {
			// Not acquitted: the verdict and the diagnostics are the plain run's. When the plain run only lost its
			// anchors (a helper was split off), the reports of the normal form with the fewest violations name the
			// construct; they are added to the notes and printed, without changing any obligation.
			best := evaluated[0]
			for _, ev := range evaluated[1:] {
				if ev.c.unlisted() < best.c.unlisted() {
					best = ev
				}
			}
			unl := map[string]bool{}
			for _, k := range best.c.unlistedKeys() {
				unl[k] = true
			}
			for _, o := range best.c.Obls {
				if o.Status == "violated" && unl[o.Key] {
					line := fmt.Sprintf("on the inlined normal form %s the rule reports: %s at %s: %s", best.what, o.Key, o.Where, o.Why)
					c.Note(line)
					fmt.Println("  " + line)
				}
			}
		}
	}
	return c.Finish()
}

func explain(args []string) {
	if len(args) < 1 {
		usage()
	}
	b, err := os.ReadFile(args[0])
	if err != nil {
		fmt.Fprintln(os.Stderr, err)
		os.Exit(2)
	}
	var rep struct {
		Property   string            `json:"property"`
		Tier       string            `json:"tier"`
		Error      string            `json:"error"`
		Violations []Obligation      `json:"violations"`
		Rules      map[string]string `json:"rules"`
	}
	if err := json.Unmarshal(b, &rep); err != nil {
		fmt.Fprintln(os.Stderr, err)
		os.Exit(2)
	}
	fmt.Printf("property %s (%s)\n", rep.Property, rep.Tier)
	if rep.Error != "" {
		fmt.Println("analysis error:", rep.Error)
	}
	for _, v := range rep.Violations {
		fmt.Printf("- %s\n  at   %s\n  rule %s: %s\n  why  %s\n", v.Key, v.Where, v.Rule, rep.Rules[v.Rule], v.Why)
	}
	fmt.Printf("re-run: bin/check %s %s\n", rep.Property, rep.Tier)
}

// dump prints the SSA of a function with the branch facts at each block (development aid).
func dump(P *Program, args []string) {
	if len(args) < 2 {
		usage()
	}
	pkg := args[0]
	if !strings.Contains(pkg, ".") {
		pkg = modPath + "/" + pkg
	}
	var fn *ssa.Function
	for _, f := range P.Funcs {
		if f.Package() != nil && f.Package().Pkg.Path() == pkg && (f.Name() == args[1] || FuncDisplay(f) == args[1] || strings.HasSuffix(FuncDisplay(f), "."+args[1])) {
			fn = f
		}
	}
	if fn == nil {
		fmt.Println("not found; candidates:")
		for _, f := range P.Funcs {
			if f.Package() != nil && f.Package().Pkg.Path() == pkg {
				fmt.Println("  ", FuncDisplay(f))
			}
		}
		return
	}
	ff := FactsOf(fn)
	for _, b := range fn.Blocks {
		fmt.Printf("block %d (%s) preds=%v succs=%v\n   facts: %s\n", b.Index, b.Comment, idx(b.Preds), idx(b.Succs), ff.In[b])
		for _, ins := range b.Instrs {
			if v, ok := ins.(ssa.Value); ok {
				fmt.Printf("\t%s = %s\n", v.Name(), ins)
			} else {
				fmt.Printf("\t%s\n", ins)
			}
		}
	}
}

func idx(bs []*ssa.BasicBlock) []int {
	var o []int
	for _, b := range bs {
		o = append(o, b.Index)
	}
	return o
}
