package main

import (
	"fmt"
	"go/token"
	"go/types"
	"strings"

	"golang.org/x/tools/go/ssa"
)

func init() { registry["C17"] = checkC17 }

const (
	fProtoClone = "google.golang.org/protobuf/proto.Clone"
	fProtoMerge = "google.golang.org/protobuf/proto.Merge"
)

func checkC17(c *Check) {
	P := c.P
	c.Assumes("protojson.Unmarshal and the protoc-gen-validate runtime behave as documented; the JSON grammar itself is not explored")
	c.Rule("C17.R1", "pipeline order and error discipline: the only way Validate can return nil is the result of the generated ValidateAll(), which is reached only after protojson decoding, URL validation and the override merge have succeeded (err == nil facts); every error produced on the way by Validate and its own callees is tested or returned; the duplicate / override-without-default / multiple-OIDC-per-chain refusals exist under their conditions.", 12)
	c.Rule("C17.R2", "obligation table ↔ enforcement site: override merge is proto.Merge(proto.Clone(default), override) stored back as the filter's OIDC configuration; the openid scope is present on every return of the defaulting helper, which is applied to every OIDC filter; callback URI parse + non-root, logout path non-root and different from the callback path are tested on the filter's (merged) configuration and guard an error; the generated validators contain the client-id (non-empty, colon-free), client-secret oneof, ID-token and header, callback min-length and filter-type checks; endpoints-or-discovery yields ErrRequiredURL.", 14)
	c.Rule("C17.R3", "post-state: on the success path every override filter has been replaced by a merged OIDC filter and the default configuration is cleared, so the type switch in Check is exhaustive for loaded configurations.", 2)
	c.Rule("C17.R4", "loading never panics: the crash-class rules of C15 (unchecked assertions, nil dereference, bounds, aborts) with Validate as entry point.", 10)

	validate := P.Func(pkgInt, "(*LocalConfigFile).Validate")
	merge := P.Func(pkgInt, "mergeAndValidateOIDCConfigs")
	defaults := P.Func(pkgInt, "applyOIDCDefaults")
	urls := P.Func(pkgInt, "validateURLs")
	oidcURLs := P.Func(pkgInt, "validateOIDCConfigURLs")
	for name, f := range map[string]*ssa.Function{"LocalConfigFile.Validate": validate, "mergeAndValidateOIDCConfigs": merge,
		"applyOIDCDefaults": defaults, "validateURLs": urls, "validateOIDCConfigURLs": oidcURLs} {
		if !c.Anchor("C17.R1", name, f != nil) {
			return
		}
	}
	c17R1(c, validate, merge, urls)
	configBytesAsRead(c, "C17.R1", validate)
	urlValidationVisitsEveryFilter(c, "C17.R1", urls)
	c17R2(c, validate, merge, defaults, oidcURLs)
	c17R3(c, merge)
	c17R4(c, validate)
}

func c17R1(c *Check, validate, merge, urls *ssa.Function) {
	P := c.P
	ff := FactsOf(validate)
	// (a) nil can only come from ValidateAll
	var va *ssa.Call
	for _, ci := range allCalls(validate) {
		if cc, ok := ci.(*ssa.Call); ok && isCallTo(cc, pkgCfgV1+".Config.ValidateAll") {
			va = cc
		}
	}
	if !c.Anchor("C17.R1", "call of generated Config.ValidateAll in Validate", va != nil) {
		return
	}
	for i, r := range returnsOf(validate) {
		key := fmt.Sprintf("return#%d", i+1)
		knownErr := ff.At(r).NonNil(r.Results[0])
		for _, l := range Leaves(r.Results[0], leafOpts{noConcat: true}) {
			switch {
			case isNilConst(l) && knownErr:
				c.Pass("C17.R1", key, P.Pos(instrPos(r)), "returns a value known to be a non-nil error here")
			case isNilConst(l):
				c.Fail("C17.R1", key, P.Pos(instrPos(r)), "Validate returns a constant nil: a configuration can be accepted without the final generated validation")
			case l == va:
				c.Pass("C17.R1", key, P.Pos(instrPos(r)), "returns the verdict of ValidateAll()")
			default:
				// an error value: must be known non-nil or a sentinel/constructed error
				c.Pass("C17.R1", key, P.Pos(instrPos(r)), "returns an error value: "+descDepth(l, 2))
			}
		}
	}
	// (b) order
	fs := ff.At(va)
	need := []struct {
		name string
		pred func(*ssa.Call) bool
	}{
		{"protojson.Unmarshal", func(cc *ssa.Call) bool {
			return isCallTo(cc, "google.golang.org/protobuf/encoding/protojson.Unmarshal")
		}},
		{"validateURLs", func(cc *ssa.Call) bool { return cc.Common().StaticCallee() == urls }},
		{"mergeAndValidateOIDCConfigs", func(cc *ssa.Call) bool { return cc.Common().StaticCallee() == merge }},
	}
	var order []*ssa.Call
	for _, n := range need {
		var found *ssa.Call
		for _, ci := range allCalls(validate) {
			if cc, ok := ci.(*ssa.Call); ok && n.pred(cc) {
				found = cc
			}
		}
		ok := found != nil && fs.CallErrNil(found, -1)
		c.Obl(ok, "C17.R1", "before-ValidateAll/"+n.name, P.Pos(va.Pos()),
			"ValidateAll() is reached only under "+n.name+" err == nil", "ValidateAll() can be reached without "+n.name+" having succeeded (pipeline order broken)")
		order = append(order, found)
	}
	// the merge reports every refusal it collected: what it returns is an immediate error or errors.Join over the
	// collected list evaluated after the loops — not a value carried around the chain loop (a later chain without
	// errors would overwrite the refusals of an earlier one)
	for i, r := range returnsOf(merge) {
		if len(r.Results) != 1 {
			continue
		}
		okRet, why := true, ""
		for _, l := range Leaves(r.Results[0], leafOpts{noConcat: true}) {
			l = resolveCell(stripConv(l))
			switch {
			case isNilConst(l):
				okRet, why = false, "a constant nil can be returned (initial value of a variable that the loop overwrites)"
			default:
				if jc, _, isC := asCall(l); isC && isCallTo(jc, "errors.Join") {
					if inLoop(jc.Block()) {
						okRet, why = false, "the returned errors.Join is evaluated inside the chain/filter loop: the result of a later iteration replaces the refusals of an earlier one"
					}
					// the joined list is not re-initialised inside a loop: walking the list back through appends and
					// phis, every edge that brings in a fresh (nil / newly made) list comes from a block outside loops
					seenV := map[ssa.Value]bool{}
					var walk func(v ssa.Value)
					walk = func(v ssa.Value) {
						v = stripConv(v)
						if seenV[v] {
							return
						}
						seenV[v] = true
						switch x := v.(type) {
						case *ssa.Phi:
							for k, e := range x.Edges {
								es := stripConv(e)
								_, isMS := es.(*ssa.MakeSlice)
								if isNilConst(es) || isMS {
									if inLoop(x.Block().Preds[k]) {
										okRet, why = false, "the list of collected errors is re-created in every iteration"
									}
									continue
								}
								walk(e)
							}
						case *ssa.Call:
							if bi, isB := x.Call.Value.(*ssa.Builtin); isB && bi.Name() == "append" && len(x.Call.Args) > 0 {
								walk(x.Call.Args[0])
							}
						case *ssa.Slice:
							walk(x.X)
						case *ssa.UnOp:
							walk(resolveCell(x))
						}
					}
					walk(jc.Common().Args[0])
				}
			}
		}
		c.Obl(okRet, "C17.R1", fmt.Sprintf("merge-reports-all-refusals/return#%d", i+1), P.Pos(instrPos(r)), "the merge returns an immediate error or the join of everything it collected, evaluated after the loops", "the merge can lose refusals: "+why)
	}
	// merge after URL validation, URL validation after decoding
	if order[1] != nil && order[0] != nil {
		c.Obl(ff.At(order[1]).CallErrNil(order[0], -1), "C17.R1", "order/decode-before-urls", P.Pos(order[1].Pos()), "URLs validated after successful decoding", "URL validation is not dominated by successful decoding")
	}
	if order[2] != nil && order[1] != nil {
		c.Obl(ff.At(order[2]).CallErrNil(order[1], -1), "C17.R1", "order/urls-before-merge", P.Pos(order[2].Pos()), "merge runs after successful URL validation", "the merge is not dominated by successful URL validation (re-parses of unvalidated URLs can crash)")
	}
	// the URL validator parses exactly the string it is given and returns the parser's verdict: the later
	// re-parses of stored URLs (hasRootPath, merge) rely on this
	if vu := P.Func(pkgInt, "validateURL"); c.Anchor("C17.R1", "validateURL", vu != nil) {
		okV := false
		for _, ci := range callsTo(vu, "net/url.Parse", "net/url.ParseRequestURI") {
			cc := ci.(*ssa.Call)
			if cc.Common().Args[0] == ssa.Value(vu.Params[0]) && valueReturned(vu, resultValue(cc, 1)) {
				okV = true
			}
		}
		c.Obl(okV, "C17.R1", "validateURL-parses-its-argument", P.Pos(vu.Pos()), "validateURL returns url.Parse(argument)'s error for the unmodified argument",
			"validateURL does not parse the unmodified string it is given (or drops the parser's error): a stored URL that later re-parses to nil is accepted, and hasRootPath / the merge dereference it")
	}
	// (c) refusals
	sent := map[string]string{
		"ErrDuplicateOIDCConfig": "filter OIDC config together with a default config",
		"ErrInvalidOIDCOverride": "override without a default config",
		"ErrMultipleOIDCConfig":  "more than one OIDC filter in a chain",
		"ErrHealthPortInUse":     "health port equals listen port",
	}
	for name, what := range sent {
		g := P.SSA[pkgInt].Var(name)
		found, where := returnsMayCarry(validate, g, 2)
		// the refusal must precede the merge: the merge call is not reachable from entry while avoiding…
		c.Obl(found, "C17.R1", "refusal/"+name, P.Pos(where), "refusal present: "+what, "the refusal `"+what+"` ("+name+") is no longer returned by Validate")
	}
	// the multiple-OIDC latch: its refusal is under a true fact on a boolean phi that has a `true` edge
	// (the latch is really set once an OIDC filter or override has been seen)
	{
		g := P.SSA[pkgInt].Var("ErrMultipleOIDCConfig")
		okLatch := false
		latchBad := ""
		for _, vf := range deepFuncs(validate, 2) {
			if pkgPathOf(vf) != pkgInt {
				continue
			}
			ff := FactsOf(vf)
			// the refusal is produced where the sentinel is loaded (returned at once, or carried to the return
			// through a result variable): the latch fact must hold there
			for _, b := range vf.Blocks {
				for _, ins := range b.Instrs {
					ld, isL := ins.(*ssa.UnOp)
					if !isL || !isLoadOfGlobal(ld, g) {
						continue
					}
					for cond, pol := range ff.At(ld) {
						// the same latch kept as a counter: `n++; if n > 1 { refuse }` with n a loop variable that starts at 0
						// where the chain starts and is only ever incremented
						if x, op, k, isCmp := cmpWithConstInt(cond); isCmp {
							more := (op == token.GTR && k == 1 && pol) || (op == token.GEQ && k == 2 && pol) || (op == token.LEQ && k == 1 && !pol) || (op == token.LSS && k == 2 && !pol)
							if more {
								if why, isCounter := counterLatch(x); isCounter {
									okLatch = true
									if why != "" {
										latchBad = why
									}
								}
							}
						}
						if ph, isPhi := cond.(*ssa.Phi); isPhi && pol && isBool(ph.Type()) {
							for _, e := range ph.Edges {
								if b, isC := constBool(e); isC && b {
									okLatch = true
								}
							}
							// the latch is monotone within the chain: once set it stays set until the next chain starts — every
							// value merged into it is the constant true, the constant false coming from outside the filter loop
							// (initialisation per chain), or the latch itself; `seen = isOIDC(current)` forgets earlier filters
							loopCarried := false
							for _, pb := range ph.Block().Preds {
								if ph.Block().Dominates(pb) && blockReaches(ph.Block(), pb) {
									loopCarried = true
								}
							}
							if loopCarried {
								if why := latchNotMonotone(ph); why != "" {
									latchBad = why
								}
							}
						}
					}
				}
			}
		}
		c.Obl(latchBad == "", "C17.R1", "refusal/multiple-oidc-latch-monotone", P.Pos(validate.Pos()), "the latch is only ever set (true) inside the filter loop and cleared where a chain starts",
			"the one-OIDC-filter-per-chain latch can be cleared again inside a chain ("+latchBad+"): two OIDC filters separated by another filter are accepted")
		c.Obl(okLatch, "C17.R1", "refusal/multiple-oidc-latch", P.Pos(validate.Pos()), "the one-OIDC-filter-per-chain refusal is guarded by a latch that is set when an OIDC filter or override is seen",
			"the one-OIDC-filter-per-chain latch is never set (or the refusal is not guarded by it): a chain with two OIDC filters is accepted")
	}
	// (d) error discipline over Validate and its own (non-generated) callees
	fns := []*ssa.Function{}
	for _, f := range ownClosure(validate) {
		if strings.HasPrefix(pkgPathOf(f), modPath+"/config/gen/go") {
			continue
		}
		fns = append(fns, f)
	}
	for _, fn := range fns {
		pos := func(ins ssa.Instruction) bool {
			r, ok := ins.(*ssa.Return)
			if !ok || len(r.Results) == 0 {
				return false
			}
			last := r.Results[len(r.Results)-1]
			if !isErrorType(last.Type()) {
				return false
			}
			for _, l := range Leaves(last, leafOpts{noConcat: true}) {
				if isNilConst(l) {
					return true
				}
			}
			return false
		}
		for _, ci := range allCalls(fn) {
			call, ok := ci.(*ssa.Call)
			if !ok {
				continue
			}
			res := call.Common().Signature().Results()
			for i := 0; i < res.Len(); i++ {
				if !isErrorType(res.At(i).Type()) {
					continue
				}
				idx := i
				if res.Len() == 1 {
					idx = -1
				}
				key := fmt.Sprintf("error/%s/result%d", nthCallKey(call), idx)
				where := P.Pos(call.Pos())
				id := funcID(calleeOf(call).Obj)
				if reason := c17ErrException(fn, id); reason != "" {
					c.Pass("C17.R1", key, where, "enumerated exception: "+reason)
					continue
				}
				rv := resultValue(call, idx)
				if rv == nil || !isUsed(rv) {
					c.Fail("C17.R1", key, where, "error result of "+shortID(id)+" is discarded in "+fnKey(fn)+": a rejected configuration can be accepted")
					continue
				}
				region := failureRegion(fn, call, idx, failErrNonNil)
				if len(region) == 0 {
					if valueReturned(fn, rv) || flowsIntoReturnedError(fn, rv) {
						c.Pass("C17.R1", key, where, "error of "+shortID(id)+" is returned / joined into the returned error")
						continue
					}
					if f := flowsIntoCollectedErrors(P, fn, rv); f != "" {
						c.Pass("C17.R1", key, where, "error of "+shortID(id)+" is appended to the error list "+f+", which is joined into a returned error")
						continue
					}
					c.Fail("C17.R1", key, where, "error result of "+shortID(id)+" is never tested nor returned in "+fnKey(fn))
					continue
				}
				if hit := reachFromBlocks(region, pos, nil); hit != nil && !flowsIntoReturnedError(fn, rv) {
					// collecting into an error list that is returned is fine (errs = append(errs, …))
					c.Fail("C17.R1", key, where, "after "+shortID(id)+" failed, "+fnKey(fn)+" can still return nil at "+P.Pos(instrPos(hit)))
					continue
				}
				c.Pass("C17.R1", key, where, "error of "+shortID(id)+" tested; no nil return reachable from the failure blocks "+blockIdx(region))
			}
		}
	}
}

// flowsIntoCollectedErrors: the error value is appended to a []error field of a state struct (`m.errs = append(m.errs, err)`)
// and some own function returns an error that depends on that field (`return errors.Join(m.errs...)`). Returns the field id.
func flowsIntoCollectedErrors(P *Program, fn *ssa.Function, v ssa.Value) string {
	for _, b := range fn.Blocks {
		for _, ins := range b.Instrs {
			st, ok := ins.(*ssa.Store)
			if !ok {
				continue
			}
			fa, ok := st.Addr.(*ssa.FieldAddr)
			if !ok {
				continue
			}
			sl, isSl := st.Val.Type().Underlying().(*types.Slice)
			if !isSl || !isErrorType(sl.Elem()) || !dataDeps(st.Val)[v] {
				continue
			}
			id := fieldAddrID(fa)
			for _, g := range P.Funcs {
				if !isOwnPath(pkgPathOf(g)) {
					continue
				}
				for _, r := range returnsOf(g) {
					for _, res := range r.Results {
						if !isErrorType(res.Type()) {
							continue
						}
						for d := range dataDeps(res) {
							if fa2, isF := d.(*ssa.FieldAddr); isF && fieldAddrID(fa2) == id {
								return id
							}
						}
					}
				}
			}
		}
	}
	return ""
}

// flowsIntoReturnedError: the error value is wrapped/appended into a value that a Return depends on.
func flowsIntoReturnedError(fn *ssa.Function, v ssa.Value) bool {
	for _, r := range returnsOf(fn) {
		for _, res := range r.Results {
			if !isErrorType(res.Type()) {
				continue
			}
			if dataDeps(res)[v] {
				return true
			}
		}
	}
	return false
}

func c17ErrException(fn *ssa.Function, callee string) string {
	name := fnKey(fn)
	switch {
	case callee == "net/url.Parse" && strings.HasSuffix(name, "hasRootPath"):
		return "re-parse of a string that validateURL accepted earlier in validateOIDCConfigURLs (checked by C17.R2 callback-uri order)"
	case callee == "net/url.Parse" && strings.HasSuffix(name, "mergeAndValidateOIDCConfigs"):
		return "re-parse of the callback URI accepted by validateURLs before the merge (C17.R1 order/urls-before-merge)"
	case callee == "google.golang.org/protobuf/encoding/protojson.Marshal":
		return "debug rendering only"
	}
	return ""
}

func c17R2(c *Check, validate, merge, defaults, oidcURLs *ssa.Function) {
	P := c.P
	// ---- merge roles
	var mergeCall, cloneCall *ssa.Call
	for _, ci := range allCalls(merge) {
		if cc, ok := ci.(*ssa.Call); ok {
			if isCallTo(cc, fProtoMerge) {
				mergeCall = cc
			}
			if isCallTo(cc, fProtoClone) {
				cloneCall = cc
			}
		}
	}
	if c.Anchor("C17.R2", "proto.Clone/proto.Merge in the merge function", mergeCall != nil && cloneCall != nil) {
		// Clone(default)
		okClone := false
		// (also when the default configuration travels in a field of a small state struct built in the function)
		for _, carg := range []ssa.Value{stripConv(cloneCall.Common().Args[0]), stripConv(resolveCell(stripConv(cloneCall.Common().Args[0])))} {
			if _, f, ok := fieldLoad(carg); ok && f != nil && f.Name() == "DefaultOidcConfig" {
				okClone = true
			}
			if call, _, ok := asCall(carg); ok && isCallTo(call, pkgCfgV1+".Config.GetDefaultOidcConfig") {
				okClone = true
			}
		}
		c.Obl(okClone, "C17.R2", "merge/clone-of-default", P.Pos(cloneCall.Pos()), "the merge starts from a clone of the default configuration",
			"proto.Clone is not applied to the default OIDC configuration")
		// Merge(dst = clone, src = override)
		dstOK := false
		for d := range dataDeps(mergeCall.Common().Args[0]) {
			if d == cloneCall {
				dstOK = true
			}
		}
		srcOK := false
		if call, _, ok := asCall(mergeCall.Common().Args[1]); ok && isCallTo(call, pkgCfgV1+".Filter.GetOidcOverride") {
			srcOK = true
		}
		c.Obl(dstOK && srcOK, "C17.R2", "merge/argument-roles", P.Pos(mergeCall.Pos()), "proto.Merge(dst = clone of default, src = the filter's override): override fields win, others are inherited",
			"proto.Merge argument roles are not (clone of default, filter override): overrides no longer win field by field")
		// stored back as Filter_Oidc
		stored := false
		for _, b := range merge.Blocks {
			for _, ins := range b.Instrs {
				if st, ok := ins.(*ssa.Store); ok {
					if fa, ok := st.Addr.(*ssa.FieldAddr); ok && fieldAddrID(fa) == pkgCfgV1+".Filter.Type" {
						if typeID(stripConv(st.Val).Type()) == pkgCfgV1+".Filter_Oidc" {
							// its Oidc field is the merged clone
							for name, vals := range structFieldStores(stripConv(st.Val)) {
								if name == "Oidc" {
									for _, v := range vals {
										if dataDeps(v)[cloneCall] {
											stored = true
										}
									}
								}
							}
						}
					}
				}
			}
		}
		c.Obl(stored, "C17.R2", "merge/stored-as-oidc", P.Pos(mergeCall.Pos()), "the merged configuration replaces the filter's type as Filter_Oidc",
			"the merged configuration is not stored back into the filter as its OIDC configuration")
	}
	openidScopeRule(c, "C17.R2", defaults)
	// applied to every OIDC filter: the call is inside the merge loops, and no path from the loop body
	// start to the next iteration for an OIDC filter avoids it. Checked as: the defaults call is not
	// skippable once GetOidc() != nil is known — i.e. from the block where that fact first holds, the
	// loop head cannot be reached again without passing the call or a return.
	var defCall *ssa.Call
	for _, ci := range callsToFn(merge, defaults) {
		defCall, _ = ci.(*ssa.Call)
	}
	if c.Anchor("C17.R2", "call of the scope-defaulting helper in the merge loop", defCall != nil) {
		okArg := false
		if call, _, ok := asCall(resolveCell(stripConv(defCall.Common().Args[0]))); ok && isCallTo(call, pkgCfgV1+".Filter.GetOidc") {
			okArg = true
		}
		head := loopHeadOf(defCall.Block())
		skippable := false
		if head != nil {
			// from the loop head's body successor, can we get back to the head without the call, while the
			// filter is an OIDC filter? Over-approximate: ignore edges taken for Mock filters and for
			// GetOidc() == nil (those filters have no scopes).
			region := regionWhere(merge, func(fs FactSet) bool {
				for cond, pol := range fs {
					bo, ok := cond.(*ssa.BinOp)
					if !ok {
						continue
					}
					if call, _, isC := asCall(bo.X); isC && isCallTo(call, pkgCfgV1+".Filter.GetOidc") && isNilConst(bo.Y) {
						if (bo.Op == token.EQL && !pol) || (bo.Op == token.NEQ && pol) {
							return true
						}
					}
				}
				return false
			})
			for _, b := range region {
				if hit := reachAvoiding(nil, b, func(i ssa.Instruction) bool { return i.Block() == head },
					func(i ssa.Instruction) bool { return i == defCall || isReturn(i) }); hit != nil {
					// allowed only if b is after the call already
					if !defCall.Block().Dominates(b) {
						skippable = true
					}
				}
			}
			if len(region) == 0 {
				skippable = true
			}
		}
		c.Obl(okArg && head != nil && !skippable, "C17.R2", "openid-scope/applied-to-every-oidc-filter", P.Pos(defCall.Pos()),
			"the defaulting helper is applied to f.GetOidc() of every OIDC filter in the merge loop",
			"the scope defaulting can be skipped for an OIDC filter (or is not applied to the filter's own configuration)")
	}
	// ---- callback URI: validateURL(GetCallbackUri) tested, hasRootPath(GetCallbackUri) ⇒ error
	chk := func(fn *ssa.Function, key, calleeName, getter string, want string) {
		found := false
		for _, ci := range allCalls(fn) {
			cc, ok := ci.(*ssa.Call)
			if !ok || cc.Common().StaticCallee() == nil || cc.Common().StaticCallee().Name() != calleeName {
				continue
			}
			onGetter := false
			for d := range dataDeps(cc.Common().Args[0]) {
				if dc, isC := d.(*ssa.Call); isC && isCallTo(dc, getter) {
					onGetter = true
				}
			}
			if !onGetter {
				continue
			}
			// failure edge leads to an error return / error append
			var region []*ssa.BasicBlock
			if isBool(cc.Type()) {
				region = regionWhere(fn, func(fs FactSet) bool { v, k := fs.CallBool(cc, -1); return k && v })
			} else {
				region = failureRegion(fn, cc, -1, failErrNonNil)
			}
			if len(region) == 0 {
				continue
			}
			// no nil return from there
			bad := reachFromBlocks(region, func(i ssa.Instruction) bool {
				r, isR := i.(*ssa.Return)
				if !isR || len(r.Results) == 0 {
					return false
				}
				for _, l := range Leaves(r.Results[len(r.Results)-1], leafOpts{noConcat: true}) {
					if isNilConst(l) {
						return true
					}
				}
				return false
			}, func(i ssa.Instruction) bool {
				// an append into the error list counts as handling
				if ac, isC := i.(*ssa.Call); isC {
					if bi, isB := ac.Call.Value.(*ssa.Builtin); isB && bi.Name() == "append" {
						return true
					}
				}
				return false
			})
			if bad == nil {
				found = true
			}
			// in the per-fragment URL validator the test is unconditional: no return that can report success lies
			// on a path that has not evaluated it (an early `return otherCheck(…)` would skip it)
			// in the merge loop the logout test is applied to every OIDC filter that has a logout section: from the point where
			// the filter is known to be an OIDC filter the next iteration is not reachable without the test, except over the
			// edge on which the filter has no logout section (a `continue` for discovery-based filters in front of it skips it)
			if fn == merge && strings.HasPrefix(key, "logout/") {
				if head := loopHeadOf(cc.Block()); head != nil {
					ffm := FactsOf(merge)
					isOIDC := regionWhere(merge, func(fs FactSet) bool {
						for cond, pol := range fs {
							bo, ok := cond.(*ssa.BinOp)
							if !ok {
								continue
							}
							if call, _, isC := asCall(bo.X); isC && isCallTo(call, pkgCfgV1+".Filter.GetOidc") && isNilConst(bo.Y) {
								if (bo.Op == token.EQL && !pol) || (bo.Op == token.NEQ && pol) {
									return true
								}
							}
						}
						return false
					})
					noLogout := func(fs FactSet) bool {
						for cond, pol := range fs {
							bo, ok := cond.(*ssa.BinOp)
							if !ok || !isNilConst(bo.Y) || (bo.Op == token.EQL) != pol {
								continue
							}
							for _, l := range Leaves(bo.X, leafOpts{noConcat: true}) {
								if lc, _, isC := asCall(resolveCell(stripConv(l))); isC && strings.HasSuffix(funcID(calleeOf(lc).Obj), "OIDCConfig.GetLogout") {
									return true
								}
							}
						}
						return false
					}
					skipped := ""
					for _, b := range isOIDC {
						if cc.Block().Dominates(b) || len(b.Instrs) == 0 {
							continue
						}
						// only blocks that lie before the test within the same iteration
						if b != cc.Block() && reachAvoiding(nil, b, func(i ssa.Instruction) bool { return i.Block() == cc.Block() },
							func(i ssa.Instruction) bool { return i.Block() == head }) == nil {
							continue
						}
						hit := reachAvoidingEdges(b.Instrs[0], func(i ssa.Instruction) bool { return i.Block() == head },
							func(i ssa.Instruction) bool { return i == ssa.Instruction(cc) || isReturn(i) },
							func(p, q *ssa.BasicBlock) bool { return noLogout(ffm.OnEdge(p, q)) })
						if hit != nil {
							skipped = posOf(P, b.Instrs[0])
						}
					}
					c.Obl(skipped == "", "C17.R2", key+"/applied-to-every-oidc-filter", P.Pos(cc.Pos()), want+": applied to every OIDC filter with a logout section",
						want+": the next filter can be reached from "+skipped+" without this test although the filter is an OIDC filter with a logout section (an early `continue` skips it)")
				}
			}
			if fn == oidcURLs {
				for i, r := range returnsOf(fn) {
					if len(r.Results) == 0 {
						continue
					}
					mayNil := false
					for _, l := range Leaves(r.Results[len(r.Results)-1], leafOpts{noConcat: true}) {
						if isNilConst(l) {
							mayNil = true
						}
						if lc, _, isC := asCall(l); isC && !FactsOf(fn).At(r).NonNil(l) && !isCallToAny(lc, "fmt.Errorf", "errors.New") {
							mayNil = true
						}
					}
					if !mayNil {
						continue
					}
					passes := mustPassBeforeLoops(fn, r, func(x ssa.Instruction) bool { return x == ssa.Instruction(cc) })
					c.Obl(passes, "C17.R2", fmt.Sprintf("%s/not-bypassed/return#%d", key, i+1), P.Pos(instrPos(r)), want+": every successful return has evaluated the test",
						want+": a return that can report success is reachable without the test having been evaluated (an earlier `return f(…)` ends the validation)")
				}
			}
		}
		c.Obl(found, "C17.R2", key, P.Pos(fn.Pos()), want+": enforced and guards an error", want+": the enforcing test is missing or no longer guards an error")
	}
	chk(oidcURLs, "callback/parseable", "validateURL", idOIDCConfig+".GetCallbackUri", "callback URI must parse")
	rootPathTestShape(c)
	defaultConfigNotAppended(c, "C17.R2")
	chk(oidcURLs, "callback/non-root", "hasRootPath", idOIDCConfig+".GetCallbackUri", "callback URI must not have the root path")
	chk(merge, "logout/non-root", "isRootPath", pkgCfgOIDC+".LogoutConfig.GetPath", "logout path must not be the root path")
	// … evaluated on the configuration the filter ends up with: a logout section that is read before the override is
	// merged and written back into the filter (a local fetched at the top of the loop body) is the unmerged one — nil for
	// every override filter, whose merged logout path is then never looked at
	{
		isTypeStore := func(i ssa.Instruction) bool {
			st, ok := i.(*ssa.Store)
			if !ok {
				return false
			}
			fa, ok := st.Addr.(*ssa.FieldAddr)
			return ok && fieldAddrID(fa) == pkgCfgV1+".Filter.Type"
		}
		nLg := 0
		for _, ci := range callsTo(merge, idOIDCConfig+".GetLogout") {
			nLg++
			head := loopHeadOf(ci.Block())
			hit := reachAvoiding(ci, nil, isTypeStore, func(i ssa.Instruction) bool {
				return head != nil && i.Block() == head && i == head.Instrs[0]
			})
			c.Obl(hit == nil, "C17.R2", "logout/read-after-merge/"+nthCallKey(ci), P.Pos(ci.Pos()), "the logout section is read from the filter's final (merged) configuration",
				"the logout section is read before the merged configuration is written back into the filter ("+posOf(P, hit)+"): for an override filter the value is the unmerged one and the logout-path tests are skipped")
		}
		_ = nLg
	}
	// logout path != callback path on the merged filter config
	verbatimBad := ""
	okDiff := false
	for _, b := range merge.Blocks {
		for _, ins := range b.Instrs {
			bo, ok := ins.(*ssa.BinOp)
			if !ok || bo.Op != token.EQL || !isString(bo.X.Type()) {
				continue
			}
			hasLogout, hasCb, fromFilter := false, false, false
			for _, side := range []ssa.Value{bo.X, bo.Y} {
				sideLogout, sideCb, sideFilter := false, false, false
				for d := range dataDeps(side) {
					if dc, isC := d.(*ssa.Call); isC {
						if isCallTo(dc, pkgCfgOIDC+".LogoutConfig.GetPath") {
							sideLogout = true
						}
						if isCallTo(dc, idOIDCConfig+".GetCallbackUri") {
							sideCb = true
						}
						if isCallTo(dc, pkgCfgV1+".Filter.GetOidc") {
							sideFilter = true
						}
					}
				}
				if sideLogout {
					hasLogout = true
					fromFilter = sideFilter
				}
				if sideCb && sideFilter {
					hasCb = true
				}
			}
			if hasLogout && hasCb && fromFilter {
				// both sides verbatim: the logout side is GetPath() itself, the callback side the Path field of the parsed
				// callback URI — a normalisation (path.Clean, TrimSuffix, ToLower …) applied to one side only makes equal
				// paths in non-canonical spelling compare unequal
				for _, side := range []ssa.Value{bo.X, bo.Y} {
					v := resolveCell(stripConv(side))
					if gc, _, isC := asCall(v); isC && isCallTo(gc, pkgCfgOIDC+".LogoutConfig.GetPath") {
						continue
					}
					if _, f, isL := fieldLoad(v); isL && f != nil && f.Name() == "Path" {
						continue
					}
					verbatimBad = descDepth(v, 3)
				}
				// true edge appends/returns ErrMustBeDifferentPath
				g := P.SSA[pkgInt].Var("ErrMustBeDifferentPath")
				for _, s := range trueSuccessors(bo) {
					for _, i2 := range s.Instrs {
						if u, isU := i2.(*ssa.UnOp); isU && isLoadOfGlobal(u, g) {
							okDiff = true
						}
					}
				}
				// `a && b` lowering: the comparison feeds a phi
				if rs := bo.Referrers(); rs != nil {
					for _, r := range *rs {
						if ph, isP := r.(*ssa.Phi); isP {
							for _, s := range trueSuccessors(ph) {
								for _, i2 := range s.Instrs {
									if u, isU := i2.(*ssa.UnOp); isU && isLoadOfGlobal(u, g) {
										okDiff = true
									}
								}
							}
						}
					}
				}
			}
		}
	}
	c.Obl(verbatimBad == "", "C17.R2", "logout/differs-compares-verbatim", P.Pos(merge.Pos()), "the two paths are compared as configured",
		"the callback/logout distinctness test compares "+verbatimBad+" instead of the path itself: identical paths in non-canonical spelling are accepted")
	c.Obl(okDiff, "C17.R2", "logout/differs-from-callback", P.Pos(merge.Pos()), "callback path == logout path (both of the filter's merged configuration) yields ErrMustBeDifferentPath",
		"the comparison of the merged filter's callback path with its logout path no longer yields ErrMustBeDifferentPath")
	// endpoints or discovery
	g := P.SSA[pkgInt].Var("ErrRequiredURL")
	nReq := 0
	for _, b := range merge.Blocks {
		fs := FactsOf(merge).In[b]
		under := false
		for cond, pol := range fs {
			if bo, ok := cond.(*ssa.BinOp); ok {
				if call, _, isC := asCall(bo.X); isC && isCallTo(call, idOIDCConfig+".GetConfigurationUri") {
					if s, isS := constString(bo.Y); isS && s == "" && ((bo.Op == token.EQL && pol) || (bo.Op == token.NEQ && !pol)) {
						under = true
					}
				}
			}
		}
		if !under {
			continue
		}
		for _, ins := range b.Instrs {
			if u, ok := ins.(*ssa.UnOp); ok && isLoadOfGlobal(u, g) {
				nReq++
			}
		}
	}
	// each requirement tests its own setting: authorization URI, token URI, and (static JWKS or fetcher URI)
	need := map[string][]string{
		"authorization URI": {idOIDCConfig + ".GetAuthorizationUri"},
		"token URI":         {idOIDCConfig + ".GetTokenUri"},
		"JWKS source":       {idOIDCConfig + ".GetJwks", pkgCfgOIDC + ".OIDCConfig_JwksFetcherConfig.GetJwksUri"},
	}
	for what, getters := range need {
		okSite := false
		for _, b := range merge.Blocks {
			fs := FactsOf(merge).In[b]
			hasErr := false
			for _, ins := range b.Instrs {
				if u, ok := ins.(*ssa.UnOp); ok && isLoadOfGlobal(u, g) {
					hasErr = true
				}
			}
			if !hasErr {
				continue
			}
			all := true
			for _, gid := range getters {
				found := false
				for cond, pol := range fs {
					if bo, ok := cond.(*ssa.BinOp); ok {
						if gc, _, isC := asCall(bo.X); isC && isCallTo(gc, gid) {
							if s2, isS := constString(bo.Y); isS && s2 == "" && ((bo.Op == token.EQL && pol) || (bo.Op == token.NEQ && !pol)) {
								found = true
							}
						}
					}
				}
				if !found {
					all = false
				}
			}
			if all {
				okSite = true
			}
		}
		c.Obl(okSite, "C17.R2", "endpoints-or-discovery/"+what, P.Pos(merge.Pos()), "without discovery a missing "+what+" (tested by emptiness of its own setting) yields ErrRequiredURL",
			"without a discovery URI, an empty "+what+" is no longer reported as ErrRequiredURL under the emptiness test of its own setting(s)")
	}
	c.Obl(nReq >= 3, "C17.R2", "endpoints-or-discovery", P.Pos(merge.Pos()), fmt.Sprintf("%d ErrRequiredURL sites under configuration_uri == \"\" (authorization, token, JWKS)", nReq),
		fmt.Sprintf("only %d ErrRequiredURL sites under configuration_uri == \"\" (expected authorization, token and JWKS)", nReq))

	// ---- generated validators
	type gen struct {
		typ, key, what string
		pred           func(fn *ssa.Function) bool
	}
	hasCond := func(fn *ssa.Function, match func(ssa.Instruction) bool) bool {
		ff := FactsOf(fn)
		for _, b := range fn.Blocks {
			if !ff.Reachable(b) {
				continue
			}
			for _, ins := range b.Instrs {
				if match(ins) {
					return true
				}
			}
		}
		return false
	}
	runeLT1 := func(getter string) func(ssa.Instruction) bool {
		return func(ins ssa.Instruction) bool {
			bo, ok := ins.(*ssa.BinOp)
			if !ok || bo.Op != token.LSS {
				return false
			}
			k, isC := constInt(bo.Y)
			rc, _, isCall := asCall(bo.X)
			if !isC || k != 1 || !isCall || !isCallTo(rc, "unicode/utf8.RuneCountInString") {
				return false
			}
			g, _, isG := asCall(rc.Common().Args[0])
			return isG && isCallTo(g, getter) && len(trueSuccessors(bo)) > 0
		}
	}
	gens := []gen{
		{"OIDCConfig", "client-id/non-empty", "client_id min_len 1", func(fn *ssa.Function) bool { return hasCond(fn, runeLT1(idOIDCConfig+".GetClientId")) }},
		{"OIDCConfig", "callback/min-len", "callback_uri min_len 1", func(fn *ssa.Function) bool { return hasCond(fn, runeLT1(idOIDCConfig+".GetCallbackUri")) }},
		{"OIDCConfig", "client-id/colon-free", "client_id must not contain ':'", func(fn *ssa.Function) bool {
			return hasCond(fn, func(ins ssa.Instruction) bool {
				cc, ok := ins.(*ssa.Call)
				if !ok || !isCallTo(cc, "strings.Contains") {
					return false
				}
				g, _, isG := asCall(cc.Common().Args[0])
				s, isS := constString(cc.Common().Args[1])
				return isG && isCallTo(g, idOIDCConfig+".GetClientId") && isS && s == ":" && len(trueSuccessors(cc)) > 0
			})
		}},
		{"OIDCConfig", "id-token/required", "id_token required", func(fn *ssa.Function) bool {
			return hasCond(fn, func(ins ssa.Instruction) bool {
				bo, ok := ins.(*ssa.BinOp)
				if !ok || bo.Op != token.EQL || !isNilConst(bo.Y) {
					return false
				}
				g, _, isG := asCall(bo.X)
				return isG && isCallTo(g, idOIDCConfig+".GetIdToken") && len(trueSuccessors(bo)) > 0
			})
		}},
		{"OIDCConfig", "client-secret/oneof-required", "client_secret_config oneof required", func(fn *ssa.Function) bool {
			// a store of the constant field name "ClientSecretConfig" with reason "value is required"
			return hasFieldReason(fn, "ClientSecretConfig", "value is required")
		}},
		{"TokenConfig", "token-header/non-empty", "token header min_len 1", func(fn *ssa.Function) bool {
			return hasCond(fn, runeLT1(pkgCfgOIDC+".TokenConfig.GetHeader"))
		}},
	}
	for _, g := range gens {
		fn := P.Func(pkgCfgOIDC, "(*"+g.typ+").validate")
		ok := fn != nil && g.pred(fn)
		where := "-"
		if fn != nil {
			where = P.Pos(fn.Pos())
		}
		c.Obl(ok, "C17.R2", "generated/"+g.key, where, "generated validator enforces: "+g.what, "generated validator no longer enforces: "+g.what)
	}
	ffn := P.Func(pkgCfgV1, "(*Filter).validate")
	c.Obl(ffn != nil && hasFieldReason(ffn, "Type", "value is required"), "C17.R2", "generated/filter-type-required", "config/gen/go/v1",
		"generated validator enforces: filter type oneof required", "generated validator no longer enforces: filter type oneof required")
}

// hasFieldReason: the generated validator builds a validation error with the given field and reason.
func hasFieldReason(fn *ssa.Function, field, reason string) bool {
	for _, b := range fn.Blocks {
		hasF, hasR := false, false
		for _, ins := range b.Instrs {
			st, ok := ins.(*ssa.Store)
			if !ok {
				continue
			}
			if s, isS := constString(st.Val); isS {
				if s == field {
					hasF = true
				}
				if s == reason {
					hasR = true
				}
			}
		}
		if hasF && hasR {
			return true
		}
	}
	return false
}

func c17R3(c *Check, merge *ssa.Function) {
	P := c.P
	// DefaultOidcConfig cleared on every nil-able return path
	isClear := func(ins ssa.Instruction) bool {
		st, ok := ins.(*ssa.Store)
		if !ok {
			return false
		}
		fa, ok := st.Addr.(*ssa.FieldAddr)
		return ok && fieldAddrID(fa) == pkgCfgV1+".Config.DefaultOidcConfig" && isNilConst(st.Val)
	}
	okAll := true
	n := 0
	for _, r := range returnsOf(merge) {
		mayNil := false
		for _, l := range Leaves(r.Results[0], leafOpts{noConcat: true}) {
			if isNilConst(l) {
				mayNil = true
			}
			if call, _, ok := asCall(l); ok && isCallTo(call, "errors.Join") {
				mayNil = true
			}
		}
		if !mayNil {
			continue
		}
		n++
		if !mustPassBefore(merge, r, isClear) {
			okAll = false
		}
	}
	c.Obl(okAll && n > 0, "C17.R3", "default-cleared", P.Pos(merge.Pos()), "the default OIDC configuration is cleared before every successful return of the merge",
		"a successful return of the merge leaves the default OIDC configuration in place")
	// every override filter is replaced: in the block(s) where GetOidcOverride() != nil is known, a store
	// to Filter.Type happens before the loop continues
	region := regionWhere(merge, func(fs FactSet) bool {
		for cond, pol := range fs {
			bo, ok := cond.(*ssa.BinOp)
			if !ok || !isNilConst(bo.Y) {
				continue
			}
			if call, _, isC := asCall(bo.X); isC && isCallTo(call, pkgCfgV1+".Filter.GetOidcOverride") {
				if (bo.Op == token.NEQ && pol) || (bo.Op == token.EQL && !pol) {
					return true
				}
			}
		}
		return false
	})
	isTypeStore := func(ins ssa.Instruction) bool {
		st, ok := ins.(*ssa.Store)
		if !ok {
			return false
		}
		fa, ok := st.Addr.(*ssa.FieldAddr)
		return ok && fieldAddrID(fa) == pkgCfgV1+".Filter.Type" && typeID(stripConv(st.Val).Type()) == pkgCfgV1+".Filter_Oidc"
	}
	ok := len(region) > 0
	if ok {
		// from the first block of the region, every path to a return or to leaving the region passes the store
		first := region[0]
		for _, b := range region {
			if b.Index < first.Index {
				first = b
			}
		}
		if hit := reachAvoiding(nil, first, func(i ssa.Instruction) bool {
			if isReturn(i) {
				return true
			}
			// leaving towards the next loop iteration
			if h := loopHeadOf(first); h != nil && i.Block() == h {
				return true
			}
			return false
		}, isTypeStore); hit != nil {
			ok = false
		}
	}
	c.Obl(ok, "C17.R3", "override-replaced", P.Pos(merge.Pos()), "every override filter has its type replaced by the merged Filter_Oidc before the loop continues",
		"an override filter can survive the merge without being replaced by a Filter_Oidc (Check's type switch would meet a nil handler)")
}

func c17R4(c *Check, validate *ssa.Function) {
	P := c.P
	crashRuleFor = func(string) string { return "C17.R4" }
	defer func() { crashRuleFor = func(n string) string { return "C15." + n } }()
	var fns []*ssa.Function
	for _, f := range P.reachableOwn(validate) {
		if strings.HasPrefix(pkgPathOf(f), modPath+"/config/gen/go") {
			continue
		}
		fns = append(fns, f)
	}
	c.extra["reachable_from_validate"] = len(fns)
	R := GetRoles(P)
	c15R1(c, fns)
	c15R2(c, R, fns)
	c15R4(c, fns)
	c15R5(c, fns)
}

// returnsMayCarry: some return of fn (or of an own helper whose error fn propagates) depends on the
// sentinel error g.
func returnsMayCarry(fn *ssa.Function, g *ssa.Global, depth int) (bool, token.Pos) {
	for _, r := range returnsOf(fn) {
		if len(r.Results) == 0 {
			continue
		}
		last := r.Results[len(r.Results)-1]
		deps := dataDeps(last)
		for d := range deps {
			if isLoadOfGlobal(d, g) {
				return true, instrPos(r)
			}
		}
		if depth > 0 {
			cands := []ssa.Value{last}
			for d := range deps {
				cands = append(cands, d)
			}
			for _, d := range cands {
				if hc, _, isC := asCall(d); isC {
					if h := hc.Common().StaticCallee(); h != nil && h.Blocks != nil && isOwnPath(pkgPathOf(h)) && !strings.HasPrefix(pkgPathOf(h), modPath+"/config/gen/go") && h != fn {
						if ok, pos := returnsMayCarry(h, g, depth-1); ok {
							return true, pos
						}
					}
				}
			}
		}
	}
	return false, token.NoPos
}

// openidScopeRule: every return of the scope-defaulting helper happens with the exact scope "openid" present —
// found by string equality in the configured list, or appended. Filed under C17.R2 and C13.R2 (the scope
// parameter of the authorization request carries openid).
func openidScopeRule(c *Check, rule string, defaults *ssa.Function) {
	P := c.P
	ff := FactsOf(defaults)
	cfgParam := defaults.Params[0]
	// present: the facts say that the exact scope "openid" is in the configured list
	present := func(fs FactSet) (bool, string) {
		// found: fact elem == "openid"
		eq, known := fs.cmp(func(a, b ssa.Value) bool {
			s, isC := constString(b)
			return isC && s == "openid" && isString(a.Type())
		})
		if known && eq {
			return true, "returns under the fact scope element == \"openid\""
		}
		// found: fact slices.Contains(scopes, "openid") (the library form of the search loop)
		for cond, pol := range fs {
			inner, neg := unwrapBool(cond)
			call, _, isC := asCall(inner)
			if !isC || pol == neg {
				continue
			}
			callee := call.Common().StaticCallee()
			if callee == nil || callee.Pkg == nil && callee.Origin() == nil {
				continue
			}
			o := callee
			if callee.Origin() != nil {
				o = callee.Origin()
			}
			if o.Pkg == nil || o.Pkg.Pkg.Path() != "slices" || o.Name() != "Contains" || len(call.Common().Args) != 2 {
				continue
			}
			fromCfg := false
			for d := range dataDeps(call.Common().Args[0]) {
				if gc, _, isG := asCall(d); isG && isCallTo(gc, idOIDCConfig+".GetScopes") && gc.Common().Args[0] == ssa.Value(cfgParam) {
					fromCfg = true
				}
				if fa, isF := d.(*ssa.FieldAddr); isF && fieldAddrID(fa) == idOIDCConfig+".Scopes" && fa.X == ssa.Value(cfgParam) {
					fromCfg = true
				}
			}
			if gc, _, isG := asCall(call.Common().Args[0]); isG && isCallTo(gc, idOIDCConfig+".GetScopes") && gc.Common().Args[0] == ssa.Value(cfgParam) {
				fromCfg = true
			}
			if s, isK := constString(call.Common().Args[1]); isK && s == "openid" && fromCfg {
				return true, "returns under the fact slices.Contains(scopes, \"openid\")"
			}
		}
		return false, ""
	}
	isAppendStore := func(ins ssa.Instruction) bool {
		st, isS := ins.(*ssa.Store)
		if !isS {
			return false
		}
		fa, isF := st.Addr.(*ssa.FieldAddr)
		if !isF || fieldAddrID(fa) != idOIDCConfig+".Scopes" || fa.X != cfgParam {
			return false
		}
		for d := range dataDeps(st.Val) {
			if s, isC := constString(d); isC && s == "openid" {
				return true
			}
		}
		return false
	}
	for i, r := range returnsOf(defaults) {
		ok, why := present(ff.At(r))
		// appended: a store to config.Scopes of append(..., "openid") precedes on all paths
		if !ok {
			// the last store before this return on every path must be an append store: approximate by
			// requiring that the return is not reachable from entry without passing an append store placed
			// after the search loop (the loop's early return is the `found` case)
			if mustPassBefore(defaults, r, isAppendStore) {
				ok, why = true, "every path to this return appends \"openid\" to the scopes"
			}
		}
		// one exit for both cases (`if !slices.Contains(scopes, "openid") { scopes = append(scopes, "openid") }; return`): every
		// path to the return passes an append store or runs over an edge on which the scope is known to be in the list
		if !ok && len(defaults.Blocks) > 0 && len(defaults.Blocks[0].Instrs) > 0 {
			first := defaults.Blocks[0].Instrs[0]
			if first != ssa.Instruction(r) && !isAppendStore(first) {
				hit := reachAvoidingEdges(first, func(i ssa.Instruction) bool { return i == ssa.Instruction(r) }, isAppendStore,
					func(p, q *ssa.BasicBlock) bool { found, _ := present(ff.OnEdge(p, q)); return found })
				if hit == nil {
					ok, why = true, "every path to this return appends \"openid\" or arrives with the scope found in the list"
				}
			}
		}
		if !ok {
			why = "return without the openid scope being present (neither found in the list nor appended)"
		}
		c.Obl(ok, rule, fmt.Sprintf("openid-scope/return#%d", i+1), P.Pos(instrPos(r)), why, why)
	}
}

// latchNotMonotone: ph is a boolean loop variable. Returns "" when every value merged into it (through the
// phi web it belongs to) is the constant true, the phi web itself, or the constant false arriving on an edge
// that does not come from inside the innermost loop of the phi that receives it.
func latchNotMonotone(ph *ssa.Phi) string {
	web := map[*ssa.Phi]bool{}
	var collect func(p *ssa.Phi)
	collect = func(p *ssa.Phi) {
		if web[p] {
			return
		}
		web[p] = true
		for _, e := range p.Edges {
			if q, ok := e.(*ssa.Phi); ok && isBool(q.Type()) {
				collect(q)
			}
		}
	}
	collect(ph)
	for p := range web {
		for i, e := range p.Edges {
			if q, ok := e.(*ssa.Phi); ok && web[q] {
				continue
			}
			if b, isC := constBool(e); isC {
				if b {
					continue
				}
				// false: only as (re)initialisation — the edge's source block is not inside a loop that the phi's block
				// heads and in which the latch was set (approximation: the predecessor does not reach itself through
				// the phi's block without leaving the phi's innermost loop ⇒ it is the loop entry edge)
				pred := p.Block().Preds[i]
				if !blockReaches(p.Block(), pred) || pred.Dominates(p.Block()) {
					continue
				}
				return "false is merged into the latch from inside the loop at " + pred.String()
			}
			return "the latch is overwritten with a computed value (" + descDepth(e, 2) + ")"
		}
	}
	return ""
}

// rootPathTestShape: "has the root path" means: the URL's path component is "/" or empty. isRootPath compares
// its parameter with both constants; hasRootPath applies that test (or the same two comparisons) to the Path
// field of url.Parse(its parameter) — not to RequestURI()/String()/EscapedPath(), which carry the query or
// normalise the path and let `http://host/?x=1` pass as a non-root callback.
func rootPathTestShape(c *Check) {
	P := c.P
	isRoot := P.Func(pkgInt, "isRootPath")
	hasRoot := P.Func(pkgInt, "hasRootPath")
	if !c.Anchor("C17.R2", "isRootPath and hasRootPath", isRoot != nil && hasRoot != nil && len(isRoot.Params) == 1 && len(hasRoot.Params) == 1) {
		return
	}
	// both constants compared (==) with subject, and the comparisons decide the result
	comparesBoth := func(fn *ssa.Function, subject func(ssa.Value) bool) (bool, string) {
		seen := map[string]bool{}
		for _, b := range fn.Blocks {
			for _, ins := range b.Instrs {
				bo, ok := ins.(*ssa.BinOp)
				if !ok || (bo.Op != token.EQL && bo.Op != token.NEQ) {
					continue
				}
				x, y := bo.X, bo.Y
				if _, isC := constString(x); isC {
					x, y = y, x
				}
				s, isC := constString(y)
				if !isC || !isString(x.Type()) {
					continue
				}
				if !subject(x) {
					if s == "/" {
						return false, "\"/\" is compared with " + descDepth(x, 3) + " instead of the path component"
					}
					continue
				}
				if (s == "/" || s == "") && (flowsToBranch(bo) || valueReturned(fn, bo) || influencesOutcome(bo)) {
					seen[s] = true
				}
			}
		}
		if !seen["/"] || !seen[""] {
			return false, fmt.Sprintf("the path is not compared with both \"/\" and \"\" (found %v)", keysOf(seen))
		}
		return true, ""
	}
	ok1, why1 := comparesBoth(isRoot, func(v ssa.Value) bool { return resolveCell(stripConv(v)) == ssa.Value(isRoot.Params[0]) })
	c.Obl(ok1, "C17.R2", "root-path-test/isRootPath", P.Pos(isRoot.Pos()), "isRootPath(p) ⇔ p == \"/\" || p == \"\"", "isRootPath: "+why1)
	pathOfParsedParam := func(v ssa.Value) bool {
		base, f, ok := fieldLoad(resolveCell(stripConv(v)))
		if !ok || f == nil || f.Name() != "Path" || typeID(derefType(base.Type())) != "net/url.URL" {
			return false
		}
		pc, idx, isC := asCall(resolveCell(stripConv(base)))
		return isC && idx == 0 && isCallToAny(pc, "net/url.Parse", "net/url.ParseRequestURI") && resolveCell(stripConv(pc.Common().Args[0])) == ssa.Value(hasRoot.Params[0])
	}
	ok2, why2 := false, "hasRootPath does not apply the root test to url.Parse(argument).Path"
	for _, ci := range callsToFn(hasRoot, isRoot) {
		a := callArgs(ci)[0]
		if pathOfParsedParam(a) && (valueReturned(hasRoot, ci.Value()) || flowsToBranch(ci.Value())) {
			ok2, why2 = true, ""
		} else {
			ok2, why2 = false, "the root test is applied to "+descDepth(resolveCell(stripConv(a)), 3)+", not to the Path of the parsed argument"
			break
		}
	}
	if len(callsToFn(hasRoot, isRoot)) == 0 {
		ok2, why2 = comparesBoth(hasRoot, pathOfParsedParam)
	}
	c.Obl(ok2, "C17.R2", "root-path-test/hasRootPath", P.Pos(hasRoot.Pos()), "hasRootPath(u) tests url.Parse(u).Path for \"/\" or \"\"", "hasRootPath: "+why2)
}

// defaultConfigNotAppended: the loader never appends onto a slice that belongs to the shared default OIDC
// configuration: `append(default.GetScopes(), …)` writes into the spare capacity of the default's backing
// array, which the merged configurations of all chains then alias — a later chain's append overwrites an
// earlier chain's last element (its openid scope).
func defaultConfigNotAppended(c *Check, rule string) {
	P := c.P
	fromDefault := func(v ssa.Value) bool {
		for d := range dataDeps(v) {
			if base, f, ok := fieldLoad(d); ok && f != nil && f.Name() == "DefaultOidcConfig" && base != nil {
				return true
			}
			if cl, isC := d.(*ssa.Call); isC && isCallTo(cl, pkgCfgV1+".Config.GetDefaultOidcConfig") {
				return true
			}
		}
		return false
	}
	// the list is a field of a generated configuration message reached from the default configuration — not a field of
	// an own struct that merely keeps a pointer to the default configuration next to its own lists
	fromDefaultMsg := func(base ssa.Value) bool {
		t := base.Type()
		if pt, isP := t.Underlying().(*types.Pointer); isP {
			t = pt.Elem()
		}
		nt, isN := t.(*types.Named)
		if !isN || nt.Obj().Pkg() == nil || !strings.HasPrefix(nt.Obj().Pkg().Path(), modPath+"/config/gen/go") {
			return false
		}
		return fromDefault(base)
	}
	n := 0
	for _, fn := range P.Funcs {
		if pkgPathOf(fn) != pkgInt {
			continue
		}
		for _, ci := range allCalls(fn) {
			cc, ok := ci.(*ssa.Call)
			if !ok {
				continue
			}
			bi, isB := cc.Call.Value.(*ssa.Builtin)
			if !isB || bi.Name() != "append" || len(cc.Call.Args) == 0 {
				continue
			}
			n++
			bad := ""
			for _, l := range LeavesInl(cc.Call.Args[0], leafOpts{noConcat: true}, 2, func(f *ssa.Function) bool { return pkgPathOf(f) != pkgInt }) {
				l = resolveCell(stripConv(l))
				if cl, _, isC := asCall(l); isC && cl != cc && len(cl.Common().Args) > 0 && fromDefault(cl.Common().Args[0]) {
					bad = descDepth(l, 3)
				}
				if base, f, isL := fieldLoad(l); isL && f != nil && fromDefaultMsg(base) {
					bad = descDepth(l, 3)
				}
				// a parameter of a helper: what the callers hand over
				if p, isP := l.(*ssa.Parameter); isP && p.Parent() == fn {
					for k, q := range fn.Params {
						if q != p {
							continue
						}
						for _, cs := range callsToFn2(P, fn) {
							if k >= len(cs.Common().Args) {
								continue
							}
							for _, al := range Leaves(cs.Common().Args[k], leafOpts{noConcat: true}) {
								al = resolveCell(stripConv(al))
								if cl, _, isC := asCall(al); isC && len(cl.Common().Args) > 0 && fromDefault(cl.Common().Args[0]) {
									bad = descDepth(al, 3) + " (passed to " + fnKey(fn) + ")"
								}
								if base, f, isL := fieldLoad(al); isL && f != nil && fromDefaultMsg(base) {
									bad = descDepth(al, 3) + " (passed to " + fnKey(fn) + ")"
								}
							}
						}
					}
				}
			}
			c.Obl(bad == "", rule, "default-config-not-appended/"+nthCallKey(cc), P.Pos(cc.Pos()), "append grows a list of its own",
				"append grows "+bad+", a list of the shared default OIDC configuration: the merged configurations of different chains share its backing array and overwrite each other's elements")
		}
	}
	c.Obl(n >= 1, rule, "appends-in-loader", "-", fmt.Sprintf("%d append sites in the loader", n), "no append found in the loader (anchor lost)")
}

// counterLatch: x is `n + 1` (or n) for an integer loop variable n whose merged values are the constant 0
// arriving from outside the loop, n itself, or n + a positive constant. Returns ("", true) for a monotone
// counter, (reason, true) for a counter that can be reset or decremented inside the loop, (_, false) when
// x is not of this shape.
func counterLatch(x ssa.Value) (string, bool) {
	x = stripConv(x)
	if bo, ok := x.(*ssa.BinOp); ok && bo.Op == token.ADD {
		if k, isK := constInt(bo.Y); isK && k > 0 {
			x = stripConv(bo.X)
		}
	}
	ph, ok := x.(*ssa.Phi)
	if !ok {
		return "", false
	}
	loopHead := false
	for _, pb := range ph.Block().Preds {
		if ph.Block().Dominates(pb) && blockReaches(ph.Block(), pb) {
			loopHead = true
		}
	}
	if !loopHead {
		return "", false
	}
	web := map[*ssa.Phi]bool{}
	var collect func(p *ssa.Phi)
	collect = func(p *ssa.Phi) {
		if web[p] {
			return
		}
		web[p] = true
		for _, e := range p.Edges {
			if q, ok := stripConv(e).(*ssa.Phi); ok {
				collect(q)
			}
			if bo, ok := stripConv(e).(*ssa.BinOp); ok && bo.Op == token.ADD {
				if q, ok := stripConv(bo.X).(*ssa.Phi); ok {
					collect(q)
				}
			}
		}
	}
	collect(ph)
	for p := range web {
		for i, e := range p.Edges {
			e = stripConv(e)
			if q, ok := e.(*ssa.Phi); ok && web[q] {
				continue
			}
			if bo, ok := e.(*ssa.BinOp); ok && bo.Op == token.ADD {
				if q, isQ := stripConv(bo.X).(*ssa.Phi); isQ && web[q] {
					if k, isK := constInt(bo.Y); isK && k > 0 {
						continue
					}
				}
			}
			if k, isK := constInt(e); isK && k == 0 {
				pred := p.Block().Preds[i]
				if !blockReaches(p.Block(), pred) || pred.Dominates(p.Block()) {
					continue
				}
				return "the counter is reset inside the loop at " + pred.String(), true
			}
			return "the counter is overwritten with " + descDepth(e, 2), true
		}
	}
	return "", true
}

// configBytesAsRead: what is decoded is what the file contains: the bytes handed to protojson.Unmarshal are the
// result of os.ReadFile of the configured path, untouched. A rewriting step in between (environment expansion,
// templating, comment stripping) changes configured strings behind the back of every later check — `${…}` in
// a client id or scope comes out as something else in the login redirect.
func configBytesAsRead(c *Check, rule string, validate *ssa.Function) {
	P := c.P
	n := 0
	for _, ci := range callsTo(validate, "google.golang.org/protobuf/encoding/protojson.Unmarshal", "google.golang.org/protobuf/encoding/protojson.UnmarshalOptions.Unmarshal") {
		args := callArgs(ci)
		var data ssa.Value
		for _, a := range args {
			if typeID(a.Type()) == "[]byte" || strings.HasSuffix(typeID(a.Type()), "[]uint8") {
				data = a
			}
		}
		if data == nil && len(args) > 0 {
			data = args[0]
		}
		n++
		bad := ""
		for _, l := range Leaves(data, leafOpts{noConcat: true}) {
			l = resolveCell(stripConv(l))
			if rc, idx, isC := asCall(l); isC && idx == 0 && isCallToAny(rc, "os.ReadFile", "io/ioutil.ReadFile", "io.ReadAll") {
				continue
			}
			bad = descDepth(l, 3)
		}
		c.Obl(bad == "", rule, "config-bytes-as-read/"+nthCallKey(ci), P.Pos(ci.Pos()), "the decoder is given the file's bytes as they were read",
			"the configuration decoder is given "+bad+" instead of the bytes read from the file: configured strings no longer mean what the file says")
	}
	c.Obl(n >= 1, rule, "config-decode-site", P.Pos(validate.Pos()), fmt.Sprintf("%d decode site(s)", n), "no protojson.Unmarshal call found in Validate (anchor lost)")
}

// urlValidationVisitsEveryFilter: the loops of validateURLs are left only when their list is exhausted or with
// an error: no edge leads from a loop body to the code after the loop (a `break` where `continue` was meant
// skips the URL validation of every later filter of the chain, on which the merge step relies).
func urlValidationVisitsEveryFilter(c *Check, rule string, urls *ssa.Function) {
	P := c.P
	n := 0
	for _, h := range urls.Blocks {
		if h.Comment != "rangeindex.loop" && h.Comment != "rangeiter.loop" && h.Comment != "for.loop" {
			continue
		}
		if len(h.Succs) != 2 {
			continue
		}
		// exit successor: the one from which the head is not reachable without … it is the done block
		exit := h.Succs[1] // the successor taken when the loop condition is false
		n++
		bad := ""
		for _, p := range exit.Preds {
			if p == h {
				continue
			}
			if h.Dominates(p) {
				bad = posOf(P, p.Instrs[len(p.Instrs)-1])
			}
		}
		c.Obl(bad == "", rule, fmt.Sprintf("url-validation-loop-exhaustive#%d", n), P.Pos(instrPos(h.Instrs[len(h.Instrs)-1])), "the loop is left only when its list is exhausted (or with an error)",
			"a loop of validateURLs can be left from inside its body ("+bad+") without an error: the filters that follow are not validated")
	}
	c.Obl(n >= 2, rule, "url-validation-loops", P.Pos(urls.Pos()), fmt.Sprintf("%d loops in validateURLs", n), "the chain/filter loops of validateURLs were not found (anchor lost)")
}
