package main

import (
	"fmt"
	"go/token"
	"strings"

	"golang.org/x/tools/go/ssa"
)

func init() { registry["C05"] = checkC05 }

// leftmostLeaves: the left-most operands of a string concatenation tree (through phis).
func leftmostLeaves(v ssa.Value) []ssa.Value {
	seen := map[ssa.Value]bool{}
	var out []ssa.Value
	var walk func(v ssa.Value)
	walk = func(v ssa.Value) {
		v = resolveCell(stripConv(v))
		if seen[v] {
			return
		}
		seen[v] = true
		switch x := v.(type) {
		case *ssa.BinOp:
			if x.Op == token.ADD {
				walk(x.X)
				return
			}
		case *ssa.Phi:
			for _, e := range x.Edges {
				walk(e)
			}
			return
		}
		out = append(out, v)
	}
	walk(v)
	return out
}

func checkC05(c *Check) {
	P := c.P
	m := getHModel(P)
	R := m.R
	c.Assumes("inequality of identifier *values* is a property of the generator (C06); browser handling of the __Host- prefix is the user agent's contract")
	c.Rule("C05.R1", "renewal: the id placed in the login redirect's Set-Cookie and the key of SetAuthorizationState are one and the same fresh GenerateSessionID() result of this activation (no flow from the request or the presented id); when a session id was presented, RemoveSession(presented) is called before and the fresh id is generated only if it returned nil.", 4)
	c.Rule("C05.R2", "callers pass what was presented: every call of the login-redirect helper passes the constant \"\" only where the cookie's session id is known to be empty, and the cookie's session id otherwise.", 3)
	c.Rule("C05.R3", "tokens only under issued ids: every SetTokenResponse key in the handler is a session id under which a successful non-nil store read (login state or tokens) was made in the same check; every SetAuthorizationState key is a fresh id (R1). By induction over store writes, token-holding keys ⊆ ids issued in a Set-Cookie.", 3)
	c.Rule("C05.R4", "cookie shape: every value the cookie-name function returns starts with the constant __Host-; the directive list always contains HttpOnly, Secure, Path=/ and a SameSite=Lax|Strict restriction, never a Domain directive, and Max-Age only for a non-negative timeout; the encoder emits name=value followed by every directive.", 6)
	c.Rule("C05.R5", "who may set the cookie: the set-cookie header key is written by exactly one function, each of whose callers passes the cookie builder's result for the name getCookieName(handler config).", 3)
	c.Rule("C05.R6", "logout expires the cookie: the logout answer sets the session cookie with timeout 0 (Max-Age=0).", 1)
	if !requireModel(c, "C05.R1", m, "redirect.", "hw.", "cookie.", "cb.settoken", "cb.getstate", "cb.sid") {
		return
	}
	rd := R.Redirect
	// ---- R1
	cookieArgs := m.RedirCookie.Common().Args // name, value, timeout
	valIsGen := resolveCell(stripConv(cookieArgs[1])) == ssa.Value(m.GenSID)
	keyIsGen := resolveCell(stripConv(callArgs(m.RedirSetState)[1])) == ssa.Value(m.GenSID)
	c.Obl(valIsGen, "C05.R1", "cookie-carries-fresh-id", P.Pos(m.RedirCookie.Pos()), "Set-Cookie value is exactly this activation's GenerateSessionID() result",
		"the session cookie of the login redirect carries "+descDepth(cookieArgs[1], 3)+" instead of a freshly generated id (session fixation)")
	c.Obl(keyIsGen, "C05.R1", "state-under-fresh-id", P.Pos(m.RedirSetState.Pos()), "login state key is the same fresh id",
		"the login state is stored under "+descDepth(callArgs(m.RedirSetState)[1], 3)+" instead of the freshly generated id")
	// cookie writer receives the builder's result
	wired := false
	for _, ci := range callsToFn(rd, m.SetCookieWriter.Fn) {
		if resolveCell(stripConv(ci.Common().Args[m.SetCookieWriter.ValIdx])) == ssa.Value(m.RedirCookie) {
			wired = true
		}
	}
	c.Obl(wired, "C05.R1", "cookie-written", P.Pos(m.RedirCookie.Pos()), "the built cookie is the one written to the answer", "the cookie built for the fresh id is not the one written to the redirect answer")
	// every session cookie that is ever built carries a fresh id or a constant (added in round 9: a second redirect site
	// that re-sends the presented id keeps the session the client chose)
	if c.Anchor("C05.R1", "cookie builder function", m.CookieBuilder != nil) {
		n := 0
		for _, site := range P.CallersOf(m.CookieBuilder) {
			args := site.Common().Args
			if len(args) < 2 {
				continue
			}
			n++
			bad := ""
			for _, l := range interOrigins(P, args[1], leafOpts{noConcat: true}, 4) {
				l = resolveCell(stripConv(l))
				if _, isC := constString(l); isC {
					continue
				}
				if gc, _, isCall := asCall(l); isCall && isCallTo(gc, idGeneratorIfc+".GenerateSessionID") {
					continue
				}
				bad = descDepth(l, 3)
			}
			c.Obl(bad == "", "C05.R1", "every-cookie-value-fresh-or-constant/"+nthCallKey(site), P.Pos(site.Pos()),
				"the cookie value is a GenerateSessionID() result or a constant on every flow into this call (callers followed)",
				"a session cookie is built around "+bad+", which is neither a freshly generated id nor a constant: an id the client presented can be handed back (session fixation)")
		}
		c.Obl(n >= 2, "C05.R1", "every-cookie-value-fresh-or-constant/sites", P.Pos(m.CookieBuilder.Pos()), "cookie builder call sites found", "fewer than two call sites of the cookie builder were found")
	}
	// remove-then-generate
	if c.Obl(m.RedirRemove != nil && m.OldSID != nil, "C05.R1", "old-session-removed/present", P.Pos(rd.Pos()), "RemoveSession is called in the redirect helper", "the redirect helper no longer removes the presented session") {
		okKey := sameVal(callArgs(m.RedirRemove)[1], m.OldSID)
		// with a presented id, the generator is not reachable without passing RemoveSession
		var nonEmpty ssa.Value
		for _, b := range rd.Blocks {
			for _, ins := range b.Instrs {
				if bo, ok := ins.(*ssa.BinOp); ok && (bo.Op == token.NEQ || bo.Op == token.EQL) && bo.X == m.OldSID {
					if s, isC := constString(bo.Y); isC && s == "" {
						nonEmpty = bo
					}
				}
			}
		}
		skip := ssa.Instruction(nil)
		if nonEmpty != nil {
			atoms := atomEnv{nonEmpty: nonEmpty.(*ssa.BinOp).Op == token.NEQ}
			skip = existsPath(rd, atoms, func(i ssa.Instruction) bool { return i == ssa.Instruction(m.GenSID) },
				func(i ssa.Instruction) bool { return i == ssa.Instruction(m.RedirRemove) })
		}
		c.Obl(okKey && nonEmpty != nil && skip == nil, "C05.R1", "old-session-removed/before-generate", P.Pos(m.RedirRemove.Pos()),
			"with a presented id the fresh id is generated only after RemoveSession(presented)",
			"a fresh id can be generated for a request that presented a session id without that session having been removed first")
		region := failureRegion(rd, m.RedirRemove, -1, failErrNonNil)
		hit := reachFromBlocks(region, func(i ssa.Instruction) bool {
			return i == ssa.Instruction(m.GenSID) || i == ssa.Instruction(m.RedirSetState) || i == ssa.Instruction(m.RedirCookie)
		}, nil)
		c.Obl(len(region) > 0 && hit == nil, "C05.R1", "old-session-removed/failure-stops", P.Pos(m.RedirRemove.Pos()),
			"a failed RemoveSession ends the redirect (no new id, no state, no cookie)",
			"after RemoveSession failed the helper still issues a new session ("+posOf(P, hit)+")")
	}

	// ---- R2
	idx := -1
	for i, p := range rd.Params {
		if p == m.OldSID {
			idx = i
		}
	}
	for _, site := range P.CallersOf(rd) {
		key := "presented-id/" + nthCallKey(site)
		a := resolveCell(stripConv(site.Common().Args[idx]))
		fs := FactsOf(site.Parent()).At(site)
		var reader *ssa.Call
		for _, ci := range callsToFn(site.Parent(), R.CookieReader) {
			reader, _ = ci.(*ssa.Call)
		}
		if s, isC := constString(a); isC && s == "" {
			c.Obl(reader != nil && fs.StrEmpty(reader), "C05.R2", key, P.Pos(site.Pos()), "\"\" passed where the cookie's session id is known to be empty",
				"the redirect helper is told that no session was presented although the cookie's session id is not known to be empty: the presented session survives the re-login")
			continue
		}
		c.Obl(reader != nil && a == ssa.Value(reader), "C05.R2", key, P.Pos(site.Pos()), "the cookie's session id is passed as the presented id",
			"the redirect helper receives "+descDepth(a, 3)+" instead of the session id presented in the cookie")
	}

	// ---- R3
	for _, fn := range R.HandlerFuncs {
		for _, ci := range callsTo(fn, mSetToken) {
			call, ok := ci.(*ssa.Call)
			if !ok {
				continue
			}
			k := callArgs(call)[1]
			fs := FactsOf(fn).At(call)
			okRead := false
			for _, ri := range callsTo(fn, mGetToken, mGetState) {
				rc, isC := ri.(*ssa.Call)
				if !isC || !sameVal(callArgs(rc)[1], k) {
					continue
				}
				if fs.CallErrNil(rc, 1) && fs.CallResultNonNil(rc, 0) {
					okRead = true
				}
			}
			c.Obl(okRead, "C05.R3", "token-key/"+nthCallKey(call), P.Pos(call.Pos()), "tokens are stored under an id for which a non-nil store read succeeded in this check",
				"tokens can be stored under "+descDepth(k, 3)+" without a successful non-nil store read under the same id: a client-chosen id could receive tokens")
		}
		for _, ci := range callsTo(fn, mSetState) {
			call, ok := ci.(*ssa.Call)
			if !ok {
				continue
			}
			k := resolveCell(stripConv(callArgs(call)[1]))
			gc, _, isC := asCall(k)
			c.Obl(isC && isCallTo(gc, idGeneratorIfc+".GenerateSessionID"), "C05.R3", "state-key/"+nthCallKey(call), P.Pos(call.Pos()), "login state is created only under a freshly generated id",
				"a login state is created under "+descDepth(k, 3)+", which is not a freshly generated id")
		}
	}

	// ---- R4
	cn := R.CookieName
	for i, r := range returnsOf(cn) {
		ok := true
		for _, l := range leftmostLeaves(r.Results[0]) {
			s, isC := constString(l)
			if !isC || !strings.HasPrefix(s, "__Host-") {
				ok = false
			}
		}
		c.Obl(ok, "C05.R4", fmt.Sprintf("cookie-name/return#%d", i+1), P.Pos(instrPos(r)), "cookie name starts with the constant __Host-", "a cookie name is returned that does not start with the constant __Host- prefix")
	}
	cookieNameIsInjective(c, "C05.R4", R)
	if c.Anchor("C05.R4", "cookie directive function", m.CookieDirs != nil) {
		dirs := m.CookieDirs
		consts := map[string]bool{}
		var maxAge []ssa.Instruction
		for _, b := range dirs.Blocks {
			for _, ins := range b.Instrs {
				for _, op := range ins.Operands(nil) {
					if *op == nil {
						continue
					}
					if s, isC := constString(*op); isC {
						consts[s] = true
					}
				}
				if cc, ok := ins.(*ssa.Call); ok && isCallTo(cc, "fmt.Sprintf") {
					maxAge = append(maxAge, cc)
				}
			}
		}
		// base list: the slice literal returned on the path without append
		base := map[string]bool{}
		for _, b := range dirs.Blocks {
			for _, ins := range b.Instrs {
				if sl, ok := ins.(*ssa.Slice); ok {
					if elems, isLit := sliceLitElems(sl); isLit {
						for _, e := range elems {
							if s, isC := constString(e); isC {
								base[s] = true
							}
						}
					}
				}
			}
		}
		c.Obl(base["HttpOnly"] && base["Secure"] && base["Path=/"] && (base["SameSite=Lax"] || base["SameSite=Strict"]), "C05.R4", "directives/required", P.Pos(dirs.Pos()),
			"HttpOnly, Secure, Path=/ and SameSite=Lax|Strict are always present", fmt.Sprintf("the unconditional directive list is %v: one of HttpOnly, Secure, Path=/, SameSite=Lax|Strict is missing", keysOf(base)))
		noDomain := true
		for s := range consts {
			if strings.HasPrefix(strings.ToLower(s), "domain") || strings.HasPrefix(strings.ToLower(s), "samesite=none") {
				noDomain = false
			}
		}
		c.Obl(noDomain, "C05.R4", "directives/no-domain", P.Pos(dirs.Pos()), "no Domain (nor SameSite=None) directive", "a Domain or SameSite=None directive is emitted: the cookie is no longer host-locked / same-site restricted")
		okMA := len(maxAge) > 0
		for _, ma := range maxAge {
			fs := FactsOf(dirs).At(ma)
			ge := false
			for cond, pol := range fs {
				_, op, k, isCmp := cmpWithConstInt(cond)
				if isCmp && k == 0 && ((op == token.GEQ && pol) || (op == token.LSS && !pol)) {
					ge = true
				}
			}
			if !ge {
				okMA = false
			}
		}
		c.Obl(okMA, "C05.R4", "directives/max-age", P.Pos(dirs.Pos()), "Max-Age is added only for timeout >= 0", "Max-Age is not guarded by timeout >= 0 (or is never emitted)")
		// builder passes directives and name/value to the encoder
		enc := P.Func(pkgHTTP, "EncodeCookieHeader")
		if c.Anchor("C05.R4", "EncodeCookieHeader", enc != nil) {
			okEnc := true
			for _, r := range returnsOf(enc) {
				deps := dataDeps(r.Results[0])
				for _, p := range enc.Params {
					if !deps[p] {
						okEnc = false
					}
				}
			}
			eqC := false
			for _, b := range enc.Blocks {
				for _, ins := range b.Instrs {
					if bo, ok := ins.(*ssa.BinOp); ok && bo.Op == token.ADD {
						if s, isC := constString(bo.Y); isC && s == "=" && bo.X == enc.Params[0] {
							eqC = true
						}
					}
				}
			}
			c.Obl(okEnc && eqC, "C05.R4", "encoder-shape", P.Pos(enc.Pos()), "name=value; every directive", "the cookie encoder no longer emits name=value followed by all directives")
			var bc *ssa.Call
			for _, ci := range callsToFn(m.CookieBuilder, enc) {
				bc, _ = ci.(*ssa.Call)
			}
			okB := bc != nil && bc.Common().Args[0] == m.CookieBuilder.Params[0] && bc.Common().Args[1] == m.CookieBuilder.Params[1]
			if okB && dirs != m.CookieBuilder {
				dc, _, isC := asCall(resolveCell(stripConv(bc.Common().Args[2])))
				okB = isC && dc.Common().StaticCallee() == dirs
			} else if okB {
				// the list is built in the builder itself: what reaches the encoder is the literal list, possibly grown by
				// the (guarded) Max-Age append
				for _, l := range Leaves(bc.Common().Args[2], leafOpts{noConcat: true}) {
					l = resolveCell(stripConv(l))
					if _, isLit := sliceLitElems(l); isLit {
						continue
					}
					if ac, _, isC := asCall(l); isC {
						if bi, isB := ac.Call.Value.(*ssa.Builtin); isB && bi.Name() == "append" {
							continue
						}
					}
					okB = false
				}
			}
			c.Obl(okB, "C05.R4", "builder-shape", P.Pos(m.CookieBuilder.Pos()), "builder = Encode(name, value, directives(timeout))", "the cookie builder does not pass its name, value and the standard directives to the encoder")
		}
	}

	// ---- R5
	writers := 0
	for _, hs := range headerSites(P, R) {
		if strings.EqualFold(hs.KeyConst, "set-cookie") {
			writers++
			c.Obl(hs.Fn == m.SetCookieWriter.Fn, "C05.R5", "writer/"+fnKey(hs.Fn), P.Pos(instrPos(hs.At)), "set-cookie is written by the single cookie writer",
				"a second function ("+fnKey(hs.Fn)+") writes a set-cookie header")
		}
	}
	// outside the handler's functions nobody builds response headers at all
	for _, fn := range P.Funcs {
		if R.InHandler(fn) || strings.HasPrefix(pkgPathOf(fn), modPath+"/config/gen/go") {
			continue
		}
		for _, b := range fn.Blocks {
			for _, ins := range b.Instrs {
				if al, ok := ins.(*ssa.Alloc); ok && typeID(al.Type()) == pkgEnvoyCore+".HeaderValue" {
					for _, v := range structFieldStores(al)["Key"] {
						if s2, isC := constString(v); isC && strings.EqualFold(s2, "set-cookie") {
							writers++
							c.Fail("C05.R5", "writer/"+fnKey(fn), P.Pos(instrPos(al)), "a function outside the handler ("+fnKey(fn)+") writes a set-cookie header")
						}
					}
				}
			}
		}
	}
	for _, site := range P.CallersOf(m.SetCookieWriter.Fn) {
		v := resolveCell(stripConv(site.Common().Args[m.SetCookieWriter.ValIdx]))
		bc, _, isC := asCall(v)
		ok := isC && bc.Common().StaticCallee() == m.CookieBuilder
		if ok {
			nc, _, isN := asCall(resolveCell(stripConv(bc.Common().Args[0])))
			ok = isN && nc.Common().StaticCallee() == R.CookieName && isHandlerConfig(nc.Common().Args[0])
		}
		c.Obl(ok, "C05.R5", "cookie-source/"+nthCallKey(site), P.Pos(site.Pos()), "cookie = builder(getCookieName(handler config), …)",
			"a cookie is written that was not built by the cookie builder for the handler's own cookie name")
	}

	// the cookie put on an answer stays on that answer (no shared header backing array), and a presented session
	// that the store could not destroy is reported as an error by the store (C09.R5), which stops the redirect (R2)
	headersOwnBacking(c, "C05.R5", R)
	storesReportFailedRemoval(c, "C05.R2")
	cookieDecoderComplete(c, "C05.R2")
	redirectExitsPassRemoval(c, "C05.R1", R)
	redirectCookieOutlivesLogin(c, "C05.R4", R, m)
	// the ids handed out are new: every draw is fresh CSPRNG output that is only read afterwards (C06.R1) — a generator
	// that replays a pool of bytes re-issues ids other clients still hold
	if c.ID == "C05" {
		importObls(c, "C06", checkC06, "C05.R1", func(o *Obligation) bool { return strings.HasPrefix(o.Key, "C06.R1/") })
		// a new id starts with an empty session: session objects are freshly allocated, never recycled (C10.R2)
		importObls(c, "C10", checkC10, "C05.R3", func(o *Obligation) bool {
			return strings.HasPrefix(o.Key, "C10.R2/created-write") || strings.HasPrefix(o.Key, "C10.R2/insert-only-when-absent")
		})
		// "after destroying whatever was stored under the presented one": the removal is not undone by a concurrent sweep —
		// every access to the session map and to a session's fields happens under the store mutex (C12.R1)
		importObls(c, "C12", checkC12, "C05.R1", func(o *Obligation) bool { return strings.HasPrefix(o.Key, "C12.R1/locked/") })
	}

	// ---- R6: the cookie call under LogoutMatch true has timeout 0 and a constant value
	found := false
	for _, ci := range callsToFn(R.OIDCProcess, m.CookieBuilder) {
		cc := ci.(*ssa.Call)
		fs := FactsOf(R.OIDCProcess).At(cc)
		inLogout := false
		for cond, pol := range fs {
			if lc, _, ok := asCall(cond); ok && lc.Common().StaticCallee() == R.LogoutMatch && pol {
				inLogout = true
			}
		}
		if !inLogout {
			continue
		}
		t, isC := constInt(cc.Common().Args[2])
		_, isS := constString(cc.Common().Args[1])
		found = isC && t == 0 && isS
	}
	c.Obl(found, "C05.R6", "logout-expires-cookie", P.Pos(R.OIDCProcess.Pos()), "logout sets the session cookie with a constant value and timeout 0", "the logout answer does not expire the session cookie (timeout 0)")
	// … on every object that can be the logout answer: each possible value of the denial written under the
	// logout match either carries the expiring cookie or none of them does (the plain error denial)
	for _, ci := range callsToFn(R.OIDCProcess, R.DenyWriter) {
		fs := FactsOf(R.OIDCProcess).At(ci)
		inLogout := false
		for cond, pol := range fs {
			if lc, _, ok := asCall(cond); ok && lc.Common().StaticCallee() == R.LogoutMatch && pol {
				inLogout = true
			}
		}
		if !inLogout {
			continue
		}
		leaves := Leaves(ci.Common().Args[1], leafOpts{})
		with, without := 0, 0
		for _, l := range leaves {
			l = resolveCell(stripConv(l))
			has := false
			for _, si := range callsToFn(R.OIDCProcess, m.SetCookieWriter.Fn) {
				for _, dl := range Leaves(si.Common().Args[m.SetCookieWriter.DenyIdx], leafOpts{}) {
					if sameVal(resolveCell(stripConv(dl)), l) {
						has = true
					}
				}
			}
			if has {
				with++
			} else {
				without++
			}
		}
		if with == 0 {
			continue // the error denial
		}
		c.Obl(without == 0, "C05.R6", "logout-answer-always-expires/"+nthCallKey(ci), P.Pos(ci.Pos()), "every object that can be the logout answer received the expiring cookie",
			fmt.Sprintf("the logout answer can be an object that never received the expiring Set-Cookie (%d of %d possible objects): the cookie survives the logout", without, with+without))
	}
}

// cookieDecoderComplete: the function that turns the Cookie header into a map considers every cookie of
// the header. The header parameter is split only by an unbounded splitter (strings.Split, or SplitN /
// SplitAfterN with a negative count — a positive count leaves the tail of the header in the last piece,
// which then is no Name=Value pair), the map is filled inside the loop over the pieces, and the loop is
// never left by a return (the function returns only after all pieces were looked at).
func cookieDecoderComplete(c *Check, rule string) {
	P := c.P
	dec := P.Func(pkgHTTP, "DecodeCookiesHeader")
	if !c.Anchor(rule, "DecodeCookiesHeader", dec != nil) {
		return
	}
	if len(dec.Params) == 0 {
		c.Fail(rule, "cookie-decoder-sees-every-cookie", P.Pos(dec.Pos()), "the cookie decoder has no header parameter")
		return
	}
	hdr := dec.Params[0]
	nSplit, bad := 0, ""
	for _, ci := range allCalls(dec) {
		cc, ok := ci.(*ssa.Call)
		if !ok || cc.Common().StaticCallee() == nil || cc.Common().StaticCallee().Pkg == nil || cc.Common().StaticCallee().Pkg.Pkg.Path() != "strings" {
			continue
		}
		args := cc.Common().Args
		if len(args) == 0 {
			continue
		}
		onHeader := false
		for _, l := range Leaves(args[0], leafOpts{noConcat: true}) {
			if resolveCell(stripConv(l)) == ssa.Value(hdr) {
				onHeader = true
			}
		}
		if !onHeader {
			continue
		}
		name := cc.Common().StaticCallee().Name()
		// cookies are separated by ';' only (RFC 6265): any other separator lets the value of one cookie smuggle in
		// a second name=value pair (`theme=dark,__Host-…=id`)
		if strings.HasPrefix(name, "Split") && len(args) >= 2 {
			if sep, isC := constString(args[1]); !isC || sep != ";" {
				bad = "the header is split with separator " + descDepth(args[1], 2) + " at " + posOf(P, cc) + " (cookie pairs are separated by ';' only)"
			}
		}
		if strings.HasPrefix(name, "FieldsFunc") && len(args) >= 2 {
			okSep := false
			if mc, isMC := args[1].(*ssa.MakeClosure); isMC {
				args[1] = mc.Fn
			}
			if pf, isF := args[1].(*ssa.Function); isF && pf.Blocks != nil {
				okSep = true
				for _, pb := range pf.Blocks {
					for _, pi := range pb.Instrs {
						if bo, isB := pi.(*ssa.BinOp); isB {
							for _, side := range []ssa.Value{bo.X, bo.Y} {
								if k, isK := constInt(side); isK && k != ';' && k != ' ' {
									okSep = false
								}
							}
						}
					}
				}
			}
			if !okSep {
				bad = "the header is split by a separator function that accepts more than ';' at " + posOf(P, cc)
			}
		}
		switch name {
		case "Split", "SplitAfter", "SplitSeq", "FieldsFunc", "FieldsFuncSeq":
			nSplit++
		case "SplitN", "SplitAfterN":
			nSplit++
			if n, isC := constInt(args[len(args)-1]); !isC || n >= 0 {
				bad = "the header is split with a bounded strings." + name + " at " + posOf(P, cc) + ": cookies beyond the bound stay in the last piece and are ignored"
			}
		}
	}
	_ = nSplit // a decoder that walks the header with strings.Cut / Index in a loop has no split call at all
	// filled inside a loop; no return from inside a loop
	filled := false
	for _, b := range dec.Blocks {
		for _, ins := range b.Instrs {
			switch x := ins.(type) {
			case *ssa.MapUpdate:
				if inLoop(b) {
					filled = true
				}
			case *ssa.Return:
				if inLoop(b) && bad == "" {
					bad = "the decoder returns from inside the loop over the cookies at " + posOf(P, x)
				}
			}
		}
	}
	// range-over-func form (`for piece := range strings.SplitSeq(header, ";")`): the loop body is the yield function handed
	// to the sequence; the map is filled there, and the body never asks the sequence to stop (every return is `true`)
	for _, ci := range allCalls(dec) {
		seq, _, isSeq := asCall(ci.Common().Value)
		if !isSeq || !isCallToAny(seq, "strings.SplitSeq", "strings.SplitAfterSeq", "strings.FieldsFuncSeq") || len(ci.Common().Args) != 1 {
			continue
		}
		mc, isMC := ci.Common().Args[0].(*ssa.MakeClosure)
		if !isMC {
			continue
		}
		body, _ := mc.Fn.(*ssa.Function)
		if body == nil {
			continue
		}
		for _, b := range body.Blocks {
			for _, ins := range b.Instrs {
				switch x := ins.(type) {
				case *ssa.MapUpdate:
					filled = true
				case *ssa.Return:
					if len(x.Results) == 1 {
						if k, isK := constBool(x.Results[0]); (!isK || !k) && bad == "" {
							bad = "the body of the loop over the cookies can stop the sequence early at " + posOf(P, x)
						}
					}
				}
			}
		}
	}
	if !filled && bad == "" {
		bad = "the cookie map is not filled inside the loop over the pieces of the header"
	}
	c.Obl(bad == "", rule, "cookie-decoder-sees-every-cookie", P.Pos(dec.Pos()), "the Cookie header is split completely and every piece is considered", "the cookie decoder can ignore a cookie that was presented: "+bad)
}

// cookieNameIsInjective: the session cookie's name is built from constants and the configured
// cookie_name_prefix used as it is. A prefix that is normalised, truncated, lower-cased or otherwise mapped
// makes two filters with different configured prefixes read, set and delete the same cookie.
func cookieNameIsInjective(c *Check, rule string, R *Roles) {
	P := c.P
	cn := R.CookieName
	if !c.Anchor(rule, "cookie name function", cn != nil) {
		return
	}
	for i, r := range returnsOf(cn) {
		bad := ""
		for _, l := range Leaves(r.Results[0], leafOpts{}) {
			l = resolveCell(stripConv(l))
			if _, isC := constString(l); isC {
				continue
			}
			if gc, _, isCall := asCall(l); isCall && isCallTo(gc, idOIDCConfig+".GetCookieNamePrefix") {
				continue
			}
			if _, f, isL := fieldLoad(l); isL && f != nil && f.Name() == "CookieNamePrefix" {
				continue
			}
			bad = descDepth(l, 3)
		}
		c.Obl(bad == "", rule, fmt.Sprintf("cookie-name-injective/return#%d", i+1), P.Pos(instrPos(r)), "cookie name = constants + the configured prefix as it is",
			"the cookie name contains "+bad+" instead of the configured prefix itself: different prefixes can map to one cookie name, and those filters then honour and remove each other's sessions")
	}
}

// redirectExitsPassRemoval: whenever the login-redirect helper is handed a presented session id, it does not
// return — whatever it answers — before RemoveSession was called for that id: an early answer in front of the
// removal (a 401 for scripted requests, a maintenance page) leaves the stale session, with its rejected or
// consumed refresh token, in the store for the next request to find.
func redirectExitsPassRemoval(c *Check, rule string, R *Roles) {
	P := c.P
	rd := R.Redirect
	if !c.Anchor(rule, "login-redirect helper", rd != nil && len(rd.Blocks) > 0 && len(rd.Blocks[0].Instrs) > 0) {
		return
	}
	var rm ssa.CallInstruction
	for _, ci := range callsTo(rd, idStoreIface+".RemoveSession") {
		rm = ci
	}
	if !c.Anchor(rule, "RemoveSession call in the login-redirect helper", rm != nil) {
		return
	}
	old := callArgs(rm)[1]
	ff := FactsOf(rd)
	emptyOld := func(p, q *ssa.BasicBlock) bool {
		return ff.OnEdge(p, q).StrEmpty(old)
	}
	hit := reachAvoidingEdges(rd.Blocks[0].Instrs[0], isReturn, func(i ssa.Instruction) bool { return i == ssa.Instruction(rm) }, emptyOld)
	c.Obl(hit == nil, rule, "redirect-exits-pass-removal", P.Pos(rm.Pos()), "with a presented session id every exit of the login-redirect helper lies behind RemoveSession",
		"the login-redirect helper can return at "+posOf(P, hit)+" without having called RemoveSession although a session id was presented: the stale session survives the failed refresh")
}

// redirectCookieOutlivesLogin: the session cookie issued with the login redirect is a session cookie (negative timeout:
// no Max-Age) or lives for at least a second-scaled, positive duration. A timeout that can be zero or a sub-second
// value (a configured number of seconds used as nanoseconds) makes the Set-Cookie that should create the cookie
// delete it: the browser comes back from the provider without it and is sent to the provider again, for ever.
func redirectCookieOutlivesLogin(c *Check, rule string, R *Roles, m *hModel) {
	P := c.P
	args := m.RedirCookie.Common().Args
	if len(args) < 3 {
		return
	}
	bad := ""
	for _, alt := range phiAlternatives(R.Redirect, resolveCell(stripConv(args[2])), m.RedirCookie) {
		v := stripConv(resolveCell(stripConv(alt.V)))
		if k, isK := constInt(v); isK {
			if k >= 0 && k < 1000000000 {
				bad = fmt.Sprintf("the constant %d (less than a second, Max-Age=0)", k)
			}
			continue
		}
		scaled := false
		if bo, isB := v.(*ssa.BinOp); isB && bo.Op == token.MUL {
			for _, side := range []ssa.Value{bo.X, bo.Y} {
				if k, isK := constInt(stripConv(side)); isK && k >= 1000000000 {
					scaled = true
				}
			}
		}
		if !scaled {
			bad = descDepth(v, 3) + ", which is not a negative constant nor a duration scaled to seconds"
		}
	}
	c.Obl(bad == "", rule, "redirect-cookie-outlives-login", P.Pos(m.RedirCookie.Pos()), "the login redirect's cookie is a session cookie or lives for whole seconds",
		"the login redirect can issue its session cookie with the timeout "+bad+": Max-Age=0 deletes the cookie the redirect should create and the login never completes")
}
