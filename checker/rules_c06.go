package main

import (
	"fmt"
	"go/types"
	"sort"
	"strings"

	"golang.org/x/tools/go/ssa"
)

func init() {
	registry["C06"] = checkC06
	needsWhole["C06"] = true
}

var cryptoRandDraws = []string{"crypto/rand.Read", "crypto/rand.Int", "crypto/rand.Text", "crypto/rand.Prime"}

func pkgOfValue(v ssa.Value) string {
	switch x := v.(type) {
	case *ssa.Function:
		if x.Pkg != nil {
			return x.Pkg.Pkg.Path()
		}
		if o := x.Object(); o != nil && o.Pkg() != nil {
			return o.Pkg().Path()
		}
	case *ssa.Global:
		if x.Pkg != nil {
			return x.Pkg.Pkg.Path()
		}
	}
	return ""
}

func isWeakRandPkg(p string) bool {
	return p == "math/rand" || p == "math/rand/v2" || strings.HasPrefix(p, "math/rand/")
}

func typeMentionsPkg(t types.Type, pred func(string) bool, depth int) bool {
	if depth == 0 {
		return false
	}
	switch x := t.(type) {
	case *types.Pointer:
		return typeMentionsPkg(x.Elem(), pred, depth-1)
	case *types.Named:
		if x.Obj().Pkg() != nil && pred(x.Obj().Pkg().Path()) {
			return true
		}
		return false
	case *types.Struct:
		for i := 0; i < x.NumFields(); i++ {
			if typeMentionsPkg(x.Field(i).Type(), pred, depth-1) {
				return true
			}
		}
	case *types.Slice:
		return typeMentionsPkg(x.Elem(), pred, depth-1)
	case *types.Array:
		return typeMentionsPkg(x.Elem(), pred, depth-1)
	case *types.Map:
		return typeMentionsPkg(x.Key(), pred, depth-1) || typeMentionsPkg(x.Elem(), pred, depth-1)
	}
	return false
}

func checkC06(c *Check) {
	P := c.P
	R := GetRoles(P)
	c.Assumes("crypto/rand is a CSPRNG whose Read never fails (Go ≥ 1.24 aborts instead); statistical quality and side channels are not examined")
	c.Rule("C06.R1", "entropy source: every method of every generator type that production code wires into the OIDC handler returns a string that data-depends on bytes drawn from crypto/rand in the same activation, and neither the method, its constructor, the functions they call in own code, nor the generator's fields reference math/rand, math/rand/v2 or a clock (time.Now, oidc.Clock).", 4)
	c.Rule("C06.R2", "production wiring: every non-test construction of the OIDC handler receives a generator that is the direct result of a constructor satisfying R1; the static (test) generator constructor has no caller in production code.", 2)
	c.Rule("C06.R3", "independence: generator types wired in production carry no state (no field stores, no package-level writes) so that no identifier can be derived from an earlier one, and in the login redirect the session id, state and nonce are each the direct result of their own generator call.", 4)

	if !requireRoles(c, "C06.R2", R, "NewOIDCHandler", "RedirectHelper") {
		return
	}
	gen := P.NamedType(pkgOIDC, "SessionGenerator")
	if !c.Anchor("C06.R1", "oidc.SessionGenerator", gen != nil) {
		return
	}
	iface := gen.Underlying().(*types.Interface)

	// R2: wiring
	genParam := -1
	for i := 0; i < R.NewOIDC.Signature.Params().Len(); i++ {
		if typeID(R.NewOIDC.Signature.Params().At(i).Type()) == idGeneratorIfc {
			genParam = i
		}
	}
	if !c.Anchor("C06.R2", "generator parameter of the OIDC handler constructor", genParam >= 0) {
		return
	}
	ctors := map[*ssa.Function]bool{}
	sites := P.CallersOf(R.NewOIDC)
	for _, site := range sites {
		arg := site.Common().Args[genParam]
		key := "wiring/" + nthCallKey(site)
		for _, l := range Leaves(arg, leafOpts{}) {
			call, _, ok := asCall(l)
			if !ok || call.Common().StaticCallee() == nil || !isOwnPath(pkgPathOf(call.Common().StaticCallee())) {
				c.Fail("C06.R2", key, P.Pos(site.Pos()), "the generator handed to the OIDC handler is "+descDepth(l, 3)+", not the direct result of an own constructor")
				continue
			}
			ctors[call.Common().StaticCallee()] = true
			c.Pass("C06.R2", key, P.Pos(site.Pos()), "generator = "+fnKey(call.Common().StaticCallee())+"()")
		}
	}
	if len(sites) == 0 {
		c.Fail("C06.R2", "wiring", "-", "the OIDC handler constructor has no production call site")
	}

	// concrete types returned by the constructors
	type genType struct {
		T    types.Type
		ctor *ssa.Function
	}
	var gts []genType
	for ctor := range ctors {
		for _, r := range returnsOf(ctor) {
			for _, l := range Leaves(r.Results[0], leafOpts{}) {
				mi, ok := r.Results[0].(*ssa.MakeInterface)
				_ = l
				if !ok {
					c.Fail("C06.R1", "ctor-type/"+fnKey(ctor), P.Pos(instrPos(r)), "constructor does not return a concrete generator value directly")
					continue
				}
				gts = append(gts, genType{mi.X.Type(), ctor})
				break
			}
		}
	}
	sort.Slice(gts, func(i, j int) bool { return gts[i].T.String() < gts[j].T.String() })

	for _, gt := range gts {
		tname := typeShort(gt.T)
		// fields
		if typeMentionsPkg(gt.T, isWeakRandPkg, 4) {
			c.Fail("C06.R1", "fields/"+tname, P.Pos(gt.ctor.Pos()), "generator type "+tname+" holds a math/rand value")
		} else {
			c.Pass("C06.R1", "fields/"+tname, P.Pos(gt.ctor.Pos()), "generator type "+tname+" holds no math/rand value")
		}
		ms := P.Prog.MethodSets.MethodSet(gt.T)
		for i := 0; i < iface.NumMethods(); i++ {
			m := iface.Method(i)
			sel := ms.Lookup(m.Pkg(), m.Name())
			if sel == nil {
				c.Fail("C06.R1", "method/"+tname+"."+m.Name(), "-", "method not found")
				continue
			}
			mfn := P.Prog.MethodValue(sel)
			// unwrap pointer-receiver wrappers of value methods
			mfn = unwrapSynthetic(mfn)
			key := "entropy/" + tname + "." + m.Name()
			clo := ownClosure(mfn, gt.ctor)
			// forbidden references
			bad := ""
			draws := 0
			ext := map[string]bool{}
			for _, f := range clo {
				for _, b := range f.Blocks {
					for _, ins := range b.Instrs {
						for _, op := range ins.Operands(nil) {
							if *op == nil {
								continue
							}
							if p := pkgOfValue(*op); isWeakRandPkg(p) {
								bad = "references " + p + " (" + (*op).Name() + ") in " + fnKey(f)
							}
						}
						if ci, ok := ins.(ssa.CallInstruction); ok {
							if isCallToAny(ci, "time.Now", pkgOIDC+".Clock.Now", "time.Since") {
								bad = "reads the clock in " + fnKey(f)
							}
							if isCallToAny(ci, cryptoRandDraws...) {
								draws++
							}
							if callee := ci.Common().StaticCallee(); callee != nil && !isOwnPath(pkgPathOf(callee)) {
								ext[funcID(calleeOf(ci).Obj)] = true
							}
						}
						if u, ok := ins.(*ssa.UnOp); ok {
							if g, ok := u.X.(*ssa.Global); ok && g.Pkg != nil && g.Pkg.Pkg.Path() == "crypto/rand" && g.Name() == "Reader" {
								draws++
							}
						}
					}
				}
			}
			if bad != "" {
				c.Fail("C06.R1", key, P.Pos(mfn.Pos()), "generator "+bad+": identifiers are predictable from time or from each other")
				continue
			}
			// data dependence of the result on crypto/rand
			ok, why := resultDependsOnCSPRNG(P, c, mfn, 3)
			c.Obl(ok, "C06.R1", key, P.Pos(mfn.Pos()), why, why)
			_ = draws
		}
		// R3: statelessness
		stateless := true
		why := "no field of the generator and no package variable is written by its methods"
		for i := 0; i < ms.Len(); i++ {
			mfn := unwrapSynthetic(P.Prog.MethodValue(ms.At(i)))
			if mfn == nil {
				continue
			}
			for _, f := range ownClosure(mfn) {
				for _, b := range f.Blocks {
					for _, ins := range b.Instrs {
						if st, ok := ins.(*ssa.Store); ok {
							root := addrRoot(st.Addr)
							if _, isG := root.(*ssa.Global); isG {
								stateless, why = false, "writes package variable "+root.Name()+" in "+fnKey(f)
							}
							if fa, isF := st.Addr.(*ssa.FieldAddr); isF {
								if types.Identical(derefType(fa.X.Type()), derefType(gt.T)) {
									stateless, why = false, "writes generator field "+fieldAddrID(fa)+" in "+fnKey(f)
								}
							}
						}
					}
				}
			}
		}
		c.Obl(stateless, "C06.R3", "stateless/"+tname, P.Pos(gt.ctor.Pos()), why, "generator keeps state between draws: "+why)
	}

	// R2: static generator unreachable
	for _, fn := range P.Funcs {
		if pkgPathOf(fn) != pkgOIDC || fn.Parent() != nil || fn.Signature.Recv() != nil {
			continue
		}
		res := fn.Signature.Results()
		if res.Len() == 1 && typeID(res.At(0).Type()) == idGeneratorIfc && !ctors[fn] {
			callers := P.CallersOf(fn)
			c.Obl(len(callers) == 0, "C06.R2", "unused-ctor/"+fnKey(fn), P.Pos(fn.Pos()),
				"generator constructor "+fnKey(fn)+" (not satisfying R1 by construction) has no production caller",
				fmt.Sprintf("generator constructor %s is called from production code (%d sites) but is not the audited random generator", fnKey(fn), len(callers)))
		}
	}

	// R3: direct use in the redirect helper
	for _, m := range []string{"GenerateSessionID", "GenerateNonce", "GenerateState", "GenerateCodeVerifier"} {
		calls := callsTo(R.Redirect, idGeneratorIfc+"."+m)
		c.Obl(len(calls) == 1, "C06.R3", "one-draw/"+m, P.Pos(R.Redirect.Pos()),
			"the login redirect draws "+m+" exactly once",
			fmt.Sprintf("the login redirect calls %s %d times (expected exactly one draw per identifier)", m, len(calls)))
	}
	// what is sent and stored is exactly what was drawn: no flow from a previously issued (and disclosed) value
	m := getHModel(P)
	if requireModel(c, "C06.R3", m, "redirect.gens", "redirect.setstate", "redirect.query", "redirect.cookie") {
		is := func(v ssa.Value, call *ssa.Call) bool {
			return v != nil && call != nil && resolveCell(stripConv(v)) == ssa.Value(call)
		}
		single := func(vs []ssa.Value) ssa.Value {
			if len(vs) == 1 {
				return vs[0]
			}
			return nil
		}
		chk := func(name string, ok bool) {
			c.Obl(ok, "C06.R3", "fresh-value-used/"+name, P.Pos(R.Redirect.Pos()), name+" of this login is exactly this activation's generator draw",
				name+" sent or stored by the login redirect can come from somewhere else than this activation's generator draw (e.g. carried over from an earlier, already disclosed login)")
		}
		chk("state", is(m.RedirQuery["state"], m.GenState) && is(single(m.RedirStateLit["State"]), m.GenState))
		chk("nonce", is(m.RedirQuery["nonce"], m.GenNonce) && is(single(m.RedirStateLit["Nonce"]), m.GenNonce))
		chk("verifier", is(single(m.RedirStateLit["CodeVerifier"]), m.GenVerifier))
		chk("session id", is(m.RedirCookie.Common().Args[1], m.GenSID))
	}
	// the identifiers leave the redirect only through the session cookie, the store and the authorization URL:
	// none of them is kept in a container that outlives the check (a map from state or request id to session id
	// would let a public value select a session id), and the callback takes its session id from the cookie only
	if m.GenSID != nil {
		gens := map[ssa.Value]string{}
		for _, g := range []*ssa.Call{m.GenSID, m.GenState, m.GenNonce, m.GenVerifier} {
			if g != nil {
				gens[g] = g.Common().Method.Name()
			}
		}
		nEsc := 0
		for _, hf := range R.HandlerFuncs {
			for _, b := range hf.Blocks {
				for _, ins := range b.Instrs {
					var vals []ssa.Value
					what := ""
					switch x := ins.(type) {
					case *ssa.MapUpdate:
						if cl, _ := classOfMap(x.Map); strings.HasPrefix(cl, "global:") || strings.Contains(cl, "[]") {
							vals, what = []ssa.Value{x.Key, x.Value}, "a long-lived map ("+cl+")"
						}
					case ssa.CallInstruction:
						id := funcID(calleeOf(x).Obj)
						if strings.HasPrefix(id, "sync.Map.") && (strings.HasSuffix(id, ".Store") || strings.HasSuffix(id, ".LoadOrStore") || strings.HasSuffix(id, ".Swap") || strings.HasSuffix(id, ".CompareAndSwap")) {
							vals, what = x.Common().Args[1:], "a sync.Map"
						}
					case *ssa.Store:
						if _, isG := x.Addr.(*ssa.Global); isG {
							vals, what = []ssa.Value{x.Val}, "a package-level variable"
						}
					}
					for _, v := range vals {
						for d := range dataDeps(v) {
							if gname, isGen := gens[d]; isGen {
								nEsc++
								c.Fail("C06.R3", fmt.Sprintf("identifier-kept/%s/%s#%d", fnKey(hf), gname, nEsc), P.Pos(instrPos(ins)),
									"the result of "+gname+" is kept in "+what+" in "+fnKey(hf)+": identifiers of one login become reachable from values other than the session cookie (or are handed out again)")
							}
						}
					}
				}
			}
		}
		if nEsc == 0 {
			c.Pass("C06.R3", "identifiers-not-kept", P.Pos(R.Redirect.Pos()), "no generator result is stored into a long-lived map, sync.Map or package-level variable")
		}
		if R.Callback != nil && m.CbSID != nil {
			okSID, whySID := sidFromCookieAtAllCallers(P, R, R.Callback, m.CbSID)
			c.Obl(okSID, "C06.R3", "callback-id-is-cookie", P.Pos(R.Callback.Pos()), "the callback's session id is the one presented in the cookie", "the callback can run under a session id that does not come from the cookie ("+whySID+"): a public value (state) selects the session")
		}
	}
	// the identifiers of a login leave in a response object that no other check can reach
	responseFreshPerCheck(c, "C06.R3", R)
	csprngBufferNotOverwritten(c, "C06.R1")
	entropyAmountIsConstant(c, "C06.R1")
	headersOwnBacking(c, "C06.R3", R)
	if c.Tier == "thorough" && P.Whole {
		// follow oauth2.GenerateVerifier into the dependency
		c.extra["verifier_followed_into_dependency"] = true
	}
}

func unwrapSynthetic(fn *ssa.Function) *ssa.Function {
	if fn == nil || fn.Synthetic == "" {
		return fn
	}
	// wrapper: single call to the real method
	for _, b := range fn.Blocks {
		for _, ins := range b.Instrs {
			if c, ok := ins.(ssa.CallInstruction); ok {
				if callee := c.Common().StaticCallee(); callee != nil && callee.Name() == fn.Name() {
					return callee
				}
			}
		}
	}
	return fn
}

func derefType(t types.Type) types.Type {
	if p, ok := t.(*types.Pointer); ok {
		return p.Elem()
	}
	return t
}

func pkgPathOf(fn *ssa.Function) string {
	pk := fn.Package()
	if pk == nil && fn.Parent() != nil {
		pk = fn.Parent().Package()
	}
	if pk == nil {
		if o := fn.Object(); o != nil && o.Pkg() != nil {
			return o.Pkg().Path()
		}
		return ""
	}
	return pk.Pkg.Path()
}

// externalEntropy: dependency functions accepted as CSPRNG-backed string sources, each with the
// reason; the thorough tier re-derives the claim from the dependency's SSA.
var externalEntropy = map[string]string{
	"golang.org/x/oauth2.GenerateVerifier": "oauth2.GenerateVerifier: 32 bytes from crypto/rand.Read, base64url (PKCE, RFC 7636)",
	"crypto/rand.Text":                     "crypto/rand.Text: 128 bits from the CSPRNG",
}

// resultDependsOnCSPRNG: every returned string of fn data-depends on a buffer filled by crypto/rand
// (or is the result of an accepted external entropy function, or of an own function satisfying this).
func resultDependsOnCSPRNG(P *Program, c *Check, fn *ssa.Function, depth int) (bool, string) {
	if fn == nil || fn.Blocks == nil {
		return false, "no body"
	}
	rets := returnsOf(fn)
	if len(rets) == 0 {
		return false, "no return"
	}
	var whys []string
	for _, r := range rets {
		deps := dataDeps(r.Results[0])
		ok := false
		for d := range deps {
			// buffer passed to crypto/rand.Read / value from rand.Int / rand.Text
			if call, isC := d.(*ssa.Call); isC {
				ce := calleeOf(call)
				id := funcID(ce.Obj)
				if why, acc := externalEntropy[id]; acc {
					if P.Whole && ce.Fn != nil && ce.Fn.Blocks != nil {
						if reachesCryptoRand(ce.Fn, 6) {
							ok = true
							whys = append(whys, why+" (re-derived: reaches crypto/rand in the dependency's SSA)")
						} else {
							return false, id + " no longer reaches crypto/rand in the dependency"
						}
					} else {
						ok = true
						whys = append(whys, why)
					}
				}
				if isCallToAny(call, "crypto/rand.Int", "crypto/rand.Prime") {
					ok = true
					whys = append(whys, "value from "+shortID(id))
				}
				if ce.Fn != nil && isOwnPath(pkgPathOf(ce.Fn)) && depth > 0 && ce.Fn != fn {
					if sub, w := resultDependsOnCSPRNG(P, c, ce.Fn, depth-1); sub {
						ok = true
						whys = append(whys, "via "+fnKey(ce.Fn)+": "+w)
					}
				}
			}
			if rs := d.Referrers(); rs != nil {
				for _, ref := range *rs {
					if call, isC := ref.(*ssa.Call); isC && isCallTo(call, "crypto/rand.Read") {
						for _, a := range call.Common().Args {
							if a == d {
								ok = true
								whys = append(whys, "bytes of a buffer filled by crypto/rand.Read")
							}
						}
					}
				}
			}
		}
		if !ok {
			return false, "a returned identifier of " + fnKey(fn) + " does not data-depend on bytes drawn from crypto/rand (" + P.Pos(instrPos(r)) + ")"
		}
	}
	sort.Strings(whys)
	whys = uniq(whys)
	return true, "every returned identifier data-depends on the CSPRNG: " + strings.Join(whys, "; ")
}

func reachesCryptoRand(fn *ssa.Function, depth int) bool {
	seen := map[*ssa.Function]bool{}
	var walk func(f *ssa.Function, d int) bool
	walk = func(f *ssa.Function, d int) bool {
		if f == nil || seen[f] || d == 0 {
			return false
		}
		seen[f] = true
		if f.Pkg != nil && f.Pkg.Pkg.Path() == "crypto/rand" {
			return true
		}
		for _, b := range f.Blocks {
			for _, ins := range b.Instrs {
				if ci, ok := ins.(ssa.CallInstruction); ok {
					if callee := ci.Common().StaticCallee(); callee != nil {
						if walk(callee, d-1) {
							return true
						}
					}
				}
			}
		}
		return false
	}
	return walk(fn, depth)
}

func uniq(s []string) []string {
	var out []string
	for i, x := range s {
		if i == 0 || x != s[i-1] {
			out = append(out, x)
		}
	}
	return out
}

// csprngBufferNotOverwritten: the bytes an identifier is made of are the bytes crypto/rand.Read put into the
// buffer. After the fill the buffer is only read — indexed, sliced, ranged over, handed to an encoder or a
// conversion; a store into one of its elements, or a call that receives the buffer and is not a known
// reader (an own helper is looked into), can replace the random bytes by something predictable while the
// data dependence on the CSPRNG that C06.R1 checks stays intact.
func csprngBufferNotOverwritten(c *Check, rule string) {
	P := c.P
	readers := map[string]bool{
		"encoding/base64.Encoding.EncodeToString": true, "encoding/base64.Encoding.Encode": true, "encoding/base64.Encoding.EncodedLen": true,
		"encoding/hex.EncodeToString": true, "encoding/hex.Encode": true, "encoding/binary.bigEndian.Uint64": true, "encoding/binary.littleEndian.Uint64": true,
		"encoding/binary.bigEndian.Uint32": true, "encoding/binary.littleEndian.Uint32": true, "bytes.Equal": true, "fmt.Sprintf": true,
	}
	var writesInto func(fn *ssa.Function, buf ssa.Value, fill ssa.Instruction, depth int) string
	writesInto = func(fn *ssa.Function, buf ssa.Value, fill ssa.Instruction, depth int) string {
		seen := map[ssa.Value]bool{}
		var walk func(v ssa.Value) string
		walk = func(v ssa.Value) string {
			if seen[v] || v.Referrers() == nil {
				return ""
			}
			seen[v] = true
			for _, r := range *v.Referrers() {
				switch x := r.(type) {
				case *ssa.IndexAddr:
					for _, st := range storesTo(x) {
						return "an element of the buffer is assigned at " + posOf(P, st)
					}
				case *ssa.Slice:
					if w := walk(x); w != "" {
						return w
					}
				case *ssa.Phi:
					if w := walk(x); w != "" {
						return w
					}
				case ssa.CallInstruction:
					if x == fill {
						continue
					}
					if bi, isB := x.Common().Value.(*ssa.Builtin); isB {
						if bi.Name() == "copy" && len(x.Common().Args) > 0 && x.Common().Args[0] == v {
							return "copy() overwrites the buffer at " + posOf(P, x)
						}
						continue
					}
					id := funcID(calleeOf(x).Obj)
					if readers[id] || isCallTo(x, "crypto/rand.Read") {
						continue
					}
					callee := x.Common().StaticCallee()
					if callee != nil && callee.Blocks != nil && isOwnPath(pkgPathOf(callee)) && depth > 0 {
						for i, a := range x.Common().Args {
							if a == v && i < len(callee.Params) {
								if w := writesInto(callee, callee.Params[i], nil, depth-1); w != "" {
									return fnKey(callee) + ": " + w
								}
							}
						}
						continue
					}
					return "the buffer is handed to " + shortID(id) + " at " + posOf(P, x) + ", which is not a known reader"
				}
			}
			return ""
		}
		return walk(buf)
	}
	n := 0
	for _, fn := range P.Funcs {
		if !isOwnPath(pkgPathOf(fn)) {
			continue
		}
		for _, ci := range allCalls(fn) {
			if !isCallTo(ci, "crypto/rand.Read") || len(ci.Common().Args) == 0 {
				continue
			}
			n++
			buf := ci.Common().Args[0]
			why := writesInto(fn, buf, ci, 2)
			if why == "" {
				if sl, isS := buf.(*ssa.Slice); isS {
					why = writesInto(fn, sl.X, ci, 2)
				}
			}
			c.Obl(why == "", rule, "csprng-buffer-read-only/"+fnKey(fn), P.Pos(ci.Pos()), "the buffer filled by crypto/rand.Read is only read afterwards",
				"the buffer filled by crypto/rand.Read can be overwritten before it is turned into an identifier: "+why)
		}
	}
	if n == 0 {
		// no buffer is filled: the generator draws through crypto/rand.Int / Text / Prime, which hand back a fresh value
		// (nothing to overwrite between the draw and its use)
		other := 0
		for _, fn := range P.Funcs {
			if isOwnPath(pkgPathOf(fn)) {
				other += len(callsTo(fn, "crypto/rand.Int")) + len(callsTo(fn, "crypto/rand.Text")) + len(callsTo(fn, "crypto/rand.Prime"))
			}
		}
		if other > 0 {
			c.Pass(rule, "csprng-fill-sites", "-", fmt.Sprintf("no buffer filled by crypto/rand.Read; %d draw(s) through crypto/rand.Int/Text/Prime return fresh values", other))
			return
		}
	}
	c.Obl(n >= 1, rule, "csprng-fill-sites", "-", fmt.Sprintf("%d crypto/rand.Read site(s) in own code", n), "no crypto/rand.Read call found in own code (anchor lost)")
}

// entropyAmountIsConstant: the helper that draws from crypto/rand is asked for a constant number of characters,
// at least 22 (≥ 128 bits over a 62-letter alphabet). A length computed at run time (64 minus the length of a
// host name, a prefix, a configured value) silently shrinks the random part — down to nothing.
func entropyAmountIsConstant(c *Check, rule string) {
	P := c.P
	n := 0
	for _, helper := range P.Funcs {
		if !isOwnPath(pkgPathOf(helper)) {
			continue
		}
		draws := 0
		for _, d := range cryptoRandDraws {
			draws += len(callsTo(helper, d))
		}
		if draws == 0 {
			continue
		}
		var sizeIdx []int
		for i, p := range helper.Params {
			if b, ok := p.Type().Underlying().(*types.Basic); ok && b.Info()&types.IsInteger != 0 {
				sizeIdx = append(sizeIdx, i)
			}
		}
		if len(sizeIdx) == 0 {
			continue
		}
		for _, cs := range callsToFn2(P, helper) {
			for _, i := range sizeIdx {
				if i >= len(cs.Common().Args) {
					continue
				}
				n++
				k, isK := constInt(cs.Common().Args[i])
				c.Obl(isK && k >= 22, rule, "entropy-amount/"+nthCallKey(cs), P.Pos(cs.Pos()), fmt.Sprintf("%d random characters requested (constant)", k),
					"the number of random characters requested from "+fnKey(helper)+" is "+descDepth(cs.Common().Args[i], 3)+", not a constant of at least 22: the random part of an identifier can shrink to nothing")
			}
		}
	}
	c.Obl(n >= 3, rule, "entropy-amounts", "-", fmt.Sprintf("%d requests for random characters, all of constant size", n), "no sized request to the entropy helper found (anchor lost)")
}
