package main

import (
	"fmt"
	"go/token"
	"sort"
	"strings"

	"golang.org/x/tools/go/ssa"
)

func init() { registry["C04"] = checkC04 }

func tableKeys(t map[string]ssa.Value) []string {
	var ks []string
	for k := range t {
		ks = append(ks, k)
	}
	sort.Strings(ks)
	return ks
}

// sidFromCookieAtAllCallers: the string parameter p of helper fn receives, at every call site, the
// cookie reader's result (the session id presented with this very request).
func sidFromCookieAtAllCallers(P *Program, R *Roles, fn *ssa.Function, p *ssa.Parameter) (bool, string) {
	idx := -1
	for i, q := range fn.Params {
		if q == p {
			idx = i
		}
	}
	callers := P.CallersOf(fn)
	if idx < 0 || len(callers) == 0 {
		return false, "no call site"
	}
	for _, site := range callers {
		a := resolveCell(stripConv(site.Common().Args[idx]))
		call, _, ok := asCall(a)
		if !ok || call.Common().StaticCallee() != R.CookieReader {
			return false, "call site " + P.Pos(site.Pos()) + " passes " + descDepth(a, 2) + ", not the session id read from this request's cookie"
		}
	}
	return true, ""
}

func checkC04(c *Check) {
	P := c.P
	m := getHModel(P)
	R := m.R
	c.Assumes("concurrent replay of one callback (two simultaneous requests between GetAuthorizationState and ClearAuthorizationState) is not decided: the get-then-clear pair is not atomic and no sound static rule in reach decides what the IdP does with the second code")
	c.Rule("C04.R1", "exchange is guarded: the authorization-code token request is reached only with the login state loaded without error and non-nil for the session id of this request's cookie, and only on the false edge of a string != between the request's `state` query parameter (parsed from the query component of the request target) and the stored state.", 4)
	c.Rule("C04.R2", "token request table: the form has exactly grant_type=authorization_code, code ← request `code`, redirect_uri ← configured callback URI, code_verifier ← the stored verifier of the same login state; headers carry Basic client authentication from the configured client id/secret and the form content type; the URL is the configured token URI; the exchange function POSTs the encoded form with those headers.", 9)
	c.Rule("C04.R3", "issue side: in the login redirect the `state` and `nonce` query values and the stored AuthorizationState.{State,Nonce} are the same generator results, code_challenge = S256(verifier) of the very verifier stored in AuthorizationState.CodeVerifier, code_challenge_method = S256, all stored under the freshly generated session id.", 6)
	c.Rule("C04.R4", "consumption: the token-binding write of the callback is reached only after ClearAuthorizationState for the same session id returned nil, and the clear happens only after the exchange answered OK and the ID token was validated — a sequential replay finds no state and reaches no exchange (R1).", 3)
	if !requireModel(c, "C04.R1", m, "cb.", "redirect.gens", "redirect.setstate", "redirect.query") {
		return
	}
	cb := R.Callback
	ff := FactsOf(cb)

	// ---- R1
	fs := ff.At(m.CbExchange)
	c.Obl(fs.CallErrNil(m.CbGetState, 1) && fs.CallResultNonNil(m.CbGetState, 0), "C04.R1", "state-loaded", P.Pos(m.CbExchange.Pos()),
		"exchange under GetAuthorizationState err == nil and state != nil", "the code exchange is reachable without a successfully loaded, non-nil login state")
	sameSID := sameVal(callArgs(m.CbGetState)[1], m.CbSID)
	okSID, whySID := sidFromCookieAtAllCallers(P, R, cb, m.CbSID)
	c.Obl(sameSID && okSID, "C04.R1", "state-of-this-session", P.Pos(m.CbGetState.Pos()), "login state is loaded for the session id of this request's cookie",
		"login state is not loaded for the session named by this request's cookie: "+whySID)
	// state comparison
	stored := extractOf(m.CbGetState, 0)
	cmpOK := false
	why := "no string != between the request's state parameter and the stored state dominates the exchange"
	for cond, pol := range fs {
		bo, ok := cond.(*ssa.BinOp)
		if !ok || (bo.Op != token.NEQ && bo.Op != token.EQL) || !isString(bo.X.Type()) {
			continue
		}
		isReq := func(v ssa.Value) bool { return resolveCell(stripConv(v)) == m.CbStateReq }
		isStored := func(v ssa.Value) bool {
			return isFieldOf(v, "State", func(b ssa.Value) bool { return stored != nil && sameVal(b, stored) })
		}
		if (isReq(bo.X) && isStored(bo.Y)) || (isReq(bo.Y) && isStored(bo.X)) {
			equal := (bo.Op == token.EQL) == pol
			if equal {
				cmpOK = true
			} else {
				why = "the exchange is reached when the states DIFFER (polarity inverted)"
			}
		}
	}
	c.Obl(cmpOK, "C04.R1", "state-equal", P.Pos(m.CbExchange.Pos()), "exchange only when request state == stored state (exact string comparison)", why)
	// query parsing provenance
	qOK := false
	if recv := m.CbStateReq.(*ssa.Call).Common().Args[0]; true {
		if pc, pi, ok := asCall(resolveCell(stripConv(recv))); ok && pc == m.CbParseQuery && pi == 0 {
			if sc, si, ok2 := asCall(resolveCell(stripConv(m.CbParseQuery.Common().Args[0]))); ok2 && sc == m.CbSplit && si == 1 {
				for _, l := range Leaves(m.CbSplit.Common().Args[0], leafOpts{}) {
					if call, _, isC := asCall(l); isC && isCallTo(call, pkgEnvoyAuth+".AttributeContext_HttpRequest.GetPath") {
						qOK = true
					}
				}
			}
		}
	}
	c.Obl(qOK && fs.CallErrNil(m.CbParseQuery, 1), "C04.R1", "query-provenance", P.Pos(m.CbParseQuery.Pos()),
		"state/code come from url.ParseQuery (err == nil) of the query component of the request target",
		"the callback parameters are not parsed (err == nil) from the query component (splitter result #1) of the request target")

	// ---- R2
	wantForm := map[string]func(ssa.Value) (bool, string){
		"grant_type": func(v ssa.Value) (bool, string) {
			s, ok := constString(v)
			return ok && s == "authorization_code", "constant authorization_code"
		},
		"code": func(v ssa.Value) (bool, string) {
			return resolveCell(stripConv(v)) == m.CbCodeReq, "the request's code parameter"
		},
		"redirect_uri": func(v ssa.Value) (bool, string) { return cfgGetter(v, "GetCallbackUri"), "configured callback URI" },
		"code_verifier": func(v ssa.Value) (bool, string) {
			return isFieldOf(v, "CodeVerifier", func(b ssa.Value) bool { return stored != nil && sameVal(b, stored) }), "CodeVerifier of the loaded login state"
		},
	}
	for k, pred := range wantForm {
		v, has := m.CbForm[k]
		ok, what := false, ""
		if has {
			ok, what = pred(v)
		} else {
			_, what = pred(m.CbCodeReq)
		}
		c.Obl(has && ok, "C04.R2", "form/"+k, P.Pos(m.CbExchange.Pos()), k+" ← "+what, fmt.Sprintf("token request member %s is missing or is not %s (got %s)", k, what, descDepth(v, 3)))
	}
	c.Obl(len(m.CbForm) == len(wantForm) && len(m.CbFormDyn) == 0, "C04.R2", "form/exact", P.Pos(m.CbExchange.Pos()), fmt.Sprintf("form has exactly %v", tableKeys(m.CbForm)),
		fmt.Sprintf("token request form has members %v plus %d computed keys; expected exactly grant_type, code, redirect_uri, code_verifier", tableKeys(m.CbForm), len(m.CbFormDyn)))
	// headers
	auth, hasAuth := m.CbHeaders["authorization"]
	okAuth := false
	if hasAuth {
		if bc, _, ok := asCall(resolveCell(stripConv(auth))); ok && isCallTo(bc, pkgHTTP+".BasicAuthHeader") {
			okAuth = cfgGetter(bc.Common().Args[0], "GetClientId") && cfgGetter(bc.Common().Args[1], "GetClientSecret")
		}
	}
	c.Obl(okAuth, "C04.R2", "headers/authorization", P.Pos(m.CbExchange.Pos()), "authorization ← BasicAuthHeader(configured client id, configured client secret)",
		"the token request lacks Basic client authentication built from the configured client id and secret (in that order)")
	ct, hasCT := m.CbHeaders["content-type"]
	s, isS := constString(ct)
	c.Obl(hasCT && isS && s == "application/x-www-form-urlencoded", "C04.R2", "headers/content-type", P.Pos(m.CbExchange.Pos()), "content-type form-urlencoded", "content-type of the token request is not application/x-www-form-urlencoded")
	// URL
	okURL := exchangeURLOK(R, m.CbExchange)
	c.Obl(okURL, "C04.R2", "url", P.Pos(m.CbExchange.Pos()), "request goes to the configured token URI", "the code exchange is not sent to the configured token URI")
	c04Exchange(c, R)
	transportPreservesRequest(c, "C04.R2")
	exchangeIsSentOnce(c, "C04.R2", R)
	exchangeKeepsItsForm(c, "C04.R2", R)
	// the client credentials sent are the ones configured now: the handler works on the shared configuration or its own
	// per-check clone, never on a memoised copy (C19.R5)
	handlerConfigOwn(c, "C04.R2", R)
	storedObjectsAreReadOnly(c, "C04.R4", R)
	// … and a rotated secret reaches them: the secret controller relies on its index, not on the oneof arm that the first
	// reconcile replaced (C19.R3), and ignores an update only for the enumerated reasons (C19.R1)
	if c.ID == "C04" {
		importObls(c, "C18", checkC18, "C04.R2", func(o *Obligation) bool { return strings.HasPrefix(o.Key, "C18.R3/merge-into-own-copy") })
		// "the session named by that request's cookie": the cookie reader selects the cookie by the filter's own cookie name,
		// compared exactly (C18.R3) — a look-alike name outside the __Host- protection can be planted from a sibling domain
		importObls(c, "C18", checkC18, "C04.R1", func(o *Obligation) bool { return strings.HasPrefix(o.Key, "C18.R3/cookie-selected-by-own-name") })
		// a consumed login state cannot be used again: the clear removes a member without which the reader hands out no
		// state at all (C12.R2) — a half-cleared state with an empty `state` member would match a callback with `state=`
		importObls(c, "C12", checkC12, "C04.R4", func(o *Obligation) bool { return strings.HasPrefix(o.Key, "C12.R2/clear/") })
		importObls(c, "C19", checkC19, "C04.R2", func(o *Obligation) bool {
			return strings.HasPrefix(o.Key, "C19.R3/reconcile-does-not-rederive") || strings.HasPrefix(o.Key, "C19.R1/skip-reason") || strings.HasPrefix(o.Key, "C19.R2/value-is-the-datum-itself")
		})
	}
	// BasicAuthHeader shape: "Basic " + base64(id + ":" + secret)
	if ba := P.Func(pkgHTTP, "BasicAuthHeader"); c.Anchor("C04.R2", "BasicAuthHeader", ba != nil) {
		ok := false
		for _, r := range returnsOf(ba) {
			var consts []string
			hasID, hasSecret, enc := false, false, false
			for d := range dataDeps(r.Results[0]) {
				if s, isC := constString(d); isC {
					consts = append(consts, s)
				}
				if d == ba.Params[0] {
					hasID = true
				}
				if d == ba.Params[1] {
					hasSecret = true
				}
				if ec, isC := d.(*ssa.Call); isC && isCallTo(ec, "encoding/base64.Encoding.EncodeToString") {
					enc = true
					// the standard alphabet with padding (RFC 7617): the encoder is the package's StdEncoding object
					if ld, isL := resolveCell(stripConv(ec.Common().Args[0])).(*ssa.UnOp); !isL || !isGlobalNamed(ld.X, "encoding/base64", "StdEncoding") {
						enc = false
					}
					// id before secret inside the encoded string
					for _, l := range []ssa.Value{ec.Common().Args[1]} {
						order := Leaves(l, leafOpts{})
						pi, ps := -1, -1
						for i, o := range order {
							if o == ba.Params[0] {
								pi = i
							}
							if o == ba.Params[1] {
								ps = i
							}
						}
						if pi < 0 || ps < 0 || pi > ps {
							enc = false
						}
					}
				}
			}
			sort.Strings(consts)
			hasBasic, hasColon := false, false
			for _, s := range consts {
				if s == "Basic " {
					hasBasic = true
				}
				if s == ":" {
					hasColon = true
				}
			}
			ok = hasID && hasSecret && enc && hasBasic && hasColon
		}
		c.Obl(ok, "C04.R2", "basic-auth-shape", P.Pos(ba.Pos()), "\"Basic \" + base64(id + \":\" + secret)", "BasicAuthHeader no longer builds \"Basic \" + base64(id:secret)")
	}

	// ---- R3
	rd := R.Redirect
	eq := func(v ssa.Value, call *ssa.Call) bool {
		return call != nil && resolveCell(stripConv(v)) == ssa.Value(call)
	}
	single := func(vals []ssa.Value) ssa.Value {
		if len(vals) == 1 {
			return vals[0]
		}
		return nil
	}
	c.Obl(eq(m.RedirQuery["state"], m.GenState) && eq(single(m.RedirStateLit["State"]), m.GenState), "C04.R3", "state", P.Pos(rd.Pos()),
		"query state == stored State == GenerateState()", "the state sent to the IdP and the state stored for the session are not the same GenerateState() result")
	c.Obl(eq(m.RedirQuery["nonce"], m.GenNonce) && eq(single(m.RedirStateLit["Nonce"]), m.GenNonce), "C04.R3", "nonce", P.Pos(rd.Pos()),
		"query nonce == stored Nonce == GenerateNonce()", "the nonce sent to the IdP and the nonce stored for the session are not the same GenerateNonce() result")
	chOK := false
	if cc, _, ok := asCall(resolveCell(stripConv(m.RedirQuery["code_challenge"]))); ok && isCallTo(cc, "golang.org/x/oauth2.S256ChallengeFromVerifier") {
		chOK = eq(cc.Common().Args[0], m.GenVerifier)
	}
	c.Obl(chOK && eq(single(m.RedirStateLit["CodeVerifier"]), m.GenVerifier), "C04.R3", "pkce", P.Pos(rd.Pos()),
		"code_challenge = S256(verifier), stored CodeVerifier == the same GenerateCodeVerifier() result",
		"the PKCE challenge is not S256 of the verifier that is stored for the session (verifier regenerated, sent in clear, or mismatched)")
	meth, _ := constString(m.RedirQuery["code_challenge_method"])
	c.Obl(meth == "S256", "C04.R3", "pkce-method", P.Pos(rd.Pos()), "code_challenge_method = S256", "code_challenge_method is "+meth+", not S256")
	c.Obl(eq(callArgs(m.RedirSetState)[1], m.GenSID), "C04.R3", "stored-under-new-id", P.Pos(m.RedirSetState.Pos()),
		"login state stored under the freshly generated session id", "the login state is not stored under the freshly generated session id")
	distinct := m.GenState != m.GenNonce && ssa.Value(m.GenSID) != ssa.Value(m.GenState)
	c.Obl(distinct, "C04.R3", "distinct-draws", P.Pos(rd.Pos()), "session id, state, nonce are separate draws", "state/nonce/session id share a draw")

	// ---- R4
	// "cleared" means gone from the store: every successful Redis operation, ClearAuthorizationState included, has run its
	// commands and passed the TTL refresher (C10.R3) — a deletion queued but not executed leaves the state replayable
	if c.ID == "C04" {
		if sr, miss := getStoreRoles(P); len(miss) == 0 {
			refile(c, "C04.R4", func() { c10R3(c, sr) })
		}
	}
	fsSet := ff.At(m.CbSetToken)
	c.Obl(fsSet.CallErrNil(m.CbClear, -1) && sameVal(callArgs(m.CbClear)[1], m.CbSID) && sameVal(callArgs(m.CbSetToken)[1], m.CbSID), "C04.R4", "clear-before-bind", P.Pos(m.CbSetToken.Pos()),
		"tokens are bound only after ClearAuthorizationState(sid) == nil, same sid", "the callback can bind tokens without having cleared the login state of the same session (replay of the callback would reach a second exchange)")
	fsClr := ff.At(m.CbClear)
	valOK, _ := fsClr.CallBool(m.CbValidator, 0)
	exOK := false
	if rv := resultValue(m.CbExchange, 1); rv != nil {
		exOK = fsClr.intFact(rv, func(op token.Token, k int64) bool { return op == token.EQL && k == 0 })
	}
	c.Obl(valOK && exOK, "C04.R4", "clear-after-success", P.Pos(m.CbClear.Pos()), "the login state is consumed only after exchange OK and ID token valid",
		"the login state is cleared before the exchange succeeded and the ID token was validated")
	// the clear really removes the state in both stores: reader-required member deleted (C12.R2) — referenced
	c.Obl(mustPassBefore(cb, m.CbSetToken, func(i ssa.Instruction) bool { return i == ssa.Instruction(m.CbClear) }), "C04.R4", "clear-on-all-paths", P.Pos(m.CbSetToken.Pos()),
		"every path to the binding write passes the clear", "a path reaches the binding write without passing ClearAuthorizationState")
}

// c04Exchange: the exchange function POSTs the encoded form with the given headers to the given URI.
func c04Exchange(c *Check, R *Roles) {
	P := c.P
	ex := R.TokenExchange
	var form, hdr, uri *ssa.Parameter
	for _, p := range ex.Params {
		switch typeID(p.Type()) {
		case "net/url.Values":
			form = p
		case "net/http.Header":
			hdr = p
		}
		if isString(p.Type()) {
			uri = p
		}
	}
	var nr *ssa.Call
	for _, ci := range callsTo(ex, "net/http.NewRequest", "net/http.NewRequestWithContext") {
		nr, _ = ci.(*ssa.Call)
	}
	if !c.Anchor("C04.R2", "http.NewRequest in the exchange function", nr != nil && form != nil && hdr != nil) {
		return
	}
	args := nr.Common().Args
	off := len(args) - 3
	meth, _ := constString(args[off])
	bodyOK := false
	for d := range dataDeps(args[off+2]) {
		if ec, isC := d.(*ssa.Call); isC && isCallTo(ec, "net/url.Values.Encode") && ec.Common().Args[0] == form {
			bodyOK = true
		}
	}
	hdrOK := false
	req := extractOf(nr, 0)
	for _, b := range ex.Blocks {
		for _, ins := range b.Instrs {
			if st, ok := ins.(*ssa.Store); ok {
				if fa, isF := st.Addr.(*ssa.FieldAddr); isF && fieldAddrID(fa) == "net/http.Request.Header" && fa.X == req && st.Val == hdr {
					hdrOK = true
				}
			}
		}
	}
	doOK := false
	for _, ci := range callsTo(ex, fClientDo) {
		if a := ci.Common().Args; len(a) == 2 && a[1] == req {
			doOK = true
		}
	}
	// the URL is the string parameter (the callers pass the configured token URI, checked at each call
	// site) or the configured token URI read in the exchange function itself
	uriOK := (uri != nil && args[off+1] == ssa.Value(uri)) || cfgGetter(args[off+1], "GetTokenUri")
	c.Obl(meth == "POST" && uriOK && bodyOK && hdrOK && doOK, "C04.R2", "exchange-sends-table", P.Pos(nr.Pos()),
		"POST uri with body form.Encode() and the given headers, sent with client.Do",
		fmt.Sprintf("the exchange function does not POST the encoded form with the given headers to the given URI (method %q, uri ok %v, body ok %v, headers ok %v, sent %v)", meth, uriOK, bodyOK, hdrOK, doOK))
}

// exchangeURLOK: the token request of call (a call of the exchange function) goes to the configured
// token URI: either the exchange function's NewRequest takes a string parameter to which this call
// passes config.GetTokenUri(), or it reads config.GetTokenUri() itself.
func exchangeURLOK(R *Roles, call ssa.CallInstruction) bool {
	ex := R.TokenExchange
	if ex == nil || call == nil {
		return false
	}
	for _, ci := range callsTo(ex, "net/http.NewRequest", "net/http.NewRequestWithContext") {
		args := ci.Common().Args
		u := args[len(args)-2]
		if cfgGetter(u, "GetTokenUri") {
			return true
		}
		for i, p := range ex.Params {
			if ssa.Value(p) == u && i < len(call.Common().Args) && cfgGetter(call.Common().Args[i], "GetTokenUri") {
				return true
			}
		}
	}
	return false
}

// transportPreservesRequest: own http.RoundTripper implementations (the debug logging wrapper installed
// by NewHTTPClient) hand the request on as they received it. net/http's contract: RoundTrip must not
// modify the request. Concretely (a) a body-consuming dump (httputil.DumpRequest[Out](r, true)) is applied
// to the very request that is forwarded — it re-installs the body it consumed on that object; applied to a
// shallow copy (WithContext) the forwarded request's body is drained; (b) no header map reachable from the
// incoming request (directly or through a shallow copy) is written, no field of the incoming request is
// assigned. Filed under C03 and C04: the token request must reach the IdP with its form and credentials.
func transportPreservesRequest(c *Check, rule string) {
	P := c.P
	nRT, nDump := 0, 0
	for _, rt := range P.Funcs {
		if rt.Parent() != nil || rt.Name() != "RoundTrip" || rt.Signature.Recv() == nil || rt.Signature.Params().Len() != 1 ||
			typeID(rt.Signature.Params().At(0).Type()) != "net/http.Request" || !isOwnPath(pkgPathOf(rt)) {
			continue
		}
		nRT++
		reqParam := rt.Params[len(rt.Params)-1]
		// is v (possibly in a helper) the incoming request or a shallow copy of it?
		var fromIncoming func(v ssa.Value, d int) (incoming bool, deepCopy bool)
		fromIncoming = func(v ssa.Value, d int) (bool, bool) {
			inc, deep := false, true
			for _, l := range LeavesInl(v, leafOpts{}, 2, nil) {
				l = resolveCell(stripConv(l))
				switch {
				case l == ssa.Value(reqParam):
					inc, deep = true, false
				default:
					if cl, _, isC := asCall(l); isC {
						id := funcID(calleeOf(cl).Obj)
						switch {
						case id == "net/http.Request.Clone" || strings.HasPrefix(id, "net/http.NewRequest"):
							continue
						case id == "net/http.Request.WithContext" && d > 0:
							if i2, _ := fromIncoming(cl.Common().Args[0], d-1); i2 {
								inc, deep = true, false
							}
							continue
						}
					}
					if p, isP := l.(*ssa.Parameter); isP && p.Parent() != rt && typeID(p.Type()) == "net/http.Request" {
						// parameter of a helper: conservatively the incoming request
						inc, deep = true, false
					}
				}
			}
			return inc, deep
		}
		for _, fn := range deepFuncs(rt, 2) {
			if !isOwnPath(pkgPathOf(fn)) {
				continue
			}
			for _, b := range fn.Blocks {
				for _, ins := range b.Instrs {
					switch x := ins.(type) {
					case ssa.CallInstruction:
						id := funcID(calleeOf(x).Obj)
						// the dump function handed to a helper as a function value, together with the request it is applied to
						for _, a := range x.Common().Args {
							fv, isFn := stripConv(a).(*ssa.Function)
							if !isFn || fv.Object() == nil || fv.Object().Pkg() == nil || fv.Object().Pkg().Path() != "net/http/httputil" || !strings.HasPrefix(fv.Name(), "DumpRequest") {
								continue
							}
							nDump++
							same, nReq := true, 0
							for _, ra := range x.Common().Args {
								if typeID(derefType(ra.Type())) != "net/http.Request" {
									continue
								}
								nReq++
								for _, l := range LeavesInl(ra, leafOpts{}, 2, nil) {
									if resolveCell(stripConv(l)) != ssa.Value(reqParam) {
										same = false
									}
								}
							}
							c.Obl(same && nReq == 1, rule, "dump-is-the-forwarded-request/"+nthCallKey(x), P.Pos(x.Pos()), "the dump function is handed over together with the request that is forwarded",
								"the request dump is handed to a helper with a request other than the one that is forwarded (or with none): the dump drains the body the forwarded request shares with it")
						}
						switch id {
						case "net/http/httputil.DumpRequest", "net/http/httputil.DumpRequestOut":
							args := x.Common().Args
							if body, isK := constBool(args[1]); isK && !body {
								continue
							}
							nDump++
							same := false
							for _, l := range LeavesInl(args[0], leafOpts{}, 2, nil) {
								same = resolveCell(stripConv(l)) == ssa.Value(reqParam)
								if !same {
									break
								}
							}
							c.Obl(same, rule, "dump-is-the-forwarded-request/"+nthCallKey(x), P.Pos(x.Pos()), "the body-consuming dump is applied to the request that is forwarded",
								"the request dump (with body) is applied to "+descDepth(args[0], 3)+", not to the request that is forwarded: the dump drains the body the forwarded request shares with it — the token request reaches the IdP without its form")
						case "net/http.Header.Set", "net/http.Header.Add", "net/http.Header.Del":
							hv := x.Common().Args[0]
							if base, f, ok := fieldLoad(resolveCell(stripConv(hv))); ok && f != nil && f.Name() == "Header" {
								if inc, _ := fromIncoming(base, 2); inc {
									c.Fail(rule, "header-write/"+nthCallKey(x), P.Pos(x.Pos()), "a header of the incoming request (or of a shallow copy that shares its header map) is changed in the transport wrapper: the forwarded token request loses or alters its credentials")
								}
							}
						}
					case *ssa.MapUpdate:
						if typeID(x.Map.Type()) != "net/http.Header" {
							continue
						}
						if base, f, ok := fieldLoad(resolveCell(stripConv(x.Map))); ok && f != nil && f.Name() == "Header" {
							if inc, _ := fromIncoming(base, 2); inc {
								c.Fail(rule, "header-write/"+fnKey(fn)+"/map-update", P.Pos(x.Pos()), "the header map of the incoming request (shared by shallow copies made with WithContext) is written in the transport wrapper: the forwarded token request loses or alters its credentials")
							}
						}
					case *ssa.Store:
						fa, isF := x.Addr.(*ssa.FieldAddr)
						if !isF || typeID(fa.X.Type()) != "net/http.Request" {
							continue
						}
						if inc, _ := fromIncoming(fa.X, 2); inc && resolveCell(stripConv(fa.X)) == ssa.Value(reqParam) {
							c.Fail(rule, "request-field-write/"+fnKey(fn)+"/"+fieldName(fa.X.Type(), fa.Field), P.Pos(x.Pos()), "a field of the incoming request is assigned in the transport wrapper (RoundTrip must not modify the request)")
						}
					}
				}
			}
		}
	}
	c.Obl(nRT >= 1 && nDump >= 1, rule, "transport-wrapper-found", "-", fmt.Sprintf("%d own RoundTripper(s), %d body-consuming request dump(s) analysed", nRT, nDump),
		fmt.Sprintf("%d own RoundTrippers / %d request dumps found (the logging wrapper is the anchor of this rule)", nRT, nDump))
}

// isGlobalNamed: v is the package-level variable pkg.name.
func isGlobalNamed(v ssa.Value, pkg, name string) bool {
	g, ok := v.(*ssa.Global)
	return ok && g.Pkg != nil && g.Pkg.Pkg.Path() == pkg && g.Name() == name
}

// storedObjectsAreReadOnly: the handler does not write into an object it obtained from the session store
// (GetAuthorizationState / GetTokenResponse results). The in-memory store hands out the stored object itself:
// a field "cleared after use" in the handler is cleared in the store, for every later check of that session,
// while the Redis store — which returns copies — behaves differently.
func storedObjectsAreReadOnly(c *Check, rule string, R *Roles) {
	P := c.P
	n := 0
	for _, fn := range R.HandlerFuncs {
		for _, b := range fn.Blocks {
			for _, ins := range b.Instrs {
				st, ok := ins.(*ssa.Store)
				if !ok {
					continue
				}
				fa, isF := st.Addr.(*ssa.FieldAddr)
				if !isF {
					continue
				}
				t := typeID(derefType(fa.X.Type()))
				if t != pkgOIDC+".AuthorizationState" && t != idTokenResponse {
					continue
				}
				n++
				bad := ""
				for _, l := range Leaves(fa.X, leafOpts{noConcat: true}) {
					l = resolveCell(stripConv(l))
					if gc, _, isC := asCall(l); isC && (isCallTo(gc, mGetState) || isCallTo(gc, mGetToken)) {
						bad = descDepth(l, 2)
					}
					if p, isP := l.(*ssa.Parameter); isP && p.Parent() == fn {
						// a parameter that every caller fills with a store result
						all, any := true, false
						for k, q := range fn.Params {
							if q != p {
								continue
							}
							for _, cs := range callsToFn2(P, fn) {
								any = true
								ok2 := false
								for _, al := range Leaves(cs.Common().Args[k], leafOpts{noConcat: true}) {
									if gc, _, isC := asCall(resolveCell(stripConv(al))); isC && (isCallTo(gc, mGetState) || isCallTo(gc, mGetToken)) {
										ok2 = true
									}
								}
								if !ok2 {
									all = false
								}
							}
						}
						if any && all {
							bad = "a parameter that holds a store result"
						}
					}
				}
				f := fieldOf(fa.X.Type(), fa.Field)
				name := "?"
				if f != nil {
					name = f.Name()
				}
				c.Obl(bad == "", rule, "stored-object-read-only/"+fnKey(fn)+"/"+name, P.Pos(st.Pos()), "the written object is built in the handler",
					"field "+name+" is written on "+bad+", an object obtained from the session store: with the in-memory store this changes the stored session itself")
			}
		}
	}
	c.Obl(n >= 1, rule, "stored-object-writes", "-", fmt.Sprintf("%d writes to session-object fields in the handler, none on a store result", n), "no write to a session-object field found in the handler (anchor lost)")
}
