package main

import (
	"go/token"
	"sort"
	"strings"

	"golang.org/x/tools/go/ssa"
)

// P-lock: for every instruction, the set of mutexes (named by the struct field or package variable
// that holds them: "oidc.memoryStore.mu") that are definitely held. Forward must-analysis per
// function; the entry set of a function is the intersection of the sets at all its call sites
// (closures: at the sites where the function-typed parameter they were bound to is invoked).
// Pseudo-locks model two happens-before idioms: "hb:<chan field>" is held after a receive from the
// channel field and by a writer whose write is followed by close() of that channel on every path.

type LockSet map[string]bool

func (l LockSet) clone() LockSet {
	o := LockSet{}
	for k := range l {
		o[k] = true
	}
	return o
}

func (l LockSet) keys() []string {
	var o []string
	for k := range l {
		o = append(o, k)
	}
	sort.Strings(o)
	return o
}

func lockIntersect(a, b LockSet) LockSet {
	o := LockSet{}
	for k := range a {
		if b[k] {
			o[k] = true
		}
	}
	return o
}

func sameLocks(a, b LockSet) bool {
	if len(a) != len(b) {
		return false
	}
	for k := range a {
		if !b[k] {
			return false
		}
	}
	return true
}

type LockAnalysis struct {
	P       *Program
	fns     map[*ssa.Function]bool
	roots   map[*ssa.Function]bool
	entry   map[*ssa.Function]LockSet
	at      map[ssa.Instruction]LockSet
	blockIn map[*ssa.BasicBlock]LockSet
	// deferred: mutex keys whose Unlock is deferred in the function (held until return by design)
	deferred map[*ssa.Function]LockSet
	// order edges: held → acquired, with a witness
	Order map[[2]string]ssa.Instruction
}

// mutexKey names the mutex a Lock/Unlock call operates on, or "".
func mutexKey(c ssa.CallInstruction) (key string, op string) {
	ce := calleeOf(c)
	if ce.Obj == nil {
		return "", ""
	}
	id := funcID(ce.Obj)
	shared := false
	switch id {
	case "sync.Mutex.Lock", "sync.RWMutex.Lock":
		op = "lock"
	case "sync.RWMutex.RLock":
		op, shared = "lock", true
	case "sync.Mutex.Unlock", "sync.RWMutex.Unlock":
		op = "unlock"
	case "sync.RWMutex.RUnlock":
		op, shared = "unlock", true
	default:
		return "", ""
	}
	args := c.Common().Args
	if len(args) == 0 {
		return "", ""
	}
	k := addrKey(args[0])
	if k != "" && shared {
		// a read lock excludes writers only: it is a different (weaker) token than the exclusive lock; readers
		// accept either, writers need the exclusive one (sharedKey / lockFor in the rules)
		k += sharedSuffix
	}
	return k, op
}

// addrKey names an address by type and field (or global): &x.mu → "pkg.T.mu".
func addrKey(a ssa.Value) string {
	switch x := a.(type) {
	case *ssa.FieldAddr:
		return shortID(fieldAddrID(x))
	case *ssa.Global:
		return "global:" + shortID(x.Pkg.Pkg.Path()+"."+x.Name())
	case *ssa.UnOp:
		if x.Op == token.MUL {
			return addrKey(x.X)
		}
	}
	return ""
}

func NewLockAnalysis(P *Program, fns []*ssa.Function, roots []*ssa.Function) *LockAnalysis {
	la := &LockAnalysis{P: P, fns: map[*ssa.Function]bool{}, roots: map[*ssa.Function]bool{}, entry: map[*ssa.Function]LockSet{},
		at: map[ssa.Instruction]LockSet{}, blockIn: map[*ssa.BasicBlock]LockSet{}, deferred: map[*ssa.Function]LockSet{},
		Order: map[[2]string]ssa.Instruction{}}
	for _, f := range fns {
		la.fns[f] = true
	}
	for _, r := range roots {
		la.roots[r] = true
		la.entry[r] = LockSet{}
	}
	// iterate to a fixpoint over entry sets (they only shrink)
	for iter := 0; iter < 12; iter++ {
		la.at = map[ssa.Instruction]LockSet{}
		la.blockIn = map[*ssa.BasicBlock]LockSet{}
		for _, f := range fns {
			la.analyse(f)
		}
		changed := false
		for _, f := range fns {
			if la.roots[f] {
				continue
			}
			ne, known := la.entryFromCallers(f)
			if !known {
				continue
			}
			old, had := la.entry[f]
			if !had || !sameLocks(old, ne) {
				la.entry[f] = ne
				changed = true
			}
		}
		if !changed {
			break
		}
	}
	return la
}

// entryFromCallers computes the intersection of the locksets at every site that can start fn.
func (la *LockAnalysis) entryFromCallers(fn *ssa.Function) (LockSet, bool) {
	var sites []ssa.Instruction
	// static callers
	for _, c := range la.P.CallersOf(fn) {
		if la.fns[c.Parent()] {
			if _, isGo := c.(*ssa.Go); isGo {
				return LockSet{}, true // a new goroutine holds nothing
			}
			sites = append(sites, c)
		}
	}
	// interface dispatch (own CHA)
	for f := range la.fns {
		for _, c := range allCalls(f) {
			if !c.Common().IsInvoke() {
				continue
			}
			for _, callee := range la.P.implementersOf(c.Common().Value.Type(), c.Common().Method) {
				if callee == fn {
					if _, isGo := c.(*ssa.Go); isGo {
						return LockSet{}, true
					}
					sites = append(sites, c)
				}
			}
		}
	}
	// closures: invoked where the parameter they are bound to is called, or deferred/go'ed directly
	if fn.Parent() != nil {
		for _, b := range fn.Parent().Blocks {
			for _, ins := range b.Instrs {
				mc, ok := ins.(*ssa.MakeClosure)
				if !ok || mc.Fn != fn {
					continue
				}
				rs := mc.Referrers()
				if rs == nil {
					continue
				}
				for _, r := range *rs {
					switch u := r.(type) {
					case *ssa.Go:
						return LockSet{}, true
					case *ssa.Defer:
						// runs at function exit: conservatively nothing held unless deferred unlocks come later
						sites = append(sites, u)
					case *ssa.Call:
						if u.Common().Value == mc {
							sites = append(sites, u)
							continue
						}
						// passed as argument i to callee: find invocations of that parameter
						callee := u.Common().StaticCallee()
						if syncStdlibCaller(u) {
							// maps.DeleteFunc, slices.ContainsFunc, sort.Slice, …, or the sequence returned by strings.SplitSeq,
							// maps.Keys, …: the function value is invoked before the call returns, in the caller's lock context
							sites = append(sites, u)
							continue
						}
						if callee == nil {
							return LockSet{}, true // escapes to unknown code: assume nothing held
						}
						for i, a := range u.Common().Args {
							if a != mc || i >= len(callee.Params) {
								continue
							}
							p := callee.Params[i]
							found := false
							if prs := p.Referrers(); prs != nil {
								for _, pr := range *prs {
									if pc, isC := pr.(ssa.CallInstruction); isC && pc.Common().Value == p {
										if _, isGo := pc.(*ssa.Go); isGo {
											return LockSet{}, true
										}
										sites = append(sites, pc)
										found = true
									}
								}
							}
							if !found {
								return LockSet{}, true // stored or forwarded: unknown invocation context
							}
						}
					default:
						return LockSet{}, true // stored into a field etc.
					}
				}
			}
		}
	}
	// named functions and method expressions handed over as function values (`readLive(id, (*session).tokens)`):
	// invoked where the parameter they are bound to is called
	for f := range la.fns {
		for _, u := range allCalls(f) {
			callee := u.Common().StaticCallee()
			for i, a := range u.Common().Args {
				if funcValueTarget(a) != fn {
					continue
				}
				if syncStdlibCaller(u) {
					sites = append(sites, u)
					continue
				}
				if callee == nil || i >= len(callee.Params) {
					return LockSet{}, true
				}
				p := callee.Params[i]
				found := false
				if prs := p.Referrers(); prs != nil {
					for _, pr := range *prs {
						if pc, isC := pr.(ssa.CallInstruction); isC && pc.Common().Value == p {
							if _, isGo := pc.(*ssa.Go); isGo {
								return LockSet{}, true
							}
							sites = append(sites, pc)
							found = true
						}
					}
				}
				if !found {
					return LockSet{}, true
				}
			}
		}
	}
	if len(sites) == 0 {
		return LockSet{}, true
	}
	var out LockSet
	first := true
	for _, s := range sites {
		ls, ok := la.at[s]
		if !ok {
			continue
		}
		if first {
			out, first = ls.clone(), false
		} else {
			out = lockIntersect(out, ls)
		}
	}
	if first {
		return nil, false
	}
	return out, true
}

func (la *LockAnalysis) analyse(fn *ssa.Function) {
	if len(fn.Blocks) == 0 {
		return
	}
	entry, ok := la.entry[fn]
	if !ok {
		entry = LockSet{}
	}
	def := LockSet{}
	in := map[*ssa.BasicBlock]LockSet{fn.Blocks[0]: entry.clone()}
	changed := true
	for iter := 0; changed && iter < 100; iter++ {
		changed = false
		for _, b := range fn.Blocks {
			var cur LockSet
			if b == fn.Blocks[0] {
				cur = entry.clone()
			} else {
				first := true
				for _, p := range b.Preds {
					pin, ok := in[p]
					if !ok || deadEdge(p, b) {
						continue
					}
					out := la.transfer(fn, p, pin, def, false)
					if first {
						cur, first = out, false
					} else {
						cur = lockIntersect(cur, out)
					}
				}
				if first {
					continue
				}
			}
			if old, ok := in[b]; !ok || !sameLocks(old, cur) {
				in[b] = cur
				changed = true
			}
		}
	}
	la.deferred[fn] = def
	for _, b := range fn.Blocks {
		if s, ok := in[b]; ok {
			la.blockIn[b] = s
			la.transfer(fn, b, s, def, true)
		}
	}
}

// transfer runs the block; when record is set the lockset before each instruction is stored.
func (la *LockAnalysis) transfer(fn *ssa.Function, b *ssa.BasicBlock, in LockSet, def LockSet, record bool) LockSet {
	cur := in.clone()
	for _, ins := range b.Instrs {
		if record {
			la.at[ins] = cur.clone()
		}
		switch x := ins.(type) {
		case *ssa.Call:
			if k, op := mutexKey(x); k != "" {
				if op == "lock" {
					if record {
						for h := range cur {
							if !strings.HasPrefix(h, "hb:") && h != k {
								la.Order[[2]string{h, k}] = x
							}
						}
					}
					cur[k] = true
				} else {
					delete(cur, k)
				}
			}
		case *ssa.Defer:
			if k, op := mutexKey(x); k != "" && op == "unlock" {
				def[k] = true
			}
		case *ssa.UnOp:
			if x.Op == token.ARROW {
				if k := addrKey(x.X); k != "" {
					cur["hb:"+k] = true
				}
			}
		}
	}
	return cur
}

// At returns the lockset held just before ins.
func (la *LockAnalysis) At(ins ssa.Instruction) LockSet {
	if s, ok := la.at[ins]; ok {
		return s
	}
	return LockSet{}
}

// closesAfter: every path from ins to a return of its function closes the channel with the given key.
func closesAfter(ins ssa.Instruction, chKey string) bool {
	isClose := func(i ssa.Instruction) bool {
		c, ok := i.(*ssa.Call)
		if !ok {
			return false
		}
		bi, isB := c.Call.Value.(*ssa.Builtin)
		return isB && bi.Name() == "close" && addrKey(c.Call.Args[0]) == chKey
	}
	return reachAvoiding(ins, nil, isReturn, isClose) == nil
}

const sharedSuffix = "#R"

// lockFor adapts a held lockset to an access: a read is protected by the exclusive or the shared token of a
// mutex, a write only by the exclusive one.
func lockFor(ls LockSet, write bool) LockSet {
	out := LockSet{}
	for k, v := range ls {
		if !v {
			continue
		}
		if strings.HasSuffix(k, sharedSuffix) {
			if !write {
				out[strings.TrimSuffix(k, sharedSuffix)] = true
			}
			continue
		}
		out[k] = true
	}
	return out
}

// syncStdlibCaller: the call hands its function-typed arguments to a standard-library helper that invokes them
// synchronously (the higher-order helpers of maps, slices, sort, strings and bytes), or it is the call of a sequence
// (`iter.Seq`) that such a package returned, with the loop body as its yield function.
func syncStdlibCaller(u ssa.CallInstruction) bool {
	syncPkg := func(f *ssa.Function) bool {
		if f == nil {
			return false
		}
		if f.Origin() != nil {
			f = f.Origin()
		}
		if f.Pkg == nil {
			return false
		}
		switch f.Pkg.Pkg.Path() {
		case "maps", "slices", "sort", "strings", "bytes":
			return true
		}
		return false
	}
	if callee := u.Common().StaticCallee(); callee != nil {
		return syncPkg(callee)
	}
	if u.Common().IsInvoke() {
		return false
	}
	if src, ok := u.Common().Value.(*ssa.Call); ok {
		return syncPkg(src.Common().StaticCallee())
	}
	return false
}

// funcValueTarget: v is a function constant used as a value — the function itself, or the synthetic
// thunk/bound-method wrapper of a method expression, whose body only forwards to the method.
func funcValueTarget(v ssa.Value) *ssa.Function {
	f, ok := stripConv(v).(*ssa.Function)
	if !ok {
		return nil
	}
	if f.Synthetic == "" || f.Blocks == nil {
		return f
	}
	var target *ssa.Function
	n := 0
	for _, ci := range allCalls(f) {
		if callee := ci.Common().StaticCallee(); callee != nil {
			target = callee
			n++
		}
	}
	if n == 1 {
		return target
	}
	return f
}
