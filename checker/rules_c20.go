package main

import (
	"fmt"
	"go/token"
	"go/types"
	"strings"

	"golang.org/x/tools/go/ssa"
)

func init() { registry["C20"] = checkC20 }

func checkC20(c *Check) {
	P := c.P
	c.Assumes("TLS handshake outcomes, refresh-interval timing and file-system semantics are not decided; x509.SystemCertPool/AppendCertsFromPEM and crypto/tls behave as documented")
	c.Rule("C20.R1", "precedence: InsecureSkipVerify is written in exactly one place in own non-test code, reached only when no inline CA and no CA file is configured and the skip-verify setting is present, with the value BoolStrValue(setting); whenever CA bytes are non-empty RootCAs is set.", 3)
	c.Rule("C20.R2", "trust-store provenance: every value stored into tls.Config.RootCAs is the x509.SystemCertPool() result (err == nil) to which AppendCertsFromPEM(configured CA bytes) returned true; x509.NewCertPool (which would drop the system roots) is not used; a failed append installs nothing.", 3)
	c.Rule("C20.R3", "rotation reaches live clients: NewHTTPClient puts the pooled *tls.Config itself (no Clone) into Transport.TLSClientConfig; the reload callback registered with the file watcher updates the pool entry with the same id under which the configuration was stored.", 3)
	c.Rule("C20.R4", "pool key covers the settings: the key encoder reads every method of the TLSConfig interface and the hash consumes every field of the encoder struct; the pool map is read and written under the pool mutex.", 3)
	c.Rule("C20.R5", "watcher life-cycle: WatchFile cancels an existing watcher for the same reader id before registering a new one, starts no goroutine for a non-positive interval, the watcher loop returns when its context is done, and the callback fires only when the content differs.", 4)
	c.Rule("C20.R6", "boolean-or-string: BoolStrValue returns ParseBool of a non-empty string value (unparsable ⇒ false, verification stays on), else the bool value.", 2)
	c.Rule("C20.R7", "atomic get-or-create (observation): the pool's miss path looks up and inserts in two critical sections without re-checking; recorded as an observation in the evidence, not armed (schedule not reproduced against the real code).", 1)

	load := P.Func(pkgInt, "(*tlsConfigPool).LoadTLSConfig")
	upd := P.Func(pkgInt, "(*tlsConfigPool).updateCA")
	enc := P.Func(pkgInt, "encodeConfig")
	hash := P.Func(pkgInt, "(tlsConfigEncoder).hash")
	watch := P.Func(pkgInt, "(*FileWatcher).WatchFile")
	bsv := P.Func(pkgInt, "BoolStrValue")
	nhc := P.Func(pkgHTTP, "NewHTTPClient")
	for n, f := range map[string]*ssa.Function{"LoadTLSConfig": load, "updateCA": upd, "encodeConfig": enc, "tlsConfigEncoder.hash": hash, "WatchFile": watch, "BoolStrValue": bsv, "NewHTTPClient": nhc} {
		if !c.Anchor("C20.R1", n, f != nil) {
			return
		}
	}
	const (
		gCA   = pkgInt + ".TLSConfig.GetTrustedCertificateAuthority"
		gFile = pkgInt + ".TLSConfig.GetTrustedCertificateAuthorityFile"
		gSkip = pkgInt + ".TLSConfig.GetSkipVerifyPeerCert"
	)

	// ---- R1
	nSkip := 0
	for _, fn := range P.Funcs {
		if strings.HasPrefix(pkgPathOf(fn), modPath+"/config/gen/go") {
			continue
		}
		for _, b := range fn.Blocks {
			for _, ins := range b.Instrs {
				st, ok := ins.(*ssa.Store)
				if !ok {
					continue
				}
				fa, isF := st.Addr.(*ssa.FieldAddr)
				if !isF || fieldAddrID(fa) != "crypto/tls.Config.InsecureSkipVerify" {
					continue
				}
				nSkip++
				if fn != load {
					c.Fail("C20.R1", "skip-verify-write/"+fnKey(fn), P.Pos(instrPos(st)), "InsecureSkipVerify is written in "+fnKey(fn)+", outside the audited pool loader")
					continue
				}
				// every alternative of the written value is the constant false (verification stays on) or BoolStrValue of the
				// setting, selected under: no inline CA, no CA file, setting present (facts of the edge that selects it — the
				// flag may be computed in a branch and written after the join)
				noCA, noFile, present, valOK := true, true, true, true
				nAlt := 0
				for _, alt := range phiAlternatives(fn, st.Val, st) {
					v := resolveCell(stripConv(alt.V))
					if bv, isK := constBool(v); isK && !bv {
						continue
					}
					nAlt++
					fs := unionFacts(FactsOf(fn).At(st), alt.Facts)
					aCA, aFile, aPresent := false, false, false
					for cond, pol := range fs {
						bo, isB := cond.(*ssa.BinOp)
						if !isB {
							continue
						}
						gc, _, isC := asCall(resolveCell(stripConv(bo.X)))
						if !isC {
							continue
						}
						if s, isS := constString(bo.Y); isS && s == "" {
							empty := (bo.Op == token.EQL) == pol
							if isCallTo(gc, gCA) && empty {
								aCA = true
							}
							if isCallTo(gc, gFile) && empty {
								aFile = true
							}
						}
						if isNilConst(bo.Y) && isCallTo(gc, gSkip) && ((bo.Op == token.NEQ && pol) || (bo.Op == token.EQL && !pol)) {
							aPresent = true
						}
					}
					vc, _, isC := asCall(v)
					aVal := isC && vc.Common().StaticCallee() == bsv
					if aVal {
						g, _, isG := asCall(resolveCell(stripConv(vc.Common().Args[0])))
						aVal = isG && isCallTo(g, gSkip)
					}
					noCA, noFile, present, valOK = noCA && aCA, noFile && aFile, present && aPresent, valOK && aVal
				}
				if nAlt == 0 {
					valOK = false
				}
				c.Obl(noCA && noFile && present && valOK, "C20.R1", "skip-verify-write/guard", P.Pos(instrPos(st)),
					"InsecureSkipVerify = BoolStrValue(skip setting) only when neither an inline CA nor a CA file is configured",
					fmt.Sprintf("verification can be skipped although a CA is configured, or with another value (no inline CA: %v, no CA file: %v, setting present: %v, value is BoolStrValue(setting): %v)", noCA, noFile, present, valOK))
			}
		}
	}
	c.Obl(nSkip == 1, "C20.R1", "skip-verify-write/count", P.Pos(load.Pos()), "exactly one write of InsecureSkipVerify", fmt.Sprintf("%d writes of InsecureSkipVerify in own code", nSkip))
	// non-empty CA ⇒ RootCAs set on every successful return
	var caLen ssa.Value
	for _, b := range load.Blocks {
		for _, ins := range b.Instrs {
			if cc, ok := ins.(*ssa.Call); ok {
				if bi, isB := cc.Call.Value.(*ssa.Builtin); isB && bi.Name() == "len" {
					if sl, isS := cc.Call.Args[0].Type().Underlying().(*types.Slice); isS {
						if b, isBasic := sl.Elem().Underlying().(*types.Basic); isBasic && b.Kind() == types.Byte {
							caLen = cc
						}
					}
				}
			}
		}
	}
	isRootStore := func(i ssa.Instruction) bool {
		st, ok := i.(*ssa.Store)
		if !ok {
			return false
		}
		fa, isF := st.Addr.(*ssa.FieldAddr)
		return isF && fieldAddrID(fa) == "crypto/tls.Config.RootCAs"
	}
	okRoot := false
	if caLen != nil {
		var cmp ssa.Value
		if rs := caLen.Referrers(); rs != nil {
			for _, r := range *rs {
				if bo, ok := r.(*ssa.BinOp); ok {
					cmp = bo
				}
			}
		}
		if cmp != nil {
			bo := cmp.(*ssa.BinOp)
			nonEmpty := bo.Op == token.NEQ || bo.Op == token.GTR
			hit := existsPath(load, atomEnv{cmp: nonEmpty}, func(i ssa.Instruction) bool {
				r, ok := i.(*ssa.Return)
				return ok && len(r.Results) == 2 && !isNilConst(r.Results[0]) && cmp.(*ssa.BinOp).Block().Dominates(r.Block())
			}, isRootStore)
			okRoot = hit == nil
		}
	}
	c.Obl(okRoot, "C20.R1", "ca-sets-rootcas", P.Pos(load.Pos()), "with non-empty CA bytes every successful return has set RootCAs", "a configuration can be returned for non-empty CA bytes without RootCAs having been set")

	// ---- R2
	nRoot := 0
	for _, fn := range P.Funcs {
		if strings.HasPrefix(pkgPathOf(fn), modPath+"/config/gen/go") {
			continue
		}
		for _, ci := range callsTo(fn, "crypto/x509.NewCertPool") {
			c.Fail("C20.R2", "new-cert-pool/"+nthCallKey(ci), P.Pos(ci.Pos()), "x509.NewCertPool drops the system roots: the trust store would be the configured CA alone")
		}
		for _, b := range fn.Blocks {
			for _, ins := range b.Instrs {
				if !isRootStore(ins) {
					continue
				}
				st := ins.(*ssa.Store)
				nRoot++
				fs := FactsOf(fn).At(st)
				pc, pi, isC := asCall(resolveCell(stripConv(st.Val)))
				ok := isC && pi == 0 && isCallTo(pc, "crypto/x509.SystemCertPool") && fs.CallErrNil(pc, 1)
				why := "stored pool is not the (error-free) system pool"
				if ok {
					ok = false
					why = "no successful AppendCertsFromPEM on the stored pool dominates the store"
					for _, ai := range callsTo(fn, "crypto/x509.CertPool.AppendCertsFromPEM") {
						ac := ai.(*ssa.Call)
						if !sameVal(ac.Common().Args[0], st.Val) {
							continue
						}
						if v, k := fs.CallBool(ac, -1); k && v {
							// appended bytes: the configured CA (inline / file bytes / the callback's data)
							ok = true
							why = "RootCAs = SystemCertPool() (err == nil) + AppendCertsFromPEM(CA) == true"
						}
					}
				}
				c.Obl(ok, "C20.R2", "rootcas-provenance/"+fnKey(fn), P.Pos(instrPos(st)), why, "RootCAs in "+fnKey(fn)+": "+why)
			}
		}
	}
	c.Obl(nRoot >= 2, "C20.R2", "rootcas-provenance/count", "-", fmt.Sprintf("%d RootCAs stores (load, reload)", nRoot), fmt.Sprintf("%d RootCAs stores found (floor 2)", nRoot))
	// bytes appended in the loader come from the configuration
	okBytes := false
	for _, ai := range callsTo(load, "crypto/x509.CertPool.AppendCertsFromPEM") {
		inline, file := false, false
		for _, l := range Leaves(ai.Common().Args[1], leafOpts{noConcat: true}) {
			if gc, _, ok := asCall(l); ok {
				if isCallTo(gc, gCA) {
					inline = true
				}
				if gc.Common().StaticCallee() == watch {
					file = true
				}
			}
		}
		okBytes = inline && file
	}
	c.Obl(okBytes, "C20.R2", "ca-bytes-from-config", P.Pos(load.Pos()), "appended bytes are the inline CA or the watched file's content", "the bytes appended to the trust store are not the configured inline CA / the watched CA file's content")

	// ---- R3
	okShare := false
	for _, b := range nhc.Blocks {
		for _, ins := range b.Instrs {
			if st, ok := ins.(*ssa.Store); ok {
				if fa, isF := st.Addr.(*ssa.FieldAddr); isF && fieldAddrID(fa) == "net/http.Transport.TLSClientConfig" {
					lc, li, isC := asCall(resolveCell(stripConv(st.Val)))
					if isC && li == 0 && isCallTo(lc, pkgInt+".TLSConfigPool.LoadTLSConfig") {
						okShare = true
					}
				}
			}
		}
	}
	c.Obl(okShare && len(callsTo(nhc, "crypto/tls.Config.Clone")) == 0, "C20.R3", "client-shares-pooled-config", P.Pos(nhc.Pos()),
		"Transport.TLSClientConfig is the pool's own *tls.Config (no Clone)", "NewHTTPClient does not install the pool's own *tls.Config (a clone would never see a CA rotation)")
	// callback bound to the same id
	okCB := false
	var idVal ssa.Value
	idVal = poolInsertKey(load)
	for _, ci := range callsToFn(load, watch) {
		for _, a := range ci.Common().Args {
			mc, isMC := a.(*ssa.MakeClosure)
			if !isMC {
				continue
			}
			cl := mc.Fn.(*ssa.Function)
			for _, ui := range callsToFn(cl, upd) {
				idArg := resolveCell(stripConv(callArgs(ui)[0]))
				if fv, isFV := idArg.(*ssa.FreeVar); isFV {
					if bnd := freeVarBinding(fv); bnd != nil {
						idArg = resolveCell(stripConv(bnd))
					}
				}
				if idVal != nil && sameVal(idArg, resolveCell(stripConv(idVal))) {
					okCB = true
				}
				// data passed through
				if p, isP := resolveCell(stripConv(callArgs(ui)[1])).(*ssa.Parameter); !isP || p.Parent() != cl {
					okCB = false
				}
			}
		}
	}
	c.Obl(okCB, "C20.R3", "reload-callback-same-id", P.Pos(load.Pos()), "the watcher callback calls updateCA(id, data) with the id the configuration is stored under", "the reload callback is not bound to the id under which the configuration is pooled")
	// updateCA mutates the object found under the id
	okUpd := false
	for _, b := range upd.Blocks {
		for _, ins := range b.Instrs {
			if isRootStore(ins) {
				st := ins.(*ssa.Store)
				fa := st.Addr.(*ssa.FieldAddr)
				base := resolveCell(stripConv(fa.X))
				if ex, isE := base.(*ssa.Extract); isE {
					if lk, isL := ex.Tuple.(*ssa.Lookup); isL {
						if cl, _ := classOfMap(lk.X); cl == "internal.tlsConfigPool.configs[]" && sameVal(lk.Index, upd.Params[1]) {
							okUpd = true
						}
					}
				}
				// the lookup made by a helper of the pool (lock, look up, unlock): its key parameter is bound to the id
				if hc, ri, isC := asCall(base); isC {
					if h := hc.Common().StaticCallee(); h != nil && h.Blocks != nil && h.Pkg == upd.Pkg {
						for _, hb := range h.Blocks {
							for _, hi := range hb.Instrs {
								lk, isL := hi.(*ssa.Lookup)
								if !isL {
									continue
								}
								if cl, _ := classOfMap(lk.X); cl != "internal.tlsConfigPool.configs[]" {
									continue
								}
								kp, isP := resolveCell(stripConv(lk.Index)).(*ssa.Parameter)
								if !isP {
									continue
								}
								bound := false
								for k, q := range h.Params {
									if q == kp && k < len(hc.Common().Args) && sameVal(hc.Common().Args[k], upd.Params[1]) {
										bound = true
									}
								}
								returned := false
								for _, r := range returnsOf(h) {
									idx := ri
									if idx < 0 {
										idx = 0
									}
									if idx < len(r.Results) {
										for _, l := range Leaves(r.Results[idx], leafOpts{noConcat: true}) {
											l = resolveCell(stripConv(l))
											if l == ssa.Value(lk) {
												returned = true
											}
											if e2, isE2 := l.(*ssa.Extract); isE2 && e2.Tuple == ssa.Value(lk) {
												returned = true
											}
										}
									}
								}
								if bound && returned {
									okUpd = true
								}
							}
						}
					}
				}
			}
		}
	}
	// a reload is refused only for the reasons a fresh load of the same file would fail for: the id is not pooled, the
	// system pool cannot be built, the PEM holds no certificate. A return in front of the RootCAs store under any other
	// condition (a validity check of the reloader's own, say) keeps a CA trusted that the file no longer contains while a
	// restart would trust the new one
	for i, r := range returnsOf(upd) {
		if mustPassBefore(upd, r, isRootStore) {
			continue
		}
		fs := FactsOf(upd).At(r)
		okReason := false
		for cond, pol := range fs {
			inner, neg := unwrapBool(cond)
			truth := pol != neg
			// !ok of a map lookup or of a lookup helper of the pool
			if ex, isE := inner.(*ssa.Extract); isE && ex.Index == 1 && !truth {
				if _, isL := ex.Tuple.(*ssa.Lookup); isL {
					okReason = true
				}
				if hc, isC := ex.Tuple.(*ssa.Call); isC && hc.Common().StaticCallee() != nil && hc.Common().StaticCallee().Pkg == upd.Pkg {
					if _, isB := ex.Type().Underlying().(*types.Basic); isB {
						okReason = true
					}
				}
			}
			// the pooled object itself is nil (`cfg := p.configs[id]; if cfg == nil` or a lookup helper returning only the object)
			if bo, isB := inner.(*ssa.BinOp); isB && (bo.Op == token.NEQ || bo.Op == token.EQL) && isNilConst(bo.Y) && (bo.Op == token.EQL) == truth {
				if _, isPtr := bo.X.Type().Underlying().(*types.Pointer); isPtr {
					x := resolveCell(stripConv(bo.X))
					if ex, isE := x.(*ssa.Extract); isE {
						x = ex.Tuple
					}
					if _, isL := x.(*ssa.Lookup); isL {
						okReason = true
					}
					if hc, isC := x.(*ssa.Call); isC && hc.Common().StaticCallee() != nil && hc.Common().StaticCallee().Pkg == upd.Pkg {
						okReason = true
					}
				}
			}
			// err != nil of a dependency call (x509.SystemCertPool)
			if bo, isB := inner.(*ssa.BinOp); isB && (bo.Op == token.NEQ || bo.Op == token.EQL) && isNilConst(bo.Y) && isErrorType(bo.X.Type()) {
				if dc, _, isC := asCall(resolveCell(stripConv(bo.X))); isC && dc.Common().StaticCallee() != nil && !isOwnPath(pkgPathOf(dc.Common().StaticCallee())) && (bo.Op == token.NEQ) == truth {
					okReason = true
				}
			}
			// AppendCertsFromPEM == false
			if dc, _, isC := asCall(resolveCell(stripConv(inner))); isC && isCallTo(dc, "crypto/x509.CertPool.AppendCertsFromPEM") && !truth {
				okReason = true
			}
		}
		c.Obl(okReason, "C20.R3", fmt.Sprintf("reload-refusal-reason/return#%d", i+1), P.Pos(instrPos(r)), "the reload is refused for an enumerated reason (id not pooled, no system pool, no certificate in the PEM)",
			"updateCA can return without replacing RootCAs for a reason a fresh load does not have ("+fs.String()+"): the file's new content is never trusted by the running service although a restart would trust it")
	}
	c.Obl(okUpd, "C20.R3", "reload-mutates-pooled-object", P.Pos(upd.Pos()), "updateCA replaces RootCAs on the object pooled under the id (live clients see it)", "updateCA does not update the pooled object found under its id (clients created earlier keep the old roots)")

	// ---- R4
	iface := P.NamedType(pkgInt, "TLSConfig")
	okEnc := iface != nil
	missing := ""
	if iface != nil {
		it := iface.Underlying().(*types.Interface)
		for i := 0; i < it.NumMethods(); i++ {
			m := it.Method(i)
			if len(callsTo(enc, pkgInt+".TLSConfig."+m.Name())) == 0 {
				okEnc = false
				missing = m.Name()
			}
		}
	}
	c.Obl(okEnc, "C20.R4", "key-reads-every-setting", P.Pos(enc.Pos()), "the key encoder reads every TLSConfig method", "the pool key ignores TLS setting "+missing+": two different settings would share one configuration")
	encT := P.NamedType(pkgInt, "tlsConfigEncoder")
	okHash := encT != nil
	if encT != nil {
		st := encT.Underlying().(*types.Struct)
		used := map[string]bool{}
		for _, b := range hash.Blocks {
			for _, ins := range b.Instrs {
				switch x := ins.(type) {
				case *ssa.FieldAddr:
					if f := fieldOf(x.X.Type(), x.Field); f != nil {
						used[f.Name()] = true
					}
				case *ssa.Field:
					if f := fieldOf(x.X.Type(), x.Field); f != nil {
						used[f.Name()] = true
					}
				}
			}
		}
		for i := 0; i < st.NumFields(); i++ {
			if !used[st.Field(i).Name()] {
				okHash = false
				missing = st.Field(i).Name()
			}
		}
	}
	c.Obl(okHash, "C20.R4", "hash-consumes-every-field", P.Pos(hash.Pos()), "the hash consumes every encoder field", "the pool key hash ignores encoder field "+missing)
	// id = encodeConfig(config).hash() of the parameter
	okID := false
	if idVal != nil {
		hc, _, isC := asCall(resolveCell(stripConv(idVal)))
		if isC && hc.Common().StaticCallee() == hash {
			for d := range dataDeps(hc.Common().Args[0]) {
				if ec, isE := d.(*ssa.Call); isE && ec.Common().StaticCallee() == enc {
					if _, isP := ec.Common().Args[0].(*ssa.Parameter); isP {
						okID = true
					}
				}
			}
		}
	}
	poolKeyEncodingInjective(c, "C20.R4", hash)
	poolInsertIsFinal(c, "C20.R4")
	transportIsOwn(c, "C20.R3")
	tlsConfigFieldsAudited(c, "C20.R2")
	// the watcher re-reads the path that was configured: the file reader keeps its constructor argument as given (a
	// path resolved once — EvalSymlinks, Abs — keeps pointing at the old target after a symlink-swap rotation, which
	// is how Kubernetes updates mounted secrets)
	if nfr := P.Func(pkgInt, "NewFileReader"); c.Anchor("C20.R5", "NewFileReader", nfr != nil) {
		var pathParam *ssa.Parameter
		for _, p := range nfr.Params {
			if isString(p.Type()) {
				pathParam = p
			}
		}
		nPath := 0
		for _, b := range nfr.Blocks {
			for _, ins := range b.Instrs {
				st, ok := ins.(*ssa.Store)
				if !ok {
					continue
				}
				fa, isF := st.Addr.(*ssa.FieldAddr)
				if !isF || !isString(st.Val.Type()) || !strings.HasSuffix(typeID(fa.X.Type()), ".FileReader") {
					continue
				}
				nPath++
				same := true
				for _, l := range Leaves(st.Val, leafOpts{noConcat: true}) {
					if resolveCell(stripConv(l)) != ssa.Value(pathParam) {
						same = false
					}
				}
				c.Obl(same && pathParam != nil, "C20.R5", "reader-keeps-configured-path", P.Pos(st.Pos()), "the reader stores the path it was given",
					"the file reader stores a path derived from (not equal to) the configured one: a rotation that re-targets the configured path (symlink swap) is never seen")
			}
		}
		// … and every Read goes to the file: the bytes it returns are those of an os.ReadFile made by this very call, not a
		// copy kept in the reader and revalidated by size/mtime (a rotation that preserves both would never be seen)
		if rd := P.Func(pkgInt, "(*FileReader).Read"); c.Anchor("C20.R5", "FileReader.Read", rd != nil) {
			okRead, whyRead := true, ""
			nRet := 0
			for _, r := range returnsOf(rd) {
				if len(r.Results) != 2 {
					continue
				}
				nRet++
				for _, l := range LeavesInl(r.Results[0], leafOpts{noConcat: true}, 2, func(f *ssa.Function) bool { return !isOwnPath(pkgPathOf(f)) }) {
					l = resolveCell(stripConv(l))
					if isNilConst(l) {
						continue
					}
					if rc, idx, isC := asCall(l); isC && idx == 0 && isOwnPath(pkgPathOf(rc.Parent())) && isCallToAny(rc, "os.ReadFile", "io.ReadAll", "io/ioutil.ReadFile", "io/ioutil.ReadAll") {
						// io.ReadAll reads the opened file itself, not a window onto it (io.LimitReader, a section reader)
						if isCallToAny(rc, "io.ReadAll", "io/ioutil.ReadAll") && len(rc.Common().Args) == 1 {
							src := resolveCell(stripConv(rc.Common().Args[0]))
							if mi, isMI := src.(*ssa.MakeInterface); isMI {
								src = resolveCell(stripConv(mi.X))
							}
							oc, oi, isOpen := asCall(src)
							if !isOpen || oi != 0 || !isCallToAny(oc, "os.Open", "os.OpenFile") {
								okRead, whyRead = false, "the content of "+descDepth(src, 3)+" (not the opened file itself: a bounded or partial read drops certificates at the end of a bundle)"
							}
						}
						continue
					}
					okRead, whyRead = false, descDepth(l, 3)
				}
			}
			c.Obl(okRead && nRet >= 1, "C20.R5", "reader-reads-the-file-every-time", P.Pos(rd.Pos()), "FileReader.Read returns the bytes of an os.ReadFile made by this call",
				"FileReader.Read can return "+whyRead+" instead of the file's current content: a CA rotation the shortcut does not notice never reaches the TLS configuration")
		}
		c.Obl(nPath >= 1, "C20.R5", "reader-path-field", P.Pos(nfr.Pos()), "the reader's path field is set by the constructor", "the file reader's path field is not set in NewFileReader (anchor lost)")
	}
	c.Obl(okID, "C20.R4", "id-is-hash-of-settings", P.Pos(load.Pos()), "pool id = encodeConfig(settings).hash()", "the pool id is not the hash of the encoded settings of the requested configuration")

	// ---- R5
	wf := watch
	ffw := FactsOf(wf)
	okCancel := false
	{
		// the lookup + cancel step and the registration step may each sit in WatchFile or in a helper it calls
		type step struct {
			fn    *ssa.Function
			at    ssa.Instruction // instruction of WatchFile that performs the step (itself or the helper call)
			key   ssa.Value       // key as seen from WatchFile
			good  bool
			found ssa.Value
		}
		keyInWF := func(fn *ssa.Function, k ssa.Value, call ssa.CallInstruction) ssa.Value {
			if fn == wf {
				return k
			}
			for i, p := range fn.Params {
				if ssa.Value(p) == stripConv(k) && call != nil && i < len(call.Common().Args) {
					return call.Common().Args[i]
				}
			}
			return nil
		}
		var cancelStep, regStep *step
		cands := []*ssa.Function{wf}
		callOf := map[*ssa.Function]ssa.CallInstruction{}
		for _, ci := range allCalls(wf) {
			if g := ci.Common().StaticCallee(); g != nil && pkgPathOf(g) == pkgInt && g.Blocks != nil && g != wf {
				if _, dup := callOf[g]; !dup {
					callOf[g] = ci
					cands = append(cands, g)
				}
			}
		}
		for _, fn := range cands {
			var wLk *ssa.Lookup
			var wUpd *ssa.MapUpdate
			for _, b := range fn.Blocks {
				for _, ins := range b.Instrs {
					switch x := ins.(type) {
					case *ssa.Lookup:
						if cl, _ := classOfMap(x.X); cl == "internal.FileWatcher.watchers[]" {
							wLk = x
						}
					case *ssa.MapUpdate:
						if cl, _ := classOfMap(x.Map); cl == "internal.FileWatcher.watchers[]" {
							wUpd = x
						}
					}
				}
			}
			var at ssa.Instruction
			if fn != wf {
				at = callOf[fn]
			}
			if wLk != nil {
				// a cancel() call on the looked-up watcher under ok == true that no path with ok == true bypasses
				found := extractOf(wLk, 1)
				ffn := FactsOf(fn)
				var cancel ssa.Instruction
				for _, ci := range allCalls(fn) {
					cc, ok := ci.(*ssa.Call)
					if !ok || cc.Common().StaticCallee() != nil || cc.Common().IsInvoke() {
						continue
					}
					if fieldNameOfLoad(resolveCell(stripConv(cc.Common().Value))) == "cancel" && found != nil {
						if v, k := ffn.At(cc).truth(found); k && v {
							cancel = cc
						}
					}
				}
				good := false
				if cancel != nil {
					target := func(i ssa.Instruction) bool {
						if wUpd != nil && i == ssa.Instruction(wUpd) {
							return true
						}
						_, isRet := i.(*ssa.Return)
						return isRet && fn != wf
					}
					good = existsPath(fn, atomEnv{found: true}, target, func(i ssa.Instruction) bool { return i == cancel }) == nil
				}
				st := &step{fn: fn, at: at, key: keyInWF(fn, wLk.Index, callOf[fn]), good: good, found: found}
				if at == nil {
					st.at = cancel
				}
				cancelStep = st
			}
			if wUpd != nil {
				st := &step{fn: fn, at: at, key: keyInWF(fn, wUpd.Key, callOf[fn]), good: true}
				if at == nil {
					st.at = wUpd
				}
				regStep = st
			}
		}
		if cancelStep != nil && regStep != nil && cancelStep.good && cancelStep.at != nil && regStep.at != nil &&
			cancelStep.key != nil && regStep.key != nil && sameVal(cancelStep.key, regStep.key) {
			okCancel = true
			switch {
			case cancelStep.at == regStep.at:
			case cancelStep.fn == wf:
				okCancel = existsPath(wf, atomEnv{cancelStep.found: true}, func(i ssa.Instruction) bool { return i == regStep.at }, func(i ssa.Instruction) bool { return i == cancelStep.at }) == nil
			default:
				okCancel = mustPassBefore(wf, regStep.at, func(i ssa.Instruction) bool { return i == cancelStep.at })
			}
			// key is reader.ID()
			kc, _, isC := asCall(resolveCell(stripConv(cancelStep.key)))
			okCancel = okCancel && isC && isCallTo(kc, pkgInt+".Reader.ID")
		}
	}
	c.Obl(okCancel, "C20.R5", "old-watcher-cancelled", P.Pos(wf.Pos()), "an existing watcher for the same reader id is cancelled before the new one is registered", "a superseded watcher for the same file keeps running (not cancelled before re-registration)")
	// non-positive interval ⇒ no goroutine
	var startFn *ssa.Function
	for _, ci := range allCalls(wf) {
		if callee := ci.Common().StaticCallee(); callee != nil && callee.Name() == "start" {
			startFn = callee
			fs := ffw.At(ci)
			pos := false
			for cond, pol := range fs {
				_, op, k, ok := cmpWithConstInt(cond)
				if ok && k == 0 && ((op == token.LEQ && !pol) || (op == token.GTR && pol)) {
					pos = true
				}
			}
			c.Obl(pos, "C20.R5", "no-watch-without-interval", P.Pos(ci.Pos()), "the watcher is started only for a positive interval", "a watcher goroutine is started for a non-positive refresh interval")
		}
	}
	if c.Anchor("C20.R5", "watcher start function", startFn != nil) {
		var body *ssa.Function
		for _, b := range startFn.Blocks {
			for _, ins := range b.Instrs {
				if g, ok := ins.(*ssa.Go); ok {
					if mc, isMC := g.Common().Value.(*ssa.MakeClosure); isMC {
						body = mc.Fn.(*ssa.Function)
					} else if sc := g.Common().StaticCallee(); sc != nil && sc.Blocks != nil {
						body = sc
					}
				}
			}
		}
		if c.Anchor("C20.R5", "watcher goroutine body", body != nil) {
			// select with ctx.Done() arm leading to return
			okDone := false
			for _, b := range body.Blocks {
				for _, ins := range b.Instrs {
					if sel, ok := ins.(*ssa.Select); ok {
						for i, st := range sel.States {
							if dc, _, isC := asCall(st.Chan); isC && dc.Common().IsInvoke() && dc.Common().Method.Name() == "Done" {
								// the branch for index i returns
								idx := extractOf(sel, 0)
								if idx == nil {
									continue
								}
								if rs := idx.Referrers(); rs != nil {
									for _, r := range *rs {
										if bo, isB := r.(*ssa.BinOp); isB && bo.Op == token.EQL {
											if k, isK := constInt(bo.Y); isK && int(k) == i {
												for _, s := range trueSuccessors(bo) {
													if rets := returnsReachable(s, func(x ssa.Instruction) bool { _, isSel := x.(*ssa.Select); return isSel }); len(rets) > 0 {
														okDone = true
													}
												}
											}
										}
									}
								}
							}
						}
					}
				}
			}
			c.Obl(okDone, "C20.R5", "loop-stops-on-cancel", P.Pos(body.Pos()), "the watcher loop returns when its context is done", "the watcher loop has no ctx.Done() arm that returns: a cancelled watcher keeps polling")
			// the polling period is the configured refresh interval, for the whole life of the watcher: the ticker is built
			// from the watcher's interval and never re-armed with another period (a back-off that is not undone polls a
			// rotated CA far later than configured)
			okPeriod, nTick := true, 0
			whyPeriod := ""
			for _, bf := range deepFuncs(body, 2) {
				if !isOwnPath(pkgPathOf(bf)) {
					continue
				}
				for _, ci := range allCalls(bf) {
					switch {
					case isCallTo(ci, "time.NewTicker") || isCallTo(ci, "time.Tick"):
						nTick++
						for _, l := range Leaves(ci.Common().Args[0], leafOpts{noConcat: true}) {
							if fieldNameOfLoad(resolveCell(stripConv(l))) != "interval" {
								okPeriod, whyPeriod = false, "the ticker period is "+descDepth(l, 3)+", not the watcher's interval"
							}
						}
					case isCallTo(ci, "time.Ticker.Reset"):
						okPeriod, whyPeriod = false, "the ticker is re-armed with another period at "+posOf(P, ci)
					}
				}
			}
			c.Obl(okPeriod && nTick >= 1, "C20.R5", "poll-period-is-the-interval", P.Pos(body.Pos()), "the watcher polls at its configured interval", "the watcher does not poll at the configured refresh interval: "+whyPeriod)
			// callback only under content differs
			okDiff := false
			for _, bf := range deepFuncs(body, 2) {
				for _, b := range bf.Blocks {
					for _, ins := range b.Instrs {
						g, ok := ins.(*ssa.Go)
						if !ok {
							if cc, isC := ins.(*ssa.Call); isC && fieldNameOfLoad(resolveCell(stripConv(cc.Common().Value))) == "callback" {
								_ = cc
							} else {
								continue
							}
						}
						var cv ssa.Value
						if ok {
							cv = g.Common().Value
						} else {
							cv = ins.(*ssa.Call).Common().Value
						}
						if fieldNameOfLoad(resolveCell(stripConv(cv))) != "callback" {
							continue
						}
						for cond, pol := range FactsOf(bf).At(ins) {
							if bo, isB := cond.(*ssa.BinOp); isB && (bo.Op == token.NEQ && pol || bo.Op == token.EQL && !pol) && isString(bo.X.Type()) {
								if depFields(bo.X)["data"] || depFields(bo.Y)["data"] {
									okDiff = true
								}
							}
							// the same test spelled bytes.Equal(a, b) == false (or slices.Equal)
							inner, neg := unwrapBool(cond)
							if ec, _, isC := asCall(inner); isC && isCallToAny(ec, "bytes.Equal", "slices.Equal") && (pol != neg) == false {
								a := ec.Common().Args
								if len(a) == 2 && (depFields(a[0])["data"] || depFields(a[1])["data"]) {
									okDiff = true
								}
							}
						}
					}
				}
			}
			c.Obl(okDiff, "C20.R5", "callback-only-on-change", P.Pos(body.Pos()), "the callback is invoked only when the content differs from the last seen one", "the reload callback is invoked without the `content differs` test")
		}
	}

	// ---- R6
	okParse, okBool := false, false
	for _, r := range returnsOf(bsv) {
		fs := FactsOf(bsv).At(r)
		v := resolveCell(stripConv(r.Results[0]))
		if pc, pi, ok := asCall(v); ok && pi == 0 && isCallTo(pc, "strconv.ParseBool") {
			if gc, _, isG := asCall(pc.Common().Args[0]); isG && strings.HasSuffix(funcID(calleeOf(gc).Obj), "structpb.Value.GetStringValue") {
				if fs.StrNonEmpty(gc) || strNonEmptySame(fs, gc) {
					okParse = true
				}
			}
		}
		if gc, _, ok := asCall(v); ok && strings.HasSuffix(funcID(calleeOf(gc).Obj), "structpb.Value.GetBoolValue") {
			okBool = true
		}
	}
	c.Obl(okParse, "C20.R6", "string-form", P.Pos(bsv.Pos()), "non-empty string ⇒ strconv.ParseBool (false when unparsable)", "the string form of the setting is not evaluated with ParseBool under a non-empty test")
	c.Obl(okBool, "C20.R6", "bool-form", P.Pos(bsv.Pos()), "otherwise the bool value", "the bool form of the setting is not returned")

	// ---- R7 observation
	twoSections := 0
	for _, ci := range allCalls(load) {
		if k, op := mutexKey(ci); k != "" && op == "lock" {
			twoSections++
		}
	}
	c.Pass("C20.R7", "observation", P.Pos(load.Pos()), fmt.Sprintf("LoadTLSConfig takes the pool mutex %d times (lookup and insert in separate critical sections); not armed", twoSections))
	c.extra["observations"] = []string{"C20.R7: non-atomic get-or-create in tlsConfigPool.LoadTLSConfig — two concurrent first loads of one setting each build a tls.Config; the later insert wins and the earlier object (possibly held by the long-lived JWKS client) misses later CA rotations. Not reproduced, therefore neither a violation nor a known finding."}
}

// strNonEmptySame: a fact `getter(x) != ""` on another call of the same getter on the same receiver.
func strNonEmptySame(fs FactSet, call *ssa.Call) bool {
	e, k := fs.strEmpty(call)
	return k && !e
}

// poolInsertIsFinal: a TLS configuration enters the pool only when it is complete — after the insertion
// into the pool map LoadTLSConfig cannot fail any more. An entry inserted before the CA is loaded survives a
// failed load and is handed out (without the CA) by every later call. Filed under C20.R4 and C03.R5.
func poolInsertIsFinal(c *Check, rule string) {
	P := c.P
	load := P.Func(pkgInt, "(*tlsConfigPool).LoadTLSConfig")
	if !c.Anchor(rule, "tlsConfigPool.LoadTLSConfig", load != nil) {
		return
	}
	n := 0
	for _, fn := range deepFuncs(load, 2) {
		if pkgPathOf(fn) != pkgInt {
			continue
		}
		for _, b := range fn.Blocks {
			for _, ins := range b.Instrs {
				mu, ok := ins.(*ssa.MapUpdate)
				if !ok {
					continue
				}
				if cl, _ := classOfMap(mu.Map); cl != "internal.tlsConfigPool.configs[]" {
					continue
				}
				n++
				hit := reachAvoiding(mu, nil, func(i ssa.Instruction) bool {
					r, isR := i.(*ssa.Return)
					if !isR || i.Parent() != load || len(r.Results) != 2 {
						return false
					}
					return !isNilConst(r.Results[1])
				}, nil)
				c.Obl(hit == nil || fn != load, rule, "pool-insert-is-final/"+fnKey(fn), P.Pos(mu.Pos()), "after the insertion into the pool the load cannot fail",
					"the configuration is put into the pool before loading can still fail ("+posOf(P, hit)+" returns an error afterwards): the half-built entry — without the trusted CA — is handed out by every later call")
			}
		}
	}
	c.Obl(n >= 1, rule, "pool-insert-found", P.Pos(load.Pos()), fmt.Sprintf("%d insertion(s) into the pool map", n), "no insertion into the pool map found (anchor lost)")
}

// poolInsertKey: the key under which fn inserts into the pool map — the key of a map update in fn itself, or
// the argument bound to the key parameter of a helper of the same package that performs the update
// (`p.store(id, cfg)` with the lock taken and released inside the helper).
func poolInsertKey(fn *ssa.Function) ssa.Value {
	keyIn := func(f *ssa.Function) ssa.Value {
		var k ssa.Value
		for _, b := range f.Blocks {
			for _, ins := range b.Instrs {
				if mu, ok := ins.(*ssa.MapUpdate); ok {
					if cl, _ := classOfMap(mu.Map); cl == "internal.tlsConfigPool.configs[]" {
						k = mu.Key
					}
				}
			}
		}
		return k
	}
	if k := keyIn(fn); k != nil {
		return k
	}
	for _, ci := range allCalls(fn) {
		callee := ci.Common().StaticCallee()
		if callee == nil || callee.Pkg != fn.Pkg || callee == fn {
			continue
		}
		k := keyIn(callee)
		if k == nil {
			continue
		}
		if p, isP := resolveCell(stripConv(k)).(*ssa.Parameter); isP {
			for i, q := range callee.Params {
				if q == p && i < len(ci.Common().Args) {
					return ci.Common().Args[i]
				}
			}
		}
	}
	return nil
}

// transportIsOwn: every store into a field of an *http.Transport in own code targets a transport created in
// the same activation (the result of Clone() or a literal): the TLS configuration, proxy and timeouts of one
// filter's IdP client are never written into a transport that other handlers use.
func transportIsOwn(c *Check, rule string) {
	P := c.P
	n := 0
	for _, fn := range P.Funcs {
		if !isOwnPath(pkgPathOf(fn)) {
			continue
		}
		for _, b := range fn.Blocks {
			for _, ins := range b.Instrs {
				st, ok := ins.(*ssa.Store)
				if !ok {
					continue
				}
				fa, isF := st.Addr.(*ssa.FieldAddr)
				if !isF || typeID(derefType(fa.X.Type())) != "net/http.Transport" {
					continue
				}
				n++
				bad := ""
				for _, l := range Leaves(fa.X, leafOpts{noConcat: true}) {
					l = resolveCell(stripConv(l))
					if al, isA := l.(*ssa.Alloc); isA && al.Parent() == fn {
						continue
					}
					if cl, _, isC := asCall(l); isC && cl.Parent() == fn && isCallTo(cl, "net/http.Transport.Clone") {
						continue
					}
					bad = descDepth(l, 3)
				}
				f := fieldOf(fa.X.Type(), fa.Field)
				name := "?"
				if f != nil {
					name = f.Name()
				}
				c.Obl(bad == "", rule, "transport-is-own/"+fnKey(fn)+"/"+name, P.Pos(st.Pos()), "Transport."+name+" is set on a transport created in this call",
					"Transport."+name+" is written on "+bad+", a transport that is not created in this call: the setting of the handler built last governs the requests of every handler sharing it")
			}
		}
	}
	// … and the transport an http.Client of own code is given is such a transport of this activation (possibly wrapped
	// by an own RoundTripper built here): a transport looked up in a cache carries the proxy and TLS settings of
	// whichever handler created it first
	nClient := 0
	for _, fn := range P.Funcs {
		if !isOwnPath(pkgPathOf(fn)) {
			continue
		}
		for _, b := range fn.Blocks {
			for _, ins := range b.Instrs {
				st, ok := ins.(*ssa.Store)
				if !ok {
					continue
				}
				fa, isF := st.Addr.(*ssa.FieldAddr)
				if !isF || typeID(derefType(fa.X.Type())) != "net/http.Client" {
					continue
				}
				if f := fieldOf(fa.X.Type(), fa.Field); f == nil || f.Name() != "Transport" {
					continue
				}
				nClient++
				bad := ""
				seen := map[ssa.Value]bool{}
				var walk func(v ssa.Value, depth int)
				walk = func(v ssa.Value, depth int) {
					for _, l := range Leaves(v, leafOpts{noConcat: true}) {
						l = resolveCell(stripConv(l))
						if seen[l] || depth > 3 {
							continue
						}
						seen[l] = true
						if cl, _, isC := asCall(l); isC && cl.Parent() == fn && isCallTo(cl, "net/http.Transport.Clone") {
							continue
						}
						if al, isA := l.(*ssa.Alloc); isA && al.Parent() == fn {
							if typeID(derefType(al.Type())) == "net/http.Transport" {
								continue
							}
							// an own wrapper built here: follow what it delegates to
							followed := false
							if refs := al.Referrers(); refs != nil {
								for _, r := range *refs {
									wfa, isWF := r.(*ssa.FieldAddr)
									if !isWF {
										continue
									}
									ft := typeID(derefType(wfa.Type()))
									if ft != "net/http.RoundTripper" && ft != "*net/http.Transport" && ft != "net/http.Transport" {
										continue
									}
									for _, ws := range storesTo(wfa) {
										followed = true
										walk(ws.Val, depth+1)
									}
								}
							}
							if followed {
								continue
							}
						}
						bad = descDepth(l, 3)
					}
				}
				walk(st.Val, 0)
				c.Obl(bad == "", rule, "client-transport-is-own/"+fnKey(fn), P.Pos(st.Pos()), "the client's transport is a transport cloned/created in this call",
					"the client's transport can be "+bad+", not a transport created in this call: proxy and TLS settings of the handler that created it first are used for this filter's IdP requests")
			}
		}
	}
	c.Obl(nClient >= 1, rule, "client-transport-writes", "-", fmt.Sprintf("%d http.Client.Transport assignments", nClient), "no assignment of http.Client.Transport found (anchor lost)")
	c.Obl(n >= 1, rule, "transport-field-writes", "-", fmt.Sprintf("%d writes to http.Transport fields, each on an own transport", n), "no write to an http.Transport field found (anchor lost)")
}

// tlsConfigFieldsAudited: own code sets only the audited fields of a tls.Config — RootCAs (C20.R2) and
// InsecureSkipVerify (C20.R1). Every other field changes what a connection trusts behind the back of those
// rules: a ClientSessionCache resumes sessions without re-verifying the chain against rotated roots,
// VerifyPeerCertificate / VerifyConnection / GetClientCertificate / ServerName / Certificates replace the
// verification or the identity.
func tlsConfigFieldsAudited(c *Check, rule string) {
	P := c.P
	allowed := map[string]bool{"RootCAs": true, "InsecureSkipVerify": true, "MinVersion": true, "NextProtos": true}
	n := 0
	for _, fn := range P.Funcs {
		if !isOwnPath(pkgPathOf(fn)) {
			continue
		}
		for _, b := range fn.Blocks {
			for _, ins := range b.Instrs {
				st, ok := ins.(*ssa.Store)
				if !ok {
					continue
				}
				fa, isF := st.Addr.(*ssa.FieldAddr)
				if !isF || typeID(derefType(fa.X.Type())) != "crypto/tls.Config" {
					continue
				}
				f := fieldOf(fa.X.Type(), fa.Field)
				if f == nil {
					continue
				}
				n++
				c.Obl(allowed[f.Name()], rule, "tls-config-field/"+fnKey(fn)+"/"+f.Name(), P.Pos(st.Pos()), "tls.Config."+f.Name()+" is an audited field",
					"own code sets tls.Config."+f.Name()+" in "+fnKey(fn)+": this field changes what a connection trusts outside the audited RootCAs / InsecureSkipVerify rules (a session cache keeps accepting a server of a rotated-out CA)")
			}
		}
	}
	c.Obl(n >= 1, rule, "tls-config-fields", "-", fmt.Sprintf("%d tls.Config field writes in own code", n), "no tls.Config field write found (anchor lost)")
}

// varargElems returns the values stored into the elements of the array behind a variadic argument slice
// (`slice t4[:]` of `new [n]any (varargs)`), by index; interface conversions are stripped.
func varargElems(v ssa.Value) []ssa.Value {
	sl, ok := v.(*ssa.Slice)
	if !ok {
		return nil
	}
	al, ok := sl.X.(*ssa.Alloc)
	if !ok || al.Referrers() == nil {
		return nil
	}
	out := map[int64]ssa.Value{}
	max := int64(-1)
	for _, r := range *al.Referrers() {
		ia, isIA := r.(*ssa.IndexAddr)
		if !isIA || ia.Referrers() == nil {
			continue
		}
		k, isK := constInt(ia.Index)
		if !isK {
			return nil
		}
		for _, rr := range *ia.Referrers() {
			if st, isS := rr.(*ssa.Store); isS && st.Addr == ia {
				val := st.Val
				if mi, isMI := val.(*ssa.MakeInterface); isMI {
					val = mi.X
				}
				out[k] = val
				if k > max {
					max = k
				}
			}
		}
	}
	res := make([]ssa.Value, max+1)
	for k, v := range out {
		res[k] = v
	}
	return res
}

// poolKeyEncodingInjective: the text that is hashed into the pool key determines the settings it was built from. A
// variable-length setting written bare next to another one lets two different configurations produce the same
// text (CA file "ca.pem" with refresh interval "10s", and CA file "ca.pem1" with interval "0s"): they would share
// one pooled *tls.Config — one filter validating its IdP against the other filter's CA. Accepted per write: a
// constant; a boolean (%t); a quoted value (%q); a value preceded by its length and a separator (`%d:%s` with
// len(x), x); the JSON encoding of the settings.
func poolKeyEncodingInjective(c *Check, rule string, hash *ssa.Function) {
	P := c.P
	n := 0
	for _, ci := range allCalls(hash) {
		callee := ci.Common().StaticCallee()
		name := ""
		if callee != nil {
			name = callee.Name()
		} else if ci.Common().IsInvoke() {
			name = ci.Common().Method.Name()
		}
		isFprintf := callee != nil && isCallToAny(ci, "fmt.Fprintf", "fmt.Fprint", "fmt.Fprintln", "io.WriteString")
		if name != "WriteString" && name != "Write" && name != "WriteByte" && name != "WriteRune" && !isFprintf {
			continue
		}
		args := callArgs(ci)
		if len(args) == 0 {
			continue
		}
		data := resolveCell(stripConv(args[len(args)-1]))
		if isFprintf && isCallTo(ci, "fmt.Fprintf") && len(ci.Common().Args) == 3 {
			// judged like Sprintf(format, args...) written as a whole
			n++
			format, isK := constString(ci.Common().Args[1])
			elems := varargElems(ci.Common().Args[2])
			okF := isK && elems != nil
			if okF {
				// accepted only in the length-prefixed / quoted / boolean forms: every %s or %v preceded by %d of len(x)
				verbs := ""
				for i := 0; i+1 < len(format); i++ {
					if format[i] == '%' && format[i+1] != '%' {
						verbs += string(format[i+1])
					} else if format[i] == '%' {
						i++
					}
				}
				for i := 0; i < len(verbs) && i < len(elems); i++ {
					switch verbs[i] {
					case 't', 'q':
					case 'd':
						if !(i+1 < len(verbs) && (verbs[i+1] == 's' || verbs[i+1] == 'v')) {
							okF = false
						}
					case 's', 'v':
						lc, isC := stripConv(elems[max(i-1, 0)]).(*ssa.Call)
						if !(i > 0 && verbs[i-1] == 'd' && isC) {
							okF = false
							break
						}
						bi, isB := lc.Call.Value.(*ssa.Builtin)
						if !isB || bi.Name() != "len" || !sameVal(lc.Call.Args[0], elems[i]) {
							okF = false
						}
					default:
						okF = false
					}
				}
			}
			c.Obl(okF, rule, "pool-key-encoding-injective/"+nthCallKey(ci), P.Pos(ci.Pos()), "this part of the hashed text is self-delimiting",
				"the text hashed into the pool key is ambiguous: a formatted write does not delimit its values (length prefix, %q or %t) — two different TLS settings can concatenate to the same text and share one pooled configuration")
			continue
		}
		if _, isK := data.(*ssa.Const); isK {
			continue
		}
		// the sink itself: the collected bytes handed to the hash function
		fromBuffer := false
		for d := range dataDeps(data) {
			if dc, isC := d.(*ssa.Call); isC && dc.Common().StaticCallee() != nil && (dc.Common().StaticCallee().Name() == "Bytes" || dc.Common().StaticCallee().Name() == "String") && len(dc.Common().Args) == 1 {
				if strings.HasSuffix(typeID(dc.Common().Args[0].Type()), "bytes.Buffer") || strings.HasSuffix(typeID(dc.Common().Args[0].Type()), "strings.Builder") {
					fromBuffer = true
				}
			}
		}
		if fromBuffer {
			continue
		}
		n++
		bad := ""
		dc, _, isCall := asCall(data)
		switch {
		case isCall && isCallTo(dc, "fmt.Sprintf") && len(dc.Common().Args) == 2:
			format, isK := constString(dc.Common().Args[0])
			elems := varargElems(dc.Common().Args[1])
			if !isK || elems == nil {
				bad = "formatted with a format or arguments that are not visible"
				break
			}
			type verb struct {
				v   byte
				lit string // literal text between the previous verb and this one
			}
			var verbs []verb
			lit := ""
			for i := 0; i < len(format); i++ {
				if format[i] != '%' {
					lit += string(format[i])
					continue
				}
				if i+1 < len(format) && format[i+1] == '%' {
					lit += "%"
					i++
					continue
				}
				j := i + 1
				for j < len(format) && strings.IndexByte("+-# 0123456789.", format[j]) >= 0 {
					j++
				}
				if j >= len(format) {
					break
				}
				verbs = append(verbs, verb{format[j], lit})
				lit = ""
				i = j
			}
			if len(verbs) != len(elems) {
				bad = "formatted with a verb count that does not match its arguments"
				break
			}
			isLenOf := func(l, x ssa.Value) bool {
				lc, isC := stripConv(l).(*ssa.Call)
				if !isC {
					return false
				}
				bi, isB := lc.Call.Value.(*ssa.Builtin)
				return isB && bi.Name() == "len" && len(lc.Call.Args) == 1 && sameVal(lc.Call.Args[0], x)
			}
			for i, vb := range verbs {
				switch vb.v {
				case 't', 'q':
				case 's', 'v':
					if b, isB := elems[i].Type().Underlying().(*types.Basic); isB && b.Info()&types.IsBoolean != 0 {
						break
					}
					if !(i > 0 && verbs[i-1].v == 'd' && isLenOf(elems[i-1], elems[i]) && vb.lit != "" && strings.IndexAny(vb.lit, "0123456789") < 0) {
						bad = "the value " + descDepth(elems[i], 2) + " is written without its length or quoting"
					}
				case 'd':
					if !(i+1 < len(verbs) && (verbs[i+1].v == 's' || verbs[i+1].v == 'v') && isLenOf(elems[i], elems[i+1])) {
						bad = "the number " + descDepth(elems[i], 2) + " is written without a terminator"
					}
				default:
					bad = "verb %" + string(vb.v) + " is not one of the recognised self-delimiting forms"
				}
			}
		case isCall && (isCallTo(dc, "encoding/json.Marshal") || (dc.Common().StaticCallee() != nil && dc.Common().StaticCallee().Name() == "JSON")):
		default:
			if b, isB := data.Type().Underlying().(*types.Basic); isB && b.Info()&types.IsBoolean != 0 {
				break
			}
			bad = "the value " + descDepth(data, 2) + " is written bare"
		}
		c.Obl(bad == "", rule, "pool-key-encoding-injective/"+nthCallKey(ci), P.Pos(ci.Pos()), "this part of the hashed text is self-delimiting",
			"the text hashed into the pool key is ambiguous: "+bad+" — two different TLS settings can concatenate to the same text and share one pooled configuration (one filter then trusts the other filter's CA)")
	}
	if n == 0 {
		// the key function builds its text in one piece (a JSON rendering, a single Sprintf handed to a hash constructor): there
		// are no incremental writes to judge; that the text consumes every setting is decided by hash-consumes-every-field
		c.Pass(rule, "pool-key-encoding-sites", "-", "the key function makes no incremental writes into a buffer or hash: nothing to judge here")
		return
	}
	c.Pass(rule, "pool-key-encoding-sites", "-", fmt.Sprintf("%d variable part(s) of the hashed text examined", n))
}
