package main

import (
	"encoding/json"
	"fmt"
	"os"
	"path/filepath"
	"sort"
	"strconv"
	"strings"
	"time"
)

// Obligation is one instance of a rule on one construct of /repo's current source.
type Obligation struct {
	Rule   string `json:"rule"`
	Key    string `json:"key"` // rule + construct, position-free
	Where  string `json:"where"`
	Status string `json:"status"` // discharged | violated | known-finding
	Why    string `json:"why"`
}

type KnownFinding struct {
	State        string `json:"state"` // finding | fixed
	Property     string `json:"property"`
	Key          string `json:"key"`
	What         string `json:"what"`
	Reproduction string `json:"reproduction,omitempty"`
	Commit       string `json:"commit,omitempty"`
}

type Check struct {
	ID       string
	Tier     string
	VerifDir string
	P        *Program
	Obls     []*Obligation
	Rules    map[string]string // rule id → rule text
	ruleOrd  []string
	Assume   []string
	Notes    []string
	floors   map[string]int
	start    time.Time
	extra    map[string]any
	keys     map[string]int
	variant  string // suffix for obligations of a second build variant
}

func NewCheck(id, tier, verifDir string, P *Program) *Check {
	return &Check{ID: id, Tier: tier, VerifDir: verifDir, P: P, Rules: map[string]string{},
		floors: map[string]int{}, start: time.Now(), extra: map[string]any{}, keys: map[string]int{}}
}

// Rule registers a rule text (printed in evidence) and the floor: the minimal number of obligations
// (instances) the rule must generate on any tree where the anchors still resolve.
func (c *Check) Rule(id, text string, floor int) {
	if _, ok := c.Rules[id]; !ok {
		c.ruleOrd = append(c.ruleOrd, id)
	}
	c.Rules[id] = text
	c.floors[id] = floor
}

func (c *Check) add(rule, construct, where, status, why string) {
	key := rule + "/" + construct + c.variant
	c.keys[key]++
	if n := c.keys[key]; n > 1 {
		key = key + "#" + strconv.Itoa(n)
	}
	c.Obls = append(c.Obls, &Obligation{Rule: rule, Key: key, Where: where, Status: status, Why: why})
}

func (c *Check) Pass(rule, construct, where, why string) {
	c.add(rule, construct, where, "discharged", why)
}
func (c *Check) Fail(rule, construct, where, why string) {
	c.add(rule, construct, where, "violated", why)
}

// Obl records pass/fail according to ok.
func (c *Check) Obl(ok bool, rule, construct, where, whyOK, whyFail string) bool {
	if ok {
		c.Pass(rule, construct, where, whyOK)
	} else {
		c.Fail(rule, construct, where, whyFail)
	}
	return ok
}

// Anchor fails the check when a role of the frozen role table cannot be resolved on this tree.
func (c *Check) Anchor(rule, role string, found bool) bool {
	if !found {
		c.Fail(rule, "anchor/"+role, "-", "anchor unresolved: role "+role+
			" has no (or an ambiguous) candidate in the current source; the rule cannot be evaluated and fails closed")
	}
	return found
}

func (c *Check) Note(s string)    { c.Notes = append(c.Notes, s) }
func (c *Check) Assumes(s string) { c.Assume = append(c.Assume, s) }

func loadKnown(verifDir string) ([]KnownFinding, error) {
	b, err := os.ReadFile(filepath.Join(verifDir, "known_findings.json"))
	if err != nil {
		if os.IsNotExist(err) {
			return nil, nil
		}
		return nil, err
	}
	var kf []KnownFinding
	if err := json.Unmarshal(b, &kf); err != nil {
		return nil, err
	}
	return kf, nil
}

// unlisted counts the violations (floors included) that the known-findings file does not list,
// without recording anything.
func (c *Check) unlistedKeys() []string {
	count := map[string]int{}
	for _, o := range c.Obls {
		count[o.Rule]++
	}
	var out []string
	for _, r := range c.ruleOrd {
		if count[r] < c.floors[r] {
			out = append(out, r+"/floor")
		}
	}
	known, err := loadKnown(c.VerifDir)
	if err != nil {
		out = append(out, "known_findings.json")
	}
	kmap := map[string]bool{}
	for _, k := range known {
		if k.Property == c.ID && k.State == "finding" {
			kmap[k.Key] = true
		}
	}
	for _, o := range c.Obls {
		if o.Status == "violated" && !kmap[strings.TrimSuffix(o.Key, "@boringcrypto")] {
			out = append(out, o.Key)
		}
	}
	return out
}

func (c *Check) unlisted() int { return len(c.unlistedKeys()) }

func (c *Check) firstUnlisted() string {
	if k := c.unlistedKeys(); len(k) > 0 {
		return k[0]
	}
	return ""
}

// Finish applies floors and the known-findings file, writes evidence and (on violation) the report,
// prints the protocol lines and returns the exit code.
func (c *Check) Finish() int {
	// floors
	count := map[string]int{}
	for _, o := range c.Obls {
		count[o.Rule]++
	}
	for _, r := range c.ruleOrd {
		if count[r] < c.floors[r] {
			c.Fail(r, "floor", "-", fmt.Sprintf("rule generated %d obligations, below the hand-confirmed floor %d: "+
				"the rule lost its anchors (a rule matching too few sites would pass vacuously)", count[r], c.floors[r]))
		}
	}
	known, err := loadKnown(c.VerifDir)
	if err != nil {
		c.Fail(c.ID+".meta", "known_findings.json", "-", "cannot read known findings: "+err.Error())
	}
	kmap := map[string]KnownFinding{}
	for _, k := range known {
		if k.Property == c.ID && k.State == "finding" {
			kmap[k.Key] = k
		}
	}
	var viol, knownHit []*Obligation
	for _, o := range c.Obls {
		if o.Status != "violated" {
			continue
		}
		if k, ok := kmap[strings.TrimSuffix(o.Key, "@boringcrypto")]; ok {
			o.Status = "known-finding"
			knownHit = append(knownHit, o)
			fmt.Printf("KNOWN-FINDING: property=%s %s — %s (%s)\n", c.ID, o.Key, k.What, o.Where)
			continue
		}
		viol = append(viol, o)
	}
	discharged := 0
	distinct := map[string]bool{}
	for _, o := range c.Obls {
		if o.Status == "discharged" {
			discharged++
		}
		distinct[o.Key] = true
	}
	fmt.Printf("%s [%s]: packages=%d(own)/%d functions=%d rules=%d obligations=%d discharged=%d known-findings=%d violations=%d\n",
		c.ID, c.Tier, len(c.P.Pkgs), c.P.AllPkgs, len(c.P.Funcs), len(c.ruleOrd), len(c.Obls), discharged, len(knownHit), len(viol))
	for _, r := range c.ruleOrd {
		fmt.Printf("  %-8s %3d obligations  %s\n", r, count[r], firstSentence(c.Rules[r]))
	}

	seed := 0
	if s := os.Getenv("VERIF_SEED"); s != "" {
		if n, err := strconv.Atoi(s); err == nil {
			seed = n
		}
	}
	// samples: violated first, then known, then a spread of discharged
	var samples []any
	addS := func(o *Obligation) { samples = append(samples, o) }
	for _, o := range viol {
		addS(o)
	}
	for _, o := range knownHit {
		addS(o)
	}
	perRule := map[string]int{}
	for _, o := range c.Obls {
		if o.Status == "discharged" && perRule[o.Rule] < 3 {
			perRule[o.Rule]++
			addS(o)
		}
	}
	rulesOut := []map[string]any{}
	for _, r := range c.ruleOrd {
		rulesOut = append(rulesOut, map[string]any{"rule": r, "text": c.Rules[r], "obligations": count[r], "floor": c.floors[r]})
	}
	var pk []string
	for _, p := range c.P.Pkgs {
		pk = append(pk, strings.TrimPrefix(p.PkgPath, modPath+"/"))
	}
	cov := map[string]any{
		"explanation": "Static analysis of /repo's working tree (go/packages + go/types + go/ssa, nothing executed). " +
			"Each rule below is instantiated on every matching construct; an obligation is one (rule, construct) pair. " +
			"See /verif/DESIGN.md section 4 (" + c.ID + ") for what is and is not decided.",
		"rules":               rulesOut,
		"obligations":         len(c.Obls),
		"discharged":          discharged,
		"known_findings":      len(knownHit),
		"evaluations":         len(c.Obls),
		"distinct_nontrivial": len(distinct),
		"rule":                "one obligation per (rule, construct key); distinct = distinct construct keys; every obligation has a non-empty premise on this tree (rules with no instance fail their floor)",
		"samples":             samples,
		"exhaustive":          true,
		"packages_analysed":   pk,
		"packages_visited":    c.P.AllPkgs,
		"functions_analysed":  len(c.P.Funcs),
		"whole_program":       c.P.Whole,
		"checker_cmd":         "bin/check " + c.ID + " " + c.Tier,
		"trusted_base":        []string{"go/types, go/ssa (x/tools v0.29.0)", "role table in /verif/checker (printed in rule texts)", "library contracts listed under assumptions"},
		"notes":               c.Notes,
	}
	for k, v := range c.extra {
		cov[k] = v
	}
	ev := map[string]any{
		"property_id": c.ID,
		"tier":        c.Tier,
		"seed":        seed,
		"level":       "other",
		"coverage":    cov,
		"assumptions": c.Assume,
		"wall_s":      time.Since(c.start).Seconds(),
		"violations":  len(viol),
	}
	evDir := filepath.Join(c.VerifDir, "evidence")
	_ = os.MkdirAll(evDir, 0o755)
	writeJSON(filepath.Join(evDir, c.ID+".json"), ev)

	if len(viol) == 0 {
		return 0
	}
	repDir := filepath.Join(c.VerifDir, "reports")
	_ = os.MkdirAll(repDir, 0o755)
	rep := filepath.Join(repDir, c.ID+"-"+c.Tier+".json")
	writeJSON(rep, map[string]any{"property": c.ID, "tier": c.Tier, "violations": viol, "rules": c.Rules})
	sort.SliceStable(viol, func(i, j int) bool { return viol[i].Key < viol[j].Key })
	for _, o := range viol {
		fmt.Printf("  violated %s at %s: %s\n", o.Key, o.Where, o.Why)
	}
	fmt.Printf("VIOLATION property=%s replay=%s\n", c.ID, rep)
	return 1
}

func writeJSON(path string, v any) {
	b, err := json.MarshalIndent(v, "", " ")
	if err != nil {
		fmt.Fprintln(os.Stderr, "marshal:", err)
		return
	}
	if err := os.WriteFile(path, append(b, '\n'), 0o644); err != nil {
		fmt.Fprintln(os.Stderr, "write:", err)
	}
}

func firstSentence(s string) string {
	if i := strings.Index(s, ". "); i > 0 && i < 140 {
		return s[:i+1]
	}
	if len(s) > 140 {
		return s[:140] + "…"
	}
	return s
}

// importObls evaluates another property's rules on the same program and files the obligations selected
// by keep under rule `to` of this check (same construct key, so known-findings and floors stay per rule).
// importDepth guards against import cycles between properties (C10 files rules of C12 and the reverse): only the
// check that was asked for imports; a check that is itself evaluated for an import does not import further.
var importDepth int

func importObls(c *Check, otherID string, other func(*Check), to string, keep func(*Obligation) bool) int {
	if importDepth > 0 {
		return 0
	}
	importDepth++
	defer func() { importDepth-- }()
	tc := NewCheck(otherID, c.Tier, c.VerifDir, c.P)
	func() {
		defer func() {
			if r := recover(); r != nil {
				c.Fail(to, "imported-rules-of-"+otherID, "-", fmt.Sprintf("the rules of %s did not complete: %v", otherID, r))
			}
		}()
		other(tc)
	}()
	n := 0
	for _, o := range tc.Obls {
		if !keep(o) {
			continue
		}
		construct := strings.TrimPrefix(o.Key, o.Rule+"/")
		if o.Status == "violated" {
			c.Fail(to, construct, o.Where, o.Why)
		} else {
			c.Pass(to, construct, o.Where, o.Why)
		}
		n++
	}
	return n
}
