package main

import (
	"fmt"
	"go/token"
	"strings"

	"golang.org/x/tools/go/ssa"
)

func init() { registry["C09"] = checkC09 }

// mayCallExchange: fn (transitively, own static calls) performs the blocking token-endpoint round trip.
func mayCall(fn, target *ssa.Function, depth int, seen map[*ssa.Function]bool) bool {
	if fn == nil || depth == 0 || seen[fn] {
		return false
	}
	seen[fn] = true
	if fn == target {
		return true
	}
	for _, ci := range allCalls(fn) {
		if callee := ci.Common().StaticCallee(); callee != nil && callee.Blocks != nil && isOwnPath(pkgPathOf(callee)) {
			if callee == target || mayCall(callee, target, depth-1, seen) {
				return true
			}
		}
	}
	return false
}

func checkC09(c *Check) {
	P := c.P
	m := getHModel(P)
	R := m.R
	c.Assumes("interleavings as such are not explored; the schedule clause is decided as an effect-ordering rule (read → blocking IdP call → creating write). Two concurrent refreshes are not examined")
	c.Rule("C09.R1", "logout precedes everything: in Process every call of the OK writer and every call that can reach the token endpoint lies on the false edge of the logout-path test.", 4)
	c.Rule("C09.R2", "remove-then-answer: with a session id present the logout answer is reachable only through RemoveSession for that id; once RemoveSession failed, only a denial built by the session-error constructor (no Location, no Set-Cookie) is reachable.", 3)
	c.Rule("C09.R3", "answer shape: the logout answer redirects to config.GetLogout().GetRedirectUri() and expires the session cookie (timeout 0); with discovery, loadWellKnownConfig fills an empty logout redirect URI from end_session_endpoint or returns ErrMissingLogoutRedirectURI.", 4)
	c.Rule("C09.R6", "a removed Redis session stays removed for checks in flight: every successful return of the five Redis session operations has passed through the TTL refresher with err == nil, and the refresher reports a key without creation time as an error (the rules of C10.R3) — the callback of a login that was under way when the logout was answered fails at its next store operation instead of re-creating the session.", 9)
	c.Rule("C09.R5", "the stores report a failed removal: the Redis store's RemoveSession returns the DEL command's error (nil only when Err() is nil), the memory store deletes unconditionally — so that `cannot be removed` reaches the handler as an error (R2).", 2)
	c.Rule("C09.R4", "no resurrecting write: a store write that creates the session when absent (SetTokenResponse) must not follow, in one check, a blocking token-endpoint round trip that itself follows the read which justified the write — a logout answered during the round trip would be undone by the write. (Existence-conditional writes would satisfy the rule; the store interface offers none.)", 2)
	if !requireModel(c, "C09.R1", m, "hw.", "cookie.builder") {
		return
	}
	pr := R.OIDCProcess
	ff := FactsOf(pr)
	notLogout := func(ins ssa.Instruction) bool {
		for cond, pol := range ff.At(ins) {
			if lc, _, ok := asCall(cond); ok && lc.Common().StaticCallee() == R.LogoutMatch && !pol {
				return true
			}
		}
		return false
	}
	// ---- R1
	n := 0
	for _, ci := range allCalls(pr) {
		cc, ok := ci.(*ssa.Call)
		if !ok {
			continue
		}
		callee := cc.Common().StaticCallee()
		if callee == nil {
			continue
		}
		sensitive := callee == R.AllowFn || mayCall(callee, R.TokenExchange, 4, map[*ssa.Function]bool{})
		if !sensitive {
			continue
		}
		n++
		c.Obl(notLogout(cc), "C09.R1", "after-logout-test/"+nthCallKey(cc), P.Pos(cc.Pos()), "reached only when the request is not a logout",
			"a call that can allow the request or contact the token endpoint ("+callee.Name()+") is reachable without the logout test having been negative")
	}
	var logoutCall *ssa.Call
	for _, ci := range callsToFn(pr, R.LogoutMatch) {
		logoutCall, _ = ci.(*ssa.Call)
	}
	if !c.Anchor("C09.R1", "logout-path test in Process", logoutCall != nil) {
		return
	}
	// the logout test uses the handler's config and the current request
	c.Obl(isHandlerConfig(logoutCall.Common().Args[1]), "C09.R1", "logout-test-config", P.Pos(logoutCall.Pos()), "logout test against the handler's own configuration", "the logout test is not evaluated against the handler's configuration")

	// the logout test itself: true iff a logout is configured and the request's path component equals its path
	{
		lm := R.LogoutMatch
		lff := FactsOf(lm)
		okShape, nTrue := true, 0
		why := ""
		for _, r := range returnsOf(lm) {
			if b, isC := constBool(r.Results[0]); isC && !b {
				continue
			}
			nTrue++
			fs := lff.At(r)
			eq := false
			for cond, pol := range fs {
				bo, ok := cond.(*ssa.BinOp)
				if !ok || !isString(bo.X.Type()) || (bo.Op != token.EQL && bo.Op != token.NEQ) || ((bo.Op == token.EQL) != pol) {
					continue
				}
				isReqPath := func(v ssa.Value) bool {
					sc, si, isC := asCall(resolveCell(stripConv(v)))
					return isC && si == 0 && isCallTo(sc, fSplit)
				}
				isCfgPath := func(v ssa.Value) bool {
					gc, _, isC := asCall(resolveCell(stripConv(v)))
					return isC && isCallTo(gc, pkgCfgOIDC+".LogoutConfig.GetPath")
				}
				if (isReqPath(bo.X) && isCfgPath(bo.Y)) || (isReqPath(bo.Y) && isCfgPath(bo.X)) {
					eq = true
				}
			}
			if !eq {
				okShape, why = false, "a `true` outcome is not guarded by request path (splitter result #0) == configured logout path"
			}
		}
		// a request whose path equals the logout path is recognised: the false returns are only `no logout configured` or `paths differ`
		for _, r := range returnsOf(lm) {
			if b, isC := constBool(r.Results[0]); !isC || b {
				continue
			}
			for _, last := range branchConds(r) {
				inner, _ := unwrapBool(last)
				okReason := false
				if bo, isB := inner.(*ssa.BinOp); isB {
					if isNilConst(bo.Y) {
						if gc, _, isC := asCall(bo.X); isC && isCallTo(gc, idOIDCConfig+".GetLogout") {
							okReason = true
						}
					}
					isReqPath := func(v ssa.Value) bool {
						sc, si, isC := asCall(resolveCell(stripConv(v)))
						return isC && si == 0 && isCallTo(sc, fSplit)
					}
					isCfgPath := func(v ssa.Value) bool {
						gc, _, isC := asCall(resolveCell(stripConv(v)))
						return isC && isCallTo(gc, pkgCfgOIDC+".LogoutConfig.GetPath")
					}
					if isString(bo.X.Type()) && ((isReqPath(bo.X) && isCfgPath(bo.Y)) || (isReqPath(bo.Y) && isCfgPath(bo.X))) {
						okReason = true
					}
				}
				if !okReason {
					okShape, why = false, "the logout test can fail for a reason other than `no logout configured` / `path differs` ("+descDepth(last, 3)+")"
				}
			}
		}
		c.Obl(okShape && nTrue >= 1, "C09.R1", "logout-test-shape", P.Pos(lm.Pos()), "logout request ⇔ logout configured ∧ path component == configured logout path", "logout test: "+why)
	}

	// ---- R2
	var sid *ssa.Call
	for _, ci := range callsToFn(pr, R.CookieReader) {
		sid, _ = ci.(*ssa.Call)
	}
	var remove *ssa.Call
	for _, ci := range callsTo(pr, mRemove) {
		cc := ci.(*ssa.Call)
		if v, k := ff.At(cc).truth(logoutCall); k && v {
			remove = cc
		}
	}
	// the logout answer: the deny-writer call under logout == true whose deny got a location
	var answer *ssa.Call
	for _, ci := range callsToFn(pr, R.DenyWriter) {
		cc := ci.(*ssa.Call)
		if v, k := ff.At(cc).truth(logoutCall); !(k && v) {
			continue
		}
		d := resolveCell(stripConv(cc.Common().Args[1]))
		for _, li := range callsToFn(pr, m.LocationWriter.Fn) {
			if sameVal(li.Common().Args[m.LocationWriter.DenyIdx], d) {
				answer = cc
			}
		}
	}
	if c.Anchor("C09.R2", "logout answer and RemoveSession in the logout branch", answer != nil && remove != nil && sid != nil) {
		c.Obl(resolveCell(stripConv(callArgs(remove)[1])) == ssa.Value(sid), "C09.R2", "removes-presented-session", P.Pos(remove.Pos()),
			"the session removed is the one named by the request's cookie", "logout removes "+descDepth(callArgs(remove)[1], 2)+", not the session named by the cookie")
		// atoms: logout true, sid != "" true
		atoms := atomEnv{logoutCall: true}
		for _, b := range pr.Blocks {
			for _, ins := range b.Instrs {
				if bo, ok := ins.(*ssa.BinOp); ok && (bo.Op == token.NEQ || bo.Op == token.EQL) && bo.X == ssa.Value(sid) {
					if s, isC := constString(bo.Y); isC && s == "" {
						atoms[bo] = bo.Op == token.NEQ
					}
				}
			}
		}
		hit := existsPath(pr, atoms, func(i ssa.Instruction) bool { return i == ssa.Instruction(answer) }, func(i ssa.Instruction) bool { return i == ssa.Instruction(remove) })
		c.Obl(len(atoms) >= 2 && hit == nil, "C09.R2", "remove-before-answer", P.Pos(answer.Pos()), "with a session id the logout answer is reached only through RemoveSession",
			"the logout answer can be sent for a request that carries a session id without the session having been removed")
		region := failureRegion(pr, remove, -1, failErrNonNil)
		okFail := len(region) > 0
		whyFail := "RemoveSession's error is not tested"
		if okFail {
			if h := reachFromBlocks(region, func(i ssa.Instruction) bool {
				cc, ok := i.(*ssa.Call)
				if !ok {
					return false
				}
				callee := cc.Common().StaticCallee()
				return callee == m.LocationWriter.Fn || callee == m.SetCookieWriter.Fn || callee == R.AllowFn
			}, nil); h != nil {
				okFail, whyFail = false, "after a failed RemoveSession a redirect/cookie/allow is still reachable at "+P.Pos(instrPos(h))
			}
			// the answer there is a denial that carries neither the logout Location nor a cookie header
			// (whichever builder made it): an error, not a successful logout
			sawErrDeny := false
			for _, b := range region {
				for _, ins := range b.Instrs {
					cc, ok := ins.(*ssa.Call)
					if !ok || cc.Common().StaticCallee() == nil {
						continue
					}
					// the denial is written here, or by a small helper of the handler's package that does nothing else
					// (`denySessionError(resp)`)
					in, site := pr, cc
					if callee := cc.Common().StaticCallee(); callee != R.DenyWriter && pkgPathOf(callee) == pkgAuthz && callee != R.Redirect {
						for _, di := range callsToFn(callee, R.DenyWriter) {
							if dc, isC := di.(*ssa.Call); isC {
								in, site = callee, dc
							}
						}
					}
					if site.Common().StaticCallee() == R.DenyWriter {
						d := resolveCell(stripConv(site.Common().Args[1]))
						plain := true
						for _, w := range []*headerWriter{m.LocationWriter, m.SetCookieWriter} {
							for _, li := range callsToFn(in, w.Fn) {
								if sameVal(li.Common().Args[w.DenyIdx], d) {
									plain = false
								}
							}
						}
						if plain {
							sawErrDeny = true
						}
					}
				}
			}
			if okFail && !sawErrDeny {
				okFail, whyFail = false, "a failed RemoveSession is not answered with a plain denial (one without the logout Location and cookie)"
			}
		}
		c.Obl(okFail, "C09.R2", "remove-failure-reports-error", P.Pos(remove.Pos()), "a failed removal is reported as a session error, never as a successful logout", whyFail)
	}

	// ---- R3
	headersOwnBacking(c, "C09.R3", R)
	// the discovered end-session endpoint is the one of this filter's own discovery document
	discoveryCacheKeyRule(c, "C09.R3")
	discoveryWheneverConfigured(c, "C09.R3")
	// the configured end-session URI (and the explicit endpoints) are what was loaded: only the discovery loader fills them
	configFieldsNotWritten(c, "C09.R3", "endpoints-as-configured", map[string]bool{
		pkgCfgOIDC + ".LogoutConfig.RedirectUri": true, pkgCfgOIDC + ".OIDCConfig.AuthorizationUri": true, pkgCfgOIDC + ".OIDCConfig.TokenUri": true,
		pkgCfgOIDC + ".OIDCConfig.Logout": true,
	}, "the logout answer no longer redirects to the configured end-session URI (a cleared value is silently replaced by the discovered one)", P.Func(pkgAuthz, "loadWellKnownConfig"))
	if answer != nil {
		d := resolveCell(stripConv(answer.Common().Args[1]))
		okLoc, okCookie, okName := false, false, false
		for _, li := range callsToFn(pr, m.LocationWriter.Fn) {
			if !sameVal(li.Common().Args[m.LocationWriter.DenyIdx], d) {
				continue
			}
			v := li.Common().Args[m.LocationWriter.ValIdx]
			okLoc = isGetterOn(v, pkgCfgOIDC+".LogoutConfig.GetRedirectUri", func(r ssa.Value) bool { return cfgGetter(r, "GetLogout") })
		}
		for _, si := range callsToFn(pr, m.SetCookieWriter.Fn) {
			if !sameVal(si.Common().Args[m.SetCookieWriter.DenyIdx], d) {
				continue
			}
			bc, _, isC := asCall(resolveCell(stripConv(si.Common().Args[m.SetCookieWriter.ValIdx])))
			if isC && bc.Common().StaticCallee() == m.CookieBuilder {
				t, isK := constInt(bc.Common().Args[2])
				okCookie = isK && t == 0
				// … and it is this filter's session cookie that is expired: the name is getCookieName(handler config)
				nc, _, isN := asCall(resolveCell(stripConv(bc.Common().Args[0])))
				okName = isN && nc.Common().StaticCallee() == R.CookieName && isHandlerConfig(nc.Common().Args[0])
			}
		}
		c.Obl(okLoc, "C09.R3", "logout-location", P.Pos(answer.Pos()), "Location ← config.GetLogout().GetRedirectUri()", "the logout answer does not redirect to the configured logout redirect URI")
		c.Obl(okName, "C09.R3", "logout-cookie-is-own-cookie", P.Pos(answer.Pos()), "the expired cookie is named by getCookieName(handler configuration)",
			"the cookie the logout answer expires is not named by the filter's own cookie name: the real session cookie survives (and another filter's cookie may be expired instead)")
		c.Obl(okCookie, "C09.R3", "logout-cookie-expired", P.Pos(answer.Pos()), "the session cookie is expired (timeout 0)", "the logout answer does not expire the session cookie")
	}
	lw := P.Func(pkgAuthz, "loadWellKnownConfig")
	if c.Anchor("C09.R3", "loadWellKnownConfig", lw != nil) {
		g := P.SSA[pkgAuthz].Var("ErrMissingLogoutRedirectURI")
		filled, refused := false, false
		for _, b := range lw.Blocks {
			for _, ins := range b.Instrs {
				if st, ok := ins.(*ssa.Store); ok {
					if fa, isF := st.Addr.(*ssa.FieldAddr); isF && fieldAddrID(fa) == pkgCfgOIDC+".LogoutConfig.RedirectUri" {
						if _, f, okf := fieldLoad(resolveCell(stripConv(st.Val))); okf && f != nil && f.Name() == "EndSessionEndpoint" {
							filled = true
						}
					}
				}
				if r, ok := ins.(*ssa.Return); ok {
					for _, l := range Leaves(r.Results[0], leafOpts{noConcat: true}) {
						if isLoadOfGlobal(l, g) {
							// under EndSessionEndpoint == ""
							for cond, pol := range FactsOf(lw).At(r) {
								if bo, isB := cond.(*ssa.BinOp); isB {
									if _, f, okf := fieldLoad(resolveCell(stripConv(bo.X))); okf && f != nil && f.Name() == "EndSessionEndpoint" {
										if s, isC := constString(bo.Y); isC && s == "" && ((bo.Op == token.EQL && pol) || (bo.Op == token.NEQ && !pol)) {
											refused = true
										}
									}
								}
							}
						}
					}
				}
			}
		}
		// the discovered value only fills an EMPTY configured value
		fillGuard := false
		for _, b := range lw.Blocks {
			for _, ins := range b.Instrs {
				if st, ok := ins.(*ssa.Store); ok {
					if fa, isF := st.Addr.(*ssa.FieldAddr); isF && fieldAddrID(fa) == pkgCfgOIDC+".LogoutConfig.RedirectUri" {
						for cond, pol := range FactsOf(lw).At(st) {
							if bo, isB := cond.(*ssa.BinOp); isB {
								if gc, _, isC := asCall(bo.X); isC && isCallTo(gc, pkgCfgOIDC+".LogoutConfig.GetRedirectUri") {
									if s2, isS := constString(bo.Y); isS && s2 == "" && ((bo.Op == token.EQL && pol) || (bo.Op == token.NEQ && !pol)) {
										fillGuard = true
									}
								}
							}
						}
					}
				}
			}
		}
		c.Obl(fillGuard, "C09.R3", "discovery/configured-value-wins", P.Pos(lw.Pos()), "the discovered end-session URI is used only when none is configured",
			"discovery overwrites an explicitly configured logout redirect URI")
		c.Obl(filled, "C09.R3", "discovery/filled", P.Pos(lw.Pos()), "an empty logout redirect URI is filled from end_session_endpoint", "discovery no longer fills the logout redirect URI from end_session_endpoint")
		c.Obl(refused, "C09.R3", "discovery/refused", P.Pos(lw.Pos()), "a missing end_session_endpoint is refused with ErrMissingLogoutRedirectURI", "a discovery document without end_session_endpoint is accepted although logout is configured without a redirect URI")
	}

	storesReportFailedRemoval(c, "C09.R5")
	// the logout is recognised by the matched filter's own handler (its logout path, end-session URI and cookie name)
	if pc := processInvoke(P, R); c.Anchor("C09.R1", "Handler.Process invocation in Check", pc != nil) {
		handlerBuiltPerCheck(c, "C09.R1", R.CheckEntry, pc)
	}
	// the session to remove is the one the request presents, however its Cookie header is spaced (C05.R2's decoder rule)
	cookieDecoderComplete(c, "C09.R2")
	factoryGetIsALookup(c, "C09.R2")
	// a logged-out (deleted) Redis session is noticed by every later operation of a check that was in flight: each
	// successful operation passes through the TTL refresher, which fails on a key without creation time (C10.R3)
	if sr, miss := getStoreRoles(P); c.Anchor("C09.R6", "session stores", len(miss) == 0) {
		refile(c, "C09.R6", func() { c10R3(c, sr) })
	}
	// what a refresh writes back is what the exchange produced: the refresh helper returns a freshly built object and only
	// after a successful exchange (C01.R2) — handing the stored tokens back on a failed round trip makes the caller
	// re-create, with the old tokens, a session that a logout removed while the round trip was in flight
	if c.ID == "C09" {
		importObls(c, "C01", checkC01, "C09.R4", func(o *Obligation) bool {
			return strings.HasPrefix(o.Key, "C01.R2/refresh-result-is-a-new-object") || strings.HasPrefix(o.Key, "C01.R2/allow/") // round 9: every OK, not only the one after a refresh, answers from what this check read from the store or obtained from the token endpoint — an OK served from anything else (a table of refreshes in flight) cannot see a removal
		})
	}

	// ---- R4
	// the callback re-checks the session after the code exchange: between the blocking token-endpoint round trip and
	// the token write lies a store operation on the same session id that fails when the session was removed in the
	// meantime (ClearAuthorizationState on the Redis store: C09.R6) and whose failure ends the callback
	if m.CbExchange != nil && m.CbClear != nil && m.CbSetToken != nil {
		cb := m.CbSetToken.Parent()
		passes := m.CbClear.Parent() == cb && m.CbExchange.Parent() == cb &&
			reachAvoiding(m.CbExchange, nil, func(i ssa.Instruction) bool { return i == ssa.Instruction(m.CbSetToken) },
				func(i ssa.Instruction) bool { return i == ssa.Instruction(m.CbClear) }) == nil &&
			FactsOf(cb).At(m.CbSetToken).CallErrNil(m.CbClear, -1) && sameVal(callArgs(m.CbClear)[1], callArgs(m.CbSetToken)[1])
		c.Obl(passes, "C09.R4", "callback-rechecks-session-after-exchange", P.Pos(m.CbSetToken.Pos()),
			"exchange → ClearAuthorizationState(sid) err == nil → SetTokenResponse(sid): a session removed during the exchange is noticed before the tokens are written",
			"no failing store operation on the session lies between the code exchange and the token write: a logout answered while the callback waits for the token endpoint is followed by a write that re-creates the session")
	}
	nR4 := 0
	for _, fn := range R.HandlerFuncs {
		if fn.Parent() != nil {
			continue
		}
		for _, wi := range callsTo(fn, mSetToken) {
			w, ok := wi.(*ssa.Call)
			if !ok {
				continue
			}
			// is there a call that may reach the token exchange from which w is reachable?
			var trip *ssa.Call
			for _, ci := range allCalls(fn) {
				cc, isC := ci.(*ssa.Call)
				if !isC {
					continue
				}
				callee := cc.Common().StaticCallee()
				if callee == nil || !mayCall(callee, R.TokenExchange, 4, map[*ssa.Function]bool{}) {
					continue
				}
				if reachAvoiding(cc, nil, func(i ssa.Instruction) bool { return i == ssa.Instruction(w) }, nil) != nil {
					trip = cc
				}
			}
			nR4++
			key := strings.TrimPrefix(fnKey(fn), "internal/authz.") // keep keys short and stable
			key = fnKey(fn) + "/SessionStore.SetTokenResponse"
			if trip == nil {
				c.Pass("C09.R4", key, P.Pos(w.Pos()), "no token-endpoint round trip precedes this creating write")
				continue
			}
			// which read justified it?
			read := "store read"
			for _, ri := range callsTo(fn, mGetToken, mGetState) {
				rc := ri.(*ssa.Call)
				if reachAvoiding(rc, nil, func(i ssa.Instruction) bool { return i == ssa.Instruction(trip) }, nil) != nil {
					read = shortID(funcID(calleeOf(rc).Obj))
				}
			}
			c.Fail("C09.R4", key, P.Pos(w.Pos()), fmt.Sprintf("%s → blocking token-endpoint round trip (%s at %s) → unconditional creating write SetTokenResponse: a logout answered while the round trip is in flight is undone by this write (the session is re-created and later requests with the old cookie are answered OK)",
				read, trip.Common().StaticCallee().Name(), P.Pos(trip.Pos())))
		}
	}
	c.Obl(nR4 >= 2, "C09.R4", "creating-writes", "-", fmt.Sprintf("%d creating token writes analysed", nR4), "creating token writes not found")
}

// sharesGlobalBacking: the slice value can share its backing array with a package-level slice (the global
// itself, a reslice of it, or an append whose first operand does).
func sharesGlobalBacking(v ssa.Value, depth int) bool {
	if depth > 6 {
		return false
	}
	switch x := stripConv(v).(type) {
	case *ssa.UnOp:
		if x.Op == token.MUL {
			if _, isG := x.X.(*ssa.Global); isG {
				return true
			}
			if al, isA := x.X.(*ssa.Alloc); isA {
				for _, st := range storesTo(al) {
					if sharesGlobalBacking(st.Val, depth+1) {
						return true
					}
				}
			}
		}
	case *ssa.Slice:
		return sharesGlobalBacking(x.X, depth+1)
	case *ssa.Phi:
		for _, e := range x.Edges {
			if sharesGlobalBacking(e, depth+1) {
				return true
			}
		}
	case *ssa.Call:
		if b, ok := x.Call.Value.(*ssa.Builtin); ok && b.Name() == "append" && len(x.Call.Args) > 0 {
			return sharesGlobalBacking(x.Call.Args[0], depth+1)
		}
	}
	return false
}

// storesReportFailedRemoval: the Redis store's RemoveSession returns the DEL command's error (nil only when
// Err() is nil), the memory store deletes unconditionally. Filed under C09.R5 and C05.R2 (a presented
// session that cannot be destroyed must stop the login redirect).
func storesReportFailedRemoval(c *Check, rule string) {
	P := c.P
	sr, smissing := getStoreRoles(P)
	if len(smissing) == 0 {
		for _, m2 := range sr.redisMethods {
			if m2.Name() != "RemoveSession" || m2.Parent() != nil {
				continue
			}
			dels := redisCalls(m2, "Del")
			okRem := len(dels) == 1
			why := "RemoveSession does not issue exactly one DEL"
			if okRem {
				del := dels[0].(*ssa.Call)
				for _, r := range returnsOf(m2) {
					for _, l := range Leaves(r.Results[0], leafOpts{noConcat: true}) {
						// acceptable: the DEL command's Err() result itself, or nil under Err() == nil
						if ec, _, isC := asCall(l); isC && strings.HasSuffix(funcID(calleeOf(ec).Obj), ".Err") && dataDeps(ec.Common().Args[0])[del] {
							continue
						}
						if isNilConst(l) {
							okNil := false
							for cond, pol := range FactsOf(m2).At(r) {
								if bo, isB := cond.(*ssa.BinOp); isB && isNilConst(bo.Y) {
									if ec, _, isC := asCall(resolveCell(bo.X)); isC && strings.HasSuffix(funcID(calleeOf(ec).Obj), ".Err") && dataDeps(ec.Common().Args[0])[del] {
										if (bo.Op == token.EQL && pol) || (bo.Op == token.NEQ && !pol) {
											okNil = true
										}
									}
								}
							}
							if okNil {
								continue
							}
							okRem, why = false, "RemoveSession can return nil without the DEL command's Err() being known nil: a failed removal is reported as success"
							continue
						}
						if isErrorType(l.Type()) {
							continue // some other error value
						}
					}
				}
			}
			c.Obl(okRem, rule, "redis-remove-reports-failure", P.Pos(m2.Pos()), "Redis RemoveSession returns the DEL command's error", why)
		}
		for _, m2 := range sr.memMethods {
			if m2.Name() != "RemoveSession" || m2.Parent() != nil {
				continue
			}
			// the delete is unconditional: every return passes it
			okDel := true
			for _, r := range returnsOf(m2) {
				if !mustPassBefore(m2, r, func(i ssa.Instruction) bool {
					cc, ok := i.(*ssa.Call)
					if !ok {
						return false
					}
					bi, isB := cc.Call.Value.(*ssa.Builtin)
					return isB && bi.Name() == "delete"
				}) {
					okDel = false
				}
			}
			c.Obl(okDel, rule, "memory-remove-unconditional", P.Pos(m2.Pos()), "memory RemoveSession deletes the key on every path", "memory RemoveSession can return without deleting the session")
		}
	}

}

// headersOwnBacking: no response's Headers share the backing array of a package-level slice (headers appended
// for one answer would be overwritten by the next check's). Filed under C09.R3, C03.R3, C05.R5, C13.R4, C16.R4.
func headersOwnBacking(c *Check, rule string, R *Roles) {
	P := c.P
	// the answer's header list is the answer's own: a response whose Headers share the backing array of a
	// package-level slice is rewritten by whichever check appends next
	nHdr := 0
	for _, hf := range R.HandlerFuncs {
		for _, b := range hf.Blocks {
			for _, ins := range b.Instrs {
				st, ok := ins.(*ssa.Store)
				if !ok {
					continue
				}
				fa, isF := st.Addr.(*ssa.FieldAddr)
				if !isF || (fieldAddrID(fa) != idDenied+".Headers" && fieldAddrID(fa) != idOkHTTP+".Headers") {
					continue
				}
				nHdr++
				shared := sharesGlobalBacking(st.Val, 0)
				c.Obl(!shared, rule, "headers-own-backing/"+fnKey(hf)+fmt.Sprintf("#%d", nHdr), P.Pos(st.Pos()), "the response's header list is built by appending to the response's own (initially empty) list",
					"a response's Headers can share the backing array of a package-level slice: headers appended for one answer (Location, Set-Cookie) are overwritten by the next check's")
			}
		}
	}
}

// discoveryWheneverConfigured: the handler constructor resolves the discovery document whenever a
// configuration URI is set — the only configuration-dependent condition on the way to the discovery call
// is the non-emptiness of GetConfigurationUri(). Discovery also fills settings that have no explicit
// counterpart in the decision to skip it (the end-session endpoint of the logout answer), so an extra
// "nothing is missing" test silently leaves them empty.
func discoveryWheneverConfigured(c *Check, rule string) {
	P := c.P
	ctor := P.Func(pkgAuthz, "NewOIDCHandler")
	gw := P.Func(pkgOIDC, "GetWellKnownConfig")
	if !c.Anchor(rule, "NewOIDCHandler and GetWellKnownConfig", ctor != nil && gw != nil) {
		return
	}
	var cfgParam *ssa.Parameter
	for _, p := range ctor.Params {
		if typeID(derefType(p.Type())) == idOIDCConfig {
			cfgParam = p
		}
	}
	var site ssa.CallInstruction
	for _, ci := range allCalls(ctor) {
		callee := ci.Common().StaticCallee()
		if callee == nil {
			continue
		}
		if callee == gw {
			site = ci
			continue
		}
		if isOwnPath(pkgPathOf(callee)) {
			for _, f := range deepFuncs(callee, 2) {
				if f == gw {
					site = ci
				}
			}
		}
	}
	if !c.Anchor(rule, "discovery call in NewOIDCHandler", site != nil && cfgParam != nil) {
		return
	}
	bad := ""
	sawURI := false
	for cond, pol := range FactsOf(ctor).At(site) {
		inner, neg := unwrapBool(cond)
		dep := false
		for d := range dataDeps(inner) {
			if d == ssa.Value(cfgParam) {
				dep = true
			}
		}
		if !dep {
			continue
		}
		if bo, ok := inner.(*ssa.BinOp); ok && (bo.Op == token.EQL || bo.Op == token.NEQ) {
			if isNilConst(bo.X) || isNilConst(bo.Y) {
				continue // error / nil tests of earlier steps
			}
			if s, isC := constString(bo.Y); isC && s == "" {
				if gc, _, isCall := asCall(resolveCell(stripConv(bo.X))); isCall && isCallTo(gc, idOIDCConfig+".GetConfigurationUri") {
					if ((bo.Op == token.NEQ) != neg) == pol {
						sawURI = true
					}
					continue
				}
			}
		}
		bad = "the discovery call at " + posOf(P, site) + " is additionally conditioned on " + descDepth(inner, 3)
	}
	c.Obl(bad == "" && sawURI, rule, "discovery-whenever-configured", P.Pos(site.Pos()), "discovery runs under configuration_uri != \"\" and no other configuration-dependent condition",
		"with a configuration URI set, discovery can be skipped: "+bad+" — settings only discovery provides (the end-session endpoint of the logout answer) stay empty")
}

// discoveryFillsEndpoints: once the discovery document was fetched, every successful return of the
// discovery loader has assigned the authorization endpoint, the token endpoint and the JWKS URI of the
// filter's fetcher from that document — whatever fetcher block the configuration already had. An endpoint
// assigned on some paths only leaves the handler with an empty URI (keys fetched from "", every callback
// fails) or with an endpoint of another provider.
func discoveryFillsEndpoints(c *Check, rule string) {
	P := c.P
	lw := P.Func(pkgAuthz, "loadWellKnownConfig")
	gw := P.Func(pkgOIDC, "GetWellKnownConfig")
	if !c.Anchor(rule, "loadWellKnownConfig and GetWellKnownConfig", lw != nil && gw != nil) {
		return
	}
	var fetch *ssa.Call
	for _, ci := range callsToFn(lw, gw) {
		fetch, _ = ci.(*ssa.Call)
	}
	if !c.Anchor(rule, "discovery fetch in loadWellKnownConfig", fetch != nil) {
		return
	}
	for _, pair := range [][2]string{{"AuthorizationUri", "AuthorizationEndpoint"}, {"TokenUri", "TokenEndpoint"}, {"JwksUri", "JWKSURL"}} {
		isFill := func(i ssa.Instruction) bool {
			st, ok := i.(*ssa.Store)
			if !ok {
				return false
			}
			fa, isF := st.Addr.(*ssa.FieldAddr)
			if !isF {
				return false
			}
			f := fieldOf(fa.X.Type(), fa.Field)
			if f == nil || f.Name() != pair[0] {
				return false
			}
			for _, l := range Leaves(st.Val, leafOpts{noConcat: true}) {
				base, lf, isL := fieldLoad(resolveCell(stripConv(l)))
				if !isL || lf == nil || lf.Name() != pair[1] {
					return false
				}
				b0 := resolveCell(stripConv(base))
				if al, isA := b0.(*ssa.Alloc); isA {
					// the document kept in a local variable: `doc, err := fetch(…)`
					if sts := storesTo(al); len(sts) == 1 {
						b0 = resolveCell(stripConv(sts[0].Val))
					}
				}
				if bc, _, isC := asCall(b0); !isC || bc != fetch {
					return false
				}
			}
			// a store into a freshly built fetcher block counts only if that block is what the configuration ends up with
			// on this path; the path condition below (must-pass on every path) takes care of the other paths
			return true
		}
		hit := reachAvoiding(fetch, nil, func(i ssa.Instruction) bool {
			r, ok := i.(*ssa.Return)
			return ok && len(r.Results) > 0 && isNilConst(r.Results[len(r.Results)-1])
		}, isFill)
		c.Obl(hit == nil, rule, "discovery-fills/"+pair[0], P.Pos(fetch.Pos()), pair[0]+" ← document."+pair[1]+" on every successful path",
			"a successful return of the discovery loader ("+posOf(P, hit)+") is reachable without "+pair[0]+" having been assigned from the document's "+pair[1])
	}
}
