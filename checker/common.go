package main

import (
	"fmt"
	"go/token"
	"sort"

	"golang.org/x/tools/go/ssa"
)

// ---- helpers shared by several rule files -----------------------------------------------------------

func returnsOf(fn *ssa.Function) []*ssa.Return {
	var out []*ssa.Return
	for _, b := range fn.Blocks {
		if b != fn.Blocks[0] && len(b.Preds) == 0 {
			continue
		}
		for _, ins := range b.Instrs {
			if r, ok := ins.(*ssa.Return); ok {
				out = append(out, r)
			}
		}
	}
	return out
}

// resultValue returns what a call yields at result index idx (-1 = single result): the Call itself or
// the Extract instruction; nil when the result is discarded.
func resultValue(c *ssa.Call, idx int) ssa.Value {
	if idx < 0 {
		return c
	}
	refs := c.Referrers()
	if refs == nil {
		return nil
	}
	for _, r := range *refs {
		if e, ok := r.(*ssa.Extract); ok && e.Index == idx {
			return e
		}
	}
	return nil
}

// isUsed: a value has at least one non-debug referrer.
func isUsed(v ssa.Value) bool {
	if v == nil {
		return false
	}
	refs := v.Referrers()
	if refs == nil {
		return false
	}
	for _, r := range *refs {
		if _, ok := r.(*ssa.DebugRef); ok {
			continue
		}
		return true
	}
	return false
}

// regionWhere returns the reachable blocks of fn whose entry facts satisfy pred.
func regionWhere(fn *ssa.Function, pred func(FactSet) bool) []*ssa.BasicBlock {
	ff := FactsOf(fn)
	var out []*ssa.BasicBlock
	for _, b := range fn.Blocks {
		fs, ok := ff.In[b]
		if !ok {
			continue
		}
		if pred(fs) {
			out = append(out, b)
		}
	}
	return out
}

// reachFromBlocks: first instruction satisfying target reachable from the start of any of the blocks.
func reachFromBlocks(blocks []*ssa.BasicBlock, target, barrier func(ssa.Instruction) bool) ssa.Instruction {
	for _, b := range blocks {
		if hit := reachAvoiding(nil, b, target, barrier); hit != nil {
			return hit
		}
	}
	return nil
}

// failureKind says how a call result signals failure.
type failureKind int

const (
	failErrNonNil failureKind = iota // error result != nil
	failCodeNotOK                    // codes.Code result != OK
	failBoolFalse                    // bool result false
	failNil                          // pointer/interface result nil
)

// failureRegion: blocks in which result idx of call c is known to signal failure.
func failureRegion(fn *ssa.Function, c *ssa.Call, idx int, kind failureKind) []*ssa.BasicBlock {
	return regionWhere(fn, func(fs FactSet) bool {
		switch kind {
		case failErrNonNil:
			return fs.CallResultNonNil(c, idx)
		case failNil:
			return fs.CallErrNil(c, idx)
		case failBoolFalse:
			v, k := fs.CallBool(c, idx)
			return k && !v
		case failCodeNotOK:
			eq, k := fs.cmp(func(a, b ssa.Value) bool {
				cc, i, ok := asCall(resolveCell(a))
				if !ok || cc != c || i != idx {
					return false
				}
				n, ok := constInt(b)
				return ok && n == 0
			})
			return k && !eq
		}
		return false
	})
}

// valueReturned: v (or a cell holding it) flows directly into some Return of fn (propagation).
func valueReturned(fn *ssa.Function, v ssa.Value) bool {
	for _, r := range returnsOf(fn) {
		for _, res := range r.Results {
			for _, l := range Leaves(res, leafOpts{noConcat: true}) {
				if l == v {
					return true
				}
			}
		}
	}
	return false
}

func blockIdx(bs []*ssa.BasicBlock) string {
	var o []int
	for _, b := range bs {
		o = append(o, b.Index)
	}
	sort.Ints(o)
	return fmt.Sprint(o)
}

// nthCallKey gives a position-free key for a call site: "<caller>/<callee>#n" where n counts the
// calls to the same callee in block/instruction order.
func nthCallKey(c ssa.CallInstruction) string {
	fn := c.Parent()
	ce := calleeOf(c)
	name := "dynamic"
	if ce.Obj != nil {
		name = shortID(funcID(ce.Obj))
	} else if ce.Fn != nil {
		name = FuncDisplay(ce.Fn)
	}
	n := 0
	for _, o := range allCalls(fn) {
		oc := calleeOf(o)
		same := (ce.Obj != nil && oc.Obj == ce.Obj) || (ce.Obj == nil && ce.Fn != nil && oc.Fn == ce.Fn)
		if same {
			n++
		}
		if o == c {
			break
		}
	}
	return fmt.Sprintf("%s/%s#%d", fnKey(fn), name, n)
}

func fnKey(fn *ssa.Function) string {
	return FuncDisplay(fn)
}

// isCmpWithConstInt: cond compares v against integer constant k; returns the operator normalised so
// that the fact reads "v op k".
func cmpWithConstInt(cond ssa.Value) (v ssa.Value, op token.Token, k int64, ok bool) {
	b, isB := cond.(*ssa.BinOp)
	if !isB {
		return nil, 0, 0, false
	}
	switch b.Op {
	case token.EQL, token.NEQ, token.LSS, token.LEQ, token.GTR, token.GEQ:
	default:
		return nil, 0, 0, false
	}
	if n, isC := constInt(b.Y); isC {
		return b.X, b.Op, n, true
	}
	if n, isC := constInt(b.X); isC {
		// flip
		flip := map[token.Token]token.Token{token.EQL: token.EQL, token.NEQ: token.NEQ, token.LSS: token.GTR,
			token.LEQ: token.GEQ, token.GTR: token.LSS, token.GEQ: token.LEQ}
		return b.Y, flip[b.Op], n, true
	}
	return nil, 0, 0, false
}

// knownPositive: facts establish v > 0 (v >= 1, !(v <= 0), !(v < 1) ...).
func (fs FactSet) knownPositive(v ssa.Value) bool {
	for cond, pol := range fs {
		x, op, k, ok := cmpWithConstInt(cond)
		if !ok || !sameVal(x, v) {
			continue
		}
		if !pol {
			neg := map[token.Token]token.Token{token.EQL: token.NEQ, token.NEQ: token.EQL, token.LSS: token.GEQ,
				token.LEQ: token.GTR, token.GTR: token.LEQ, token.GEQ: token.LSS}
			op = neg[op]
		}
		if (op == token.GTR && k >= 0) || (op == token.GEQ && k >= 1) {
			return true
		}
	}
	return false
}

// intCmpHolds: facts establish "v op k" for some comparison satisfying pred.
func (fs FactSet) intFact(v ssa.Value, pred func(op token.Token, k int64) bool) bool {
	for cond, pol := range fs {
		x, op, k, ok := cmpWithConstInt(cond)
		if !ok || !sameVal(x, v) {
			continue
		}
		if !pol {
			neg := map[token.Token]token.Token{token.EQL: token.NEQ, token.NEQ: token.EQL, token.LSS: token.GEQ,
				token.LEQ: token.GTR, token.GTR: token.LEQ, token.GEQ: token.LSS}
			op = neg[op]
		}
		if pred(op, k) {
			return true
		}
	}
	return false
}
