package main

import (
	"fmt"
	"go/token"
	"sort"

	"golang.org/x/tools/go/ssa"
)

// ---- helpers shared by several rule files -----------------------------------------------------------

func returnsOf(fn *ssa.Function) []*ssa.Return {
	var out []*ssa.Return
	for _, b := range fn.Blocks {
		if b != fn.Blocks[0] && len(b.Preds) == 0 {
			continue
		}
		for _, ins := range b.Instrs {
			if r, ok := ins.(*ssa.Return); ok {
				out = append(out, r)
			}
		}
	}
	return out
}

// resultValue returns what a call yields at result index idx (-1 = single result): the Call itself or
// the Extract instruction; nil when the result is discarded.
func resultValue(c *ssa.Call, idx int) ssa.Value {
	if idx < 0 {
		return c
	}
	refs := c.Referrers()
	if refs == nil {
		return nil
	}
	for _, r := range *refs {
		if e, ok := r.(*ssa.Extract); ok && e.Index == idx {
			return e
		}
	}
	return nil
}

// isUsed: a value has at least one non-debug referrer.
func isUsed(v ssa.Value) bool {
	if v == nil {
		return false
	}
	refs := v.Referrers()
	if refs == nil {
		return false
	}
	for _, r := range *refs {
		if _, ok := r.(*ssa.DebugRef); ok {
			continue
		}
		return true
	}
	return false
}

// regionWhere returns the reachable blocks of fn whose entry facts satisfy pred.
func regionWhere(fn *ssa.Function, pred func(FactSet) bool) []*ssa.BasicBlock {
	ff := FactsOf(fn)
	var out []*ssa.BasicBlock
	for _, b := range fn.Blocks {
		fs, ok := ff.In[b]
		if !ok {
			continue
		}
		if pred(fs) {
			out = append(out, b)
		}
	}
	return out
}

// reachFromBlocks: first instruction satisfying target reachable from the start of any of the blocks.
func reachFromBlocks(blocks []*ssa.BasicBlock, target, barrier func(ssa.Instruction) bool) ssa.Instruction {
	for _, b := range blocks {
		if hit := reachAvoiding(nil, b, target, barrier); hit != nil {
			return hit
		}
	}
	return nil
}

// failureKind says how a call result signals failure.
type failureKind int

const (
	failErrNonNil failureKind = iota // error result != nil
	failCodeNotOK                    // codes.Code result != OK
	failBoolFalse                    // bool result false
	failNil                          // pointer/interface result nil
)

// failureRegion: blocks in which result idx of call c is known to signal failure.
func failureRegion(fn *ssa.Function, c *ssa.Call, idx int, kind failureKind) []*ssa.BasicBlock {
	return regionWhere(fn, func(fs FactSet) bool {
		switch kind {
		case failErrNonNil:
			return fs.CallResultNonNil(c, idx)
		case failNil:
			return fs.CallErrNil(c, idx)
		case failBoolFalse:
			v, k := fs.CallBool(c, idx)
			return k && !v
		case failCodeNotOK:
			eq, k := fs.cmp(func(a, b ssa.Value) bool {
				cc, i, ok := asCall(resolveCell(a))
				if !ok || cc != c || i != idx {
					return false
				}
				n, ok := constInt(b)
				return ok && n == 0
			})
			return k && !eq
		}
		return false
	})
}

// valueReturned: v (or a cell holding it) flows directly into some Return of fn (propagation).
func valueReturned(fn *ssa.Function, v ssa.Value) bool {
	for _, r := range returnsOf(fn) {
		for _, res := range r.Results {
			for _, l := range Leaves(res, leafOpts{noConcat: true}) {
				if l == v {
					return true
				}
			}
		}
	}
	return false
}

func blockIdx(bs []*ssa.BasicBlock) string {
	var o []int
	for _, b := range bs {
		o = append(o, b.Index)
	}
	sort.Ints(o)
	return fmt.Sprint(o)
}

// nthCallKey gives a position-free key for a call site: "<caller>/<callee>#n" where n counts the
// calls to the same callee in block/instruction order.
func nthCallKey(c ssa.CallInstruction) string {
	fn := c.Parent()
	ce := calleeOf(c)
	name := "dynamic"
	if ce.Obj != nil {
		name = shortID(funcID(ce.Obj))
	} else if ce.Fn != nil {
		name = FuncDisplay(ce.Fn)
	}
	n := 0
	for _, o := range allCalls(fn) {
		oc := calleeOf(o)
		same := (ce.Obj != nil && oc.Obj == ce.Obj) || (ce.Obj == nil && ce.Fn != nil && oc.Fn == ce.Fn)
		if same {
			n++
		}
		if o == c {
			break
		}
	}
	return fmt.Sprintf("%s/%s#%d", fnKey(fn), name, n)
}

func fnKey(fn *ssa.Function) string {
	return FuncDisplay(fn)
}

// isCmpWithConstInt: cond compares v against integer constant k; returns the operator normalised so
// that the fact reads "v op k".
func cmpWithConstInt(cond ssa.Value) (v ssa.Value, op token.Token, k int64, ok bool) {
	b, isB := cond.(*ssa.BinOp)
	if !isB {
		return nil, 0, 0, false
	}
	switch b.Op {
	case token.EQL, token.NEQ, token.LSS, token.LEQ, token.GTR, token.GEQ:
	default:
		return nil, 0, 0, false
	}
	if n, isC := constInt(b.Y); isC {
		return b.X, b.Op, n, true
	}
	if n, isC := constInt(b.X); isC {
		// flip
		flip := map[token.Token]token.Token{token.EQL: token.EQL, token.NEQ: token.NEQ, token.LSS: token.GTR,
			token.LEQ: token.GEQ, token.GTR: token.LSS, token.GEQ: token.LEQ}
		return b.Y, flip[b.Op], n, true
	}
	return nil, 0, 0, false
}

// knownPositive: facts establish v > 0 (v >= 1, !(v <= 0), !(v < 1) ...).
func (fs FactSet) knownPositive(v ssa.Value) bool {
	for cond, pol := range fs {
		x, op, k, ok := cmpWithConstInt(cond)
		if !ok || !sameVal(x, v) {
			continue
		}
		if !pol {
			neg := map[token.Token]token.Token{token.EQL: token.NEQ, token.NEQ: token.EQL, token.LSS: token.GEQ,
				token.LEQ: token.GTR, token.GTR: token.LEQ, token.GEQ: token.LSS}
			op = neg[op]
		}
		if (op == token.GTR && k >= 0) || (op == token.GEQ && k >= 1) {
			return true
		}
	}
	return false
}

// intCmpHolds: facts establish "v op k" for some comparison satisfying pred.
func (fs FactSet) intFact(v ssa.Value, pred func(op token.Token, k int64) bool) bool {
	for cond, pol := range fs {
		x, op, k, ok := cmpWithConstInt(cond)
		if !ok || !sameVal(x, v) {
			continue
		}
		if !pol {
			neg := map[token.Token]token.Token{token.EQL: token.NEQ, token.NEQ: token.EQL, token.LSS: token.GEQ,
				token.LEQ: token.GTR, token.GTR: token.LEQ, token.GEQ: token.LSS}
			op = neg[op]
		}
		if pred(op, k) {
			return true
		}
	}
	return false
}

// CallersOf lists the call sites of fn (static callee) in own code.
func (P *Program) CallersOf(fn *ssa.Function) []ssa.CallInstruction {
	if P.callersCache == nil {
		P.callersCache = map[*ssa.Function][]ssa.CallInstruction{}
		for _, f := range P.Funcs {
			for _, c := range allCalls(f) {
				if callee := c.Common().StaticCallee(); callee != nil {
					P.callersCache[callee] = append(P.callersCache[callee], c)
				}
			}
		}
	}
	return P.callersCache[fn]
}

// interOrigins follows v backwards through Leaves and, for parameters of own functions, through all
// call sites of the function (interprocedural, bounded depth). Returns the non-parameter frontier.
func interOrigins(P *Program, v ssa.Value, o leafOpts, depth int) []ssa.Value {
	var out []ssa.Value
	seen := map[ssa.Value]bool{}
	var walk func(v ssa.Value, d int)
	walk = func(v ssa.Value, d int) {
		for _, l := range Leaves(v, o) {
			if seen[l] {
				continue
			}
			seen[l] = true
			if p, ok := l.(*ssa.Parameter); ok && d > 0 {
				fn := p.Parent()
				idx := -1
				for i, q := range fn.Params {
					if q == p {
						idx = i
					}
				}
				callers := P.CallersOf(fn)
				if idx >= 0 && len(callers) > 0 {
					for _, c := range callers {
						args := c.Common().Args
						if idx < len(args) {
							walk(args[idx], d-1)
						}
					}
					continue
				}
			}
			out = append(out, l)
		}
	}
	walk(v, depth)
	return out
}

// ownClosure: fn plus every own function reachable through static calls and closures.
func ownClosure(roots ...*ssa.Function) []*ssa.Function {
	seen := map[*ssa.Function]bool{}
	var out []*ssa.Function
	var walk func(fn *ssa.Function)
	walk = func(fn *ssa.Function) {
		if fn == nil || seen[fn] || fn.Blocks == nil {
			return
		}
		pk := fn.Package()
		if pk == nil && fn.Parent() != nil {
			pk = fn.Parent().Package()
		}
		if pk == nil || !isOwnPath(pk.Pkg.Path()) {
			return
		}
		seen[fn] = true
		out = append(out, fn)
		for _, b := range fn.Blocks {
			for _, ins := range b.Instrs {
				switch x := ins.(type) {
				case ssa.CallInstruction:
					walk(x.Common().StaticCallee())
				case *ssa.MakeClosure:
					walk(x.Fn.(*ssa.Function))
				}
			}
		}
	}
	for _, r := range roots {
		walk(r)
	}
	return out
}

// dataDeps: backward data-dependence closure of v inside its function (operands of defining
// instructions; for loads, the values stored to the same root cell; for slices, their backing).
func dataDeps(v ssa.Value) map[ssa.Value]bool {
	seen := map[ssa.Value]bool{}
	var walk func(v ssa.Value)
	walk = func(v ssa.Value) {
		if v == nil || seen[v] {
			return
		}
		seen[v] = true
		ins, ok := v.(ssa.Instruction)
		if !ok {
			return
		}
		for _, op := range ins.Operands(nil) {
			if *op != nil {
				walk(*op)
			}
		}
		// memory: loads (and slices handed to callees such as append) see every value stored through
		// any address derived from the same root
		var memRoot ssa.Value
		if u, ok := v.(*ssa.UnOp); ok && u.Op == token.MUL {
			memRoot = addrRoot(u.X)
		}
		switch x := v.(type) {
		case *ssa.Slice:
			memRoot = addrRoot(x.X)
		case *ssa.MakeSlice, *ssa.Alloc:
			memRoot = v
		}
		if memRoot != nil {
			root := memRoot
			if rs := root.Referrers(); rs != nil {
				var visitAddr func(a ssa.Value, depth int)
				visitAddr = func(a ssa.Value, depth int) {
					if depth > 4 {
						return
					}
					rr := a.Referrers()
					if rr == nil {
						return
					}
					for _, r := range *rr {
						switch x := r.(type) {
						case *ssa.Store:
							if x.Addr == a {
								walk(x.Val)
							}
						case ssa.CallInstruction:
							// the object's address is handed to a callee (b.WriteString(s), json.Unmarshal(data, &v)):
							// the callee may write its other arguments into the object
							if depth == 0 && isLocalObject(root) {
								for _, arg := range x.Common().Args {
									if arg != a {
										walk(arg)
									}
								}
							}
						case *ssa.IndexAddr:
							visitAddr(x, depth+1)
						case *ssa.FieldAddr:
							visitAddr(x, depth+1)
						case *ssa.Slice:
							visitAddr(x, depth+1)
						}
					}
				}
				visitAddr(root, 0)
			}
		}
	}
	walk(v)
	return seen
}

// isLocalObject: the root of an address is an object created in this function (its address may be
// handed to callees that fill it); parameters and call results are not — treating every call on a
// receiver as a writer of the receiver would connect everything to everything.
func isLocalObject(root ssa.Value) bool {
	switch root.(type) {
	case *ssa.Alloc, *ssa.MakeSlice, *ssa.MakeMap:
		return true
	}
	return false
}

func addrRoot(a ssa.Value) ssa.Value {
	for i := 0; i < 10; i++ {
		switch x := a.(type) {
		case *ssa.IndexAddr:
			a = x.X
		case *ssa.FieldAddr:
			a = x.X
		case *ssa.Slice:
			a = x.X
		default:
			return a
		}
	}
	return a
}

// phiAlternatives returns the incoming (value, facts-on-edge) pairs of v when it is a Phi, else the
// single pair (v, facts at its definition / at `at`).
type altVal struct {
	V     ssa.Value
	Facts FactSet
}

func phiAlternatives(fn *ssa.Function, v ssa.Value, at ssa.Instruction) []altVal {
	ff := FactsOf(fn)
	var out []altVal
	seen := map[*ssa.Phi]bool{}
	// a value reached through nested phis carries the facts of every selecting edge on the way (`p := s; if h != -1
	// { p = s[:h] }; if q != -1 { p = p[:q] }; return p`: the whole input is returned under h == -1 and q == -1)
	var walk func(v ssa.Value, fs FactSet, chain bool)
	walk = func(v ssa.Value, fs FactSet, chain bool) {
		if ph, ok := v.(*ssa.Phi); ok && !seen[ph] {
			seen[ph] = true
			for i, e := range ph.Edges {
				efs := ff.OnEdge(ph.Block().Preds[i], ph.Block())
				if chain {
					efs = unionFacts(fs, efs)
				}
				walk(e, efs, true)
			}
			return
		}
		out = append(out, altVal{v, fs})
	}
	walk(v, ff.At(at), false)
	return out
}
