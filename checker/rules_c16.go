package main

import (
	"fmt"
	"go/token"
	"go/types"
	"sort"
	"strings"

	"golang.org/x/tools/go/ssa"
)

func init() { registry["C16"] = checkC16 }

type access struct {
	class string
	write bool
	ins   ssa.Instruction
	fn    *ssa.Function
	fresh bool
	locks LockSet
}

// inScope: location classes tracked by the inventory.
func classInScope(typeid string) bool {
	switch {
	case strings.HasPrefix(typeid, modPath+"/internal"):
		return true
	case strings.HasPrefix(typeid, modPath+"/config/gen/go"):
		return true
	case typeid == "crypto/tls.Config":
		return true
	}
	return false
}

// classOfAddr names the location class of an address, or "".
func classOfAddr(a ssa.Value) (class string, base ssa.Value) {
	switch x := a.(type) {
	case *ssa.FieldAddr:
		tid := typeID(x.X.Type())
		if !classInScope(tid) {
			return "", nil
		}
		f := fieldOf(x.X.Type(), x.Field)
		if f == nil {
			return "", nil
		}
		// mutexes themselves are not data
		if ft := typeID(f.Type()); ft == "sync.Mutex" || ft == "sync.RWMutex" {
			return "", nil
		}
		return shortID(tid) + "." + f.Name(), x.X
	case *ssa.Global:
		if x.Pkg == nil || !isOwnPath(x.Pkg.Pkg.Path()) || strings.HasPrefix(x.Pkg.Pkg.Path(), modPath+"/config/gen/go") {
			return "", nil
		}
		return "global:" + shortID(x.Pkg.Pkg.Path()+"."+x.Name()), nil
	case *ssa.IndexAddr:
		// element of a slice/array held in a tracked location
		if u, ok := x.X.(*ssa.UnOp); ok && u.Op == token.MUL {
			if c, b := classOfAddr(u.X); c != "" {
				return c + "[]", b
			}
		}
	}
	return "", nil
}

// classOfMap: the map value m was loaded from a tracked location.
func classOfMap(m ssa.Value) (string, ssa.Value) {
	m = stripConv(m)
	if u, ok := m.(*ssa.UnOp); ok && u.Op == token.MUL {
		if c, b := classOfAddr(u.X); c != "" {
			return c + "[]", b
		}
	}
	return "", nil
}

var freshCtorNames = map[string]bool{"Clone": true}

// isFresh: the object is allocated (or cloned) in this activation and not yet shared; parameters are
// fresh when they are fresh at every call site.
func isFresh(P *Program, v ssa.Value, depth int) bool {
	if v == nil {
		return false
	}
	for _, l := range Leaves(v, leafOpts{noConcat: true}) {
		switch x := l.(type) {
		case *ssa.Alloc:
			continue
		case *ssa.Call:
			if isCallTo(x, fProtoClone) {
				continue
			}
			// sub-message of a freshly *deep-cloned* message (proto.Clone copies sub-messages; a field-wise copy
			// made by hand shares them with the original)
			if isGeneratedGetter(calleeOf(x)) && len(x.Common().Args) == 1 && isDeepFresh(P, x.Common().Args[0], depth) {
				continue
			}
			if ce := calleeOf(x); ce.Obj != nil && freshCtorNames[ce.Obj.Name()] {
				continue
			}
			// own constructor returning a fresh allocation
			if callee := x.Common().StaticCallee(); callee != nil && callee.Blocks != nil && depth > 0 {
				ok := true
				for _, r := range returnsOf(callee) {
					if len(r.Results) == 0 || !isFresh(P, r.Results[0], depth-1) {
						ok = false
					}
				}
				if ok {
					continue
				}
			}
			return false
		case *ssa.Extract:
			if c, ok := x.Tuple.(*ssa.Call); ok && isCallTo(c, fProtoClone) {
				continue
			}
			return false
		case *ssa.TypeAssert:
			if isFresh(P, x.X, depth) {
				continue
			}
			return false
		case *ssa.Parameter:
			if depth == 0 {
				return false
			}
			fn := x.Parent()
			idx := -1
			for i, q := range fn.Params {
				if q == x {
					idx = i
				}
			}
			callers := P.CallersOf(fn)
			if idx < 0 || len(callers) == 0 {
				return false
			}
			for _, c := range callers {
				args := c.Common().Args
				if idx >= len(args) || !isFresh(P, args[idx], depth-1) {
					return false
				}
			}
			continue
		case *ssa.FreeVar:
			if b := freeVarBinding(x); b != nil && isFresh(P, b, depth) {
				continue
			}
			return false
		case *ssa.IndexAddr:
			// element of an array or slice literal built in this activation
			if isFresh(P, x.X, depth) {
				continue
			}
			return false
		case *ssa.Slice:
			if _, isAlloc := x.X.(*ssa.Alloc); isAlloc {
				continue
			}
			return false
		default:
			return false
		}
	}
	return true
}

// isDeepFresh: every source of v is a proto.Clone result (directly, through a type assertion, or as a
// parameter that is deep-fresh at every call site).
func isDeepFresh(P *Program, v ssa.Value, depth int) bool {
	if v == nil {
		return false
	}
	for _, l := range Leaves(v, leafOpts{noConcat: true}) {
		switch x := l.(type) {
		case *ssa.Call:
			if isCallTo(x, fProtoClone) {
				continue
			}
			if isGeneratedGetter(calleeOf(x)) && len(x.Common().Args) == 1 && isDeepFresh(P, x.Common().Args[0], depth) {
				continue
			}
			return false
		case *ssa.Extract:
			if c, ok := x.Tuple.(*ssa.Call); ok && isCallTo(c, fProtoClone) {
				continue
			}
			return false
		case *ssa.TypeAssert:
			if isDeepFresh(P, x.X, depth) {
				continue
			}
			return false
		case *ssa.Parameter:
			if depth == 0 {
				return false
			}
			fn := x.Parent()
			idx := -1
			for i, q := range fn.Params {
				if q == x {
					idx = i
				}
			}
			callers := P.CallersOf(fn)
			if idx < 0 || len(callers) == 0 {
				return false
			}
			for _, c := range callers {
				args := c.Common().Args
				if idx >= len(args) || !isDeepFresh(P, args[idx], depth-1) {
					return false
				}
			}
			continue
		default:
			return false
		}
	}
	return true
}

type c16Exception struct {
	class  string
	reason string
	check  func(P *Program, accs []access, rootsOf map[*ssa.Function]map[*ssa.Function]bool) (bool, string)
}

func checkC16(c *Check) {
	P := c.P
	R := GetRoles(P)
	c.Assumes("races inside libraries (jwx cache, net/http, go-redis, controller-runtime) are outside the own-code boundary")
	c.Assumes("run.Group runs Validate and PreRun of all units single-threaded before any Serve/ServeContext starts")
	c.Rule("C16.R1", "shared-state inventory: package-level variables, fields of own long-lived struct types, fields of the shared configuration messages and of pooled tls.Config objects that are accessed from a concurrency root (gRPC Check, secret Reconcile, Serve/ServeContext units, goroutines started in own code).", 8)
	c.Rule("C16.R2", "consistent lockset (guarded-by): for every location class written by code reachable from a concurrency root on an object that is not freshly allocated in the same activation, all such accesses (reads and writes, including reads inside generated getters) hold one common mutex, or are ordered by an enumerated happens-before idiom (write followed by close(ch) / reads after <-ch; state confined to one goroutine per object).", 8)
	c.Rule("C16.R3", "lock order and blocking under lock: the `held while acquiring` graph over the mutexes is acyclic; no mutex is held across a channel operation, a network/store call, an invocation of a callback value or WatchFile; no function returns holding a mutex whose unlock is not deferred.", 2)
	c.Rule("C16.R4", "per-check objects stay per-check: the OIDC handler, its HTTP client and the generator built inside a check are not stored into shared state.", 1)

	if !requireRoles(c, "C16.R1", R, "CheckEntry") {
		return
	}
	// ---- concurrency roots
	type root struct {
		fn   *ssa.Function
		kind string
	}
	var roots []root
	roots = append(roots, root{R.CheckEntry, "grpc Check"})
	for _, fn := range P.Funcs {
		if fn.Parent() != nil || fn.Signature.Recv() == nil || strings.HasPrefix(pkgPathOf(fn), modPath+"/config/gen/go") {
			continue
		}
		switch fn.Name() {
		case "Reconcile":
			roots = append(roots, root{fn, "controller reconcile"})
		case "ServeContext", "Serve", "ServeHTTP":
			roots = append(roots, root{fn, "run unit service"})
		}
	}
	// goroutines started in own code
	for _, fn := range P.Funcs {
		for _, b := range fn.Blocks {
			for _, ins := range b.Instrs {
				g, ok := ins.(*ssa.Go)
				if !ok {
					continue
				}
				for _, callee := range P.calleesOf(g) {
					roots = append(roots, root{callee, "goroutine started in " + fnKey(fn)})
				}
				if mc, isMC := g.Common().Value.(*ssa.MakeClosure); isMC {
					roots = append(roots, root{mc.Fn.(*ssa.Function), "goroutine started in " + fnKey(fn)})
				}
				// go w.callback(data): dynamic — the callbacks are the closures passed to WatchFile
				if g.Common().StaticCallee() == nil && !g.Common().IsInvoke() {
					if _, isMC := g.Common().Value.(*ssa.MakeClosure); !isMC {
						for _, f2 := range P.Funcs {
							if f2.Parent() != nil && types.Identical(f2.Signature, g.Common().Signature()) && closurePassedAsArg(f2) {
								roots = append(roots, root{f2, "callback goroutine started in " + fnKey(fn)})
							}
						}
					}
				}
			}
		}
	}
	var rootFns []*ssa.Function
	seenRoot := map[*ssa.Function]bool{}
	for _, r := range roots {
		if r.fn != nil && !seenRoot[r.fn] {
			seenRoot[r.fn] = true
			rootFns = append(rootFns, r.fn)
		}
	}
	c.Obl(len(rootFns) >= 5, "C16.R1", "roots", "-", fmt.Sprintf("%d concurrency roots", len(rootFns)), fmt.Sprintf("only %d concurrency roots found (floor 5)", len(rootFns)))
	// reachability per root
	rootsOf := map[*ssa.Function]map[*ssa.Function]bool{}
	var all []*ssa.Function
	seenFn := map[*ssa.Function]bool{}
	for _, r := range rootFns {
		for _, f := range P.reachableOwnThread(r) {
			if rootsOf[f] == nil {
				rootsOf[f] = map[*ssa.Function]bool{}
			}
			rootsOf[f][r] = true
			if !seenFn[f] {
				seenFn[f] = true
				all = append(all, f)
			}
		}
	}
	sort.Slice(all, func(i, j int) bool {
		return all[i].Pos() < all[j].Pos() || (all[i].Pos() == all[j].Pos() && all[i].String() < all[j].String())
	})
	c.extra["concurrent_functions"] = len(all)
	var rootNames []string
	for _, r := range roots {
		if r.fn != nil {
			rootNames = append(rootNames, fnKey(r.fn)+" ("+r.kind+")")
		}
	}
	sort.Strings(rootNames)
	c.extra["roots"] = uniq(rootNames)

	la := NewLockAnalysis(P, all, rootFns)

	// ---- collect accesses
	var accs []access
	add := func(fn *ssa.Function, ins ssa.Instruction, class string, base ssa.Value, write bool) {
		if class == "" {
			return
		}
		fresh := base != nil && isFresh(P, base, 3)
		ls := lockFor(la.At(ins), write)
		accs = append(accs, access{class, write, ins, fn, fresh, ls})
	}
	for _, fn := range all {
		for _, b := range fn.Blocks {
			for _, ins := range b.Instrs {
				switch x := ins.(type) {
				case *ssa.Store:
					cl, base := classOfAddr(x.Addr)
					add(fn, ins, cl, base, true)
				case *ssa.UnOp:
					if x.Op == token.MUL {
						cl, base := classOfAddr(x.X)
						add(fn, ins, cl, base, false)
					}
				case *ssa.MapUpdate:
					cl, base := classOfMap(x.Map)
					add(fn, ins, cl, base, true)
				case *ssa.Lookup:
					cl, base := classOfMap(x.X)
					add(fn, ins, cl, base, false)
				case *ssa.Range:
					cl, base := classOfMap(x.X)
					add(fn, ins, cl, base, false)
				case *ssa.Call:
					if bi, ok := x.Call.Value.(*ssa.Builtin); ok && bi.Name() == "delete" {
						cl, base := classOfMap(x.Call.Args[0])
						add(fn, ins, cl, base, true)
					}
				}
			}
		}
	}
	// writers followed by close(ch): pseudo-lock
	for i := range accs {
		a := &accs[i]
		if !a.write {
			continue
		}
		for _, b := range a.fn.Blocks {
			for _, ins := range b.Instrs {
				if cc, ok := ins.(*ssa.Call); ok {
					if bi, isB := cc.Call.Value.(*ssa.Builtin); isB && bi.Name() == "close" {
						k := addrKey(cc.Call.Args[0])
						if k != "" && closesAfter(a.ins, k) {
							a.locks["hb:"+k] = true
						}
					}
				}
			}
		}
	}
	byClass := map[string][]access{}
	// accesses that are exempt as "fresh" although they run in a goroutine the object was handed to: the goroutine owns
	// the object only as long as nobody else writes it
	goroutineFn := map[*ssa.Function]bool{}
	for _, r := range roots {
		if r.fn != nil && strings.Contains(r.kind, "goroutine") {
			goroutineFn[r.fn] = true
		}
	}
	ownedByGoroutine := map[string]access{}
	for _, a := range accs {
		if a.fresh {
			if goroutineFn[a.fn] {
				ownedByGoroutine[a.class] = a
			}
			continue
		}
		byClass[a.class] = append(byClass[a.class], a)
	}
	for cl, as := range byClass {
		owner, owned := ownedByGoroutine[cl]
		if !owned {
			continue
		}
		for _, a := range as {
			if a.write && !goroutineFn[a.fn] {
				c.Fail("C16.R2", cl+"/written-while-owned-by-a-goroutine/"+fnKey(a.fn), P.Pos(instrPos(a.ins)),
					"location class "+cl+" is written in "+fnKey(a.fn)+" on an object that is already shared, while the goroutine "+fnKey(owner.fn)+" that was handed such an object accesses it without any lock ("+P.Pos(instrPos(owner.ins))+")")
			}
		}
	}
	var classes []string
	for k := range byClass {
		classes = append(classes, k)
	}
	sort.Strings(classes)
	c.Obl(len(classes) >= 8, "C16.R1", "inventory", "-", fmt.Sprintf("%d location classes accessed from concurrency roots (non-fresh objects)", len(classes)),
		fmt.Sprintf("only %d shared location classes found (floor 8): inventory lost its anchors", len(classes)))
	c.extra["location_classes"] = classes

	exceptions := []c16Exception{
		{"internal.watcher.data", "file content cache confined to the single goroutine started for each watcher object", confinedToOneGoroutine},
	}
	nWritten := 0
	for _, cl := range classes {
		as := byClass[cl]
		var writers []access
		for _, a := range as {
			if a.write {
				writers = append(writers, a)
			}
		}
		if len(writers) == 0 {
			c.Pass("C16.R1", "class/"+cl, "-", fmt.Sprintf("%d reads, no concurrent-phase write (start-up state)", len(as)))
			continue
		}
		nWritten++
		common := as[0].locks.clone()
		for _, a := range as[1:] {
			common = lockIntersect(common, a.locks)
		}
		wfns := map[string]bool{}
		for _, w := range writers {
			wfns[fnKey(w.fn)] = true
		}
		var wnames []string
		for k := range wfns {
			wnames = append(wnames, k)
		}
		sort.Strings(wnames)
		if len(common) > 0 {
			c.Pass("C16.R1", "class/"+cl, "-", fmt.Sprintf("%d accesses, %d writes", len(as), len(writers)))
			c.Pass("C16.R2", cl, P.Pos(instrPos(writers[0].ins)), fmt.Sprintf("all %d accesses hold %v (writers: %s)", len(as), common.keys(), strings.Join(wnames, ", ")))
			continue
		}
		c.Pass("C16.R1", "class/"+cl, "-", fmt.Sprintf("%d accesses, %d writes", len(as), len(writers)))
		handled := false
		if ok, why := confinedToOneGoroutine(P, as, rootsOf); ok {
			c.Pass("C16.R2", cl, P.Pos(instrPos(writers[0].ins)), "enumerated idiom: state confined to one goroutine — "+why)
			continue
		}
		for _, ex := range exceptions {
			if ex.class == cl {
				ok, why := ex.check(P, as, rootsOf)
				c.Obl(ok, "C16.R2", cl, P.Pos(instrPos(writers[0].ins)), "enumerated idiom: "+ex.reason+" — "+why, "idiom `"+ex.reason+"` no longer holds: "+why)
				handled = true
			}
		}
		if handled {
			continue
		}
		// report one violation per writer function, naming an unprotected counterpart
		for _, wn := range wnames {
			var w access
			for _, x := range writers {
				if fnKey(x.fn) == wn {
					w = x
					break
				}
			}
			var other *access
			for i := range as {
				a := &as[i]
				if len(lockIntersect(a.locks, w.locks)) == 0 && a.ins != w.ins {
					other = a
					break
				}
			}
			desc := "no other access"
			if other != nil {
				kind := "read"
				if other.write {
					kind = "write"
				}
				desc = fmt.Sprintf("%s in %s at %s holding %v", kind, fnKey(other.fn), P.Pos(instrPos(other.ins)), other.locks.keys())
			}
			c.Fail("C16.R2", cl+"/"+wn, P.Pos(instrPos(w.ins)), fmt.Sprintf("location class %s is written in %s (holding %v) on a shared object while concurrently reachable code accesses it without a common lock: %s", cl, wn, w.locks.keys(), desc))
		}
	}
	c.extra["written_classes"] = nWritten

	// ---- R3
	// lock order
	var edges []string
	adj := map[string][]string{}
	for e := range la.Order {
		edges = append(edges, e[0]+" → "+e[1])
		adj[e[0]] = append(adj[e[0]], e[1])
	}
	sort.Strings(edges)
	cyc := findCycle(adj)
	c.Obl(cyc == "", "C16.R3", "lock-order", "-", fmt.Sprintf("lock-order graph acyclic (%d nesting edges: %v)", len(edges), edges), "lock-order cycle: "+cyc)
	// blocking under lock, returns holding a lock
	nLocked := 0
	for _, fn := range all {
		for _, b := range fn.Blocks {
			for _, ins := range b.Instrs {
				held := realLocks(la.At(ins))
				if len(held) == 0 {
					continue
				}
				nLocked++
				why := ""
				switch x := ins.(type) {
				case *ssa.Send:
					why = "channel send"
				case *ssa.Select:
					why = "select"
				case *ssa.UnOp:
					if x.Op == token.ARROW {
						why = "channel receive"
					}
				case *ssa.Go:
					// starting a goroutine does not block
				case *ssa.Call:
					ce := calleeOf(x)
					id := funcID(ce.Obj)
					switch {
					case ce.Obj == nil && ce.Fn == nil:
						if _, isB := x.Call.Value.(*ssa.Builtin); !isB {
							// dynamic call of a function value: allowed only for parameters invoked by design (setter closures)
							if _, isParam := x.Call.Value.(*ssa.Parameter); !isParam && typeID(x.Call.Value.Type()) != "context.CancelFunc" {
								why = "invocation of a stored callback value"
							}
						}
					case strings.HasPrefix(id, "net/http."), strings.HasPrefix(id, "github.com/redis/go-redis/"), id == "time.Sleep",
						strings.HasPrefix(id, "net."), strings.HasPrefix(id, "os.ReadFile"):
						why = "blocking call " + shortID(id)
					case ce.Obj != nil && ce.Obj.Name() == "WatchFile":
						why = "WatchFile (takes the watcher lock and reads a file)"
					case id == pkgInt+".Reader.Read":
						why = "file read through Reader"
					}
				case *ssa.Return:
					def := la.deferred[fn]
					for k := range held {
						if !def[k] && !la.entry[fn][k] {
							why = "return while holding " + k + " (no deferred unlock)"
						}
					}
				}
				if why != "" {
					c.Fail("C16.R3", "under-lock/"+fnKey(fn)+"/"+why, P.Pos(instrPos(ins)), fmt.Sprintf("%s while holding %v", why, keysOfLocks(held)))
				}
			}
		}
	}
	c.Obl(nLocked >= 20, "C16.R3", "locked-regions", "-", fmt.Sprintf("%d instructions execute under a mutex; none blocks, none returns with the lock", nLocked),
		fmt.Sprintf("only %d instructions found under a mutex (floor 20): lockset analysis lost its anchors", nLocked))

	// ---- R4
	bad := 0
	for _, fn := range all {
		for _, b := range fn.Blocks {
			for _, ins := range b.Instrs {
				st, ok := ins.(*ssa.Store)
				if !ok {
					continue
				}
				vt := typeID(stripConv(st.Val).Type())
				if vt != pkgAuthz+".oidcHandler" && vt != "net/http.Client" && vt != idGeneratorIfc && vt != idHandlerIface {
					continue
				}
				cl, base := classOfAddr(st.Addr)
				if cl == "" {
					continue
				}
				if base != nil && isFresh(P, base, 3) {
					continue
				}
				bad++
				c.Fail("C16.R4", "shared-per-check-object/"+cl, P.Pos(instrPos(st)), "a per-check object ("+shortID(vt)+") is stored into shared location "+cl)
			}
		}
	}
	for _, fn := range all {
		for _, ci := range allCalls(fn) {
			id := funcID(calleeOf(ci).Obj)
			if id != "sync.Map.Store" && id != "sync.Map.LoadOrStore" && id != "sync.Map.Swap" {
				continue
			}
			for _, a := range callArgs(ci) {
				vt := typeID(stripConv(a).Type())
				if mi, isMI := a.(*ssa.MakeInterface); isMI {
					vt = typeID(mi.X.Type())
				}
				if vt == pkgAuthz+".oidcHandler" || vt == "net/http.Client" || vt == idGeneratorIfc || vt == idHandlerIface || vt == pkgAuthz+".mockHandler" {
					bad++
					c.Fail("C16.R4", "shared-per-check-object/sync.Map/"+fnKey(fn), P.Pos(ci.Pos()), "a per-check object ("+shortID(vt)+") is stored into a shared sync.Map")
				}
			}
		}
	}
	headersOwnBacking(c, "C16.R4", R)
	transportIsOwn(c, "C16.R4")
	responseFreshPerCheck(c, "C16.R4", R)
	noUnsafeSharedDependencyObject(c, "C16.R1", R)
	packageStateObjectsNotWritten(c, "C16.R2", R)
	gatesAreOpened(c, "C16.R3")
	mutexOwnersHavePointerReceivers(c, "C16.R2")
	cacheEntriesPublishedComplete(c, "C16.R2")
	// the generator a check draws its identifiers from is built for that check by the audited constructor and
	// carries no state (C06.R2 wiring, C06.R3 independence): a generator shared by concurrent checks with a
	// scratch buffer of its own is a data race on the identifiers themselves
	if c.ID == "C16" {
		// "without deadlock": a function that runs with the store mutex held does not call (directly or through
		// helpers) a function that acquires the same non-reentrant mutex (C12.R1 relock)
		importObls(c, "C12", checkC12, "C16.R3", func(o *Obligation) bool { return strings.HasPrefix(o.Key, "C12.R1/relock") })
		importObls(c, "C06", checkC06, "C16.R4", func(o *Obligation) bool {
			return strings.HasPrefix(o.Key, "C06.R2/wiring") || strings.HasPrefix(o.Key, "C06.R3/stateless") || strings.HasPrefix(o.Key, "C06.R3/no-state")
		})
	}
	// objects that belong to a dependency's package-level state (http.DefaultTransport, http.DefaultClient) are
	// shared by the whole process: own code writes their fields only on a Clone()
	for _, fn := range P.Funcs {
		if strings.HasPrefix(pkgPathOf(fn), modPath+"/config/gen/") {
			continue
		}
		for _, b := range fn.Blocks {
			for _, ins := range b.Instrs {
				st, ok := ins.(*ssa.Store)
				if !ok {
					continue
				}
				fa, isF := st.Addr.(*ssa.FieldAddr)
				if !isF {
					continue
				}
				for _, l := range Leaves(fa.X, leafOpts{noConcat: true}) {
					l = resolveCell(stripConv(l))
					if ta, isTA := l.(*ssa.TypeAssert); isTA {
						l = resolveCell(stripConv(ta.X))
					}
					if ex, isE := l.(*ssa.Extract); isE {
						if ta, isTA := ex.Tuple.(*ssa.TypeAssert); isTA {
							l = resolveCell(stripConv(ta.X))
						}
					}
					if u, isU := l.(*ssa.UnOp); isU && u.Op == token.MUL {
						if g, isG := u.X.(*ssa.Global); isG && g.Pkg != nil && !isOwnPath(g.Pkg.Pkg.Path()) {
							bad++
							c.Fail("C16.R4", "dependency-global-write/"+fnKey(fn)+"/"+g.Name(), P.Pos(st.Pos()), "a field of "+g.Pkg.Pkg.Path()+"."+g.Name()+" (process-wide state of a dependency) is written in "+fnKey(fn)+" without cloning it first: concurrent checks and background fetches race on it")
						}
					}
				}
			}
		}
	}
	c.Obl(bad == 0, "C16.R4", "scan", "-", "no per-check handler, HTTP client or generator is stored into shared state", "per-check objects leak into shared state")
}

func closurePassedAsArg(fn *ssa.Function) bool {
	if fn.Parent() == nil {
		return false
	}
	for _, b := range fn.Parent().Blocks {
		for _, ins := range b.Instrs {
			if mc, ok := ins.(*ssa.MakeClosure); ok && mc.Fn == fn {
				if rs := mc.Referrers(); rs != nil {
					for _, r := range *rs {
						if c, isC := r.(*ssa.Call); isC {
							for _, a := range c.Common().Args {
								if a == mc {
									return true
								}
							}
						}
					}
				}
			}
		}
	}
	return false
}

func realLocks(l LockSet) LockSet {
	o := LockSet{}
	for k := range l {
		if !strings.HasPrefix(k, "hb:") {
			o[k] = true
		}
	}
	return o
}

func keysOfLocks(l LockSet) []string { return l.keys() }

func findCycle(adj map[string][]string) string {
	state := map[string]int{}
	var path []string
	var dfs func(n string) string
	dfs = func(n string) string {
		state[n] = 1
		path = append(path, n)
		for _, m := range adj[n] {
			if state[m] == 1 {
				return strings.Join(append(path, m), " → ")
			}
			if state[m] == 0 {
				if r := dfs(m); r != "" {
					return r
				}
			}
		}
		state[n] = 2
		path = path[:len(path)-1]
		return ""
	}
	var keys []string
	for k := range adj {
		keys = append(keys, k)
	}
	sort.Strings(keys)
	for _, k := range keys {
		if state[k] == 0 {
			if r := dfs(k); r != "" {
				return r
			}
		}
	}
	return ""
}

// confinedToOneGoroutine: every non-fresh access to the class happens in functions reachable from
// exactly one root, which is a goroutine closure started by a method of the same object type, and that
// starting method is only invoked on freshly allocated objects (one goroutine per object).
func confinedToOneGoroutine(P *Program, accs []access, rootsOf map[*ssa.Function]map[*ssa.Function]bool) (bool, string) {
	var root *ssa.Function
	for _, a := range accs {
		rs := rootsOf[a.fn]
		var goRoots []*ssa.Function
		if a.fn.Parent() != nil && isGoClosure(a.fn) {
			goRoots = []*ssa.Function{a.fn}
		} else {
			for r := range rs {
				goRoots = append(goRoots, r)
			}
		}
		if len(goRoots) != 1 {
			var names []string
			for _, r := range goRoots {
				names = append(names, fnKey(r))
			}
			sort.Strings(names)
			return false, fmt.Sprintf("access in %s is reachable from %d concurrency roots %v", fnKey(a.fn), len(goRoots), names)
		}
		if root == nil {
			root = goRoots[0]
		} else if root != goRoots[0] {
			return false, "accesses happen under different concurrency roots"
		}
	}
	if root != nil && root.Parent() == nil && (root.Name() == "Serve" || root.Name() == "ServeContext") && len(P.CallersOf(root)) == 0 {
		return true, "all accesses are in " + fnKey(root) + ", a run.Group service method invoked once per unit"
	}
	if root != nil && root.Parent() == nil && root.Signature.Recv() != nil {
		// a method started as a goroutine on its receiver: go w.run()
		var sites []*ssa.Go
		for _, fn := range P.Funcs {
			for _, b := range fn.Blocks {
				for _, ins := range b.Instrs {
					if g, ok := ins.(*ssa.Go); ok && g.Common().StaticCallee() == root {
						sites = append(sites, g)
					}
				}
			}
		}
		if len(sites) == 0 || len(P.CallersOf(root)) != len(sites) {
			return false, "the accessing method " + fnKey(root) + " is not (only) started as a goroutine"
		}
		for _, g := range sites {
			recv := g.Common().Args[0]
			if isFresh(P, recv, 2) {
				continue
			}
			starter := g.Parent()
			if len(starter.Params) == 0 || recv != ssa.Value(starter.Params[0]) || inLoop(g.Block()) {
				return false, "the goroutine " + fnKey(root) + " is started on an object that is neither fresh nor the starter's receiver"
			}
			callers := P.CallersOf(starter)
			if len(callers) == 0 {
				return false, "the goroutine-starting method " + fnKey(starter) + " has no resolved caller"
			}
			for _, site := range callers {
				args := site.Common().Args
				if len(args) == 0 || !isFresh(P, args[0], 2) {
					return false, "the goroutine-starting method " + fnKey(starter) + " is invoked on an object that is not freshly allocated (several goroutines per object possible)"
				}
			}
		}
		return true, "all accesses are in the goroutine " + fnKey(root) + ", started once per freshly allocated object"
	}
	if root == nil || root.Parent() == nil || !isGoClosure(root) {
		return false, "the accessing code is not a goroutine closure"
	}
	starter := root.Parent()
	for _, site := range P.CallersOf(starter) {
		args := site.Common().Args
		if len(args) == 0 || !isFresh(P, args[0], 2) {
			return false, "the goroutine-starting method " + fnKey(starter) + " is invoked on an object that is not freshly allocated (several goroutines per object possible)"
		}
	}
	return true, "all accesses are in the goroutine body " + fnKey(root) + ", started once per freshly allocated object by " + fnKey(starter)
}

func isGoClosure(fn *ssa.Function) bool {
	if fn.Parent() == nil {
		return false
	}
	for _, b := range fn.Parent().Blocks {
		for _, ins := range b.Instrs {
			if g, ok := ins.(*ssa.Go); ok {
				if mc, isMC := g.Common().Value.(*ssa.MakeClosure); isMC && mc.Fn == fn {
					return true
				}
			}
		}
	}
	return false
}

// reachesOnlyThrough is a coarse helper: fn is the root itself.
func (P *Program) reachesOnlyThrough(fn, root *ssa.Function) bool { return fn == root }

// inLoop: the block lies on a cycle of its function's CFG.
func inLoop(b *ssa.BasicBlock) bool {
	for _, s := range b.Succs {
		if blockReaches(s, b) {
			return true
		}
	}
	return false
}

// notConcurrencySafeTypes: dependency types whose documentation says a value must not be used by several
// goroutines at once.
var notConcurrencySafeTypes = map[string]string{
	"github.com/redis/go-redis/v9.Pipeliner": "go-redis pipelines queue commands without locking",
	"github.com/redis/go-redis/v9.Pipeline":  "go-redis pipelines queue commands without locking",
	"github.com/redis/go-redis/v9.Tx":        "a go-redis Tx is bound to one connection and one caller",
	"bytes.Buffer":                           "bytes.Buffer is not synchronised",
	"strings.Builder":                        "strings.Builder is not synchronised",
	"bufio.Reader":                           "bufio.Reader is not synchronised",
	"bufio.Writer":                           "bufio.Writer is not synchronised",
	"bufio.Scanner":                          "bufio.Scanner is not synchronised",
	"math/rand.Rand":                         "a *rand.Rand is not safe for concurrent use",
	"encoding/json.Encoder":                  "a json.Encoder writes to its stream without locking",
	"encoding/json.Decoder":                  "a json.Decoder reads from its stream without locking",
	"hash.Hash":                              "a hash.Hash accumulates state",
	"hash.Hash32":                            "a hash.Hash accumulates state",
	"hash.Hash64":                            "a hash.Hash accumulates state",
	"crypto/cipher.Stream":                   "a cipher.Stream keeps key-stream state",
	"text/tabwriter.Writer":                  "tabwriter.Writer buffers without locking",
}

// noUnsafeSharedDependencyObject: no own struct type that outlives a check (every own struct except the
// per-check handler and its helpers, which C16.R4 keeps per check) has a field of a dependency type that
// is documented as not safe for concurrent use; such an object kept in a store, provider, pool or
// controller is used by overlapping checks without any lock the lockset analysis could see (the mutation
// happens inside the dependency).
func noUnsafeSharedDependencyObject(c *Check, rule string, R *Roles) {
	P := c.P
	n := 0
	for _, nt := range P.ownNamedTypes() {
		if strings.Contains(nt.Obj().Pkg().Path(), "/config/gen/") {
			continue
		}
		st, ok := nt.Underlying().(*types.Struct)
		if !ok {
			continue
		}
		if R.OIDCType != nil && types.Identical(nt, R.OIDCType) {
			continue // built per check (C16.R4)
		}
		n++
		for i := 0; i < st.NumFields(); i++ {
			ft := typeID(derefType(st.Field(i).Type()))
			if why, bad := notConcurrencySafeTypes[ft]; bad {
				c.Fail(rule, "unsafe-shared-object/"+typeID(nt)+"."+st.Field(i).Name(), P.Pos(st.Field(i).Pos()),
					"field "+st.Field(i).Name()+" of the long-lived type "+typeID(nt)+" holds a "+ft+" ("+why+"): overlapping checks use it concurrently")
			}
		}
	}
	c.Obl(n >= 10, rule, "unsafe-shared-object", "-", fmt.Sprintf("%d own struct types: none keeps a dependency object that is not safe for concurrent use", n), "own struct types not enumerated (anchor lost)")
}

// gatesAreOpened: a channel field that request-path code waits on (`<-p.started`) is a start gate. The
// function that closes it does so before it blocks itself: on every path to a receive or select (waiting
// for the context to end) the close has already happened — a path that parks the unit without opening the
// gate leaves every check that needs it blocked for ever.
func gatesAreOpened(c *Check, rule string) {
	P := c.P
	type gate struct{ id string }
	waits := map[string]ssa.Instruction{}
	closes := map[string][]*ssa.Call{}
	chanField := func(v ssa.Value) string {
		if base, f, ok := fieldLoad(resolveCell(stripConv(v))); ok && f != nil {
			if _, isChan := f.Type().Underlying().(*types.Chan); isChan {
				if n, isN := derefType(base.Type()).(*types.Named); isN && n.Obj().Pkg() != nil && isOwnPath(n.Obj().Pkg().Path()) {
					return typeID(n) + "." + f.Name()
				}
			}
		}
		return ""
	}
	for _, fn := range P.Funcs {
		if !isOwnPath(pkgPathOf(fn)) {
			continue
		}
		for _, b := range fn.Blocks {
			for _, ins := range b.Instrs {
				switch x := ins.(type) {
				case *ssa.UnOp:
					if x.Op == token.ARROW {
						if id := chanField(x.X); id != "" {
							waits[id] = x
						}
					}
				case *ssa.Call:
					if bi, isB := x.Call.Value.(*ssa.Builtin); isB && bi.Name() == "close" && len(x.Call.Args) == 1 {
						if id := chanField(x.Call.Args[0]); id != "" {
							closes[id] = append(closes[id], x)
						}
					}
				}
			}
		}
	}
	n := 0
	for id, w := range waits {
		cl := closes[id]
		if len(cl) == 0 {
			continue // a channel that is sent on, not a close-gate
		}
		n++
		for _, cc := range cl {
			fn := cc.Parent()
			bad := ""
			for _, b := range fn.Blocks {
				for _, ins := range b.Instrs {
					blocking := false
					switch x := ins.(type) {
					case *ssa.UnOp:
						blocking = x.Op == token.ARROW && chanField(x.X) != id
					case *ssa.Select:
						blocking = x.Blocking
					}
					if blocking && !mustPassBefore(fn, ins, func(i ssa.Instruction) bool { return i == ssa.Instruction(cc) }) {
						bad = posOf(P, ins)
					}
				}
			}
			c.Obl(bad == "", rule, "gate-opened-before-blocking/"+id, P.Pos(cc.Pos()), "the gate "+id+" (awaited at "+posOf(P, w)+") is closed before "+fnKey(fn)+" blocks",
				fnKey(fn)+" can block at "+bad+" without having closed the gate "+id+", which "+fnKey(w.Parent())+" waits on: those callers never return")
		}
	}
	c.Obl(n >= 1, rule, "gates", "-", fmt.Sprintf("%d start gate(s) found", n), "no start gate found (the JWKS provider's `started` channel is the anchor of this rule)")
}

// cacheEntriesPublishedComplete: an entry of the discovery cache becomes visible to concurrent checks at the
// map update (made under the mutex). It is complete by then: the document was decoded before the update on
// every path, and — when the cache holds pointers — nothing decodes into or assigns to the published object
// afterwards. An entry registered first and filled later is read half-built (empty endpoints) by a check
// that overlaps the first fetch, and the fill races with that read.
func cacheEntriesPublishedComplete(c *Check, rule string) {
	P := c.P
	gw := P.Func(pkgOIDC, "GetWellKnownConfig")
	if !c.Anchor(rule, "GetWellKnownConfig", gw != nil) {
		return
	}
	n := 0
	for _, gf := range deepFuncs(gw, 2) {
		if pkgPathOf(gf) != pkgOIDC {
			continue
		}
		var decodes []ssa.Instruction
		for _, ci := range allCalls(gf) {
			if isCallToAny(ci, "encoding/json.Decoder.Decode", "encoding/json.Unmarshal") {
				decodes = append(decodes, ci)
			}
			if callee := ci.Common().StaticCallee(); callee != nil && pkgPathOf(callee) == pkgOIDC && callee != gf {
				for _, ci2 := range allCalls(callee) {
					if isCallToAny(ci2, "encoding/json.Decoder.Decode", "encoding/json.Unmarshal") {
						decodes = append(decodes, ci) // the helper call stands for the decode
					}
				}
			}
		}
		isDecode := func(i ssa.Instruction) bool {
			for _, d := range decodes {
				if d == i {
					return true
				}
			}
			return false
		}
		for _, b := range gf.Blocks {
			for _, ins := range b.Instrs {
				mu, ok := ins.(*ssa.MapUpdate)
				if !ok {
					continue
				}
				mt, isM := mu.Map.Type().Underlying().(*types.Map)
				if !isM || !strings.HasSuffix(typeID(derefType(mt.Elem())), ".WellKnownConfig") {
					continue
				}
				n++
				if len(decodes) > 0 && gf == gw {
					before := mustPassBefore(gf, mu, isDecode)
					c.Obl(before, rule, "cache-entry-decoded-before-publication/"+nthKeyOf(mu), P.Pos(mu.Pos()), "the document is decoded before the entry is put into the cache",
						"an entry is put into the discovery cache before the document was decoded: a check overlapping the first fetch reads an empty entry")
				}
				if _, isPtr := mt.Elem().Underlying().(*types.Pointer); isPtr {
					after := reachAvoiding(mu, nil, func(i ssa.Instruction) bool {
						if isDecode(i) {
							return true
						}
						if st, isS := i.(*ssa.Store); isS {
							if fa, isF := st.Addr.(*ssa.FieldAddr); isF && sameVal(fa.X, mu.Value) {
								return true
							}
						}
						return false
					}, nil)
					c.Obl(after == nil, rule, "cache-entry-not-written-after-publication/"+nthKeyOf(mu), P.Pos(mu.Pos()), "the published object is not written afterwards",
						"the object put into the discovery cache is filled after it was published ("+posOf(P, after)+"): concurrent checks read it half-built, and the fill races with their reads")
				}
			}
		}
	}
	c.Obl(n >= 1, rule, "cache-publications", "-", fmt.Sprintf("%d insertion(s) into the discovery cache", n), "no insertion into the discovery cache found (anchor lost)")
}

func nthKeyOf(i ssa.Instruction) string {
	return fnKey(i.Parent())
}

// mutexOwnersHavePointerReceivers: every method of an own struct type that contains a sync.Mutex / RWMutex
// (directly or in an embedded struct) has a pointer receiver. A value receiver copies the struct: the method
// locks its private copy of the mutex (or deadlocks on a copy taken while it was held) and works on the
// shared maps behind it without any protection.
func mutexOwnersHavePointerReceivers(c *Check, rule string) {
	P := c.P
	hasMutex := func(t types.Type) bool {
		seen := map[types.Type]bool{}
		var walk func(t types.Type) bool
		walk = func(t types.Type) bool {
			if seen[t] {
				return false
			}
			seen[t] = true
			switch id := typeID(t); id {
			case "sync.Mutex", "sync.RWMutex", "sync.WaitGroup", "sync.Once", "sync.Cond":
				return true
			}
			if st, ok := t.Underlying().(*types.Struct); ok {
				for i := 0; i < st.NumFields(); i++ {
					if _, isPtr := st.Field(i).Type().(*types.Pointer); isPtr {
						continue
					}
					if walk(st.Field(i).Type()) {
						return true
					}
				}
			}
			return false
		}
		return walk(t)
	}
	n := 0
	for _, nt := range P.ownNamedTypes() {
		if strings.Contains(nt.Obj().Pkg().Path(), "/config/gen/") || !hasMutex(nt) {
			continue
		}
		n++
		for i := 0; i < nt.NumMethods(); i++ {
			m := nt.Method(i)
			sig := m.Type().(*types.Signature)
			if sig.Recv() == nil {
				continue
			}
			_, isPtr := sig.Recv().Type().(*types.Pointer)
			c.Obl(isPtr, rule, "mutex-owner-pointer-receiver/"+typeID(nt)+"."+m.Name(), P.Pos(m.Pos()), "pointer receiver",
				"method "+m.Name()+" of "+typeID(nt)+" has a value receiver although the type contains a mutex: it runs on a copy of the struct, with a private copy of the lock")
		}
	}
	c.Obl(n >= 3, rule, "mutex-owners", "-", fmt.Sprintf("%d own types contain a mutex", n), "own types with a mutex not found (anchor lost)")
}

// packageStateObjectsNotWritten: an object obtained from package-level state — a package-level variable, a map or
// sync.Map held by one (a memo of parsed URLs, a pool of templates) — is shared by every check that obtains it. A
// field store through such a pointer in a function that checks run (the login redirect filling in RawQuery of a
// memoised *url.URL) is a write/write and write/read race on that object, and one user's values surface in
// another user's answer. Own helpers that hand the object out are followed (two levels).
func packageStateObjectsNotWritten(c *Check, rule string, R *Roles) {
	P := c.P
	fromPkgState := func(v ssa.Value) string {
		for _, l := range LeavesInl(v, leafOpts{noConcat: true}, 2, func(f *ssa.Function) bool { return !isOwnPath(pkgPathOf(f)) }) {
			l = resolveCell(stripConv(l))
			if ta, isTA := l.(*ssa.TypeAssert); isTA {
				l = resolveCell(stripConv(ta.X))
			}
			if ex, isE := l.(*ssa.Extract); isE {
				if cl, isC := ex.Tuple.(*ssa.Call); isC && cl.Common().StaticCallee() != nil {
					switch funcID(calleeOf(cl).Obj) {
					case "sync.Map.Load", "sync.Map.LoadOrStore", "sync.Map.LoadAndDelete", "sync.Map.Swap":
						if len(cl.Common().Args) > 0 {
							if _, isG := stripConv(cl.Common().Args[0]).(*ssa.Global); isG {
								return "a value of the package-level sync.Map " + descDepth(cl.Common().Args[0], 1)
							}
						}
					}
				}
				if lk, isL := ex.Tuple.(*ssa.Lookup); isL {
					l = lk
				}
			}
			if lk, isL := l.(*ssa.Lookup); isL {
				if u, isU := resolveCell(stripConv(lk.X)).(*ssa.UnOp); isU {
					if g, isG := u.X.(*ssa.Global); isG && g.Pkg != nil && isOwnPath(g.Pkg.Pkg.Path()) {
						return "an element of the package-level map " + g.Name()
					}
				}
			}
			if u, isU := l.(*ssa.UnOp); isU && u.Op == token.MUL {
				if g, isG := u.X.(*ssa.Global); isG && g.Pkg != nil && isOwnPath(g.Pkg.Pkg.Path()) {
					if _, isPtr := g.Type().(*types.Pointer).Elem().Underlying().(*types.Pointer); isPtr {
						return "the object held by the package-level variable " + g.Name()
					}
				}
			}
		}
		return ""
	}
	n := 0
	for _, fn := range R.HandlerFuncs {
		for _, b := range fn.Blocks {
			for _, ins := range b.Instrs {
				st, ok := ins.(*ssa.Store)
				if !ok {
					continue
				}
				fa, isF := st.Addr.(*ssa.FieldAddr)
				if !isF {
					continue
				}
				if _, isAlloc := resolveCell(stripConv(fa.X)).(*ssa.Alloc); isAlloc {
					continue
				}
				n++
				if src := fromPkgState(fa.X); src != "" {
					c.Fail(rule, "package-state-object-written/"+fnKey(fn)+"/"+fieldAddrID(fa), P.Pos(st.Pos()),
						"field "+fieldAddrID(fa)+" is written through a pointer that is "+src+": every check that obtains the object writes and reads the same memory (data race; one request's values appear in another's answer)")
				}
			}
		}
	}
	c.Obl(n >= 3, rule, "package-state-object-written/sites", "-", fmt.Sprintf("%d field stores through non-local pointers in the handler's functions: none through an object obtained from package-level state", n),
		"no field stores found in the handler's functions (anchor lost)")
}
