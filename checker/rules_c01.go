package main

import (
	"fmt"
	"go/token"
	"strings"

	"golang.org/x/tools/go/ssa"
)

func init() { registry["C01"] = checkC01 }

// errException: (function role, callee id) pairs whose error result is deliberately not the decider.
type errException struct {
	inRole string
	callee string
	reason string
}

var c01ErrExceptions = []errException{
	{"Refresh", fParseToken, "a new ID token that does not parse falls back to the stored ID token; the merged token is validated by the ID-token validator before the helper returns non-nil (C01.R2 refreshed-summary, C02.R1)"},
	{"*", "io.Closer.Close", "closing the IdP response body: nothing depends on its outcome"},
	{"*", "io.ReadCloser.Close", "closing the IdP response body: nothing depends on its outcome"},
	{"Refresh", mGetState + "#absent", "after a completed login the login state is legitimately absent; the nonce comparison is then skipped as OIDC allows for refreshed ID tokens (the store *error* is a separate, tested obligation)"},
	{"CallbackMatch", "net/url.Parse", "re-parse of the callback URI that configuration loading already validated (C17.R1); a nil URL would crash, not allow"},
}

func checkC01(c *Check) {
	P := c.P
	R := GetRoles(P)
	c.Assumes("jwt.Parse/jws.Verify (lestrrat-go/jwx) behave as documented; Envoy applies its failure policy to a (nil, err) answer")
	c.Assumes("whether a stored session ought still to be alive is C10's question; these rules hold for every state the store can be in")

	c.Rule("C01.R1", "who-may-write-the-verdict: every construction of a status.Status and every store to CheckResponse.Status/HttpResponse in own code is in a function of the verdict-writer role table (allowResponse: constant OK; setDenyResponse: code parameter; mock handler; server allow/deny); every call of the deny writer passes a code that is provably not OK (non-zero constant, value known != OK by a branch fact, or a callee result whose every failing return carries a non-OK constant).", 20)
	c.Rule("C01.R2", "every call of the OK writer in the OIDC handler is justified: its token argument is either the non-nil, error-free result of SessionStore.GetTokenResponse(sid) found unexpired by the expiry test on the same object, or the non-nil result of the refresh helper (non-nil only after a token exchange answered OK and the ID-token validator accepted the merged token) that was stored with SetTokenResponse(sid, same object) without error; sid comes from the session cookie and is non-empty; logout and callback branches have been left.", 2)
	c.Rule("C01.R3", "error discipline (static fault enumeration): for every call in the OIDC handler's functions and in the server's Check that yields an error, a status code, or the nil-able result of a store read / refresh, the result is bound and tested (or propagated), and from the blocks where the failure is known no OK writer, no token-binding store write and no positive return of the enclosing helper is reachable.", 25)
	c.Rule("C01.R4", "expiry test shape: every `not expired` return of the expiry test is dominated by a successful parse of the stored ID token and by the false outcome of IDToken.Expiration().Before(clock.Now()); the access-token clause can only add `expired` outcomes.", 2)
	c.Rule("C01.R6", "live session in the store: a session that has exceeded its absolute or idle timeout is not handed to the handler — memory store: every session read from the map passes the expiry predicate (absolute↔created, idle↔last-used) and creation time is written only at allocation; Redis: every successful operation refreshes the key's TTL from created+absolute / now+idle and creation time is HSETNX (the rules of C10.R1–R3).", 30)
	c.Rule("C01.R5", "server loop: a handler construction or Process error returns no verdict; after Handler.Process the next filter is reached only through the true edge of codes.Code(resp.Status.Code) == OK on the same response; every non-nil response returned by Check is the handler-filled response, a deny(...) with a non-OK constant, or the shared allow under !mustTriggerCheck, an empty filter list of a matching chain, or AllowUnmatchedRequests.", 5)

	if !requireRoles(c, "C01.R1", R, "OIDCProcess", "CheckEntry", "AllowFn", "DenyWriter", "TokenExchange", "IDTokenValidator",
		"RedirectHelper", "CallbackHelper", "RefreshHelper", "ExpiryTest", "CookieReader", "LogoutMatch", "CallbackMatch", "NewOIDCHandler") {
		return
	}
	c01R1(c, R)
	c01R2(c, R)
	c01R3(c, R)
	c01R4(c, R)
	// … and the expiry the test reads was recorded whenever the IdP announced one: the writers' guard is expires_in > 0
	// itself (C03.R4) — an expiry that stays `unknown` for a short-lived token is never found expired
	if c.ID == "C01" {
		importObls(c, "C03", checkC03, "C01.R4", func(o *Obligation) bool { return strings.HasPrefix(o.Key, "C03.R4/expiry-unknown") })
		importObls(c, "C12", checkC12, "C01.R6", func(o *Obligation) bool { return strings.HasPrefix(o.Key, "C12.R2/tokens/expiry-after-token") })
		// a refresh answer is accepted as a refresh only when it says so: the token_type test of the refresh validator is
		// decisive (C11.R3) — an error document answered with status 200 must not keep an expired session alive
		importObls(c, "C11", checkC11, "C01.R2", func(o *Obligation) bool { return strings.Contains(o.Key, "token-type-decisive") })
		importObls(c, "C10", checkC10, "C01.R6", func(o *Obligation) bool {
			return strings.HasPrefix(o.Key, "C10.R4/ctor-field/") || strings.HasPrefix(o.Key, "C10.R4/timeout-written-outside-constructor") ||
				strings.HasPrefix(o.Key, "C10.R4/wiring/")
		})
	}
	c01R5(c, R)
	c01R6(c)
	// R7: the bypass predicate. The shared allow is justified by !mustTriggerCheck (R5); that predicate
	// must be the documented disjunction over the rules (the decision-shape rule of C07), or a request can
	// skip every filter.
	c.Rule("C01.R7", "bypass predicate shape: the trigger decision that justifies the unfiltered allow returns `not triggered` only after every trigger rule has been consulted without a match, and `triggered` for no rules / an empty path / any matching rule (the rule C07.R3, filed here because a wrong `not triggered` is an OK without a live session).", 7)
	if sr, missing := getServerRoles(c.P); len(missing) == 0 {
		refile(c, "C01.R7", func() { c07R3(c, sr) })
	} else {
		for _, m := range missing {
			c.Anchor("C01.R7", m, false)
		}
	}
	// R8: every path through a handler sets a verdict. A Process that returns without having written the response
	// leaves Status nil; a nil-tolerant reader in the server loop (GetStatus().GetCode()) would read that as OK.
	c.Rule("C01.R8", "verdict totality: every path from entry to a normal return of every Handler.Process implementation sets a verdict (the rule C15.R3, filed here because an unset verdict is read as code 0 = OK by a nil-tolerant getter).", 2)
	refile(c, "C01.R8", func() { c15R3(c, R) })
	// the refreshed token object is built in the refresh helper: an in-place merge into the object the store
	// handed out would make unvalidated tokens visible to concurrent checks before validation
	if R.Refresh != nil {
		ok, why := refreshFieldsOK(R)
		c.Obl(ok, "C01.R2", "refresh-result-is-a-new-object", c.P.Pos(R.Refresh.Pos()),
			"the refresh helper returns an object it allocated, filled from the exchange answer and the stored tokens",
			"the refresh helper does not return a freshly built token object ("+why+"): tokens that have not been validated can become visible in the session")
	}
}

// c01R6: `live session` at the store level — the rules of C10 that make an expired session unavailable to
// the handler (memory: expiry predicate on every access, creation time write-once; Redis: TTL refreshed on
// every successful operation from created+absolute / now+idle), filed under C01.R6.
func c01R6(c *Check) {
	sr, missing := getStoreRoles(c.P)
	if len(missing) > 0 {
		for _, m := range missing {
			c.Anchor("C01.R6", m, false)
		}
		return
	}
	before := len(c.Obls)
	c10R1(c, sr)
	c10R2(c, sr)
	c10R3(c, sr)
	for _, o := range c.Obls[before:] {
		o.Key = strings.Replace(o.Key, o.Rule, "C01.R6", 1)
		o.Rule = "C01.R6"
	}
}

// ---------------------------------------------------------------------------------------------- R1

func c01R1(c *Check, R *Roles) {
	P := c.P
	allowed := map[*ssa.Function]string{
		R.AllowFn:     "OK writer of the OIDC handler (constant OK, justified per call site by C01.R2)",
		R.DenyWriter:  "deny writer (code parameter, checked per call site)",
		R.MockProcess: "mock handler: verdict is the configured constant, outside the OIDC property",
	}
	// server package: the package initialiser (shared allow) and the deny closure
	for _, fn := range P.Funcs {
		if fn.Package() != nil && fn.Package().Pkg.Path() == pkgServer {
			if fn.Name() == "init" || strings.HasPrefix(fn.Name(), "init$") {
				allowed[fn] = "server package initialiser: shared allow / deny(code) templates (returns checked by C01.R5)"
			}
		}
	}
	if init := P.SSA[pkgServer].Func("init"); init != nil {
		allowed[init] = "server package initialiser: shared allow / deny(code) templates (returns checked by C01.R5)"
	}
	for fn := range serverDenyFns(P) {
		allowed[fn] = "server deny template: code parameter, every call site checked by C01.R5 (non-OK constant)"
	}
	scan := func(fn *ssa.Function) {
		for _, b := range fn.Blocks {
			for _, ins := range b.Instrs {
				switch x := ins.(type) {
				case *ssa.Alloc:
					if typeID(x.Type()) == pkgStatus+".Status" {
						why, ok := allowed[fn]
						c.Obl(ok, "C01.R1", "status-construction/"+fnKey(fn), P.Pos(instrPos(x)),
							"status.Status built in "+fnKey(fn)+": "+why,
							"status.Status is constructed in "+fnKey(fn)+", which is not in the verdict-writer role table: an unclassified function can produce a verdict")
					}
				case *ssa.Store:
					if fa, ok := x.Addr.(*ssa.FieldAddr); ok {
						id := fieldAddrID(fa)
						if id == idCheckResponse+".Status" || id == idCheckResponse+".HttpResponse" {
							// stores into a freshly allocated literal in the server initialiser are fine too
							why, ok := allowed[fn]
							c.Obl(ok, "C01.R1", "verdict-store/"+fnKey(fn)+"/"+strings.TrimPrefix(id, idCheckResponse+"."), P.Pos(instrPos(x)),
								"store to "+shortID(id)+" in "+fnKey(fn)+": "+why,
								"store to "+shortID(id)+" in "+fnKey(fn)+", which is not in the verdict-writer role table")
						}
						if id == pkgStatus+".Status.Code" {
							// value classification for the OK writer: must be constant OK only there
							if fn == R.DenyWriter {
								// must be the conversion of the code parameter
								src := stripConv(x.Val)
								_, isParam := src.(*ssa.Parameter)
								c.Obl(isParam && isCodeType(src.Type()), "C01.R1", "deny-writer-code", P.Pos(instrPos(x)),
									"deny writer stores its code parameter into Status.Code",
									"deny writer stores "+Desc(x.Val)+" into Status.Code instead of its code parameter")
							}
						}
					}
				}
			}
		}
	}
	for _, fn := range P.Funcs {
		pk := fn.Package()
		if pk == nil && fn.Parent() != nil {
			pk = fn.Parent().Package()
		}
		if pk == nil {
			continue
		}
		switch pk.Pkg.Path() {
		case pkgAuthz, pkgServer, pkgOIDC, pkgHTTP, pkgInt, pkgK8s:
			scan(fn)
		}
	}
	if init := P.SSA[pkgServer].Func("init"); init != nil {
		scan(init)
	}

	// deny call sites
	for _, fn := range P.Funcs {
		for _, call := range allCalls(fn) {
			if call.Common().StaticCallee() != R.DenyWriter {
				continue
			}
			cc, ok := call.(*ssa.Call)
			if !ok {
				c.Fail("C01.R1", "deny-code/"+nthCallKey(call), P.Pos(call.Pos()), "deny writer invoked through go/defer: not analysed")
				continue
			}
			args := callArgs(cc)
			if len(args) < 3 {
				c.Fail("C01.R1", "deny-code/"+nthCallKey(call), P.Pos(call.Pos()), "unexpected deny writer arity")
				continue
			}
			ok, why := codeProvablyNotOK(R, fn, cc, args[2])
			c.Obl(ok, "C01.R1", "deny-code/"+nthCallKey(call), P.Pos(call.Pos()), why, why)
		}
	}
}

var codeDepth int

// codeProvablyNotOK decides whether the codes.Code value v is != OK at instruction at.
func codeProvablyNotOK(R *Roles, fn *ssa.Function, at ssa.Instruction, v ssa.Value) (bool, string) {
	if n, ok := constInt(v); ok {
		if n != 0 {
			return true, fmt.Sprintf("code is the constant %d (!= OK)", n)
		}
		return false, "deny writer is called with the constant codes.OK"
	}
	fs := FactsOf(fn).At(at)
	if fs.intFact(v, func(op token.Token, k int64) bool { return op == token.NEQ && k == 0 }) {
		return true, "code " + descDepth(v, 2) + " is used under the branch fact code != OK"
	}
	// result of an own call: inspect the callee's returns
	if call, idx, ok := asCall(resolveCell(v)); ok && idx >= 0 {
		if callee := call.Common().StaticCallee(); callee != nil && callee.Blocks != nil {
			allNotOK := true
			var boolIdx = -1
			for _, r := range returnsOf(callee) {
				n, isC := constInt(r.Results[idx])
				if isC && n != 0 {
					continue
				}
				// OK (or non-constant) code: acceptable only if paired with a `true` bool that the caller knows to be false
				paired := false
				for j, res := range r.Results {
					if j == idx {
						continue
					}
					if b, isB := constBool(res); isB && b {
						if v, k := fs.CallBool(call, j); k && !v {
							paired = true
							boolIdx = j
						}
					}
				}
				if !paired {
					allNotOK = false
				}
			}
			if allNotOK {
				if boolIdx >= 0 {
					return true, fmt.Sprintf("code is result #%d of %s used under the fact result #%d == false; every return of the callee with a false verdict carries a non-OK constant", idx, fnKey(callee), boolIdx)
				}
				return true, fmt.Sprintf("code is result #%d of %s, all of whose returns carry a non-OK constant", idx, fnKey(callee))
			}
		}
	}
	// a parameter of a denial helper: every call site of the helper must pass a provably non-OK code
	if p, isP := resolveCell(stripConv(v)).(*ssa.Parameter); isP && p.Parent() == fn && fn != R.OIDCProcess && codeDepth < 2 {
		idx := -1
		for i, q := range fn.Params {
			if q == p {
				idx = i
			}
		}
		callers := R.P.CallersOf(fn)
		if idx >= 0 && len(callers) > 0 {
			all := true
			why := ""
			codeDepth++
			for _, site := range callers {
				if idx >= len(site.Common().Args) {
					all = false
					break
				}
				ok2, w := codeProvablyNotOK(R, site.Parent(), site, site.Common().Args[idx])
				if !ok2 {
					all, why = false, w
					break
				}
			}
			codeDepth--
			if all {
				return true, fmt.Sprintf("code is parameter %s of the denial helper %s; each of its %d call sites passes a provably non-OK code", p.Name(), fnKey(fn), len(callers))
			}
			return false, "the denial helper " + fnKey(fn) + " receives a code that is not provably != OK at one of its call sites: " + why
		}
	}
	return false, "cannot prove that the code " + descDepth(v, 3) + " passed to the deny writer is != OK (no constant, no dominating `!= OK` test, no callee summary)"
}

// ---------------------------------------------------------------------------------------------- R2

// sidOK: the session id value is the cookie reader's result and is known non-empty.
func sidFromCookie(R *Roles, fs FactSet, sid ssa.Value) (bool, string) {
	call, _, ok := asCall(resolveCell(stripConv(sid)))
	if !ok || call.Common().StaticCallee() != R.CookieReader {
		return false, "session id " + descDepth(sid, 2) + " is not the result of the cookie reader"
	}
	if !fs.StrNonEmpty(call) {
		return false, "session id is not known to be non-empty here"
	}
	return true, ""
}

func leftLogoutAndCallback(R *Roles, fs FactSet) (bool, string) {
	lo, cb := false, false
	for cond, pol := range fs {
		call, _, ok := asCall(cond)
		if !ok {
			continue
		}
		if call.Common().StaticCallee() == R.LogoutMatch && !pol {
			lo = true
		}
		if call.Common().StaticCallee() == R.CallbackMatch && !pol {
			cb = true
		}
	}
	if !lo {
		return false, "the logout branch has not been excluded (no fact matchesLogoutPath == false)"
	}
	if !cb {
		return false, "the callback branch has not been excluded (no fact matchesCallbackPath == false)"
	}
	return true, ""
}

func c01R2(c *Check, R *Roles) {
	P := c.P
	n := 0
	for _, fn := range P.Funcs {
		for _, call := range allCalls(fn) {
			if call.Common().StaticCallee() != R.AllowFn {
				continue
			}
			n++
			key := "allow/" + nthCallKey(call)
			where := P.Pos(call.Pos())
			cc, isCall := call.(*ssa.Call)
			if fn != R.OIDCProcess || !isCall {
				c.Fail("C01.R2", key, where, "OK writer called from "+fnKey(fn)+": only calls inside the handler's Process have a justification pattern (unclassified allow site)")
				continue
			}
			args := callArgs(cc)
			fs := FactsOf(fn).At(cc)
			if ok, why := leftLogoutAndCallback(R, fs); !ok {
				c.Fail("C01.R2", key, where, why)
				continue
			}
			T := resolveCell(stripConv(args[1]))
			ok, why := justifyTokens(R, fn, cc, fs, T)
			c.Obl(ok, "C01.R2", key, where, why, why)
		}
	}
}

func justifyTokens(R *Roles, fn *ssa.Function, at *ssa.Call, fs FactSet, T ssa.Value) (bool, string) {
	src, idx, ok := asCall(T)
	if !ok {
		return false, "token argument " + descDepth(T, 3) + " is not the result of a call (unclassified allow site)"
	}
	// fresh: GetTokenResponse
	if isCallTo(src, mGetToken) && idx == 0 {
		if !fs.CallErrNil(src, 1) {
			return false, "tokens come from GetTokenResponse but its error is not known to be nil here"
		}
		if !fs.CallResultNonNil(src, 0) {
			return false, "tokens come from GetTokenResponse but are not known to be non-nil here"
		}
		if ok, why := sidFromCookie(R, fs, callArgs(src)[1]); !ok {
			return false, "GetTokenResponse: " + why
		}
		// expiry test on the same object, outcome false, error nil
		found := false
		for _, e := range allCalls(fn) {
			ec, isC := e.(*ssa.Call)
			if !isC || ec.Common().StaticCallee() != R.ExpiryTest {
				continue
			}
			same := false
			for _, a := range ec.Common().Args {
				if sameVal(a, T) {
					same = true
				}
			}
			if !same {
				continue
			}
			exp, known := fs.CallBool(ec, 0)
			if known && !exp && fs.CallErrNil(ec, 1) {
				found = true
			}
		}
		if !found {
			return false, "stored tokens are allowed without the facts `expired == false` and `err == nil` from the expiry test on the same token object"
		}
		return true, "fresh: tokens = GetTokenResponse(sid) with err == nil, tokens != nil, expiry test on the same object false without error, sid from cookie and non-empty, logout and callback excluded"
	}
	// refreshed: refresh helper
	if src.Common().StaticCallee() == R.Refresh {
		if !fs.CallResultNonNil(src, -1) {
			return false, "refreshed tokens are not known to be non-nil here"
		}
		ok, why := refreshSummary(R)
		if !ok {
			return false, "refresh helper summary does not hold: " + why
		}
		// stored under sid without error
		stored := false
		for _, s := range allCalls(fn) {
			sc, isC := s.(*ssa.Call)
			if !isC || !isCallTo(sc, mSetToken) {
				continue
			}
			sa := callArgs(sc)
			if !sameVal(sa[2], T) {
				continue
			}
			if ok, _ := sidFromCookie(R, fs, sa[1]); !ok {
				continue
			}
			if fs.CallErrNil(sc, -1) {
				stored = true
			}
		}
		if !stored {
			return false, "refreshed tokens are allowed without the fact SetTokenResponse(sid, same tokens) == nil (refresh not persisted, or persisted under another id/object)"
		}
		// the refresh must itself be justified: expired tokens read from the store under the same sid
		ra := callArgs(src)
		okOld := false
		for _, a := range ra {
			if g, gi, isC := asCall(resolveCell(stripConv(a))); isC && gi == 0 && isCallTo(g, mGetToken) && fs.CallErrNil(g, 1) && fs.CallResultNonNil(g, 0) {
				okOld = true
			}
		}
		if !okOld {
			return false, "refresh helper is not fed with the non-nil, error-free tokens read from the store in this check"
		}
		return true, "refreshed: tokens = refresh helper result != nil (summary: exchange OK and validator true), SetTokenResponse(sid, same object) == nil, sid from cookie and non-empty, logout and callback excluded"
	}
	return false, "token argument " + descDepth(T, 3) + " has no accepted justification pattern (unclassified allow site)"
}

// refreshSummary: every non-nil return of the refresh helper is dominated by (a) the token exchange
// answering OK and (b) the validator returning true on the returned object's ID token.
func refreshSummary(R *Roles) (bool, string) {
	fn := R.Refresh
	ff := FactsOf(fn)
	nonNil := 0
	for _, r := range returnsOf(fn) {
		if isNilConst(r.Results[0]) {
			continue
		}
		nonNil++
		fs := ff.At(r)
		ret := resolveCell(stripConv(r.Results[0]))
		// (a)
		exOK := false
		for _, e := range allCalls(fn) {
			ec, isC := e.(*ssa.Call)
			if !isC || ec.Common().StaticCallee() != R.TokenExchange {
				continue
			}
			if rv := resultValue(ec, 1); rv != nil && fs.intFact(rv, func(op token.Token, k int64) bool { return op == token.EQL && k == 0 }) {
				exOK = true
			}
		}
		if !exOK {
			return false, "a non-nil return at " + fmt.Sprint(fn.Prog.Fset.Position(r.Pos()).Line) + " is not dominated by `token exchange code == OK`"
		}
		// (b)
		valOK := false
		for _, e := range allCalls(fn) {
			ec, isC := e.(*ssa.Call)
			if !isC || ec.Common().StaticCallee() != R.Validator {
				continue
			}
			v, known := fs.CallBool(ec, 0)
			if !known || !v {
				continue
			}
			// validated string is the IDToken field of the returned object
			for _, a := range callArgs(ec) {
				if base, f, ok := fieldLoad(stripConv(a)); ok && f != nil && f.Name() == "IDToken" && sameVal(base, ret) {
					valOK = true
				}
			}
		}
		if !valOK {
			return false, "a non-nil return is not dominated by `validator(returned.IDToken) == true`"
		}
	}
	if nonNil == 0 {
		return false, "refresh helper has no non-nil return"
	}
	return true, ""
}

// ---------------------------------------------------------------------------------------------- R3

func roleOf(R *Roles, fn *ssa.Function) string {
	switch fn {
	case R.Refresh:
		return "Refresh"
	case R.Validator:
		return "Validator"
	case R.TokenExchange:
		return "TokenExchange"
	case R.ExpiryTest:
		return "ExpiryTest"
	case R.Callback:
		return "Callback"
	case R.Redirect:
		return "Redirect"
	case R.OIDCProcess:
		return "Process"
	case R.CallbackMatch:
		return "CallbackMatch"
	case R.LogoutMatch:
		return "LogoutMatch"
	case R.NewOIDC:
		return "NewOIDC"
	case R.CheckEntry:
		return "Check"
	}
	return ""
}

// positiveExit: instruction predicate for "the good outcome" of a function, which must be unreachable
// once a failure is known.
func positiveExit(R *Roles, fn *ssa.Function) func(ssa.Instruction) bool {
	role := roleOf(R, fn)
	return func(ins ssa.Instruction) bool {
		switch x := ins.(type) {
		case *ssa.Call:
			if x.Common().StaticCallee() == R.AllowFn {
				return true
			}
			if isCallTo(x, mSetToken) {
				return true
			}
			if role == "Check" && isCallTo(x, idHandlerIface+".Process") {
				return true // continuing with the next filter after a failure
			}
		case *ssa.Return:
			res := x.Results
			switch role {
			case "Validator":
				b, isC := constBool(res[0])
				return !(isC && !b)
			case "Refresh":
				return !isNilConst(res[0])
			case "TokenExchange":
				n, isC := constInt(res[1])
				return !isC || n == 0
			case "ExpiryTest":
				b, isC := constBool(res[0])
				if isC && b {
					return false
				}
				return isNilConst(res[1])
			case "NewOIDC":
				return isNilConst(res[1]) || !isNilConst(res[0])
			case "Check":
				return len(res) > 0 && !isNilConst(res[0])
			default:
				// bool helpers: a true (or non-constant) result is positive
				if len(res) == 1 && isBool(res[0].Type()) {
					b, isC := constBool(res[0])
					return !(isC && !b)
				}
			}
		}
		return false
	}
}

func c01R3(c *Check, R *Roles) {
	P := c.P
	fns := append([]*ssa.Function{}, R.HandlerFuncs...)
	fns = append(fns, R.NewOIDC, R.CheckEntry)
	seen := map[*ssa.Function]bool{}
	for _, fn := range fns {
		if fn == nil || seen[fn] {
			continue
		}
		seen[fn] = true
		role := roleOf(R, fn)
		pos := positiveExit(R, fn)
		for _, ci := range allCalls(fn) {
			call, isCall := ci.(*ssa.Call)
			if !isCall {
				continue
			}
			ce := calleeOf(call)
			if ce.Obj == nil && ce.Fn == nil {
				continue
			}
			id := funcID(ce.Obj)
			sig := call.Common().Signature()
			res := sig.Results()
			type obl struct {
				idx  int
				kind failureKind
				what string
			}
			var obls []obl
			for i := 0; i < res.Len(); i++ {
				idx := i
				if res.Len() == 1 {
					idx = -1
				}
				t := res.At(i).Type()
				switch {
				case isErrorType(t):
					obls = append(obls, obl{idx, failErrNonNil, "error"})
				case isCodeType(t):
					obls = append(obls, obl{idx, failCodeNotOK, "status code"})
				}
			}
			// nil-able results whose nil means "absent": store reads and the refresh helper
			if isCallToAny(call, mGetToken, mGetState) {
				obls = append(obls, obl{0, failNil, "absent result"})
			}
			if ce.Fn == R.Refresh && R.Refresh != nil {
				obls = append(obls, obl{-1, failNil, "nil (failed refresh)"})
			}
			if ce.Fn == R.Validator && R.Validator != nil {
				obls = append(obls, obl{0, failBoolFalse, "verdict false"})
			}
			for _, o := range obls {
				key := fmt.Sprintf("fault/%s/result%d", nthCallKey(call), o.idx)
				where := P.Pos(call.Pos())
				if ex := findErrException(role, id, o, ce.Fn == R.Validator); ex != "" {
					c.Pass("C01.R3", key, where, "enumerated exception: "+ex)
					continue
				}
				rv := resultValue(call, o.idx)
				if rv == nil || !isUsed(rv) {
					c.Fail("C01.R3", key, where, fmt.Sprintf("the %s result of %s is discarded in %s: a failure at this point cannot lead to a denial", o.what, shortID(id), fnKey(fn)))
					continue
				}
				region := failureRegion(fn, call, o.idx, o.kind)
				if len(region) == 0 {
					if valueReturned(fn, rv) {
						c.Pass("C01.R3", key, where, fmt.Sprintf("the %s of %s is propagated to the caller of %s", o.what, shortID(id), fnKey(fn)))
						continue
					}
					c.Fail("C01.R3", key, where, fmt.Sprintf("the %s result of %s is never tested in %s (no branch establishes the failure)", o.what, shortID(id), fnKey(fn)))
					continue
				}
				if hit := reachFromBlocks(region, pos, nil); hit != nil {
					c.Fail("C01.R3", key, where, fmt.Sprintf("after %s signalled failure (%s, known in blocks %s) execution can still reach %s at %s: a fault at this point is not fail-closed",
						shortID(id), o.what, blockIdx(region), describeInstr(hit), P.Pos(instrPos(hit))))
					continue
				}
				c.Pass("C01.R3", key, where, fmt.Sprintf("%s of %s tested; from the failure blocks %s no OK writer, token-binding write or positive return of %s is reachable", o.what, shortID(id), blockIdx(region), fnKey(fn)))
			}
		}
	}
}

func findErrException(role, callee string, o struct {
	idx  int
	kind failureKind
	what string
}, isValidator bool) string {
	if isValidator && o.kind == failCodeNotOK {
		return "the validator's status code is only the reason for the denial; its boolean verdict is the tested result (separate obligation)"
	}
	if o.kind == failNil {
		callee += "#absent"
	}
	for _, e := range c01ErrExceptions {
		if (e.inRole == "*" || e.inRole == role) && e.callee == callee {
			return e.reason
		}
	}
	return ""
}

func describeInstr(ins ssa.Instruction) string {
	switch x := ins.(type) {
	case *ssa.Call:
		ce := calleeOf(x)
		if ce.Obj != nil {
			return "call " + shortID(funcID(ce.Obj))
		}
		return "call"
	case *ssa.Return:
		var rs []string
		for _, r := range x.Results {
			rs = append(rs, descDepth(r, 2))
		}
		return "return " + strings.Join(rs, ", ")
	}
	return ins.String()
}

// ---------------------------------------------------------------------------------------------- R4

func c01R4(c *Check, R *Roles) {
	P := c.P
	fn := R.ExpiryTest
	ff := FactsOf(fn)
	var tokensParam ssa.Value
	for _, p := range fn.Params {
		if typeID(p.Type()) == idTokenResponse {
			tokensParam = p
		}
	}
	n := 0
	for _, r := range returnsOf(fn) {
		b, isC := constBool(r.Results[0])
		if isC && b {
			continue // `expired` outcome: always safe
		}
		if !isNilConst(r.Results[1]) {
			continue // error outcome: caller denies (C01.R3)
		}
		n++
		key := fmt.Sprintf("not-expired-return#%d", n)
		fs := ff.At(r)
		ok, why := false, "no dominating fact `IDToken.Expiration().Before(clock.Now()) == false` for the ID token parsed from the tokens under test"
		for cond, pol := range fs {
			call, _, isCall := asCall(cond)
			if !isCall || !isCallTo(call, "time.Time.Before") {
				continue
			}
			// receiver: Expiration() of parsed token; arg: Clock.Now()
			recv := resolveCell(stripConv(call.Common().Args[0]))
			arg := resolveCell(stripConv(call.Common().Args[1]))
			ec, _, ok1 := asCall(recv)
			nc, _, ok2 := asCall(arg)
			if !ok1 || !ok2 || ec.Common().Method == nil || ec.Common().Method.Name() != "Expiration" {
				continue
			}
			if !isCallTo(nc, pkgOIDC+".Clock.Now") {
				continue
			}
			// token: result #0 of ParseIDToken on the tokens param, with err == nil
			tc, ti, ok3 := asCall(resolveCell(stripConv(ec.Common().Value)))
			if !ok3 || ti != 0 || !isCallToAny(tc, fParseIDTok, fParseToken) {
				continue
			}
			onParam := false
			for _, a := range tc.Common().Args {
				if sameVal(a, tokensParam) {
					onParam = true
				}
				if base, f, okf := fieldLoad(stripConv(a)); okf && f != nil && f.Name() == "IDToken" && sameVal(base, tokensParam) {
					onParam = true
				}
			}
			if !onParam {
				continue
			}
			if !fs.CallErrNil(tc, 1) {
				why = "the ID token parse error is not known to be nil at the `not expired` return"
				continue
			}
			if pol {
				why = "the `not expired` return is reached when Expiration().Before(now) is TRUE (polarity inverted)"
				continue
			}
			ok, why = true, "dominated by ParseIDToken(tokens) err == nil and Expiration().Before(clock.Now()) == false"
		}
		c.Obl(ok, "C01.R4", key, P.Pos(instrPos(r)), why, why)
	}
	// at least one `expired` return exists under Before == true
	found := false
	for _, r := range returnsOf(fn) {
		if b, isC := constBool(r.Results[0]); isC && b {
			fs := ff.At(r)
			for cond, pol := range fs {
				if call, _, ok := asCall(cond); ok && isCallTo(call, "time.Time.Before") && pol {
					found = true
				}
			}
		}
	}
	c.Obl(found, "C01.R4", "expired-return", P.Pos(fn.Pos()), "an `expired` return exists under Before(...) == true",
		"no `expired == true` return guarded by a Before(...) == true test was found in the expiry test")
}

// ---------------------------------------------------------------------------------------------- R5

// serverLoopRule: the rule id under which the shared server-loop obligations are filed (C01.R5; C08.R3 reuses them).
var serverLoopRule = "C01.R5"

func c01R5(c *Check, R *Roles) {
	P := c.P
	fn := R.CheckEntry
	ff := FactsOf(fn)
	// locate the Process invoke
	var proc *ssa.Call
	for _, ci := range allCalls(fn) {
		if cc, ok := ci.(*ssa.Call); ok && isCallTo(cc, idHandlerIface+".Process") {
			if proc != nil {
				c.Fail(serverLoopRule, "process-invoke", P.Pos(cc.Pos()), "more than one Handler.Process invocation in Check: the loop shape is not the analysed one")
				return
			}
			proc = cc
		}
	}
	if !c.Anchor(serverLoopRule, "Handler.Process invocation in Check", proc != nil) {
		return
	}
	respArg := resolveCell(stripConv(callArgs(proc)[2]))

	// (b) the status test: an If whose condition is code(resp.Status.Code) == OK on the same resp
	isStatusOKCond := func(cond ssa.Value) (eqIsTrue bool, ok bool) {
		v, op, k, isCmp := cmpWithConstInt(cond)
		if !isCmp || k != 0 || (op != token.EQL && op != token.NEQ) {
			return false, false
		}
		v = stripConv(v)
		base, f, isF := fieldLoad(v)
		if !isF || f == nil || f.Name() != "Code" {
			// maybe a getter: Status.GetCode()
			if call, _, isC := asCall(v); isC && isCallTo(call, pkgStatus+".Status.GetCode") {
				base = call.Common().Args[0]
			} else {
				return false, false
			}
		}
		base = resolveCell(stripConv(base))
		b2, f2, isF2 := fieldLoad(base)
		if isF2 && f2 != nil && f2.Name() == "Status" && sameVal(b2, respArg) {
			return op == token.EQL, true
		}
		if call, _, isC := asCall(base); isC && isCallTo(call, idCheckResponse+".GetStatus") && sameVal(call.Common().Args[0], respArg) {
			return op == token.EQL, true
		}
		return false, false
	}
	// BFS from the Process call; at a status-test If follow only the NOT-OK edge; on the Process error
	// failure edge follow everything. Reaching a Process invoke again means a filter's denial or error did
	// not end the evaluation.
	type st struct {
		b *ssa.BasicBlock
		i int
	}
	seen := map[*ssa.BasicBlock]bool{}
	queue := []st{{proc.Block(), instrIndex(proc) + 1}}
	sawTest := false
	var bad ssa.Instruction
	for len(queue) > 0 && bad == nil {
		cur := queue[0]
		queue = queue[1:]
		if cur.i == 0 {
			if seen[cur.b] {
				continue
			}
			seen[cur.b] = true
		}
		for i := cur.i; i < len(cur.b.Instrs); i++ {
			ins := cur.b.Instrs[i]
			if cc, ok := ins.(*ssa.Call); ok && isCallTo(cc, idHandlerIface+".Process") {
				bad = ins
				break
			}
		}
		if bad != nil {
			break
		}
		last := cur.b.Instrs[len(cur.b.Instrs)-1]
		if iff, ok := last.(*ssa.If); ok {
			// resolve the condition through a bool variable (allow := code == OK; if !allow)
			cond := iff.Cond
			neg := false
			for {
				if u, ok := cond.(*ssa.UnOp); ok && u.Op == token.NOT {
					cond = u.X
					neg = !neg
					continue
				}
				break
			}
			if eqTrue, ok := isStatusOKCond(cond); ok {
				sawTest = true
				okSucc := 0 // successor index taken when status == OK
				if !eqTrue {
					okSucc = 1
				}
				if neg {
					okSucc = 1 - okSucc
				}
				queue = append(queue, st{cur.b.Succs[1-okSucc], 0})
				continue
			}
		}
		for _, s := range cur.b.Succs {
			queue = append(queue, st{s, 0})
		}
	}
	c.Obl(sawTest, serverLoopRule, "status-test", P.Pos(proc.Pos()),
		"the handler's verdict is tested with codes.Code(resp.Status.Code) == OK on the response passed to Process",
		"no test of resp.Status.Code against OK (on the response passed to Handler.Process) follows the Process call")
	c.Obl(bad == nil, serverLoopRule, "next-filter-only-after-OK", P.Pos(proc.Pos()),
		"the next Handler.Process is reachable only through the OK edge of the status test",
		"after a filter's Process, the next filter can be reached without the status having been found OK (a denial or error no longer ends the evaluation)")

	// (a)+(c): classify every return
	allowG := P.SSA[pkgServer].Var("allow")
	for i, r := range returnsOf(fn) {
		if len(r.Results) != 2 {
			continue
		}
		key := fmt.Sprintf("return#%d", i+1)
		where := P.Pos(instrPos(r))
		fs := ff.At(r)
		v := r.Results[0]
		if isNilConst(v) {
			c.Pass(serverLoopRule, key, where, "returns no verdict (nil response): Envoy's failure policy decides")
			continue
		}
		// every value the returned response can be, with the facts that hold where that value is chosen (a
		// response picked in a branch and returned after the join keeps the branch's justification)
		type leafFacts struct {
			l  ssa.Value
			fs FactSet
		}
		var leaves []leafFacts
		for _, a := range phiAlternatives(fn, v, r) {
			afs := unionFacts(fs, a.Facts)
			for _, l := range Leaves(a.V, leafOpts{}) {
				leaves = append(leaves, leafFacts{l, afs})
			}
		}
		okAll, why := true, ""
		for _, lf := range leaves {
			l, fs := resolveCell(lf.l), lf.fs
			switch {
			case isNilConst(l):
				why += "nil; "
			case isLoadOfGlobal(l, allowG):
				ok2, w := allowReturnJustified(P, R, fn, fs)
				if !ok2 {
					okAll = false
				}
				why += w + "; "
			case sameVal(l, respArg):
				why += "handler-filled response; "
			default:
				if call, _, isC := asCall(l); isC {
					// deny(code, msg): closure call through the package variable
					args := call.Common().Args
					if len(args) >= 1 && isCodeType(args[0].Type()) && isServerDenyCall(P, call) {
						if n, isK := constInt(args[0]); isK && n != 0 {
							why += fmt.Sprintf("deny(%d); ", n)
							continue
						}
					}
				}
				okAll = false
				why += "unclassified response value " + descDepth(l, 3) + "; "
			}
		}
		c.Obl(okAll, serverLoopRule, key, where, "returned response: "+why, "returned response not justified: "+why)
	}
}

func isLoadOfGlobal(v ssa.Value, g *ssa.Global) bool {
	if g == nil {
		return false
	}
	u, ok := v.(*ssa.UnOp)
	return ok && u.Op == token.MUL && u.X == g
}

// allowReturnJustified: the shared allow response may be returned only when no check is triggered,
// when the matching chain has no filters, or when unmatched requests are explicitly allowed.
func allowReturnJustified(P *Program, R *Roles, fn *ssa.Function, fs FactSet) (bool, string) {
	for cond, pol := range fs {
		// !mustTriggerCheck(...)
		if inner, neg := unwrapBool(cond); true {
			if call, _, ok := asCall(inner); ok {
				if callee := call.Common().StaticCallee(); callee != nil && callee.Name() == "mustTriggerCheck" && (pol == neg) {
					return true, "shared allow under !mustTriggerCheck"
				}
			}
		}
		// AllowUnmatchedRequests == true
		if base, f, ok := fieldLoad(cond); ok && f != nil && f.Name() == "AllowUnmatchedRequests" && pol {
			_ = base
			return true, "shared allow under AllowUnmatchedRequests"
		}
		if call, _, ok := asCall(cond); ok && isCallTo(call, pkgCfgV1+".Config.GetAllowUnmatchedRequests") && pol {
			return true, "shared allow under AllowUnmatchedRequests"
		}
	}
	// len(c.Filters) == 0 together with matches(...) == true
	lenZero := false
	matched := false
	for cond, pol := range fs {
		v, op, k, ok := cmpWithConstInt(cond)
		if ok && k == 0 && ((op == token.EQL && pol) || (op == token.NEQ && !pol) || (op == token.GTR && !pol)) {
			if call, isC := v.(*ssa.Call); isC {
				if bi, isB := call.Call.Value.(*ssa.Builtin); isB && bi.Name() == "len" {
					if _, f, okf := fieldLoad(stripConv(call.Call.Args[0])); okf && f != nil && f.Name() == "Filters" {
						lenZero = true
					}
					if gc, _, okg := asCall(stripConv(call.Call.Args[0])); okg && isCallTo(gc, pkgCfgV1+".FilterChain.GetFilters") {
						lenZero = true
					}
				}
			}
		}
		if inner, neg := unwrapBool(cond); true {
			if call, _, ok := asCall(inner); ok {
				if callee := call.Common().StaticCallee(); callee != nil && callee.Name() == "matches" && (pol != neg) {
					matched = true
				}
			}
		}
	}
	if lenZero && matched {
		return true, "shared allow for a matching chain without filters"
	}
	return false, "shared allow response returned without !mustTriggerCheck, without (matching chain ∧ no filters) and without AllowUnmatchedRequests"
}

// refile runs rule functions and files the obligations they produce under another rule id (a rule of one
// property that is a necessary condition of another).
func refile(c *Check, rule string, run func()) {
	before := len(c.Obls)
	run()
	for _, o := range c.Obls[before:] {
		o.Key = strings.Replace(o.Key, o.Rule, rule, 1)
		o.Rule = rule
	}
}
