package main

import (
	"fmt"
	"go/token"
	"go/types"
	"sort"
	"strings"

	"golang.org/x/tools/go/ssa"
)

// P-dom: branch facts. For every basic block the set of (condition value, polarity) pairs that hold
// on EVERY path from the function entry to the block entry. Forward must-analysis over CFG edges:
//   out(b→s) = in(b) ∪ {cond(b) ↦ (s is the true successor)}   if b ends in If
//   in(s)    = ⋂ over incoming edges, restricted to conditions whose definition dominates s and is
//              not in s itself (a fact about a value that is about to be re-defined — loop
//              iteration — is dropped).

type FactSet map[ssa.Value]bool

type FuncFacts struct {
	Fn *ssa.Function
	In map[*ssa.BasicBlock]FactSet
	// via: facts imported through a resolved phi (closePhiFacts) stay meaningful wherever the phi's block
	// dominates — the path is known to have come through the predecessor in which they held — even
	// though the block that computed the condition does not dominate
	via map[ssa.Value][]*ssa.BasicBlock
	// impl: at a merge block the predecessors may disagree on a discriminating condition (`q == -1` holds on the
	// edges from one group, not on the others); the facts common to one group then hold wherever that polarity of the
	// discriminator is established again below the merge (conditioned merge, see computeImpl)
	impl map[*ssa.BasicBlock][]factImpl
}

type factImpl struct {
	key   string
	pol   bool
	facts FactSet
}

var factsCache = map[*ssa.Function]*FuncFacts{}

func FactsOf(fn *ssa.Function) *FuncFacts {
	if ff, ok := factsCache[fn]; ok {
		return ff
	}
	ff := &FuncFacts{Fn: fn, In: map[*ssa.BasicBlock]FactSet{}, via: map[ssa.Value][]*ssa.BasicBlock{}}
	factsCache[fn] = ff
	if len(fn.Blocks) == 0 {
		return ff
	}
	// nil entry in map = TOP (not yet computed)
	ff.In[fn.Blocks[0]] = FactSet{}
	ff.fixpoint()
	if ff.computeImpl() {
		ff.fixpoint()
	}
	return ff
}

func (ff *FuncFacts) fixpoint() {
	fn := ff.Fn
	changed := true
	for iter := 0; changed && iter < 1000; iter++ {
		changed = false
		for _, b := range fn.Blocks {
			if b != fn.Blocks[0] && len(b.Preds) == 0 {
				continue // unreachable (recover block etc.)
			}
			var in FactSet
			if b == fn.Blocks[0] {
				in = FactSet{}
			} else {
				first := true
				for _, p := range b.Preds {
					pin, ok := ff.In[p]
					if !ok {
						continue // TOP
					}
					if deadEdge(p, b) {
						continue // edge of an If on a constant condition that is never taken
					}
					out := ff.edge(pin, p, b)
					if first {
						in = out
						first = false
					} else {
						in = intersect(in, out)
					}
				}
				if first {
					continue // all preds TOP
				}
				closePhiFacts(ff, in)
				// drop stale facts
				for c := range in {
					if ins, ok := c.(ssa.Instruction); ok {
						db := ins.Block()
						if db == b || !db.Dominates(b) {
							if !pureOverDominating(c, b) && !ff.viaDominates(c, b) {
								delete(in, c)
							}
						}
					}
				}
			}
			old, ok := ff.In[b]
			if !ok || !sameFacts(old, in) {
				ff.In[b] = in
				changed = true
			}
		}
	}
}

// normCond gives a comparison with a constant (or a negation chain over one) a key that is the same for every
// evaluation of the same comparison on the same value; pol is the polarity under which `value == constant` holds.
func normCond(c ssa.Value, pol bool) (string, bool) {
	for {
		if u, ok := c.(*ssa.UnOp); ok && u.Op == token.NOT {
			c, pol = u.X, !pol
			continue
		}
		break
	}
	if v, op, k, ok := cmpWithConstInt(c); ok && (op == token.EQL || op == token.NEQ) {
		if op == token.NEQ {
			pol = !pol
		}
		return fmt.Sprintf("%p==%d", stripConv(v), k), pol
	}
	return fmt.Sprintf("%p", c), pol
}

func stableAt(c ssa.Value, b *ssa.BasicBlock) bool {
	if pureOverDominating(c, b) {
		return true
	}
	if ins, ok := c.(ssa.Instruction); ok {
		return ins.Block() != b && ins.Block() != nil && ins.Block().Dominates(b)
	}
	return false
}

// computeImpl: for every merge block, a discriminator decided on every incoming edge with both polarities present
// splits the predecessors in two groups; what all edges of one group agree on is recorded as implied by that polarity.
// Only facts and discriminators that are stable at the merge (pure over dominating values) are kept.
func (ff *FuncFacts) computeImpl() bool {
	any := false
	for _, b := range ff.Fn.Blocks {
		var outs []FactSet
		for _, p := range b.Preds {
			pin, ok := ff.In[p]
			if !ok || deadEdge(p, b) {
				continue
			}
			outs = append(outs, edgeFacts(pin, p, b))
		}
		if len(outs) < 2 {
			continue
		}
		type dec struct {
			pol  bool
			conf bool
		}
		norm := make([]map[string]dec, len(outs))
		for i, o := range outs {
			norm[i] = map[string]dec{}
			for c, v := range o {
				if !stableAt(c, b) {
					continue
				}
				k, pol := normCond(c, v)
				if d, seen := norm[i][k]; seen && d.pol != pol {
					norm[i][k] = dec{conf: true}
				} else if !seen {
					norm[i][k] = dec{pol: pol}
				}
			}
		}
		for k := range norm[0] {
			var T, F []int
			decided := true
			for i := range outs {
				d, ok := norm[i][k]
				if !ok || d.conf {
					decided = false
					break
				}
				if d.pol {
					T = append(T, i)
				} else {
					F = append(F, i)
				}
			}
			if !decided || len(T) == 0 || len(F) == 0 {
				continue
			}
			for _, grp := range []struct {
				pol bool
				ix  []int
			}{{true, T}, {false, F}} {
				common := outs[grp.ix[0]]
				for _, i := range grp.ix[1:] {
					common = intersect(common, outs[i])
				}
				keep := FactSet{}
				for c, v := range common {
					if w, have := ff.In[b][c]; have && w == v {
						continue
					}
					if kk, _ := normCond(c, v); kk == k {
						continue
					}
					if stableAt(c, b) {
						keep[c] = v
					}
				}
				if len(keep) > 0 {
					if ff.impl == nil {
						ff.impl = map[*ssa.BasicBlock][]factImpl{}
					}
					ff.impl[b] = append(ff.impl[b], factImpl{key: k, pol: grp.pol, facts: keep})
					any = true
				}
			}
		}
	}
	return any
}

// edge is edgeFacts plus the implications of the merge blocks dominating p whose discriminator is decided on the edge.
func (ff *FuncFacts) edge(pin FactSet, p, s *ssa.BasicBlock) FactSet {
	out := edgeFacts(pin, p, s)
	if len(ff.impl) == 0 {
		return out
	}
	var norm map[string]bool
	for d := p; d != nil; d = d.Idom() {
		ims := ff.impl[d]
		if len(ims) == 0 {
			continue
		}
		if norm == nil {
			norm = map[string]bool{}
			conf := map[string]bool{}
			for c, v := range out {
				k, pol := normCond(c, v)
				if w, seen := norm[k]; seen && w != pol {
					conf[k] = true
				}
				norm[k] = pol
			}
			for k := range conf {
				delete(norm, k)
			}
		}
		for _, im := range ims {
			if pol, ok := norm[im.key]; ok && pol == im.pol {
				for c, v := range im.facts {
					if _, have := out[c]; !have {
						out[c] = v
					}
				}
			}
		}
	}
	return out
}

// deadEdge: p ends in an If on a boolean constant and s is the successor that is never taken.
func deadEdge(p, s *ssa.BasicBlock) bool {
	if len(p.Instrs) == 0 {
		return false
	}
	iff, ok := p.Instrs[len(p.Instrs)-1].(*ssa.If)
	if !ok || p.Succs[0] == p.Succs[1] {
		return false
	}
	b, isC := constBool(iff.Cond)
	if !isC {
		return false
	}
	return (s == p.Succs[0]) != b
}

// Reachable reports whether block b is reachable from the entry (constant branches pruned).
func (ff *FuncFacts) Reachable(b *ssa.BasicBlock) bool {
	_, ok := ff.In[b]
	return ok
}

// pureOverDominating: c is a comparison/negation (no memory access, no call) whose operands are
// constants, parameters or values defined in blocks strictly dominating b — its truth does not depend
// on where it was computed, so a fact about it stays meaningful in b.
func pureOverDominating(c ssa.Value, b *ssa.BasicBlock) bool {
	var ops []ssa.Value
	switch x := c.(type) {
	case *ssa.BinOp:
		ops = []ssa.Value{x.X, x.Y}
	case *ssa.UnOp:
		if x.Op != token.NOT {
			return false
		}
		ops = []ssa.Value{x.X}
	default:
		return false
	}
	for _, o := range ops {
		switch y := o.(type) {
		case *ssa.Const, *ssa.Parameter:
		case ssa.Instruction:
			db := y.Block()
			if db == b || !db.Dominates(b) {
				return false
			}
		default:
			return false
		}
	}
	return true
}

// closePhiFacts: the lowering of `a && b` / `a || b` yields a boolean phi with constant edges. A known
// value of the phi that excludes all constant edges but one implies that the remaining edge was taken:
// its value has the phi's value and everything known at the end of that predecessor holds as well.
func closePhiFacts(ff *FuncFacts, in FactSet) {
	for round := 0; round < 4; round++ {
		added := false
		for c, pol := range in {
			// nil-ness of a pointer/interface phi: `phi == nil` / `phi != nil` known excludes the edges whose
			// incoming value is known to be of the other kind; a single remaining edge was the one taken
			if bo, isB := c.(*ssa.BinOp); isB && (bo.Op == token.EQL || bo.Op == token.NEQ) {
				var pv *ssa.Phi
				if p, ok := bo.X.(*ssa.Phi); ok && isNilConst(bo.Y) {
					pv = p
				} else if p, ok := bo.Y.(*ssa.Phi); ok && isNilConst(bo.X) {
					pv = p
				}
				if pv != nil {
					wantNil := (bo.Op == token.EQL) == pol
					possible, n := -1, 0
					for i, e := range pv.Edges {
						known, isNil := nilnessOf(e)
						if known && isNil != wantNil {
							continue
						}
						possible = i
						n++
					}
					if n == 1 {
						pred := pv.Block().Preds[possible]
						if pin, ok := ff.In[pred]; ok {
							for k, v := range edgeFacts(pin, pred, pv.Block()) {
								if _, have := in[k]; !have {
									in[k] = v
									added = true
									ff.addVia(k, pv.Block())
								}
							}
						}
					}
				}
				continue
			}
			ph, ok := c.(*ssa.Phi)
			if !ok || !isBool(ph.Type()) {
				continue
			}
			possible := -1
			n := 0
			for i, e := range ph.Edges {
				if b, isC := constBool(e); isC && b != pol {
					continue
				}
				// an edge whose predecessor is reached only under a condition that is known to be false here (a pure
				// comparison of values that do not change: `a == -1 && b == -1` false, later `a == -1` true ⇒ the
				// edge from `a != -1` was not the one taken)
				{
					pred := ph.Block().Preds[i]
					if pin, ok := ff.In[pred]; ok {
						contradicted := false
						for k, v := range edgeFacts(pin, pred, ph.Block()) {
							if _, isPhi := k.(*ssa.Phi); isPhi {
								continue
							}
							if cur, known := in[k]; known && cur != v && pureOverDominating(k, ph.Block()) {
								contradicted = true
							}
						}
						if contradicted {
							continue
						}
					}
				}
				// an incoming value whose truth is known on its edge (the predecessor branched on it) and differs
				// from the phi's known value excludes the edge as well
				if _, isC := constBool(e); !isC {
					pred := ph.Block().Preds[i]
					if pin, ok := ff.In[pred]; ok {
						ef := edgeFacts(pin, pred, ph.Block())
						inner, neg := unwrapBool(e)
						if v, known := ef[e]; known && v != pol {
							continue
						}
						if v, known := ef[inner]; known && inner != e && (v != neg) != pol {
							continue
						}
					}
				}
				possible = i
				n++
			}
			if n != 1 {
				continue
			}
			e := ph.Edges[possible]
			if _, isC := constBool(e); !isC {
				if _, have := in[e]; !have {
					in[e] = pol
					added = true
					ff.addVia(e, ph.Block())
				}
			}
			pred := ph.Block().Preds[possible]
			if pin, ok := ff.In[pred]; ok {
				for k, v := range edgeFacts(pin, pred, ph.Block()) {
					if _, have := in[k]; !have {
						in[k] = v
						added = true
						ff.addVia(k, ph.Block())
					}
				}
			}
		}
		if !added {
			return
		}
	}
}

func edgeFacts(pin FactSet, p, s *ssa.BasicBlock) FactSet {
	out := make(FactSet, len(pin)+1)
	for k, v := range pin {
		out[k] = v
	}
	if len(p.Instrs) == 0 {
		return out
	}
	if iff, ok := p.Instrs[len(p.Instrs)-1].(*ssa.If); ok {
		// If both successors are the same block nothing is learnt.
		if p.Succs[0] != p.Succs[1] {
			out[iff.Cond] = (s == p.Succs[0])
		}
	}
	return out
}

func intersect(a, b FactSet) FactSet {
	out := FactSet{}
	for k, v := range a {
		if w, ok := b[k]; ok && w == v {
			out[k] = v
		}
	}
	return out
}

func sameFacts(a, b FactSet) bool {
	if len(a) != len(b) {
		return false
	}
	for k, v := range a {
		if w, ok := b[k]; !ok || w != v {
			return false
		}
	}
	return true
}

// At returns the facts holding at an instruction (= at its block's entry; Ifs end blocks).
func (ff *FuncFacts) At(ins ssa.Instruction) FactSet {
	if ins.Block() == nil {
		return FactSet{}
	}
	fs := ff.In[ins.Block()]
	if fs == nil {
		return FactSet{}
	}
	return fs
}

// OnEdge returns the facts on the CFG edge p→s.
func (ff *FuncFacts) OnEdge(p, s *ssa.BasicBlock) FactSet {
	pin := ff.In[p]
	if pin == nil {
		pin = FactSet{}
	}
	return ff.edge(pin, p, s)
}

// ---- interpreting facts ------------------------------------------------------------------------------

// truth returns (value, known) of boolean SSA value c under the fact set, looking through negation.
func (fs FactSet) truth(c ssa.Value) (bool, bool) {
	if v, ok := fs[c]; ok {
		return v, true
	}
	if u, ok := c.(*ssa.UnOp); ok && u.Op == token.NOT {
		if v, ok := fs.truth(u.X); ok {
			return !v, true
		}
	}
	// a fact on `c == true`, `c != false`, `!c` ... determines c
	for cond, pol := range fs {
		if inner, neg := unwrapBool(cond); inner == c && inner != cond {
			return pol != neg, true
		}
	}
	if b, ok := constBool(c); ok {
		return b, true
	}
	return false, false
}

// cmpFact: looks for a fact on a comparison `x op y` where match(x,y) (in either order) holds, and
// returns whether x == y is known (eq=true: known equal; eq=false: known different).
func (fs FactSet) cmp(match func(x, y ssa.Value) bool) (eq bool, known bool) {
	for c, pol := range fs {
		b, ok := c.(*ssa.BinOp)
		if !ok || (b.Op != token.EQL && b.Op != token.NEQ) {
			continue
		}
		if match(b.X, b.Y) || match(b.Y, b.X) {
			isEq := (b.Op == token.EQL) == pol
			return isEq, true
		}
	}
	return false, false
}

// NonNil: is `x != nil` established (x compared by identity after stripConv)?
func (fs FactSet) NonNil(x ssa.Value) bool {
	eq, known := fs.cmp(func(a, b ssa.Value) bool { return sameVal(a, x) && isNilConst(b) })
	return known && !eq
}

// IsNil: is `x == nil` established?
func (fs FactSet) IsNil(x ssa.Value) bool {
	eq, known := fs.cmp(func(a, b ssa.Value) bool { return sameVal(a, x) && isNilConst(b) })
	return known && eq
}

// StrEmpty / StrNonEmpty: facts on `x == ""`, `x != ""`, `len(x) == 0`...
func (fs FactSet) strEmpty(x ssa.Value) (empty bool, known bool) {
	eq, k := fs.cmp(func(a, b ssa.Value) bool {
		if !sameVal(a, x) {
			return false
		}
		s, ok := constString(b)
		return ok && s == ""
	})
	if k {
		return eq, true
	}
	eq, k = fs.cmp(func(a, b ssa.Value) bool {
		c, ok := a.(*ssa.Call)
		if !ok {
			return false
		}
		bi, ok := c.Call.Value.(*ssa.Builtin)
		if !ok || bi.Name() != "len" || len(c.Call.Args) != 1 || !sameVal(c.Call.Args[0], x) {
			return false
		}
		n, ok := constInt(b)
		return ok && n == 0
	})
	return eq, k
}

func (fs FactSet) StrNonEmpty(x ssa.Value) bool {
	e, k := fs.strEmpty(x)
	return k && !e
}
func (fs FactSet) StrEmpty(x ssa.Value) bool {
	e, k := fs.strEmpty(x)
	return k && e
}

// sameVal: identity up to conversions, single-store cells, and repeated loads of the same field
// path from the same base (the analysed code never stores to config/request fields between such
// loads; callers that need store-freedom check it separately).
func sameVal(a, b ssa.Value) bool {
	return sameValD(a, b, 6)
}

func sameValD(a, b ssa.Value, d int) bool {
	a, b = stripConv(a), stripConv(b)
	a, b = resolveCell(a), resolveCell(b)
	a, b = stripConv(a), stripConv(b)
	if a == b {
		return true
	}
	if d == 0 {
		return false
	}
	ba, fa, ok1 := fieldLoad(a)
	bb, fb, ok2 := fieldLoad(b)
	if ok1 && ok2 && fa == fb && fa != nil {
		return sameValD(ba, bb, d-1)
	}
	// two calls of the same generated (pure, nil-safe) getter on the same receiver
	if ca, ok := a.(*ssa.Call); ok {
		if cb, ok := b.(*ssa.Call); ok {
			cea, ceb := calleeOf(ca), calleeOf(cb)
			if cea.Obj != nil && cea.Obj == ceb.Obj && isGeneratedGetter(cea) && len(ca.Common().Args) == 1 && len(cb.Common().Args) == 1 {
				return sameValD(ca.Common().Args[0], cb.Common().Args[0], d-1)
			}
		}
	}
	if ca, ok := a.(*ssa.Const); ok {
		if cb, ok := b.(*ssa.Const); ok {
			if ca.Value == nil || cb.Value == nil {
				return ca.Value == nil && cb.Value == nil
			}
			return ca.Value.ExactString() == cb.Value.ExactString() && ca.Type() == cb.Type()
		}
	}
	return false
}

// CallErrNil: the error result (index idx, or -1 for a single result) of call c is known nil.
func (fs FactSet) CallErrNil(c *ssa.Call, idx int) bool {
	eq, known := fs.cmp(func(a, b ssa.Value) bool {
		if !isNilConst(b) {
			return false
		}
		cc, i, ok := asCall(resolveCell(a))
		return ok && cc == c && i == idx
	})
	return known && eq
}

// CallResultNonNil: result idx of call c is known non-nil.
func (fs FactSet) CallResultNonNil(c *ssa.Call, idx int) bool {
	eq, known := fs.cmp(func(a, b ssa.Value) bool {
		if !isNilConst(b) {
			return false
		}
		cc, i, ok := asCall(resolveCell(a))
		return ok && cc == c && i == idx
	})
	return known && !eq
}

// CallBool: the boolean result idx of call c has a known truth value.
func (fs FactSet) CallBool(c *ssa.Call, idx int) (bool, bool) {
	for cond, pol := range fs {
		v, neg := unwrapBool(cond)
		cc, i, ok := asCall(resolveCell(v))
		if ok && cc == c && i == idx {
			return pol != neg, true
		}
	}
	return false, false
}

// unwrapBool strips negations and comparisons with boolean constants: !x, x == false, x != true …
// returning the innermost value and whether the wrapper inverts it.
func unwrapBool(v ssa.Value) (ssa.Value, bool) {
	neg := false
	for i := 0; i < 6; i++ {
		switch x := v.(type) {
		case *ssa.UnOp:
			if x.Op == token.NOT {
				v, neg = x.X, !neg
				continue
			}
		case *ssa.BinOp:
			if x.Op == token.EQL || x.Op == token.NEQ {
				if b, isC := constBool(x.Y); isC && isBool(x.X.Type()) {
					if (x.Op == token.EQL) != b {
						neg = !neg
					}
					v = x.X
					continue
				}
				if b, isC := constBool(x.X); isC && isBool(x.Y.Type()) {
					if (x.Op == token.EQL) != b {
						neg = !neg
					}
					v = x.Y
					continue
				}
			}
		}
		break
	}
	return v, neg
}

// Describe renders a fact set deterministically (evidence / reports).
func (fs FactSet) Describe() []string {
	var out []string
	for c, pol := range fs {
		s := Desc(c)
		if pol {
			out = append(out, s)
		} else {
			out = append(out, "!("+s+")")
		}
	}
	sort.Strings(out)
	return out
}

func (fs FactSet) String() string { return strings.Join(fs.Describe(), " ∧ ") }

// ---- P-path: reachability on the CFG -----------------------------------------------------------------

// instrIndex returns the index of ins in its block.
func instrIndex(ins ssa.Instruction) int {
	for i, x := range ins.Block().Instrs {
		if x == ins {
			return i
		}
	}
	return -1
}

// reachAvoiding explores forward from the point just after `from` (or from the start of block
// startBlock when from == nil) and returns the first instruction satisfying target that is reachable
// without first executing an instruction satisfying barrier. nil when none.
func reachAvoiding(from ssa.Instruction, startBlock *ssa.BasicBlock,
	target func(ssa.Instruction) bool, barrier func(ssa.Instruction) bool) ssa.Instruction {
	// The walk carries the values of boolean phis whose incoming value on the edge taken is a constant (or another
	// phi with a carried value): `found = true; break` … `if found` is then followed only along the branch that the
	// path actually takes. This prunes infeasible paths only; with more than a handful of carried values, or too many
	// states, the walk falls back to plain reachability.
	type state struct {
		b   *ssa.BasicBlock
		i   int
		env string
	}
	envs := map[string]map[*ssa.Phi]bool{"": {}}
	keyOf := func(e map[*ssa.Phi]bool) string {
		if len(e) == 0 {
			return ""
		}
		var parts []string
		for p, v := range e {
			parts = append(parts, fmt.Sprintf("%p=%v", p, v))
		}
		sort.Strings(parts)
		k := strings.Join(parts, ",")
		if _, ok := envs[k]; !ok {
			cp := map[*ssa.Phi]bool{}
			for p, v := range e {
				cp[p] = v
			}
			envs[k] = cp
		}
		return k
	}
	var st state
	if from != nil {
		st = state{from.Block(), instrIndex(from) + 1, ""}
	} else {
		st = state{startBlock, 0, ""}
	}
	type seenKey struct {
		b   *ssa.BasicBlock
		env string
	}
	seen := map[seenKey]bool{}
	queue := []state{st}
	nStates := 0
	for len(queue) > 0 {
		cur := queue[0]
		queue = queue[1:]
		if cur.i == 0 {
			k := seenKey{cur.b, cur.env}
			if seen[k] {
				continue
			}
			seen[k] = true
		}
		nStates++
		precise := nStates < 4000
		if !precise && cur.env != "" {
			cur.env = ""
			k := seenKey{cur.b, ""}
			if cur.i == 0 {
				if seen[k] {
					continue
				}
				seen[k] = true
			}
		}
		blocked := false
		for i := cur.i; i < len(cur.b.Instrs); i++ {
			ins := cur.b.Instrs[i]
			if target(ins) {
				return ins
			}
			if barrier != nil && barrier(ins) {
				blocked = true
				break
			}
		}
		if blocked {
			continue
		}
		env := envs[cur.env]
		succs := cur.b.Succs
		if len(succs) == 2 && len(cur.b.Instrs) > 0 {
			if iff, ok := cur.b.Instrs[len(cur.b.Instrs)-1].(*ssa.If); ok {
				inner, neg := unwrapBool(iff.Cond)
				if ph, isPhi := inner.(*ssa.Phi); isPhi {
					if v, known := env[ph]; known {
						if v != neg {
							succs = succs[:1]
						} else {
							succs = succs[1:]
						}
					}
				}
			}
		}
		for _, s := range succs {
			next := env
			if precise {
				// values of the boolean phis of s on the edge cur.b → s
				var upd map[*ssa.Phi]bool
				for _, ins := range s.Instrs {
					ph, isPhi := ins.(*ssa.Phi)
					if !isPhi {
						break
					}
					if !isBool(ph.Type()) {
						continue
					}
					val, known := false, false
					for k, pb := range s.Preds {
						if pb != cur.b || k >= len(ph.Edges) {
							continue
						}
						e := ph.Edges[k]
						if cv, isC := constBool(e); isC {
							val, known = cv, true
						} else if q, isQ := e.(*ssa.Phi); isQ {
							if qv, has := env[q]; has {
								val, known = qv, true
							}
						}
						break
					}
					if upd == nil {
						upd = map[*ssa.Phi]bool{}
						for p0, v0 := range env {
							upd[p0] = v0
						}
					}
					if known {
						upd[ph] = val
					} else {
						delete(upd, ph)
					}
				}
				if upd != nil {
					if len(upd) > 6 {
						upd = map[*ssa.Phi]bool{}
					}
					next = upd
				}
			}
			queue = append(queue, state{s, 0, keyOf(next)})
		}
	}
	return nil
}

// reachFromEdge: same, starting on the CFG edge p→s.
func reachFromEdge(s *ssa.BasicBlock, target, barrier func(ssa.Instruction) bool) ssa.Instruction {
	return reachAvoiding(nil, s, target, barrier)
}

// mustPassBetween: every path from the function entry to `to` executes an instruction satisfying
// through. Equivalent: `to` is not reachable from entry when `through` instructions are barriers.
func mustPassBefore(fn *ssa.Function, to ssa.Instruction, through func(ssa.Instruction) bool) bool {
	if len(fn.Blocks) == 0 {
		return false
	}
	hit := reachAvoiding(nil, fn.Blocks[0], func(i ssa.Instruction) bool { return i == to }, through)
	return hit == nil
}

// isReturn reports whether ins is a Return.
func isReturn(ins ssa.Instruction) bool { _, ok := ins.(*ssa.Return); return ok }

// nilnessOf: is v syntactically known to be nil / non-nil?
func nilnessOf(v ssa.Value) (known bool, isNil bool) {
	v = stripConv(v)
	if isNilConst(v) {
		return true, true
	}
	switch v.(type) {
	case *ssa.Alloc, *ssa.MakeClosure, *ssa.Function, *ssa.Global, *ssa.MakeMap, *ssa.MakeChan, *ssa.MakeSlice, *ssa.FieldAddr, *ssa.IndexAddr:
		return true, false
	}
	return false, false
}

func (ff *FuncFacts) addVia(k ssa.Value, b *ssa.BasicBlock) {
	for _, x := range ff.via[k] {
		if x == b {
			return
		}
	}
	ff.via[k] = append(ff.via[k], b)
}

func (ff *FuncFacts) viaDominates(k ssa.Value, b *ssa.BasicBlock) bool {
	for _, x := range ff.via[k] {
		if x != b && x.Dominates(b) {
			return true
		}
	}
	return false
}

// mustPassBeforeLoops is mustPassBefore that knows one more thing: a `for … range` over a slice or array
// literal of constant, non-zero length executes its body at least once. For such a loop the exit edge of
// the header can only be taken after a complete iteration, so `to` is unreachable without `through` when
// (a) it is unreachable with the header's exit edge removed and (b) every complete iteration (body entry
// back to the header) passes `through`.
func mustPassBeforeLoops(fn *ssa.Function, to ssa.Instruction, through func(ssa.Instruction) bool) bool {
	if mustPassBefore(fn, to, through) {
		return true
	}
	if len(fn.Blocks) == 0 || len(fn.Blocks[0].Instrs) == 0 {
		return false
	}
	for _, h := range fn.Blocks {
		if h.Comment != "rangeindex.loop" || len(h.Succs) != 2 || len(h.Instrs) == 0 {
			continue
		}
		iff, ok := h.Instrs[len(h.Instrs)-1].(*ssa.If)
		if !ok {
			continue
		}
		cmp, ok := iff.Cond.(*ssa.BinOp)
		if !ok || cmp.Op != token.LSS {
			continue
		}
		n := int64(-1)
		if k, isK := constInt(cmp.Y); isK {
			n = k
		} else if lc, isC := cmp.Y.(*ssa.Call); isC {
			if bi, isB := lc.Call.Value.(*ssa.Builtin); isB && bi.Name() == "len" && len(lc.Call.Args) == 1 {
				if sl, isS := stripConv(lc.Call.Args[0]).(*ssa.Slice); isS && sl.Low == nil && sl.High == nil {
					if al, isA := sl.X.(*ssa.Alloc); isA {
						if arr, isArr := derefType(al.Type()).Underlying().(*types.Array); isArr {
							n = arr.Len()
						}
					}
				}
			}
		}
		if n <= 0 {
			continue
		}
		body, exit := h.Succs[0], h.Succs[1]
		a := reachAvoidingEdges(fn.Blocks[0].Instrs[0], func(i ssa.Instruction) bool { return i == to }, through,
			func(p, q *ssa.BasicBlock) bool { return p == h && q == exit })
		if a != nil {
			continue
		}
		b := reachAvoiding(nil, body, func(i ssa.Instruction) bool { return i.Block() == h }, through)
		if b == nil {
			return true
		}
	}
	return false
}
