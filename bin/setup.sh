#!/bin/bash
# Builds the checker from files on disk only (offline).
set -e
HERE="$(cd "$(dirname "$0")/.." && pwd)"
. "$HERE/bin/env.sh"
cd "$HERE/checker"
go build -o "$HERE/bin/authcheck" .
mkdir -p "$HERE/evidence" "$HERE/reports"
echo "authcheck built: $("$HERE/bin/authcheck" list)"
