#!/bin/bash
# bin/refmatrix.sh [jobs] — every behaviour-preserving refactoring under /verif/refactors/*.diff against all 20
# checks (one scratch copy per patch). Prints one line per patch; exit 1 if any check fires (a false alarm).
HERE="$(cd "$(dirname "$0")/.." && pwd)"
JOBS="${1:-6}"
OUT=$(mktemp -d /tmp/refm-XXXX); trap 'rm -rf "$OUT"' EXIT
ls "$HERE"/refactors/*.diff | xargs -P "$JOBS" -I{} sh -c 'n=$(basename {} .diff); "$0/bin/patchmatrix.sh" {} > "$1/$n.out" 2>&1' "$HERE" "$OUT"
bad=0
for f in "$OUT"/*.out; do n=$(basename "$f" .out); l=$(grep -E 'FIRED|does not|patch does' "$f" | tail -1); echo "$n $l"; case "$l" in *"FIRED: none"*) ;; *) bad=1;; esac; done
exit $bad
