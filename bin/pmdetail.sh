#!/bin/bash
# bin/pmdetail.sh <patch.diff> <id...> — like patchmatrix but prints every violated obligation in full
HERE="$(cd "$(dirname "$0")/.." && pwd)"
. "$HERE/bin/env.sh"
PATCH="$1"; shift
TMP=$(mktemp -d /tmp/pm-XXXX); trap 'rm -rf "$TMP"' EXIT
cp -r /repo "$TMP/repo"; rm -rf "$TMP/repo/.git"; mkdir -p "$TMP/verif"; cp "$HERE/known_findings.json" "$TMP/verif/"
cd "$TMP/repo"; patch -p1 -s < "$PATCH" || { echo "patch does not apply"; exit 2; }
for id in "$@"; do
  "${AUTHCHECK:-$HERE/bin/authcheck}" "$id" -repo "$TMP/repo" -verif "$TMP/verif" 2>&1 | grep -E "violated|unresolved|panic|normal form|NF unlisted|NF skip" | cut -c1-400 | sed "s/^/[$id]/"
done
