#!/bin/bash
# bin/patchmatrix.sh <patch.diff> [ids...] — applies a patch to a scratch copy of /repo and runs the listed
# (default: all 20) checks against the copy; prints which fire. Development aid (false-alarm hunting).
HERE="$(cd "$(dirname "$0")/.." && pwd)"
. "$HERE/bin/env.sh"
PATCH="$1"; shift
IDS="${*:-$(seq -f 'C%02g' 1 20)}"
TMP=$(mktemp -d /tmp/pm-XXXX); trap 'rm -rf "$TMP"' EXIT
cp -r /repo "$TMP/repo"; rm -rf "$TMP/repo/.git"; mkdir -p "$TMP/verif"; cp "$HERE/known_findings.json" "$TMP/verif/"
cd "$TMP/repo"; patch -p1 -s < "$PATCH" || { echo "patch does not apply"; exit 2; }
go build ./cmd/... ./internal/... ./config/... 2>"$TMP/b.out" || { echo "does not build"; head -3 "$TMP/b.out"; exit 2; }
fired=""
for id in $IDS; do
  "${AUTHCHECK:-$HERE/bin/authcheck}" "$id" -repo "$TMP/repo" -verif "$TMP/verif" > "$TMP/$id.out" 2>&1
  if grep -q '^VIOLATION' "$TMP/$id.out"; then fired="$fired $id"; grep 'violated' "$TMP/$id.out" | head -2 | cut -c1-260 | sed "s/^/   [$id]/"; fi
done
echo "FIRED:${fired:- none}"
