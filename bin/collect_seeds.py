#!/usr/bin/env python3
"""Copies verified, independently produced seeded changes from a source directory (one sub-directory per
property with patchN.diff, demoN_test.go, metaN.json) to /verif/seeded/<id>-<n>/ and records what was run
and what the checks reported (bin/seedcheck.sh).  Development aid; not part of any registered check."""
import json, os, shutil, subprocess, sys, glob

VERIF = os.path.dirname(os.path.dirname(os.path.abspath(__file__)))
src = sys.argv[1] if len(sys.argv) > 1 else "/tmp/seed"
offset = int(sys.argv[2]) if len(sys.argv) > 2 else 0   # round 2: seeds are stored as <id>-<n+offset>
rows = []
for d in sorted(glob.glob(os.path.join(src, "C*"))):
    pid = os.path.basename(d)
    for n in (1, 2, 3):
        if not os.path.exists(os.path.join(d, "meta%d.json" % n)):
            continue
        out = subprocess.run([os.path.join(VERIF, "bin", "seedcheck.sh"), d, str(n), pid], capture_output=True, text=True).stdout
        flags = {k: (": yes" in l) for l in out.splitlines() for k in ("demo passes on unchanged tree", "builds", "demo fails with change", "existing tests pass") if l.startswith(k)}
        fires = ("check %s: FIRES" % pid) in out
        reports = [l.strip()[9:] for l in out.splitlines() if l.strip().startswith("violated ")]
        ok = all(flags.get(k) for k in ("demo passes on unchanged tree", "builds", "demo fails with change", "existing tests pass"))
        dst = os.path.join(VERIF, "seeded", "%s-%d" % (pid, n + offset))
        first = None
        fr = os.path.join(d, "chk%d.out" % n)   # output of the first run of the check on this seed, before any strengthening
        if os.path.exists(fr):
            first = ("check %s: FIRES" % pid) in open(fr).read()
        if ok:
            os.makedirs(dst, exist_ok=True)
            shutil.copy(os.path.join(d, "patch%d.diff" % n), os.path.join(dst, "patch.diff"))
            shutil.copy(os.path.join(d, "demo%d_test.go" % n), os.path.join(dst, "demo_test.go"))
            meta = json.load(open(os.path.join(d, "meta%d.json" % n)))
            meta["origin"] = "independent sub-agent given only the property text and a scratch worktree of /repo (nothing from /verif)"
            meta["confirmed_by"] = {"command": "bin/seedcheck.sh <dir> %d %s (scratch copy of /repo: demo on unchanged tree, apply patch, build, demo, existing tests, then the check)" % (n, pid), **{k.replace(" ", "_"): v for k, v in flags.items()}}
            meta["check_result"] = {"property_check_fires": fires, "reports": reports[:4]}
            if first is not None:
                meta["check_result"]["fired_on_first_run_before_strengthening"] = first
            json.dump(meta, open(os.path.join(dst, "meta.json"), "w"), indent=1)
        rows.append((pid, n + offset, ok, fires, reports[0][:120] if reports else "", first))
        print("%s-%d confirmed=%s fires=%s first_run=%s %s" % (pid, n + offset, ok, fires, first, reports[0][:100] if reports else ""))
sp = os.path.join(VERIF, "seeded", "SUMMARY.json")
old = json.load(open(sp)) if os.path.exists(sp) and offset else []
new = [{"seed": "%s-%d" % (r[0], r[1]), "confirmed": r[2], "caught_by_own_check": r[3], "first_report": r[4], **({"fired_on_first_run": r[5]} if r[5] is not None else {})} for r in rows]
names = {x["seed"] for x in new}
json.dump(sorted([x for x in old if x["seed"] not in names] + new, key=lambda x: x["seed"]), open(sp, "w"), indent=1)
