#!/bin/bash
# bin/seedcheck.sh <seed-dir> <n> [property ids...]
# Verifies an independently produced seeded change (patchN.diff + demoN_test.go + metaN.json in <seed-dir>)
# in a scratch copy of /repo: applies, builds, runs the existing tests and the demonstration (must fail),
# reverts and runs the demonstration again (must pass); then runs the listed checks (default: the
# property named in metaN.json) against the patched copy. Nothing under /repo or /verif/evidence is touched.
HERE="$(cd "$(dirname "$0")/.." && pwd)"
. "$HERE/bin/env.sh"
SD="$1"; N="$2"; shift 2
PID=$(python3 -c "import json,sys;print(json.load(open('$SD/meta$N.json'))['property'])")
IDS="${*:-$PID}"
TMP=$(mktemp -d /tmp/seedchk-XXXX); trap 'rm -rf "$TMP"' EXIT
cp -r /repo "$TMP/repo"; rm -rf "$TMP/repo/.git"; mkdir -p "$TMP/verif"; cp "$HERE/known_findings.json" "$TMP/verif/"
cd "$TMP/repo"
PLACE=$(head -3 "$SD/demo${N}_test.go" | grep -o 'place in: *[^ ]*' | sed 's/place in: *//' | head -1)
[ -z "$PLACE" ] && { echo "no 'place in:' line in demo"; exit 2; }
cp "$SD/demo${N}_test.go" "$PLACE/zz_seed_demo_test.go"
DEMO_PKG="./$PLACE/"
TESTS=$(grep -o '^func Test[A-Za-z0-9_]*' "$SD/demo${N}_test.go" | sed 's/func //' | paste -sd'|')
RACE=""; grep -q '"flags".*-race\|-race' "$SD/meta$N.json" && RACE="-race"
run_demo() { go test $RACE -count=1 -vet=off -run "^($TESTS)\$" "$DEMO_PKG" 2>&1 | tail -40 > "$TMP/demo.out"; grep -q '^ok' "$TMP/demo.out"; }
if run_demo; then echo "demo passes on unchanged tree: yes"; else echo "demo passes on unchanged tree: NO"; tail -5 "$TMP/demo.out"; fi
patch -p1 -s < "$SD/patch$N.diff" || { echo "patch does not apply"; exit 2; }
go build ./cmd/... ./internal/... ./config/... 2> "$TMP/build.out" && echo "builds: yes" || { echo "builds: NO"; head -5 "$TMP/build.out"; }
if run_demo; then echo "demo fails with change: NO (passes)"; else echo "demo fails with change: yes"; fi
rm -f "$PLACE/zz_seed_demo_test.go"
go test -count=1 -vet=off ./internal/... 2>&1 | grep -E '^(--- FAIL|FAIL|ok)' | grep -v 'TestManagerStarts\|TestManagerNotInitializedIfNothingToWatch' > "$TMP/tests.out"
if grep -q -- '--- FAIL' "$TMP/tests.out"; then echo "existing tests pass: NO"; grep -- '--- FAIL' "$TMP/tests.out" | head -5; else echo "existing tests pass: yes"; fi
for id in $IDS; do
  "${AUTHCHECK:-$HERE/bin/authcheck}" "$id" -repo "$TMP/repo" -verif "$TMP/verif" > "$TMP/chk.out" 2>&1
  if grep -q '^VIOLATION' "$TMP/chk.out"; then echo "check $id: FIRES"; grep 'violated' "$TMP/chk.out" | head -3 | cut -c1-300; else echo "check $id: silent"; fi
done
