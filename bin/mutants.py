#!/usr/bin/env python3
"""Development/self-test aid: apply single-site edits ("mutants") to a scratch copy of /repo and
run the property's check against the copy.  Nothing is written under /repo or /verif/evidence.

  bin/mutants.py [--tests] [--jobs N] [ID ...]

Mutants live in /verif/mutants/<ID>.json:
  [{"name": "...", "file": "internal/authz/oidc.go", "old": "...", "new": "...", "expect": "C01.R3" | null,
    "breaks": true|false, "note": "..."}]
`breaks: false` marks a behaviour-preserving edit (refactor): the check must stay silent on it.
`expect`: substring that must occur in one of the reported violation keys.
A mutant whose `old` text no longer exists in /repo is reported as SKIPPED (never as a failure).
"""
import json, os, shutil, subprocess, sys, tempfile, glob
from concurrent.futures import ThreadPoolExecutor

VERIF = os.path.dirname(os.path.dirname(os.path.abspath(__file__)))
REPO = "/repo"
GOTC = "/root/go/pkg/mod/golang.org/toolchain@v0.0.1-go1.24.2.linux-amd64"
ENV = dict(os.environ, PATH=GOTC + "/bin:" + os.environ["PATH"], GOTOOLCHAIN="local", GOFLAGS="-mod=mod",
           GOPROXY="off", GOWORK="off")
ENV.pop("GOSUMDB", None)


def run_one(pid, m, tests):
    tmp = tempfile.mkdtemp(prefix="mut-%s-" % pid, dir="/tmp")
    repo = os.path.join(tmp, "repo")
    vdir = os.path.join(tmp, "verif")
    try:
        shutil.copytree(REPO, repo, ignore=shutil.ignore_patterns(".git"))
        os.makedirs(vdir)
        shutil.copy(os.path.join(VERIF, "known_findings.json"), vdir)
        if m.get("patch"):
            pr = subprocess.run(["patch", "-p1", "-s", "-i", m["patch"]], cwd=repo, capture_output=True, text=True)
            if pr.returncode != 0:
                return (m["name"], "SKIPPED", "patch does not apply: " + pr.stdout.strip()[:120])
        edits = [] if m.get("patch") else (m.get("edits") or [{"file": m["file"], "old": m["old"], "new": m["new"]}])
        for e in edits:
            path = os.path.join(repo, e["file"])
            src = open(path).read()
            if e["old"] not in src:
                return (m["name"], "SKIPPED", "anchor text not found in " + e["file"])
            src = src.replace(e["old"], e["new"], 1)
            open(path, "w").write(src)
        b = subprocess.run(["go", "build", "./cmd/...", "./internal/...", "./config/..."], cwd=repo, env=ENV,
                           capture_output=True, text=True)
        if b.returncode != 0:
            return (m["name"], "NOCOMPILE", b.stderr.strip()[:300])
        tres = ""
        if tests:
            t = subprocess.run(["go", "test", "-count=1", "-vet=off", "./internal/..."], cwd=repo, env=ENV,
                               capture_output=True, text=True)
            fails = [l for l in t.stdout.splitlines() if l.startswith("--- FAIL")]
            known = ("TestManagerStarts", "TestManagerNotInitializedIfNothingToWatch")
            fails = [f for f in fails if not any(k in f for k in known)]
            tres = " tests:" + ("PASS" if not fails else "FAIL(%s)" % ";".join(fails)[:200])
        r = subprocess.run([os.environ.get("AUTHCHECK") or os.path.join(VERIF, "bin", "authcheck"), pid, "-repo", repo, "-verif", vdir],
                           env=ENV, capture_output=True, text=True)
        fired = r.returncode != 0
        keys = [l.strip() for l in r.stdout.splitlines() if l.strip().startswith("violated ")]
        breaks = m.get("breaks", True)
        exp = m.get("expect")
        if breaks:
            if not fired:
                return (m["name"], "MISSED", "check stayed silent" + tres)
            if exp and not any(exp in k for k in keys):
                return (m["name"], "WRONGRULE", "expected %s, got: %s%s" % (exp, " | ".join(k[:160] for k in keys), tres))
            return (m["name"], "CAUGHT", (keys[0][:200] if keys else r.stdout[-200:]) + tres)
        else:
            if fired:
                return (m["name"], "FALSEALARM", " | ".join(k[:200] for k in keys) + tres)
            return (m["name"], "SILENT-OK", tres)
    finally:
        shutil.rmtree(tmp, ignore_errors=True)


def main():
    args = sys.argv[1:]
    tests = "--tests" in args
    norefs = "--no-refactors" in args   # the refactorings are also covered, one scratch copy per patch, by bin/refmatrix.sh
    args = [a for a in args if a not in ("--tests", "--no-refactors")]
    jobs = 4
    if "--jobs" in args:
        i = args.index("--jobs")
        jobs = int(args[i + 1])
        del args[i:i + 2]
    only = None
    if "--only" in args:
        i = args.index("--only")
        only = args[i + 1]
        del args[i:i + 2]
    json_out = None
    if "--json" in args:
        i = args.index("--json")
        json_out = args[i + 1]
        del args[i:i + 2]
    summary = {}
    ids = args or sorted(os.path.basename(p)[:-5] for p in glob.glob(os.path.join(VERIF, "mutants", "C*.json")))
    bad = 0
    for pid in ids:
        path = os.path.join(VERIF, "mutants", pid + ".json")
        if not os.path.exists(path):
            print(pid, "no mutants file")
            continue
        muts = json.load(open(path))
        # independently produced seeded changes kept under /verif/seeded/<id>-<n>/ are part of the self-test
        for sd in sorted(glob.glob(os.path.join(VERIF, "seeded", pid + "-*"))):
            pf = os.path.join(sd, "patch.diff")
            if os.path.exists(pf):
                muts.append({"name": "seeded/" + os.path.basename(sd), "patch": pf, "expect": pid + "."})
        # behaviour-preserving refactorings (independently produced): every check must stay silent on them
        for rf in ([] if norefs else sorted(glob.glob(os.path.join(VERIF, "refactors", "*.diff")))):
            muts.append({"name": "refactor/" + os.path.basename(rf)[:-5], "patch": rf, "breaks": False})
        if only:
            muts = [m for m in muts if only in m["name"]]
        with ThreadPoolExecutor(max_workers=jobs) as ex:
            results = list(ex.map(lambda m: run_one(pid, m, tests), muts))
        for name, status, detail in results:
            print("%-4s %-10s %-45s %s" % (pid, status, name, detail))
            if status in ("MISSED", "FALSEALARM", "WRONGRULE", "NOCOMPILE"):
                bad += 1
        summary[pid] = {"mutants": len(results),
                        "caught": sum(1 for r in results if r[1] == "CAUGHT"),
                        "silent_on_behaviour_preserving": sum(1 for r in results if r[1] == "SILENT-OK"),
                        "skipped": sum(1 for r in results if r[1] == "SKIPPED"),
                        "problems": [{"mutant": r[0], "status": r[1]} for r in results if r[1] in ("MISSED", "FALSEALARM", "WRONGRULE", "NOCOMPILE")],
                        "samples": [{"mutant": r[0], "status": r[1], "first_report": r[2][:200]} for r in results[:4]]}
    if json_out:
        json.dump(summary, open(json_out, "w"), indent=1)
    print("mutants: %d problem(s)" % bad)
    sys.exit(1 if bad else 0)


if __name__ == "__main__":
    main()
