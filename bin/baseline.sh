#!/bin/bash
# Runs the repository's pinned test suite (guard off: static analysis adds no hooks) and compares
# with /root/.vp/BASELINE.json's stable_pass list. Exit 0 iff every stable test passes.
. "$(dirname "$0")/env.sh"
OUT=$(mktemp)
(cd /repo && go test -mod=mod -json -vet=off -count=1 -timeout 25m ./... > "$OUT" 2>/dev/null)
python3 - "$OUT" <<'PY'
import json,sys
passed=set()
for l in open(sys.argv[1]):
    try: e=json.loads(l)
    except Exception: continue
    if e.get('Action')=='pass' and e.get('Test'):
        passed.add(e['Package']+'::'+e['Test'])
base=json.load(open('/root/.vp/BASELINE.json'))['stable_pass']
missing=[t for t in base if t not in passed]
print(f"baseline stable={len(base)} passed_now={len(passed)} missing={len(missing)}")
for t in missing[:50]: print("MISSING",t)
sys.exit(1 if missing else 0)
PY
rc=$?
rm -f "$OUT"
exit $rc
