#!/usr/bin/env python3
"""bin/seedtable.py <n> [<n>...] — prints the DESIGN.md table rows for the seeded changes /verif/seeded/<id>-<n>
(summary, what it needs, whether the property's own check reported it on the first run and now). Development aid."""
import json, os, sys
VERIF = os.path.dirname(os.path.dirname(os.path.abspath(__file__)))
ns = [int(a) for a in sys.argv[1:]]
print("| seed | change (summary) | needs | own check, first run | own check now | first report |")
print("|---|---|---|---|---|---|")
first_yes = total = 0
for i in range(1, 21):
    pid = "C%02d" % i
    for n in ns:
        p = os.path.join(VERIF, "seeded", "%s-%d" % (pid, n), "meta.json")
        if not os.path.exists(p):
            continue
        m = json.load(open(p))
        cr = m.get("check_result", {})
        first = cr.get("fired_on_first_run_before_strengthening")
        now = cr.get("property_check_fires")
        rep = (cr.get("reports") or [""])[0]
        rep = rep.split(" at ")[0]
        total += 1
        first_yes += 1 if first else 0
        clean = lambda s, k: s.replace("|", "/").replace("\n", " ")[:k]
        print("| %s-%d | %s | %s | %s | %s | %s%s |" % (pid, n, clean(m["summary"], 150), clean(m["needs"], 110),
              "yes" if first else "no", "yes" if now else "NO", rep, "" if first else " (added or refiled after the miss)"))
print("\nfirst run: %d of %d" % (first_yes, total), file=sys.stderr)
