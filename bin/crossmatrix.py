#!/usr/bin/env python3
"""Development aid: run EVERY check against every mutant of the listed properties (scratch copies) and
print which checks fire.  Used to find rules that fire for a reason unrelated to their own property
(lost anchors) — a cross-property false-alarm source.

  bin/crossmatrix.py [--jobs N] [ID ...]        # mutants of these properties (default: all)
"""
import json, os, shutil, subprocess, sys, tempfile, glob
from concurrent.futures import ThreadPoolExecutor

VERIF = os.path.dirname(os.path.dirname(os.path.abspath(__file__)))
sys.path.insert(0, os.path.join(VERIF, "bin"))
import mutants as M  # noqa

ALL = ["C%02d" % i for i in range(1, 21)]


def run(pid, m):
    tmp = tempfile.mkdtemp(prefix="xm-", dir="/tmp")
    repo = os.path.join(tmp, "repo")
    vdir = os.path.join(tmp, "verif")
    try:
        shutil.copytree(M.REPO, repo, ignore=shutil.ignore_patterns(".git"))
        os.makedirs(vdir)
        shutil.copy(os.path.join(VERIF, "known_findings.json"), vdir)
        edits = m.get("edits") or [{"file": m["file"], "old": m["old"], "new": m["new"]}]
        for e in edits:
            path = os.path.join(repo, e["file"])
            src = open(path).read()
            if e["old"] not in src:
                return (pid, m["name"], None, {})
            open(path, "w").write(src.replace(e["old"], e["new"], 1))
        fired = {}
        for cid in ALL:
            r = subprocess.run([os.path.join(VERIF, "bin", "authcheck"), cid, "-repo", repo, "-verif", vdir], env=M.ENV,
                               capture_output=True, text=True)
            if r.returncode != 0:
                keys = [l.strip()[9:] for l in r.stdout.splitlines() if l.strip().startswith("violated ")]
                fired[cid] = keys[0][:110] if keys else "?"
        return (pid, m["name"], m.get("breaks", True), fired)
    finally:
        shutil.rmtree(tmp, ignore_errors=True)


def main():
    args = sys.argv[1:]
    jobs = 6
    if "--jobs" in args:
        i = args.index("--jobs")
        jobs = int(args[i + 1])
        del args[i:i + 2]
    ids = args or sorted(os.path.basename(p)[:-5] for p in glob.glob(os.path.join(VERIF, "mutants", "C*.json")))
    work = []
    for pid in ids:
        for m in json.load(open(os.path.join(VERIF, "mutants", pid + ".json"))):
            work.append((pid, m))
    with ThreadPoolExecutor(max_workers=jobs) as ex:
        res = list(ex.map(lambda w: run(*w), work))
    for pid, name, breaks, fired in res:
        others = {k: v for k, v in fired.items() if k != pid}
        tag = "" if breaks else " [behaviour-preserving]"
        print("%s %-44s own:%-5s others: %s%s" % (pid, name, "fires" if pid in fired else "-", " ".join(sorted(others)) or "-", tag))
        for k in sorted(others):
            if "anchor" in others[k] or "floor" in others[k]:
                print("      %s: %s" % (k, others[k]))


if __name__ == "__main__":
    main()
